//! C05: the backtrace is the real call stack.
//! Sessions on live debuggees: `C05 new <prog>`, movement (`break a`, `start`, `continue`, `stepi`), then at a stop
//! `C05 stop` (REWRITTEN by `exec` with what the model needs: raw registers of the stopped thread, object ranges from
//! /proc/<pid>/maps, the CFI rows — decoded by `llvm-dwarfdump --eh-frame --debug-frame`, not by the debugger — that
//! cover the stop pc and the return addresses of the reference call chain, and the stack words from /proc/<pid>/mem)
//! followed by observations `bt`, `frame k`, `finfo`, `regs k`, `retaddr`.
//! Oracle: the shadow call stack of the independent reference tracer (return addresses AND the stack pointer at each
//! call), the frame-pointer chain read through /proc/<pid>/mem (frame-pointer builds), the program's own arguments.
use super::c01::{crate_of, short, user_pcs};
use crate::live::*;
use crate::util::*;
use bugstalker::debugger::address::RelocatedAddress;
use bugstalker::debugger::StopReason;
use serde_json::json;
use std::collections::{BTreeMap, BTreeSet, HashMap};
use std::path::{Path, PathBuf};

pub const PROGS: &[&str] = &["p1-1.89", "p2-1.89", "c05_deep-1.89", "c05_fp-1.89"];
const ID: &str = "C05";

// ------------------------------------------------------------------------------------------------------------
// CFI rows through llvm-dwarfdump's text output (independent of gimli)

#[derive(Clone, Debug, PartialEq)]
pub enum CfaR { RegOff(u16, i64), Expr }
#[derive(Clone, Debug, PartialEq)]
pub enum RuleR { Undefined, Same, Offset(i64), ValOffset(i64), Register(u16), Expr }
#[derive(Clone, Debug)]
pub struct RowR { pub lo: u64, pub hi: u64, pub eh: bool, pub ra: u16, pub cfa: CfaR, pub rules: Vec<(u16, RuleR)> }

fn reg_no(n: &str) -> Option<u16> {
    const N: [&str; 17] = ["RAX", "RDX", "RCX", "RBX", "RSI", "RDI", "RBP", "RSP", "R8", "R9", "R10", "R11", "R12", "R13", "R14", "R15", "RIP"];
    if let Some(i) = N.iter().position(|x| *x == n) { return Some(i as u16); }
    if let Some(x) = n.strip_prefix("XMM") { return x.parse::<u16>().ok().map(|v| v + 17); }
    if let Some(x) = n.strip_prefix("reg") { return x.parse().ok(); }
    None
}

fn reg_off(s: &str) -> Option<(u16, i64)> {
    // REG, REG+N, REG-N
    let cut = s.find(['+', '-']).unwrap_or(s.len());
    let r = reg_no(&s[..cut])?;
    let off = if cut == s.len() { 0 } else { s[cut..].parse::<i64>().ok()? };
    Some((r, off))
}

fn split_top(s: &str) -> Vec<String> {
    // split on ", " outside brackets
    let mut v = vec![]; let mut depth = 0; let mut cur = String::new();
    let cs: Vec<char> = s.chars().collect();
    let mut i = 0;
    while i < cs.len() {
        let c = cs[i];
        if c == '[' { depth += 1; } else if c == ']' { depth -= 1; }
        if c == ',' && depth == 0 && cs.get(i + 1) == Some(&' ') { v.push(std::mem::take(&mut cur)); i += 2; continue; }
        cur.push(c); i += 1;
    }
    if !cur.is_empty() { v.push(cur); }
    v
}

fn parse_rule(t: &str) -> Option<(u16, RuleR)> {
    let (r, v) = t.split_once('=')?;
    let r = reg_no(r.trim())?;
    let v = v.trim();
    let rule = if v == "undefined" { RuleR::Undefined }
        else if v == "same" { RuleR::Same }
        else if v.contains("DW_OP") { RuleR::Expr }
        else if let Some(inner) = v.strip_prefix('[').and_then(|x| x.strip_suffix(']')) {
            let off = inner.strip_prefix("CFA")?;
            RuleR::Offset(if off.is_empty() { 0 } else { off.parse().ok()? })
        } else if let Some(off) = v.strip_prefix("CFA") { RuleR::ValOffset(if off.is_empty() { 0 } else { off.parse().ok()? }) }
        else { RuleR::Register(reg_no(v)?) };
    Some((r, rule))
}

/// every unwind row of a file's .eh_frame and .debug_frame, in global (file) addresses; `Err` names what was not understood
pub fn cfi_rows(path: &Path) -> Result<Vec<RowR>, String> {
    let o = std::process::Command::new("llvm-dwarfdump-14").arg("--eh-frame").arg(path).output()   // alias of --debug-frame: dumps both sections
        .map_err(|e| format!("llvm-dwarfdump: {e}"))?;
    if !o.status.success() { return Err(format!("llvm-dwarfdump failed: {}", String::from_utf8_lossy(&o.stderr))); }
    let text = String::from_utf8_lossy(&o.stdout);
    let mut rows: Vec<RowR> = vec![];
    let mut eh = true;
    let mut cie_ra: HashMap<(bool, u64), u16> = HashMap::new();
    let mut cur_cie: Option<u64> = None;
    let mut fde: Option<(u64, u64, u16)> = None; // lo, hi, ra
    let mut fde_first = 0usize;
    let close = |rows: &mut Vec<RowR>, fde: &Option<(u64, u64, u16)>, first: usize| {
        if let Some((_, hi, _)) = fde {
            let n = rows.len();
            for i in first..n { rows[i].hi = if i + 1 < n { rows[i + 1].lo } else { *hi }; }
        }
    };
    for l in text.lines() {
        if l.starts_with(".eh_frame contents") { close(&mut rows, &fde, fde_first); fde = None; eh = true; continue; }
        if l.starts_with(".debug_frame contents") { close(&mut rows, &fde, fde_first); fde = None; eh = false; continue; }
        if !l.starts_with(' ') && l.contains(" CIE") {
            close(&mut rows, &fde, fde_first); fde = None;
            cur_cie = u64::from_str_radix(l.split(' ').next().unwrap_or(""), 16).ok();
            continue;
        }
        if !l.starts_with(' ') && l.contains(" FDE ") {
            close(&mut rows, &fde, fde_first);
            cur_cie = None;
            let cie = l.split("cie=").nth(1).and_then(|x| u64::from_str_radix(x.split(' ').next()?, 16).ok()).ok_or(format!("FDE header: {l}"))?;
            let pc = l.split("pc=").nth(1).ok_or(format!("FDE header: {l}"))?;
            let (a, b) = pc.split_once("...").ok_or(format!("FDE header: {l}"))?;
            let (a, b) = (u64::from_str_radix(a.trim(), 16).map_err(|_| l.to_string())?, u64::from_str_radix(b.trim(), 16).map_err(|_| l.to_string())?);
            let ra = *cie_ra.get(&(eh, cie)).ok_or(format!("FDE refers to unknown CIE: {l}"))?;
            fde = Some((a, b, ra)); fde_first = rows.len();
            continue;
        }
        let t = l.trim();
        if let (Some(c), Some(v)) = (cur_cie, t.strip_prefix("Return address column:")) {
            cie_ra.insert((eh, c), v.trim().parse().map_err(|_| l.to_string())?);
            continue;
        }
        if let (Some((_, _, ra)), true) = (fde, t.starts_with("0x")) {
            let (addr, rest) = t.split_once(": ").ok_or(format!("row: {l}"))?;
            let addr = u64::from_str_radix(&addr[2..], 16).map_err(|_| l.to_string())?;
            let rest = rest.strip_prefix("CFA=").ok_or(format!("row: {l}"))?;
            let (cfa_s, rules_s) = match rest.rfind(": ") { Some(i) => (&rest[..i], &rest[i + 2..]), None => (rest, "") };
            let cfa = if cfa_s.contains("DW_OP") { CfaR::Expr } else { let (r, o) = reg_off(cfa_s).ok_or(format!("cfa: {l}"))?; CfaR::RegOff(r, o) };
            let mut rules = vec![];
            for r in split_top(rules_s) { rules.push(parse_rule(&r).ok_or(format!("rule `{r}`: {l}"))?); }
            rows.push(RowR { lo: addr, hi: 0, eh, ra, cfa, rules });
        }
    }
    close(&mut rows, &fde, fde_first);
    Ok(rows)
}

fn enc_row(r: &RowR, bias: u64) -> String {
    let cfa = match &r.cfa { CfaR::RegOff(r, o) => format!("{r}/{o}"), CfaR::Expr => "x".into() };
    let rules = if r.rules.is_empty() { ".".to_string() } else {
        r.rules.iter().map(|(n, k)| format!("{n}={}", match k {
            RuleR::Undefined => "u".to_string(), RuleR::Same => "s".into(), RuleR::Offset(o) => format!("o{o}"),
            RuleR::ValOffset(o) => format!("v{o}"), RuleR::Register(x) => format!("r{x}"), RuleR::Expr => "x".into() })).collect::<Vec<_>>().join(";")
    };
    format!("{:x}:{:x}:{}:{}:{}:{}", r.lo + bias, r.hi + bias, if r.eh { "e" } else { "d" }, r.ra, cfa, rules)
}

// ------------------------------------------------------------------------------------------------------------
// the reference call chain with the stack pointer of every call (re-read from the trace file: `Prog` keeps only the addresses)

pub struct Chains { pub at: Vec<std::rc::Rc<Vec<(u64, u64)>>> }   // per trace step: (absolute return address, rsp after the call), outermost first
pub fn load_chains(p: &Prog) -> Chains {
    let tr = std::fs::read_to_string(format!("{}.trace", p.path.display())).unwrap_or_default();
    let mut shadow: Vec<(u64, u64)> = vec![];
    let mut cur = std::rc::Rc::new(shadow.clone());
    let mut at = vec![];
    for l in tr.lines() {
        if l.starts_with('#') { continue; }
        if let Some(r) = l.strip_prefix("+ ") {
            let mut it = r.split(' ');
            let a = u64::from_str_radix(it.next().unwrap(), 16).unwrap();
            let s = u64::from_str_radix(it.next().unwrap_or("0"), 16).unwrap();
            shadow.push((a, s)); cur = std::rc::Rc::new(shadow.clone());
        } else if let Some(r) = l.strip_prefix("- ") {
            let n: usize = r.parse().unwrap();
            shadow.truncate(shadow.len().saturating_sub(n)); cur = std::rc::Rc::new(shadow.clone());
        } else { at.push(cur.clone()); }
    }
    Chains { at }
}

// ------------------------------------------------------------------------------------------------------------

pub fn gen_requests(rng: &mut Rng, n: u64, out: &mut Out) -> Vec<String> {
    let mut req = vec![];
    for si in 0..n {
        let name = PROGS[(si % PROGS.len() as u64) as usize];
        let p = Prog::load(name);
        let cands = user_pcs(&p);
        req.push(format!("{ID} new {name}"));
        out.count(&format!("prog.{name}"), 1);
        let a = *rng.pick(&cands);
        req.push(format!("{ID} break {a:x}"));
        req.push(format!("{ID} start"));
        // arrivals of `a` in the reference run bound the number of continues
        let arrivals = p.trace.iter().filter(|s| s.pc == a).count() as u64;
        let k = match rng.below(4) { 0 => 0, 1 => rng.below(4), 2 => rng.below(40), _ => rng.below(arrivals.max(1)) }.min(arrivals.saturating_sub(1)).min(320);
        for _ in 0..k { req.push(format!("{ID} continue")); }
        out.count(&format!("continues.{}", match k { 0 => "0", 1..=3 => "1-3", 4..=39 => "4-39", _ => "40+" }), 1);
        let mut observe = |rng: &mut Rng, req: &mut Vec<String>, out: &mut Out| {
            req.push(format!("{ID} stop"));
            req.push(format!("{ID} bt"));
            req.push(format!("{ID} retaddr"));
            for _ in 0..rng.range(1, 4) {
                let k = match rng.below(6) { 0 => 0, 1 | 2 => 1, 3 => 2, 4 => rng.below(8), _ => rng.below(330) };
                req.push(format!("{ID} frame {k}"));
                req.push(format!("{ID} finfo"));
                req.push(format!("{ID} regs {k}"));
                out.count(&format!("frame.{}", match k { 0 => "0", 1 => "1", 2 => "2", 3..=7 => "3-7", _ => "8+" }), 1);
            }
        };
        observe(rng, &mut req, out);
        for _ in 0..rng.below(3) {
            for _ in 0..rng.range(1, 6) { req.push(format!("{ID} stepi")); out.count("op.stepi", 1); }
            observe(rng, &mut req, out);
        }
    }
    req
}

fn raw_regs(pid: i32) -> Option<libc::user_regs_struct> {
    let mut regs: libc::user_regs_struct = unsafe { std::mem::zeroed() };
    let r = unsafe { libc::ptrace(libc::PTRACE_GETREGS, pid, 0usize, &mut regs as *mut _ as usize) };
    if r == 0 { Some(regs) } else { None }
}

/// x86-64 psABI DWARF numbering of the general registers (constant of this file, not taken from the debugger)
fn dwarf_regs(r: &libc::user_regs_struct) -> Vec<(u16, u64)> {
    vec![(0, r.rax), (1, r.rdx), (2, r.rcx), (3, r.rbx), (4, r.rsi), (5, r.rdi), (6, r.rbp), (7, r.rsp), (8, r.r8), (9, r.r9), (10, r.r10),
         (11, r.r11), (12, r.r12), (13, r.r13), (14, r.r14), (15, r.r15), (16, r.rip), (49, r.eflags), (50, r.es), (51, r.cs), (52, r.ss),
         (53, r.ds), (54, r.fs), (55, r.gs), (58, r.fs_base), (59, r.gs_base)]
}

/// registered objects as the debugger's registry describes them: per mapped file, [lowest start, end of the highest mapping]
fn objects(pid: i32) -> Vec<(String, u64, u64)> {
    let mut m: BTreeMap<String, (u64, u64, u64)> = BTreeMap::new(); // path -> (lo, start of highest, its end)
    for (a, b, _, path) in proc_maps(pid) {
        if !path.starts_with('/') { continue; }
        let e = m.entry(path).or_insert((a, a, b));
        if a < e.0 { e.0 = a; }
        if a >= e.1 { e.1 = a; e.2 = b; }
    }
    m.into_iter().map(|(p, (lo, _, hi))| (p, lo, hi)).collect()
}

/// everything the oracle knows about the stop
struct Stop {
    pc: u64,
    /// truth, innermost first: (ip of frame k, CFA of frame k) — CFA known for every frame that was entered by a recorded call
    frames: Vec<(u64, Option<u64>)>,
    /// rows at the frame ips (absolute), for the frame-pointer oracle
    rows_at: Vec<Option<RowR>>,
    rbp: u64,
    user_fn: Vec<bool>,
}

pub struct Tables { pub rows: HashMap<String, Vec<RowR>>, pub errs: Vec<String> }

pub fn session(lines: &[String], tabs: &Tables, emit: &mut dyn FnMut(String)) {
    let t: Vec<&str> = lines[0].split(' ').collect();
    if t.len() < 3 || !PROGS.contains(&t[2]) { emit(format!("{}\tbad-op", lines[0])); return; }
    let p = Prog::load(t[2]);
    let chains = load_chains(&p);
    let mut live = match Live::launch(&p) { Ok(l) => l, Err(e) => { emit(format!("{}\tlaunch-failed {e}", lines[0])); return; } };
    emit(format!("{ID} new {}\tok", t[2]));
    let base = p.base;
    let exe_path = std::fs::canonicalize(&p.path).unwrap().to_string_lossy().to_string();
    let user_fns: Vec<(u64, u64)> = { let c = crate_of(&p.name); let pats = [format!("N{}{}", c.len(), c), format!("{c}..")];
        p.symbols.iter().filter(|(_, _, n)| pats.iter().any(|q| n.contains(q.as_str()))).map(|(a, s, _)| (*a, *s)).collect() };
    let mut pos: Option<usize> = None;
    let mut shift: Option<i128> = None;
    let mut bset: Vec<u64> = vec![];
    let mut started = false;
    let mut exited = false;
    let mut stop: Option<Stop> = None;
    let mut sel: u32 = 0;
    for line in &lines[1..] {
        let t: Vec<&str> = line.split(' ').collect();
        let mut fails: Vec<(String, String)> = vec![];
        let (req, ans): (String, String) = match t.as_slice() {
            [_, "break", a, ..] => {
                stop = None;
                match u64::from_str_radix(a, 16) {
                    Ok(a) => {
                        let r = live.dbg.set_breakpoint_at_addr(RelocatedAddress::from((base + a) as usize)).map(|_| ());
                        if r.is_ok() && !bset.contains(&a) { bset.push(a); }
                        (format!("{ID} break {a:x}"), "ok".into())
                    }
                    Err(_) => (line.clone(), "bad-op".into()),
                }
            }
            [_, c @ ("start" | "continue"), ..] => {
                stop = None; sel = 0;
                if exited || (started && *c == "start") || (!started && *c == "continue") { pos = None; }
                else {
                    let r = if *c == "start" { live.dbg.start_debugee_with_reason() } else { live.dbg.continue_debugee_with_reason() };
                    match &r {
                        Ok(StopReason::Breakpoint(_, pc)) => {
                            let g = u64::from(*pc).wrapping_sub(base);
                            let from = if started { pos.map(|x| x + 1) } else { Some(0) };
                            started = true;
                            pos = from.and_then(|f| (f..p.trace.len()).find(|j| bset.contains(&p.trace[*j].pc)));
                            if let (Some(j), Some(regs)) = (pos, raw_regs(live.pid())) {
                                let s = regs.rsp as i128 - p.trace[j].rsp as i128;
                                if shift.is_none() { shift = Some(s); }
                                if p.trace[j].pc != g || shift != Some(s) { pos = None; }
                            } else { pos = None; }
                        }
                        Ok(StopReason::DebugeeExit(_)) => { started = true; exited = true; pos = None; }
                        _ => { started = true; pos = None; }
                    }
                }
                (format!("{ID} {c}"), "ok".into())
            }
            [_, "stepi", ..] => {
                stop = None; sel = 0;
                if exited || !started { pos = None; } else {
                    let r = live.dbg.stepi();
                    let gone = std::fs::read_to_string(format!("/proc/{}/stat", live.pid())).map(|s| s.contains(") Z ")).unwrap_or(true);
                    if gone { exited = true; pos = None; }
                    else if let (Some(old), Ok(()), Some(sh), Some(regs)) = (pos, &r, shift, raw_regs(live.pid())) {
                        let g = regs.rip.wrapping_sub(base);
                        pos = if old + 1 < p.trace.len() && p.trace[old + 1].gap == 0 && p.trace[old + 1].pc == g && p.trace[old + 1].rsp as i128 + sh == regs.rsp as i128 { Some(old + 1) } else { None };
                    } else { pos = None; }
                }
                (format!("{ID} stepi"), "ok".into())
            }
            [_, "stop", ..] => {
                // describe the stop for the model, from sources that do not involve the debugger's unwinder
                let mut desc: Option<String> = None;
                stop = None;
                if let (Some(j), Some(sh), Some(regs), false) = (pos, shift, raw_regs(live.pid()), exited) {
                    let chain = &chains.at[j];
                    let objs = objects(live.pid());
                    let mut frames: Vec<(u64, Option<u64>)> = vec![(regs.rip, chain.last().map(|c| (c.1 as i128 + sh + 8) as u64))];
                    for (i, c) in chain.iter().enumerate().rev() {
                        frames.push((c.0, if i > 0 { Some((chain[i - 1].1 as i128 + sh + 8) as u64) } else { None }));
                    }
                    // the CFI row of every frame ip
                    let mut rows_at: Vec<Option<RowR>> = vec![];
                    let mut ship: Vec<String> = vec![];
                    let mut seen: BTreeSet<(u64, u64, bool)> = BTreeSet::new();
                    let mut has_expr = false; let mut unknown_tab = false;
                    for (ip, _) in &frames {
                        let mut found = None;
                        if let Some((path, lo, _)) = objs.iter().find(|(_, lo, hi)| ip >= lo && ip <= hi) {
                            match tabs.rows.get(path) {
                                Some(rows) => {
                                    let g = ip - lo;
                                    for r in rows.iter().filter(|r| r.lo <= g && g < r.hi) {
                                        let abs = RowR { lo: r.lo + lo, hi: r.hi + lo, ..r.clone() };
                                        if seen.insert((abs.lo, abs.hi, abs.eh)) { ship.push(enc_row(r, *lo)); }
                                        if r.cfa == CfaR::Expr || r.rules.iter().any(|x| x.1 == RuleR::Expr) { has_expr = true; }
                                        if found.is_none() || (r.eh && !found.as_ref().map(|f: &RowR| f.eh).unwrap_or(false)) { found = Some(abs); }
                                    }
                                }
                                None => unknown_tab = true,
                            }
                        }
                        rows_at.push(found);
                    }
                    let top = frames.iter().filter_map(|f| f.1).max().unwrap_or(regs.rsp) + 512;
                    let stack_end = proc_maps(live.pid()).iter().find(|m| regs.rsp >= m.0 && regs.rsp < m.1).map(|m| m.1).unwrap_or(regs.rsp);
                    let lo = regs.rsp & !7;
                    let hi = top.min(stack_end) & !7;
                    let words: Option<Vec<u64>> = proc_mem(live.pid(), lo, (hi - lo) as usize).map(|b| b.chunks(8).map(|c| u64::from_le_bytes(c.try_into().unwrap())).collect());
                    if has_expr { emit("!count stop.skipped-expression-rule".into()); }
                    else if unknown_tab { emit("!count stop.skipped-no-cfi-table".into()); }
                    else if let Some(words) = words {
                        let _ = &exe_path;
                        desc = Some(format!("{:x} {} {} {} {:x} {}", regs.rip,
                            enc_list(&dwarf_regs(&regs), |(n, v)| format!("{n}:{v:x}")),
                            enc_list(&objs, |(_, lo, hi)| format!("{lo:x}:{hi:x}")),
                            enc_list(&ship, |s| s.clone()), lo, enc_list(&words, |w| format!("{w:x}"))));
                        let user_fn = frames.iter().map(|(ip, _)| ip.checked_sub(base).is_some_and(|g| user_fns.iter().any(|(a, s)| g >= *a && g < a + s))).collect();
                        emit(format!("!count stop.depth.{}", match frames.len() { 0..=9 => "1-9", 10..=19 => "10-19", 20..=99 => "20-99", 100..=299 => "100-299", _ => "300+" }));
                        stop = Some(Stop { pc: regs.rip, frames, rows_at, rbp: regs.rbp, user_fn });
                    }
                } else { emit("!count stop.position-unknown".into()); }
                match desc { Some(d) => (format!("{ID} stop {d}"), "ok".into()), None => (format!("{ID} stop none"), "ok".into()) }
            }
            [_, "bt"] => {
                match &stop { None => (line.clone(), "no-stop-env".into()), Some(st) => {
                    let r = live.dbg.backtrace(live.dbg.ecx().pid_on_focus());
                    let ans = match &r {
                        Ok(bt) => format!("bt {}", enc_list(bt, |f| format!("{:x}", u64::from(f.ip)))),
                        Err(_) => "err".into(),
                    };
                    // ---- oracle: the backtrace is the reference call chain
                    let want: Vec<u64> = st.frames.iter().map(|f| f.0).take(512).collect();
                    emit("!eval".into());
                    match &r {
                        Err(e) => fails.push(("backtrace-fails".into(), format!("backtrace() = Err({e}) at pc {:x}, {} real frames", st.pc - base, want.len()))),
                        Ok(bt) => {
                            let got: Vec<u64> = bt.iter().map(|f| u64::from(f.ip)).collect();
                            if got != want {
                                let common = got.iter().zip(&want).take_while(|(a, b)| a == b).count();
                                let key = if common == got.len() && common < want.len() {
                                    if want[..common].contains(&want[common]) { "backtrace-cut-at-repeated-return-address" } else { "backtrace-truncated" }
                                } else if common == want.len() { "backtrace-has-extra-frames" } else { "backtrace-wrong-frame" };
                                fails.push((key.into(), format!("stop at {:x}: backtrace has {} frames, the call chain has {}; first {} agree; next reported {:?}, next real {:?}",
                                    st.pc - base, got.len(), want.len(), common, got.get(common).map(|a| format!("{a:x}")), want.get(common).map(|a| format!("{a:x}")))));
                            }
                        }
                    }
                    (line.clone(), ans)
                } }
            }
            [_, "retaddr"] => {
                match &stop { None => (line.clone(), "no-stop-env".into()), Some(st) => {
                    let r = live.dbg.verif_return_addr();
                    let ans = match &r { Ok(Some(a)) => format!("ra {a:x}"), Ok(None) => "ra none".into(), Err(_) => "err".into() };
                    emit("!eval".into());
                    let want = st.frames.get(1).map(|f| f.0);
                    if r.as_ref().ok().and_then(|x| x.map(|a| a as u64)) != want && st.rows_at[0].is_some() {
                        fails.push(("return-address-of-current-frame-wrong".into(), format!("stop at {:x}: return address {ans}, real {:?}", st.pc - base, want.map(|a| format!("{a:x}")))));
                    }
                    (line.clone(), ans)
                } }
            }
            [_, "frame", k] => {
                match (&stop, k.parse::<u32>()) {
                    (_, Err(_)) => (line.clone(), "bad-op".into()),
                    (None, _) => (line.clone(), "no-stop-env".into()),
                    (Some(st), Ok(k)) => {
                        let r = live.dbg.set_frame_into_focus(k);
                        let ans = match &r { Ok(_) => { sel = k; format!("ok {:x}", u64::from(live.dbg.ecx().location().pc)) } Err(_) => "err".into() };
                        emit("!eval".into());
                        match (&r, st.frames.get(k as usize)) {
                            (Ok(_), Some(f)) if u64::from(live.dbg.ecx().location().pc) != f.0 =>
                                fails.push(("frame-select-wrong-ip".into(), format!("frame {k} selected ip {ans}, real {:x}", f.0))),
                            (Err(_), Some(_)) if (k as usize) < 512 => {
                                let cut = (1..=k as usize).any(|i| st.frames[..i].iter().any(|g| g.0 == st.frames[i].0));
                                fails.push(((if cut { "frame-select-refused-after-backtrace-cut-at-repeated-return-address" } else { "frame-select-refuses-an-existing-frame" }).into(),
                                    format!("stop at {:x}: frame {k} of {} real frames cannot be selected", st.pc - base, st.frames.len())));
                            }
                            (Ok(_), None) => fails.push(("frame-select-accepts-a-frame-that-does-not-exist".into(), format!("frame {k} of {} real frames", st.frames.len()))),
                            _ => {}
                        }
                        (line.clone(), ans)
                    }
                }
            }
            [_, "finfo", ..] => {
                match &stop { None => (format!("{ID} finfo"), "no-stop-env".into()), Some(st) => {
                    let r = live.dbg.frame_info();
                    emit("!eval".into());
                    let k = sel as usize;
                    match &r {
                        Ok(fi) => {
                            let ans = format!("fi {} {:x} {}", fi.num, u64::from(fi.cfa), fi.return_addr.map(|a| format!("{:x}", u64::from(a))).unwrap_or("none".into()));
                            if let Some(f) = st.frames.get(k) {
                                if fi.num as usize != k { fails.push(("frame-info-number-is-not-the-selected-frame".into(), format!("frame {k} selected, frame_info().num = {}", fi.num))); }
                                if let Some(cfa) = f.1 && u64::from(fi.cfa) != cfa {
                                    let key = if k > 0 { "frame-info-cfa-of-outer-frame-computed-from-innermost-registers" } else { "frame-info-cfa-wrong" };
                                    fails.push((key.into(), format!("stop at {:x}, frame {k}: cfa {:x}, real {cfa:x} (stack pointer before the call that created the frame)", st.pc - base, u64::from(fi.cfa))));
                                }
                                let want = st.frames.get(k + 1).map(|f| f.0);
                                if fi.return_addr.map(u64::from) != want && fi.num as usize == k {
                                    let cut = want.is_some_and(|w| st.frames[..=k].iter().any(|g| g.0 == w));
                                    fails.push(((if cut { "frame-info-return-address-missing-after-backtrace-cut" } else { "frame-info-return-address-wrong" }).into(),
                                        format!("stop at {:x}, frame {k}: return address {:?}, real {:?}", st.pc - base, fi.return_addr.map(|a| format!("{:x}", u64::from(a))), want.map(|a| format!("{a:x}")))));
                                }
                            }
                            (format!("{ID} finfo"), ans)
                        }
                        Err(e) => {
                            if st.user_fn.get(k) == Some(&true) { fails.push(("frame-info-fails-in-a-user-function".into(), format!("stop at {:x}, frame {k}: {e}", st.pc - base))); }
                            (format!("{ID} finfo env-err"), "err".into())
                        }
                    }
                } }
            }
            [_, "regs", k] => {
                match (&stop, k.parse::<u32>()) {
                    (_, Err(_)) => (line.clone(), "bad-op".into()),
                    (None, _) => (line.clone(), "no-stop-env".into()),
                    (Some(st), Ok(k)) => {
                        let r = live.dbg.verif_restore_registers_at_frame(k);
                        emit("!eval".into());
                        let ans = match &r {
                            Ok(v) => format!("regs {}", enc_list(&(0u16..17).collect::<Vec<_>>(), |n| format!("{n}:{}", v.iter().find(|x| x.0 == *n).map(|x| format!("{:x}", x.1)).unwrap_or("none".into())))),
                            Err(_) => "err".into(),
                        };
                        let k = k as usize;
                        if let (Ok(v), true) = (&r, k >= 1 && k < st.frames.len()) {
                            let get = |n: u16| v.iter().find(|x| x.0 == n).map(|x| x.1);
                            // the stack pointer of activation k right after the return into it = CFA of frame k-1
                            if let Some(cfa) = st.frames[k - 1].1 && get(7) != Some(cfa) {
                                fails.push(("frame-select-stack-pointer-wrong".into(), format!("stop at {:x}, frame {k}: rsp {:?}, real {cfa:x}", st.pc - base, get(7).map(|a| format!("{a:x}")))));
                            }
                            // the return-address column carried into frame k is the instruction pointer of frame k (shadow stack)
                            if get(16) != Some(st.frames[k].0) {
                                let key = if k + 1 < st.frames.len() && get(16) == Some(st.frames[k + 1].0) { "frame-select-callee-saved-registers-are-those-of-the-caller-frame" } else { "frame-select-instruction-pointer-wrong" };
                                fails.push((key.into(), format!("stop at {:x}, frame {k}: rip {:?}, the frame's ip is {:x}", st.pc - base, get(16).map(|a| format!("{a:x}")), st.frames[k].0)));
                            }
                            // frame-pointer chain (only while every frame below k has its frame pointer established: CFA = RBP+16)
                            let fp_ok = (0..k).all(|i| st.rows_at[i].as_ref().is_some_and(|r| r.cfa == CfaR::RegOff(6, 16)));
                            if fp_ok {
                                let mut rbp = st.rbp; let mut chain_ok = true;
                                for _ in 0..k {
                                    match proc_mem(live.pid(), rbp, 8) {
                                        Some(b) => rbp = u64::from_le_bytes(b.try_into().unwrap()),
                                        None => { chain_ok = false; break; }
                                    }
                                }
                                if chain_ok && k >= 1 {
                                    // rbp now = frame pointer of activation k; [rbp] = frame pointer of activation k+1
                                    let above = proc_mem(live.pid(), rbp, 8).map(|b| u64::from_le_bytes(b.try_into().unwrap()));
                                    if get(6) != Some(rbp) {
                                        let key = if get(6) == above && st.rows_at.get(k).and_then(|r| r.as_ref()).is_some_and(|r| r.cfa == CfaR::RegOff(6, 16)) { "frame-select-callee-saved-registers-are-those-of-the-caller-frame" } else { "frame-select-frame-pointer-wrong" };
                                        fails.push((key.into(), format!("stop at {:x}, frame {k}: rbp {:?}, frame pointer of activation {k} is {rbp:x} (of activation {}: {:?})",
                                            st.pc - base, get(6).map(|a| format!("{a:x}")), k + 1, above.map(|a| format!("{a:x}")))));
                                    }
                                }
                            }
                        }
                        (line.clone(), ans)
                    }
                }
            }
            _ => (line.clone(), "bad-op".into()),
        };
        for (key, what) in fails {
            emit(format!("!oracle {}", json!({"key": key, "what": format!("`{}`: {what}", short(&req)), "replay": {"prog": p.name}})));
        }
        emit(format!("{req}\t{ans}"));
    }
    let _ = live.finish();
}

pub fn exec(req: &[String], out: &mut Out, tmpdir: &Path) {
    let mut sessions: Vec<Vec<String>> = vec![];
    for l in req {
        if l.starts_with("C05 new ") || sessions.is_empty() { sessions.push(vec![]); }
        sessions.last_mut().unwrap().push(l.clone());
    }
    // CFI tables of the executables and of their shared libraries (`ldd`), decoded once by the parent process
    let mut tabs = Tables { rows: HashMap::new(), errs: vec![] };
    let mut files: BTreeSet<PathBuf> = BTreeSet::new();
    for s in &sessions {
        if let Some(name) = s[0].split(' ').nth(2) && PROGS.contains(&name) {
            let exe = std::fs::canonicalize(verif_root().join("progs").join(name)).unwrap();
            if files.insert(exe.clone()) && let Ok(o) = std::process::Command::new("ldd").arg(&exe).output() {
                for l in String::from_utf8_lossy(&o.stdout).lines() {
                    if let Some(p) = l.split_whitespace().find(|t| t.starts_with('/')) && let Ok(c) = std::fs::canonicalize(p) { files.insert(c); }
                }
            }
        }
    }
    for f in files {
        match cfi_rows(&f) {
            Ok(r) => { out.count("cfi.rows", r.len() as u64); tabs.rows.insert(f.to_string_lossy().to_string(), r); }
            Err(e) => { out.count("cfi.undecodable-file", 1); tabs.errs.push(format!("{}: {e}", f.display())); }
        }
    }
    let results = run_sessions(&sessions, tmpdir, "c05", par_default().min(3), session_timeout().max(75), |s, emit| session(s, &tabs, emit));
    for (i, (s, (lines, how))) in sessions.iter().zip(results).enumerate() {
        let mut pairs: Vec<(String, String)> = vec![];
        for l in lines {
            if let Some(j) = l.strip_prefix("!oracle ") {
                let v: serde_json::Value = serde_json::from_str(j).unwrap();
                out.oracle_fail(v["key"].as_str().unwrap(), v["what"].as_str().unwrap(), json!({"session": s.iter().map(|l| short(l)).collect::<Vec<_>>(), "detail": v["replay"]}));
            } else if let Some(c) = l.strip_prefix("!count ") { out.count(c, 1); }
            else if l == "!eval" { out.oracle_evals += 1; }
            else if let Some((r, a)) = l.split_once('\t') {
                if let Some(op) = r.split(' ').nth(1) { out.count(&format!("answer.{op}.{}", a.split(' ').next().unwrap_or("")), 1); }
                pairs.push((r.to_string(), a.to_string()));
            }
        }
        if how != "ok" {
            out.oracle_fail("debugger-crashed-or-hung", &format!("worker ended with {how} after {} of {} commands", pairs.len(), s.len()),
                json!({"session": s.iter().map(|l| short(l)).collect::<Vec<_>>()}));
        }
        if i < 3 { out.sample(json!({"session": pairs.iter().map(|(r, a)| format!("{} => {}", short(r), short(a))).collect::<Vec<_>>()})); }
        for (k, l) in s.iter().enumerate() {
            match pairs.get(k) {
                Some((r, a)) => out.pair(r.clone(), a.clone()),
                None => out.pair(l.clone(), format!("worker-{how}")),
            }
        }
    }
}

pub fn run(args: &[String]) {
    let a = parse_args(args);
    let mut out = Out::new(&a.out);
    let req = match &a.replay {
        Some(f) => read_lines(f),
        None => { let mut rng = Rng::new(a.seed); gen_requests(&mut rng, a.n, &mut out) }
    };
    exec(&req, &mut out, &a.out);
    out.finish();
}
