//! C08: totality of the console command parser, of the DQE slice/index arithmetic and of the decoder reads.
//!
//! K: outcome classes (`ok` / `err` / `panic:<class>` / `abort`) of the REAL code vs the Lean model
//!    (`lean/BsVerif/Model/CmdNum.lean`, `SliceBuf.lean`) on the same request lines.
//! O: the run itself: every panic / abort / timeout is a failing input, classified by site (`key`).
//!
//! The numeric conversions of the parser, the slice arithmetic and the read buffer reservation were repaired
//! (known_findings.txt, `fixed:` lines): the model's setting is `repaired` (the default), every panic class below is a
//! VIOLATION again (the keys stay so that a regression is named), the former witnesses stay in corpus/C08.
//!
//! Request lines
//!   C08 new cmd <asfound|repaired>            session of command lines (pure parsing, in-process, catch_unwind)
//!   C08 cmd <x|n> <xhex line>                 x: answer ok|err|panic:<cls>   n: nopanic|panic:<cls>
//!   C08 new slice <asfound|repaired>          session on the live debuggee progs/c08_vals (forked worker)
//!   C08 var <name> <array|vec|ptr> <elem size> <items>   ground truth of a variable (from the program text)
//!   C08 slice <x|n> <name> <left|-> <right|->
//!   C08 index <name> <int>
//!   C08 new decode / C08 read <site> <have> <need>       probe records of the unchecked reads (see `decode`)
use crate::util::*;
use bugstalker::ui::command::Command;
use serde_json::json;
use std::io::{BufRead, BufReader, Write};
use std::sync::Mutex;
use std::sync::mpsc;
use std::time::Duration;

// ------------------------------------------------------------------------------------------------ panics
static LAST_PANIC: Mutex<Option<(String, String)>> = Mutex::new(None);

fn install_silent_hook() {
    std::panic::set_hook(Box::new(|info| {
        let msg = if let Some(s) = info.payload().downcast_ref::<&str>() { s.to_string() }
                  else if let Some(s) = info.payload().downcast_ref::<String>() { s.clone() } else { "?".into() };
        let loc = info.location().map(|l| l.file().to_string()).unwrap_or_default();
        *LAST_PANIC.lock().unwrap_or_else(|e| e.into_inner()) = Some((msg, loc));
    }));
}
fn take_panic() -> (String, String) {
    LAST_PANIC.lock().unwrap_or_else(|e| e.into_inner()).take().unwrap_or(("?".into(), "?".into()))
}

/// class of a panic = (answer token, oracle key)
fn classify_panic(msg: &str, loc: &str) -> (String, String) {
    let short = |s: &str| s.rsplit('/').next().unwrap_or("").to_string();
    let c = |a: &str, k: &str| (a.to_string(), k.to_string());
    if msg.contains("PosOverflow") {
        if loc.contains("chumsky") { return c("tok", "cmd-numeric-token-overflow-panics"); }
        if loc.ends_with("ui/command/parser/mod.rs") { return c("hex", "cmd-hex-token-overflow-panics"); }
        if loc.ends_with("ui/command/parser/expression.rs") { return c("usize", "cmd-slice-bound-token-overflow-panics"); }
    }
    if msg.contains("kind: Empty") { return c("empty", "cmd-numeric-token-empty-panics"); }
    if msg.contains("attempt to negate with overflow") { return c("neg", "cmd-int-literal-negation-overflow-panics"); }
    if msg.contains("attempt to subtract with overflow") { return c("sub", "slice-left-greater-than-right-panics"); }
    if msg.contains("range end index") || msg.contains("out of range for slice") && msg.contains("end") {
        return c("drain-left", "slice-left-past-end-panics");
    }
    if msg.contains("range start index") || msg.contains("slice index starts at") { return c("drain-right", "slice-right-past-end-panics"); }
    if msg.contains("attempt to multiply with overflow") { return c("mul", "ptr-slice-size-multiplication-overflow-panics"); }
    if msg.contains("attempt to add with overflow") { return c("add", "ptr-slice-address-overflow-panics"); }
    if msg.contains("capacity overflow") { return c("cap", "ptr-slice-capacity-overflow-panics"); }
    if msg.contains("chunk size must be non-zero") { return c("chunk0", "ptr-slice-zero-sized-element-panics"); }
    let m: String = msg.chars().filter(|c| c.is_ascii_alphabetic() || *c == ' ').take(40).collect::<String>().trim().replace(' ', "-");
    (format!("other:{}", short(loc)), format!("panic-other-{}-{}", short(loc), m))
}

// ------------------------------------------------------------------------------------------------ cmd
const DEC_POOL: &[&str] = &[
    "0", "1", "7", "42", "65535", "65536", "2147483647", "2147483648", "2147483649", "4294967295", "4294967296",
    "4294967297", "9223372036854775807", "9223372036854775808", "9223372036854775809", "18446744073709551615",
    "18446744073709551616", "18446744073709551617", "99999999999999999999", "100000000000000000000",
    "340282366920938463463374607431768211456", "007", "00", "0004294967296", "042949672960", "10000000000",
];
const HEX_POOL: &[&str] = &[
    "0x0", "0x10", "0X1F", "0xffffffff", "0x100000000", "0x7fffffffffffffff", "0x8000000000000000", "0xffffffffffffffff",
    "0xFFFFFFFFFFFFFFFF", "0x10000000000000000", "0x1ffffffffffffffff", "0x00000000000000000001", "0x0ffffffffffffffff",
    "0xfffffffffffffffff", "0x", "0X", "0xg", "0x 10", "x10", "0x123456789abcdef01", "0xdeadbeef",
];
/// templates: `{d}` decimal, `{s}` decimal with optional sign, `{h}` hex, `{w}` white space
const TEMPLATES: &[&str] = &[
    "break{w}remove{w}{d}", "b r {d}", "b remove {d}", "break r {d}", "break remove {h}", "break remove file.rs:{d}", "break remove :{d}",
    "break remove a:b:{d}", "break remove {d}:{d}", "break {h}", "break main.rs:{d}", "b src/x.rs:{d}", "break {d}", "break fn_{d}", "break info",
    "break remove {d} {d}", "break remove {h}:{d}", "break remove x{d}", "break remove {d}x",
    "watch remove {d}", "w r {d}", "watch remove {h}:4", "watch remove {h}:{d}", "watch {h}:8", "watch +rw {h}:1", "watch +w {h}:2",
    "watch +w a[{s}]", "watch remove a[{s}]", "watch a.b[{d}..{d}]", "watch info", "watch +rw  x",
    "thread switch {d}", "thread{w}switch{w}{d}{w}", "thread switch {d} {d}", "thread switch", "thread info", "thread current",
    "frame switch {d}", "f switch {d}", "frame switch{d}", "frame info", "frame switch -{d}",
    "mem read {h}", "memory read {h}", "mem write {h} {h}", "memory write {h}{h}", "mem read {d}",
    "reg write rip {h}", "register write rax {h}", "reg read rip", "reg info", "reg write {d} {h}",
    "source {d}", "source asm", "source fn", "source{w}{d}{w}", "source -{d}", "source {d}.{d}",
    "trigger b {d}", "trigger w {d}", "trigger", "trigger any", "trigger info", "trigger  b  {d}", "trigger b{d}", "trigger w {d} {d}",
    "var a[{s}]", "var a[{d}..{d}]", "var a[..{d}]", "var a[{d}..]", "var a[ {d} .. {d} ]", "vard *(*a)[{d}].f.{d}", "arg x[{s}]", "arg all",
    "var locals", "var (*u32){h}", "var (*mut Foo){h}[{d}..{d}]", "var ( &u32 ){h}.{d}", "var m[{{{s}, *}}]", "var m[Some({s})]", "var x.{d}",
    "var a[{s}.{d}]", "var a[{h}]", "var a[{{k: {s}, j: *}}]", "var a[\"{d}\"]", "var a['{d}']", "var a[-{h}]", "var a[{d}..{d}][{s}]",
    "var ~a.b[{d}]", "var &*a[{d}..]", "var (a[{d}]).b", "var ((a))[{s}]", "var a[E::V({s})]", "var a[{d}..{d}..{d}]", "var a[{d}", "var a[{s}]]",
    "call f {s} {s}", "call f {h}", "call f {d}.{d} \"s\" true", "call f {{{s}, {s}}}", "call g", "call f -{s}",
    "continue", "c", "run", "r", "stepi", "step", "next", "finish", "stepover", "bt", "bt all", "backtrace all", "help", "h break {d}",
    "symbol ma.*{d}", "sharedlib info", "oracle tokio", "oracle tokio x{d}", "async bt", "async backtrace all", "async task .*{d}", "async next",
    "async stepout", "async finish",
];
const GARBAGE_ALPHABET: &[u8] = b"abrwmxfvct0123456789 \t:.[](){}*&~-+,\"'_#<>xX";
const KEYWORDS: &[&str] = &["break", "b", "remove", "r", "watch", "w", "thread", "switch", "frame", "f", "mem", "memory", "read", "write",
    "reg", "register", "source", "trigger", "var", "vard", "arg", "argd", "call", "info", "0x", "..", "[", "]", "+rw", "+w", ":"];

fn gen_dec(rng: &mut Rng) -> String {
    match rng.below(10) {
        0..=5 => rng.pick(DEC_POOL).to_string(),
        6 => { // around a power of two
            let k = *rng.pick(&[8u32, 16, 31, 32, 33, 63, 64, 65, 127]);
            let v: u128 = 1u128 << k;
            (v + rng.below(5) as u128 - 2).to_string()
        }
        _ => { let n = rng.range(1, 24); (0..n).map(|_| char::from(b'0' + rng.below(10) as u8)).collect() }
    }
}
fn gen_hex(rng: &mut Rng) -> String {
    match rng.below(10) {
        0..=6 => rng.pick(HEX_POOL).to_string(),
        _ => { let n = rng.range(1, 20);
               format!("{}{}", if rng.chance(1, 4) { "0X" } else { "0x" },
                       (0..n).map(|_| *rng.pick(&['0', '1', '7', '9', 'a', 'f', 'A', 'F', 'c'])).collect::<String>()) }
    }
}
fn gen_ws(rng: &mut Rng) -> String {
    match rng.below(8) { 0..=4 => " ".into(), 5 => "  ".into(), 6 => "\t".into(), _ => " \t ".into() }
}
fn fill(t: &str, rng: &mut Rng) -> String {
    let mut o = String::new();
    let mut it = t.chars().peekable();
    while let Some(c) = it.next() {
        if c == '{' {
            match it.peek() {
                Some('{') => { it.next(); o.push('{'); }
                Some('d') => { it.next(); it.next(); o += &gen_dec(rng); }
                Some('s') => { it.next(); it.next(); if rng.chance(1, 2) { o.push('-'); } o += &gen_dec(rng); }
                Some('h') => { it.next(); it.next(); o += &gen_hex(rng); }
                Some('w') => { it.next(); it.next(); o += &gen_ws(rng); }
                _ => o.push(c),
            }
        } else if c == '}' { if it.peek() == Some(&'}') { it.next(); } o.push('}'); } else { o.push(c); }
    }
    o
}
fn mutate(s: &str, rng: &mut Rng) -> String {
    let mut b: Vec<u8> = s.bytes().collect();
    for _ in 0..rng.range(1, 3) {
        let pos = rng.below(b.len() as u64 + 1) as usize;
        match rng.below(7) {
            0 if !b.is_empty() => { b.remove(pos.min(b.len() - 1)); }
            1 => b.insert(pos, *rng.pick(GARBAGE_ALPHABET)),
            2 => { let k = rng.pick(KEYWORDS).as_bytes().to_vec(); for (i, c) in k.into_iter().enumerate() { b.insert(pos + i, c); } }
            3 => b.truncate(pos),
            4 => { let d = gen_dec(rng).into_bytes(); for (i, c) in d.into_iter().enumerate() { b.insert(pos + i, c); } }
            5 if b.len() > 1 => { let q = rng.below(b.len() as u64) as usize; let p = pos.min(b.len() - 1); b.swap(p, q); }
            _ => { let h = gen_hex(rng).into_bytes(); for (i, c) in h.into_iter().enumerate() { b.insert(pos + i, c); } }
        }
    }
    String::from_utf8_lossy(&b).into_owned()
}
fn garbage(rng: &mut Rng) -> String {
    let n = rng.range(0, 40);
    let mut s = String::new();
    if rng.chance(2, 3) { s += *rng.pick(KEYWORDS); s.push(' '); }
    for _ in 0..n {
        if rng.chance(1, 10) { s += *rng.pick(KEYWORDS); if rng.chance(1, 2) { s.push(' '); } }
        else if rng.chance(1, 15) { s += &gen_dec(rng); }
        else { s.push(char::from(*rng.pick(GARBAGE_ALPHABET))); }
    }
    s
}
fn nested(rng: &mut Rng) -> String {
    let d = rng.range(1, 40) as usize;
    match rng.below(4) {
        0 => format!("var {}a{}[{}]", "(".repeat(d), ")".repeat(d), gen_dec(rng)),
        1 => format!("var a[{}{}{}]", "Some(".repeat(d), gen_dec(rng), ")".repeat(d)),
        2 => format!("var a[{}{}{}]", "{".repeat(d), gen_dec(rng), "}".repeat(d)),
        _ => format!("var {}a{}", "*&~".repeat(d), format!("[{}]", gen_dec(rng)).repeat(d)),
    }
}

fn gen_cmd(rng: &mut Rng, n: u64, quirks: &str, out: &mut Out, req: &mut Vec<String>) {
    req.push(format!("C08 new cmd {quirks}"));
    for _ in 0..n {
        let (mode, line, kind) = match rng.below(20) {
            0..=10 => ("x", { let t: &str = *rng.pick(TEMPLATES); fill(t, rng) }, "cmd.template"),
            11..=14 => { let base = { let t: &str = *rng.pick(TEMPLATES); fill(t, rng) }; ("x", mutate(&base, rng), "cmd.mutated") }
            15..=17 => (if rng.chance(1, 2) { "x" } else { "n" }, garbage(rng), "cmd.garbage"),
            _ => ("x", nested(rng), "cmd.nested"),
        };
        out.count(kind, 1);
        req.push(format!("C08 cmd {mode} {}", enc_str(&line)));
    }
}

/// `Command::parse` on a worker thread (watchdog: a parse that does not return within 20 s is a `timeout`)
struct ParseWorker { tx: mpsc::Sender<String>, rx: mpsc::Receiver<String> }
impl ParseWorker {
    fn new() -> Self {
        let (tx, wrx) = mpsc::channel::<String>();
        let (wtx, rx) = mpsc::channel::<String>();
        std::thread::Builder::new().stack_size(64 << 20).spawn(move || {
            for line in wrx {
                let r = std::panic::catch_unwind(|| Command::parse(&line).is_ok());
                let a = match r {
                    Ok(true) => "ok".to_string(),
                    Ok(false) => "err".to_string(),
                    Err(_) => { let (m, l) = take_panic(); format!("panic\t{m}\t{l}") }
                };
                if wtx.send(a).is_err() { return; }
            }
        }).unwrap();
        ParseWorker { tx, rx }
    }
    fn parse(&mut self, line: &str) -> String {
        self.tx.send(line.to_string()).unwrap();
        match self.rx.recv_timeout(Duration::from_secs(20)) {
            Ok(a) => a,
            Err(_) => { *self = ParseWorker::new(); "timeout".into() }
        }
    }
}

fn exec_cmd(mode: &str, line: &str, pw: &mut ParseWorker, out: &mut Out) -> String {
    out.oracle_evals += 1;
    let a = pw.parse(line);
    let ans = if let Some(rest) = a.strip_prefix("panic\t") {
        let mut it = rest.splitn(2, '\t');
        let (msg, loc) = (it.next().unwrap_or(""), it.next().unwrap_or(""));
        let (cls, mut key) = classify_panic(msg, loc);
        // independent of the model: a decimal-token panic on a line without any decimal run >= 2^32 (the narrowest
        // numeric type of the grammar), or a hex-token panic without a hex run >= 2^64, is not one of the recorded defects
        let runs = |pred: fn(&char) -> bool| -> Vec<String> {
            let mut v = vec![]; let mut cur = String::new();
            for c in line.chars() { if pred(&c) { cur.push(c); } else if !cur.is_empty() { v.push(std::mem::take(&mut cur)); } }
            if !cur.is_empty() { v.push(cur); }
            v
        };
        let big = |s: &str, radix: u32, limit: u128| { let t = s.trim_start_matches('0'); t.len() > 24 || u128::from_str_radix(if t.is_empty() { "0" } else { t }, radix).map(|v| v >= limit).unwrap_or(true) };
        if (cls == "tok" || cls == "usize") && !runs(|c| c.is_ascii_digit()).iter().any(|r| big(r, 10, 1 << 32)) { key = "cmd-numeric-token-in-range-panics".into(); }
        if cls == "neg" && !line.contains("9223372036854775808") { key = "cmd-int-literal-negation-in-range-panics".into(); }
        if cls == "hex" && !runs(|c| c.is_ascii_hexdigit()).iter().any(|r| big(r, 16, 1 << 64)) { key = "cmd-hex-token-in-range-panics".into(); }
        out.count(&format!("cmd.outcome.panic:{cls}"), 1);
        out.oracle_fail(&key, &format!("Command::parse({line:?}) panics: {msg} (at {loc})"),
                        json!({"line": line, "panic": msg, "location": loc, "replay": format!("C08 cmd x {}", enc_str(line))}));
        format!("panic:{cls}")
    } else if a == "timeout" {
        out.oracle_fail("cmd-parse-timeout", &format!("Command::parse({line:?}) did not return within 20 s"), json!({"line": line}));
        "timeout".to_string()
    } else { out.count(&format!("cmd.outcome.{a}"), 1); a };
    out.sample(json!({"line": line, "impl": ans}));
    if mode == "n" && (ans == "ok" || ans == "err") { "nopanic".into() } else { ans }
}

// ------------------------------------------------------------------------------------------------ slices (live debuggee)
mod live {
    use super::*;
    use bugstalker::debugger::process::Child;
    use bugstalker::debugger::variable::dqe::{Dqe, Literal, Selector};
    use bugstalker::debugger::variable::value::specialization::SpecializedValue;
    use bugstalker::debugger::variable::value::Value;
    use bugstalker::debugger::{Debugger, DebuggerBuilder, NopHook, rust};
    use std::os::fd::{FromRawFd, RawFd};

    pub const BREAK_LINE: u64 = 16; // the `sink(..)` line: every variable is initialised (a breakpoint on the println! line is not hit: C04 territory)

    pub fn root() -> std::path::PathBuf { std::path::Path::new(env!("CARGO_MANIFEST_DIR")).parent().unwrap().to_path_buf() }

    /// compile the debuggee if needed (parent process only, before any worker exists)
    pub fn ensure_prog() -> std::path::PathBuf {
        let r = root();
        let bin = r.join("progs/c08_vals");
        let src = r.join("progs-src/c08_vals.rs");
        let stale = match (std::fs::metadata(&bin), std::fs::metadata(&src)) {
            (Ok(b), Ok(s)) => b.modified().unwrap() < s.modified().unwrap(),
            _ => true,
        };
        if stale {
            std::fs::create_dir_all(r.join("progs")).unwrap();
            let st = std::process::Command::new("rustc").args(["-g", "-C", "opt-level=0", "-o"]).arg(&bin).arg(&src).status().unwrap();
            assert!(st.success(), "rustc failed for {src:?}");
        }
        bin
    }

    fn items_of(v: &Value) -> Option<Vec<String>> {
        match v {
            Value::Array(a) => Some(a.items.as_ref()?.iter().map(|it| match &it.value {
                Value::Scalar(s) => s.value.as_ref().map(|x| x.to_string()).unwrap_or("?".into()),
                _ => "?".into(),
            }).collect()),
            Value::Specialized { value: Some(SpecializedValue::Vector(vec)), .. } => items_of(&vec.structure.members.first()?.value),
            Value::Scalar(s) => Some(vec![s.value.as_ref().map(|x| x.to_string()).unwrap_or("?".into())]),
            _ => None,
        }
    }

    fn answer(dbg: &Debugger, dqe: Dqe) -> String {
        let r = std::panic::catch_unwind(std::panic::AssertUnwindSafe(|| {
            match dbg.read_variable(dqe) {
                Ok(v) if !v.is_empty() => match items_of(v[0].value()) {
                    Some(items) => format!("ok:{}", enc_list(&items, |s| s.clone())),
                    None => "ok:?".to_string(),
                },
                Ok(_) => "err".to_string(),
                Err(e) => { if std::env::var("C08_DEBUG").is_ok() { eprintln!("read_variable error: {e}"); } "err".to_string() }
            }
        }));
        match r { Ok(a) => a, Err(_) => { let (m, l) = take_panic(); format!("panic\t{m}\t{l}") } }
    }

    /// child side: one debugger, answers request lines read from `rfd` on `wfd`
    fn worker_main(prog: &std::path::Path, rfd: RawFd, wfd: RawFd) -> ! {
        let input = BufReader::new(unsafe { std::fs::File::from_raw_fd(rfd) });
        let mut output = unsafe { std::fs::File::from_raw_fd(wfd) };
        let (reader, writer) = os_pipe::pipe().unwrap();
        std::thread::spawn(move || { let mut s = BufReader::new(reader); let mut l = String::new(); while s.read_line(&mut l).unwrap_or(0) != 0 { l.clear(); } });
        rust::Environment::init(None);
        let runner = Child::new(prog.to_string_lossy().to_string(), Vec::<String>::new(), None::<&std::path::Path>, writer.try_clone().unwrap(), writer);
        let mut dbg = DebuggerBuilder::<NopHook>::new().build(runner.install().unwrap()).unwrap();
        let bl = std::env::var("C08_LINE").ok().and_then(|v| v.parse().ok()).unwrap_or(BREAK_LINE);
        let nb = dbg.set_breakpoint_at_line("c08_vals.rs", bl).map(|v| v.len());
        if std::env::var("C08_DEBUG").is_ok() { eprintln!("breakpoints at line {bl}: {:?}", nb.map_err(|e| e.to_string())); }
        let reason = dbg.start_debugee_with_reason();
        if std::env::var("C08_DEBUG").is_ok() { eprintln!("start: {:?}", reason.as_ref().map(|r| match r { bugstalker::debugger::StopReason::DebugeeExit(c) => format!("exit {c}"), bugstalker::debugger::StopReason::Breakpoint(..) => "brkpt".into(), bugstalker::debugger::StopReason::SignalStop(_, s) => format!("signal {s}"), _ => "other".into() }).map_err(|e| e.to_string())); }
        let var = |n: &str| Dqe::Variable(Selector::by_name(n, true));
        let opt = |t: &str| if t == "-" { None } else { t.parse::<usize>().ok() };
        for line in input.lines() {
            let line = line.unwrap();
            let t: Vec<&str> = line.split(' ').collect();
            let a = match t.as_slice() {
                ["slice", name, l, r] => answer(&dbg, Dqe::Slice(Box::new(var(name)), opt(l), opt(r))),
                ["index", name, i] => answer(&dbg, Dqe::Index(Box::new(var(name)), Literal::Int(i.parse().unwrap()))),
                ["alive"] => answer(&dbg, var("arr")),
                _ => "bad-op".into(),
            };
            writeln!(output, "{a}").unwrap();
            output.flush().unwrap();
        }
        drop(dbg);
        unsafe { libc::_exit(0) }
    }

    pub struct Worker { pid: libc::pid_t, tx: std::fs::File, rx: BufReader<std::fs::File>, pub timed_out: bool }
    impl Worker {
        pub fn spawn(prog: &std::path::Path) -> Worker {
            let mut p2c = [0; 2]; let mut c2p = [0; 2];
            // O_CLOEXEC: the debuggee (exec'ed by the worker) must not keep the answer pipe open
            unsafe { libc::pipe2(p2c.as_mut_ptr(), libc::O_CLOEXEC); libc::pipe2(c2p.as_mut_ptr(), libc::O_CLOEXEC); }
            let pid = unsafe { libc::fork() };
            if pid == 0 {
                // own process group: the parent kills worker + debuggee together
                unsafe { libc::setpgid(0, 0); libc::close(p2c[1]); libc::close(c2p[0]); }
                worker_main(prog, p2c[0], c2p[1]);
            }
            unsafe { libc::close(p2c[0]); libc::close(c2p[1]); }
            Worker { pid, tx: unsafe { std::fs::File::from_raw_fd(p2c[1]) }, rx: BufReader::new(unsafe { std::fs::File::from_raw_fd(c2p[0]) }), timed_out: false }
        }
        /// `None`: the worker died (abort / crash) while answering
        pub fn ask(&mut self, q: &str) -> Option<String> {
            if writeln!(self.tx, "{q}").is_err() { return None; }
            let _ = self.tx.flush();
            // watchdog: 60 s per query
            let mut pfd = libc::pollfd { fd: std::os::fd::AsRawFd::as_raw_fd(self.rx.get_ref()), events: libc::POLLIN, revents: 0 };
            if self.rx.buffer().is_empty() && unsafe { libc::poll(&mut pfd, 1, 60_000) } <= 0 { self.timed_out = true; return None; }
            let mut l = String::new();
            match self.rx.read_line(&mut l) { Ok(n) if n > 0 => Some(l.trim_end().to_string()), _ => None }
        }
        /// wait for the worker, return the terminating signal (0 = exited)
        pub fn reap(self) -> i32 {
            let Worker { pid, tx, rx, timed_out } = self;
            drop(tx); drop(rx);
            let mut st = 0;
            if timed_out { unsafe { libc::kill(-pid, libc::SIGKILL); } }
            unsafe { libc::waitpid(pid, &mut st, 0); }
            // the debuggee is a grandchild in the worker's process group: a worker that died leaves it stopped
            unsafe { libc::kill(-pid, libc::SIGKILL); }
            if libc::WIFSIGNALED(st) { libc::WTERMSIG(st) } else { 0 }
        }
    }
}

/// ground truth of the debuggee (progs-src/c08_vals.rs): name, kind, element size, items
const VARS: &[(&str, &str, u64, &[u64])] = &[
    ("arr", "array", 4, &[10, 20, 30, 40, 50]),
    ("bytes", "array", 1, &[1, 2, 3]),
    ("empty", "array", 8, &[]),
    ("v", "vec", 2, &[7, 8, 9, 10]),
    ("ev", "vec", 4, &[]),
    ("parr", "ptr", 4, &[10, 20, 30, 40, 50]),
    ("punit", "ptr", 0, &[]),
];

fn gen_slice(rng: &mut Rng, n: u64, quirks: &str, out: &mut Out, req: &mut Vec<String>) {
    req.push(format!("C08 new slice {quirks}"));
    for (name, kind, es, items) in VARS {
        req.push(format!("C08 var {name} {kind} {es} {}", enc_list(items, |v| v.to_string())));
    }
    let big: &[u64] = &[1 << 20, 1 << 32, (1 << 45) + 1, 1 << 46, 1 << 61, (1 << 61) + 1, 1 << 62, 1 << 63, u64::MAX - 1, u64::MAX];
    for _ in 0..n {
        let (name, kind, es, items) = rng.pick(VARS);
        let len = items.len() as u64;
        let bound = |rng: &mut Rng| -> Option<u64> {
            match rng.below(12) { 0 | 1 => None, 2..=9 => Some(rng.below(len + 4)), _ => Some(*rng.pick(big)) }
        };
        if rng.chance(1, 5) && *kind != "ptr" {
            let i: i64 = match rng.below(6) { 0 => -1, 1 => i64::MIN, 2 => i64::MAX, 3 => -(rng.below(5) as i64), _ => rng.below(len + 3) as i64 };
            out.count("index", 1);
            req.push(format!("C08 index {name} {i}"));
            continue;
        }
        let (l, r) = (bound(rng), bound(rng));
        // pointer slices: exact answers only inside the known array; for byte counts between 64 KiB and 2^47 whether the
        // reservation / the ptrace reads succeed is the environment's business: only "no panic, no abort" is compared
        let mut mode = "x";
        if *kind == "ptr" {
            let (lv, rv) = (l.unwrap_or(0), r.unwrap_or(0));
            if r.is_some() && rv >= lv && *es > 0 {
                let bytes = (*es as u128) * ((rv - lv) as u128);
                let base_off = (*es as u128) * (lv as u128);
                if bytes > 65536 && bytes <= (1u128 << 47) { mode = "n"; }
                if base_off > 4096 && base_off < (1u128 << 64) && bytes < (1 << 47) { mode = "n"; }
                if rv > len && bytes <= 65536 { mode = "n"; }
            }
        }
        out.count(&format!("slice.{kind}"), 1);
        let f = |b: Option<u64>| b.map(|v| v.to_string()).unwrap_or("-".into());
        req.push(format!("C08 slice {mode} {name} {} {}", f(l), f(r)));
    }
}

struct LiveSession { prog: std::path::PathBuf, w: Option<live::Worker>, declared: Vec<String> }
impl LiveSession {
    fn ask(&mut self, q: &str, out: &mut Out, what: &str) -> String {
        out.oracle_evals += 1;
        if self.w.is_none() { self.w = Some(live::Worker::spawn(&self.prog)); }
        let a = self.w.as_mut().unwrap().ask(q);
        match a {
            Some(a) => {
                if let Some(rest) = a.strip_prefix("panic\t") {
                    let mut it = rest.splitn(2, '\t');
                    let (msg, loc) = (it.next().unwrap_or(""), it.next().unwrap_or(""));
                    let (cls, key) = classify_panic(msg, loc);
                    out.count(&format!("slice.outcome.panic:{cls}"), 1);
                    out.oracle_fail(&key, &format!("{what} panics: {msg} (at {loc})"), json!({"query": what, "panic": msg, "location": loc}));
                    // "the session remains usable afterwards": the same debugger must still answer
                    let alive = self.w.as_mut().unwrap().ask("alive");
                    if !alive.as_deref().unwrap_or("").starts_with("ok:10,20,30,40,50") {
                        out.oracle_fail("session-unusable-after-panic", &format!("after the panic of {what} the debugger no longer reads `arr`: {alive:?}"), json!({"query": what}));
                    }
                    format!("panic:{cls}")
                } else { out.count(if a.starts_with("ok") { "slice.outcome.ok" } else { "slice.outcome.err" }, 1); a }
            }
            None => {
                let w = self.w.take().unwrap();
                if w.timed_out {
                    w.reap();
                    out.oracle_fail("query-timeout", &format!("{what} did not return within 60 s"), json!({"query": what}));
                    return "timeout".into();
                }
                let sig = w.reap();
                out.count("slice.outcome.abort", 1);
                out.oracle_fail("ptr-slice-allocation-abort", &format!("{what} kills the debugger process (signal {sig})"), json!({"query": what, "signal": sig}));
                "abort".into()
            }
        }
    }
}

// ------------------------------------------------------------------------------------------------ driver
pub fn gen_requests(rng: &mut Rng, n: u64, quirks: &str, out: &mut Out) -> Vec<String> {
    let mut req = vec![];
    let mut r1 = rng.fork();
    gen_cmd(&mut r1, n, quirks, out, &mut req);
    let mut r2 = rng.fork();
    gen_slice(&mut r2, (n / 8).clamp(40, 3000), quirks, out, &mut req);
    req
}

pub fn exec(req: &[String], out: &mut Out) {
    let mut pw = ParseWorker::new();
    let mut live: Option<LiveSession> = None;
    for line in req {
        let t: Vec<&str> = line.split(' ').collect();
        let ans = match t.as_slice() {
            ["C08", "new", "cmd", "asfound" | "repaired"] => "ok".to_string(),
            ["C08", "cmd", mode @ ("x" | "n"), l] if l.starts_with('x') => exec_cmd(mode, &dec_str(l), &mut pw, out),
            ["C08", "new", "slice", "asfound" | "repaired"] => {
                if let Some(mut s) = live.take() { if let Some(w) = s.w.take() { w.reap(); } }
                live = Some(LiveSession { prog: live::ensure_prog(), w: None, declared: vec![] });
                "ok".to_string()
            }
            ["C08", "var", name, "array" | "vec" | "ptr", _, _] if live.is_some() => { live.as_mut().unwrap().declared.push(name.to_string()); "ok".to_string() }
            // a query on a variable whose ground truth was not declared is ill-formed (both sides answer bad-op)
            ["C08", "slice", _, name, _, _] | ["C08", "index", name, _] if !live.as_ref().map(|s| s.declared.iter().any(|d| d == name)).unwrap_or(false) => "bad-op".into(),
            ["C08", "slice", mode @ ("x" | "n"), name, l, r] if live.is_some() => {
                let a = live.as_mut().unwrap().ask(&format!("slice {name} {l} {r}"), out, &format!("{name}[{l}..{r}]").replace('-', ""));
                if *mode == "n" && (a.starts_with("ok") || a == "err") { "nopanic".into() } else { a }
            }
            ["C08", "index", name, i] if live.is_some() && i.parse::<i64>().is_ok() =>
                live.as_mut().unwrap().ask(&format!("index {name} {i}"), out, &format!("{name}[{i}]")),
            _ => "bad-op".into(),
        };
        out.pair(line.clone(), ans);
    }
    if let Some(mut s) = live.take() { if let Some(w) = s.w.take() { w.reap(); } }
}

pub fn run(args: &[String]) {
    let a = parse_args(args);
    install_silent_hook();
    let mut out = Out::new(&a.out);
    let quirks = a.rest.iter().position(|x| x == "--quirks").map(|i| a.rest[i + 1].clone()).unwrap_or("repaired".into());
    let req = match &a.replay {
        Some(f) => read_lines(f),
        None => { let mut rng = Rng::new(a.seed); gen_requests(&mut rng, a.n, &quirks, &mut out) }
    };
    exec(&req, &mut out);
    out.finish();
}
