//! C06 program generator: Rust debuggees from a recursive type grammar, with the ground truth of every variable.
//! The generator is the INDEPENDENT source of truth of the oracle: it knows the value it wrote into the source.
use crate::util::Rng;

#[derive(Clone, Debug, PartialEq)]
pub enum Ty {
    Int(&'static str), F32, F64, Bool, Char, Unit,
    Tuple(Vec<Ty>), Struct(usize), CEnum(usize), Enum(usize), Opt(Box<Ty>), NonZeroU32,
    Array(Box<Ty>, usize), Slice(Box<Ty>), Str, String,
    Vec(Box<Ty>), Deque(Box<Ty>), HMap(Box<Ty>, Box<Ty>), HSet(Box<Ty>), BMap(Box<Ty>, Box<Ty>), BSet(Box<Ty>),
    Boxed(Box<Ty>), Rc(Box<Ty>), Arc(Box<Ty>), Cell(Box<Ty>), RefCell(Box<Ty>), Ref(Box<Ty>), Raw(Box<Ty>),
}

/// ground truth of a value (layout independent)
#[derive(Clone, Debug, PartialEq)]
pub enum T {
    Num(String),            // decimal text of an integer, as `{}` prints it
    F32(u32), F64(u64), Bool(bool), Char(u32), Unit,
    Fields(Vec<(String, T)>),          // struct / tuple (`__0`, `__1`, ..)
    CVariant(String),                  // C-like enum
    Variant(String, Vec<(String, T)>), // data-carrying enum (Option included): variant name + payload fields
    Seq(Vec<T>),                       // array, slice, Vec, VecDeque: in order
    Map(Vec<(T, T)>), Set(Vec<T>),
    Str(String),
    Ptr(Box<T>),                       // Box / Rc / Arc / & / *const: the pointee
    Inner(Box<T>),                     // Cell / RefCell: the content
}

#[derive(Clone, Debug)]
pub struct StructDef { pub name: String, pub fields: Vec<(String, Ty)> }
#[derive(Clone, Debug)]
pub struct CEnumDef { pub name: String, pub repr: Option<&'static str>, pub variants: Vec<(String, i128)> }
#[derive(Clone, Debug)]
pub enum Payload { Unit, Tuple(Vec<Ty>), Named(Vec<(String, Ty)>) }
#[derive(Clone, Debug)]
pub struct EnumDef { pub name: String, pub repr: Option<&'static str>, pub variants: Vec<(String, Payload, Option<i128>)> }

#[derive(Clone, Debug)]
pub struct Var { pub name: String, pub ty: Ty, pub truth: T, pub family: String, pub shape: String,
                 /// what the generator knows about the construction beyond the value (used only to classify an oracle failure)
                 pub hint: Option<&'static str> }

pub struct Program {
    pub krate: String,
    pub source: String,
    pub break_locals: u64,
    pub break_args: u64,
    pub locals: Vec<Var>,
    pub statics: Vec<Var>,
    pub args: Vec<Var>,
    pub defs: Defs,
}

pub const INTS: &[(&str, u32, bool)] = &[("i8", 8, true), ("i16", 16, true), ("i32", 32, true), ("i64", 64, true), ("i128", 128, true), ("isize", 64, true),
    ("u8", 8, false), ("u16", 16, false), ("u32", 32, false), ("u64", 64, false), ("u128", 128, false), ("usize", 64, false)];

#[derive(Clone, Debug, Default)]
pub struct Defs { pub structs: Vec<StructDef>, pub cenums: Vec<CEnumDef>, pub enums: Vec<EnumDef> }
impl Defs {
    // ------------------------------------------------------------------ type text
    pub fn src(&self, t: &Ty) -> String {
        match t {
            Ty::Int(n) => n.to_string(), Ty::F32 => "f32".into(), Ty::F64 => "f64".into(), Ty::Bool => "bool".into(), Ty::Char => "char".into(), Ty::Unit => "()".into(),
            Ty::Tuple(ts) => format!("({})", ts.iter().map(|t| self.src(t)).collect::<Vec<_>>().join(", ")),
            Ty::Struct(i) => self.structs[*i].name.clone(), Ty::CEnum(i) => self.cenums[*i].name.clone(), Ty::Enum(i) => self.enums[*i].name.clone(),
            Ty::Opt(t) => format!("Option<{}>", self.src(t)), Ty::NonZeroU32 => "std::num::NonZeroU32".into(),
            Ty::Array(t, n) => format!("[{}; {n}]", self.src(t)), Ty::Slice(t) => format!("&'static [{}]", self.src(t)),
            Ty::Str => "&'static str".into(), Ty::String => "String".into(),
            Ty::Vec(t) => format!("Vec<{}>", self.src(t)), Ty::Deque(t) => format!("VecDeque<{}>", self.src(t)),
            Ty::HMap(k, v) => format!("HashMap<{}, {}>", self.src(k), self.src(v)), Ty::HSet(k) => format!("HashSet<{}>", self.src(k)),
            Ty::BMap(k, v) => format!("BTreeMap<{}, {}>", self.src(k), self.src(v)), Ty::BSet(k) => format!("BTreeSet<{}>", self.src(k)),
            Ty::Boxed(t) => format!("Box<{}>", self.src(t)), Ty::Rc(t) => format!("Rc<{}>", self.src(t)), Ty::Arc(t) => format!("Arc<{}>", self.src(t)),
            Ty::Cell(t) => format!("Cell<{}>", self.src(t)), Ty::RefCell(t) => format!("RefCell<{}>", self.src(t)),
            Ty::Ref(t) => format!("&'static {}", self.src(t)), Ty::Raw(t) => format!("*const {}", self.src(t)),
        }
    }
    /// the Rust type name with std default parameters spelled out and all paths stripped (what the debugger's name
    /// must equal after stripping its paths)
    pub fn name(&self, t: &Ty) -> String {
        match t {
            Ty::Tuple(ts) => format!("({})", ts.iter().map(|t| self.name(t)).collect::<Vec<_>>().join(", ")),
            Ty::Opt(t) => format!("Option<{}>", self.name(t)), Ty::NonZeroU32 => "NonZero<u32>".into(),
            Ty::Array(t, n) => format!("[{}; {n}]", self.name(t)), Ty::Slice(t) => format!("&[{}]", self.name(t)),
            Ty::Str => "&str".into(), Ty::String => "String".into(),
            Ty::Vec(t) => format!("Vec<{}, Global>", self.name(t)), Ty::Deque(t) => format!("VecDeque<{}, Global>", self.name(t)),
            Ty::HMap(k, v) => format!("HashMap<{}, {}, RandomState>", self.name(k), self.name(v)), Ty::HSet(k) => format!("HashSet<{}, RandomState>", self.name(k)),
            Ty::BMap(k, v) => format!("BTreeMap<{}, {}, Global>", self.name(k), self.name(v)), Ty::BSet(k) => format!("BTreeSet<{}, Global>", self.name(k)),
            Ty::Boxed(t) => format!("Box<{}, Global>", self.name(t)), Ty::Rc(t) => format!("Rc<{}, Global>", self.name(t)), Ty::Arc(t) => format!("Arc<{}, Global>", self.name(t)),
            Ty::Cell(t) => format!("Cell<{}>", self.name(t)), Ty::RefCell(t) => format!("RefCell<{}>", self.name(t)),
            Ty::Ref(t) => format!("&{}", self.name(t)), Ty::Raw(t) => format!("*const {}", self.name(t)),
            _ => self.src(t),
        }
    }

    pub fn family(t: &Ty) -> &'static str {
        match t {
            Ty::Int(_) => "int", Ty::F32 | Ty::F64 => "float", Ty::Bool => "bool", Ty::Char => "char", Ty::Unit => "unit",
            Ty::Tuple(_) => "tuple", Ty::Struct(_) => "struct", Ty::CEnum(_) => "cenum", Ty::Enum(_) => "enum", Ty::Opt(_) => "option", Ty::NonZeroU32 => "nonzero",
            Ty::Array(..) => "array", Ty::Slice(_) => "slice", Ty::Str => "str", Ty::String => "string", Ty::Vec(_) => "vec", Ty::Deque(_) => "vecdeque",
            Ty::HMap(..) => "hashmap", Ty::HSet(_) => "hashset", Ty::BMap(..) => "btreemap", Ty::BSet(_) => "btreeset",
            Ty::Boxed(_) => "box", Ty::Rc(_) => "rc", Ty::Arc(_) => "arc", Ty::Cell(_) => "cell", Ty::RefCell(_) => "refcell", Ty::Ref(_) => "ref", Ty::Raw(_) => "rawptr",
        }
    }
}

pub struct Gen<'a> {
    pub rng: &'a mut Rng,
    pub d: Defs,
    pub pre: Vec<String>,   // statements emitted before the `let` of the variable under construction
    tmp: usize,
}

fn int_info(name: &str) -> (u32, bool) { let e = INTS.iter().find(|e| e.0 == name).unwrap(); (e.1, e.2) }

impl<'a> Gen<'a> {
    pub fn new(rng: &'a mut Rng) -> Self { Gen { rng, d: Defs::default(), pre: vec![], tmp: 0 } }

    // ------------------------------------------------------------------ types
    pub fn scalar_ty(&mut self) -> Ty {
        match self.rng.below(18) {
            0..=11 => Ty::Int(INTS[self.rng.below(12) as usize].0),
            12 => Ty::F32, 13 => Ty::F64, 14 => Ty::Bool, 15 => Ty::Char, 16 => Ty::Unit,
            _ => Ty::Int("u32"),
        }
    }
    /// a type usable as hash / ordered key
    pub fn key_ty(&mut self, depth: u32) -> Ty {
        match self.rng.below(if depth == 0 { 6 } else { 9 }) {
            0..=2 => { let k = *self.rng.pick(&["i8", "i16", "i32", "i64", "isize", "u8", "u16", "u32", "u64", "usize"]); Ty::Int(k) }
            3 => Ty::String, 4 => Ty::Char, 5 => Ty::Bool,
            6 => Ty::Tuple(vec![self.key_ty(depth - 1), self.key_ty(depth - 1)]),
            7 => Ty::Opt(Box::new(self.key_ty(depth - 1))),
            _ => { let i = self.new_cenum(); Ty::CEnum(i) }
        }
    }
    pub fn ty(&mut self, depth: u32) -> Ty {
        if depth == 0 { return if self.rng.chance(1, 6) { Ty::String } else { self.scalar_ty() }; }
        let d = depth - 1;
        match self.rng.below(30) {
            0..=3 => self.scalar_ty(),
            4 => Ty::Tuple((0..self.rng.range(2, 3)).map(|_| self.ty(d)).collect()),
            5 | 6 => { let i = self.new_struct(d); Ty::Struct(i) }
            7 => { let i = self.new_cenum(); Ty::CEnum(i) }
            8 | 9 => { let i = self.new_enum(d); Ty::Enum(i) }
            10 | 11 => Ty::Opt(Box::new(self.ty(d))),
            12 => Ty::Opt(Box::new(match self.rng.below(4) { 0 => Ty::Ref(Box::new(self.ty(d))), 1 => Ty::Boxed(Box::new(self.ty(d))), 2 => Ty::NonZeroU32, _ => Ty::String })),
            13 => Ty::Array(Box::new(self.ty(d)), self.rng.below(5) as usize),
            14 => Ty::Str, 15 => Ty::String,
            16 | 17 => Ty::Vec(Box::new(self.ty(d))),
            18 => Ty::Deque(Box::new(self.ty(d))),
            19 => Ty::HMap(Box::new(self.key_ty(1)), Box::new(self.ty(d))),
            20 => Ty::HSet(Box::new(self.key_ty(1))),
            21 => Ty::BMap(Box::new(self.key_ty(1)), Box::new(self.ty(d))),
            22 => Ty::BSet(Box::new(self.key_ty(1))),
            23 => Ty::Boxed(Box::new(self.ty(d))),
            24 => if self.rng.chance(1, 2) { Ty::Rc(Box::new(self.ty(d))) } else { Ty::Arc(Box::new(self.ty(d))) },
            25 => Ty::Cell(Box::new(self.scalar_ty())),
            26 => Ty::RefCell(Box::new(self.ty(d))),
            27 => Ty::Ref(Box::new(self.ty(d))),
            28 => Ty::Raw(Box::new(self.ty(d))),
            _ => Ty::Slice(Box::new(self.ty(d))),
        }
    }
    fn new_struct(&mut self, depth: u32) -> usize {
        let n = self.rng.range(1, 4);
        let idx = self.d.structs.len();
        self.d.structs.push(StructDef { name: format!("S{idx}"), fields: vec![] });
        let fields = (0..n).map(|i| (format!("f{i}"), self.ty(depth))).collect();
        self.d.structs[idx].fields = fields;
        idx
    }
    pub fn new_cenum(&mut self) -> usize {
        let idx = self.d.cenums.len();
        let n = self.rng.range(1, 5) as usize;
        let (repr, discrs): (Option<&'static str>, Vec<i128>) = match self.rng.below(6) {
            0 => (Some("u8"), vec![0, 1, 127, 128, 255]),
            1 => (Some("i8"), vec![-128, -1, 0, 1, 127]),
            2 => (Some("i32"), vec![-2147483648, -5, 0, 70000, 2147483647]),
            3 => (Some("u16"), vec![3, 300, 32768, 65535, 7]),
            4 => (Some("u64"), vec![0, 1, 4294967296, 9223372036854775807, 9223372036854775808]),
            _ => (None, vec![0, 1, 2, 3, 4]),
        };
        let variants = (0..n).map(|i| (format!("C{idx}V{i}"), discrs[i])).collect();
        self.d.cenums.push(CEnumDef { name: format!("C{idx}"), repr, variants });
        idx
    }
    fn new_enum(&mut self, depth: u32) -> usize {
        let idx = self.d.enums.len();
        self.d.enums.push(EnumDef { name: format!("E{idx}"), repr: None, variants: vec![] });
        let n = self.rng.range(2, 4);
        let explicit = self.rng.chance(1, 4);
        let discrs: [i128; 4] = [3, 130, 200, 255];
        let mut variants = vec![];
        for i in 0..n {
            let p = match self.rng.below(4) {
                0 => Payload::Unit,
                1 | 2 => Payload::Tuple((0..self.rng.range(1, 2)).map(|_| self.ty(depth)).collect()),
                _ => Payload::Named((0..self.rng.range(1, 2)).map(|j| (format!("n{j}"), self.ty(depth))).collect()),
            };
            variants.push((format!("V{i}"), p, if explicit { Some(discrs[i as usize]) } else { None }));
        }
        // at least one payload so that the enum is not C-like
        if variants.iter().all(|v| matches!(v.1, Payload::Unit)) { variants[0].1 = Payload::Tuple(vec![Ty::Int("u16")]); }
        self.d.enums[idx].variants = variants;
        self.d.enums[idx].repr = if explicit { Some("u8") } else { None };
        idx
    }

    pub fn src(&self, t: &Ty) -> String { self.d.src(t) }
    pub fn family(&self, t: &Ty) -> &'static str { Defs::family(t) }
    // ------------------------------------------------------------------ values
    fn int_val(&mut self, name: &str) -> (String, T) {
        let (bits, signed) = int_info(name);
        let max: u128 = if signed { (1u128 << (bits - 1)) - 1 } else if bits == 128 { u128::MAX } else { (1u128 << bits) - 1 };
        let text = if signed {
            let min_mag: u128 = 1u128 << (bits - 1);
            match self.rng.below(8) {
                0 => "0".to_string(), 1 => "-1".to_string(), 2 => max.to_string(), 3 => format!("-{min_mag}"),
                4 => "1".to_string(), 5 => format!("-{}", self.rng.below(100) + 2),
                6 => { let r = ((self.rng.next() as u128) << 64 | self.rng.next() as u128) % (max + 1); r.to_string() }
                _ => { let r = ((self.rng.next() as u128) << 64 | self.rng.next() as u128) % (max + 1); format!("-{}", r + 1) }
            }
        } else {
            match self.rng.below(6) {
                0 => "0".to_string(), 1 => max.to_string(), 2 => "1".to_string(), 3 => (max / 2 + 1).to_string(),
                4 => (self.rng.below(200)).to_string(),
                _ => { let r = (self.rng.next() as u128) << 64 | self.rng.next() as u128; (if max == u128::MAX { r } else { r % (max + 1) }).to_string() }
            }
        };
        (format!("({text}{name})", ), T::Num(text))
    }
    fn small_string(&mut self) -> String {
        const POOL: &[&str] = &["", "a", "hello", "with space", "q\"uote", "tab\there", "üñí", "日本語", "line\nbreak", "zero\0byte", "0123456789abcdef0123456789abcdef", "back\\slash", "😀"];
        let mut s = POOL[self.rng.below(POOL.len() as u64) as usize].to_string();
        if self.rng.chance(1, 3) { s.push_str(&format!("{}", self.rng.below(1000))); }
        s
    }
    /// distinct keys of a key type
    fn keys(&mut self, t: &Ty, n: usize) -> Vec<(String, T)> {
        let mut out: Vec<(String, T)> = vec![];
        let mut guard = 0;
        while out.len() < n && guard < n * 50 + 50 {
            guard += 1;
            let kv = match t {
                Ty::Int(name) if guard > 8 || n > 6 => { // spread: small consecutive-ish keys, typed
                    let (bits, signed) = int_info(name);
                    let lim: u64 = if bits == 8 { if signed { 127 } else { 255 } } else { 30000 };
                    let v = self.rng.below(lim + 1);
                    if signed && self.rng.chance(1, 3) && v > 0 { (format!("(-{v}{name})"), T::Num(format!("-{v}"))) } else { (format!("({v}{name})"), T::Num(v.to_string())) }
                }
                Ty::String if n > 6 => { let s = format!("k{}", self.rng.below(100000)); (format!("String::from({s:?})"), T::Str(s)) }
                _ => self.val(t),
            };
            if !out.iter().any(|(_, t)| *t == kv.1) { out.push(kv); }
        }
        out
    }
    fn tmp(&mut self) -> String { self.tmp += 1; format!("t{}", self.tmp) }
    fn sizes(&mut self) -> usize { *self.rng.pick(&[0usize, 1, 2, 3, 5, 8]) }

    /// (Rust expression, truth); may push statements into `self.pre`
    pub fn val(&mut self, t: &Ty) -> (String, T) {
        match t {
            Ty::Int(n) => self.int_val(n),
            Ty::F32 => { let bits: u32 = match self.rng.below(8) { 0 => 0, 1 => 0x8000_0000, 2 => 0x7f80_0000, 3 => 0xff80_0000, 4 => 0x7fc0_0000, 5 => 1, 6 => 0x3fc0_0000, _ => self.rng.next() as u32 };
                         (format!("f32::from_bits({bits}u32)"), T::F32(bits)) }
            Ty::F64 => { let bits: u64 = match self.rng.below(8) { 0 => 0, 1 => 1 << 63, 2 => 0x7ff0_0000_0000_0000, 3 => 0xfff0_0000_0000_0000, 4 => 0x7ff8_0000_0000_0000, 5 => 1, 6 => 0x4009_21fb_5444_2d18, _ => self.rng.next() };
                         (format!("f64::from_bits({bits}u64)"), T::F64(bits)) }
            Ty::Bool => { let b = self.rng.chance(1, 2); (b.to_string(), T::Bool(b)) }
            Ty::Char => { let c = *self.rng.pick(&['a', 'Z', '0', ' ', '\n', '\0', '\'', '\\', 'ß', 'я', '日', '😀', '\u{10ffff}', '\u{d7ff}', '\u{e000}', '\u{7f}']);
                          (format!("'\\u{{{:x}}}'", c as u32), T::Char(c as u32)) }
            Ty::Unit => ("()".into(), T::Unit),
            Ty::Tuple(ts) => { let vs: Vec<_> = ts.iter().map(|t| self.val(t)).collect();
                               (format!("({},)", vs.iter().map(|v| v.0.clone()).collect::<Vec<_>>().join(", ")),
                                T::Fields(vs.into_iter().enumerate().map(|(i, v)| (format!("__{i}"), v.1)).collect())) }
            Ty::Struct(i) => { let def = self.d.structs[*i].clone();
                               let vs: Vec<_> = def.fields.iter().map(|(n, t)| (n.clone(), self.val(t))).collect();
                               (format!("{} {{ {} }}", def.name, vs.iter().map(|(n, v)| format!("{n}: {}", v.0)).collect::<Vec<_>>().join(", ")),
                                T::Fields(vs.into_iter().map(|(n, v)| (n, v.1)).collect())) }
            Ty::CEnum(i) => { let def = self.d.cenums[*i].clone(); let v = self.rng.pick(&def.variants).clone();
                              (format!("{}::{}", def.name, v.0), T::CVariant(v.0)) }
            Ty::Enum(i) => { let def = self.d.enums[*i].clone(); let v = self.rng.pick(&def.variants).clone();
                             match &v.1 {
                                 Payload::Unit => (format!("{}::{}", def.name, v.0), T::Variant(v.0.clone(), vec![])),
                                 Payload::Tuple(ts) => { let vs: Vec<_> = ts.iter().map(|t| self.val(t)).collect();
                                     (format!("{}::{}({})", def.name, v.0, vs.iter().map(|v| v.0.clone()).collect::<Vec<_>>().join(", ")),
                                      T::Variant(v.0.clone(), vs.into_iter().enumerate().map(|(i, v)| (format!("__{i}"), v.1)).collect())) }
                                 Payload::Named(fs) => { let vs: Vec<_> = fs.iter().map(|(n, t)| (n.clone(), self.val(t))).collect();
                                     (format!("{}::{} {{ {} }}", def.name, v.0, vs.iter().map(|(n, v)| format!("{n}: {}", v.0)).collect::<Vec<_>>().join(", ")),
                                      T::Variant(v.0.clone(), vs.into_iter().map(|(n, v)| (n, v.1)).collect())) }
                             } }
            Ty::Opt(t) => if self.rng.chance(1, 3) { ("None".into(), T::Variant("None".into(), vec![])) }
                          else { let v = self.val(t); (format!("Some({})", v.0), T::Variant("Some".into(), vec![("__0".into(), v.1)])) },
            Ty::NonZeroU32 => { let v = *self.rng.pick(&[1u32, 2, 255, 65536, u32::MAX]); (format!("std::num::NonZeroU32::new({v}).unwrap()"), T::Fields(vec![("__0".into(), T::Num(v.to_string()))])) }
            Ty::Array(t, n) => { let vs: Vec<_> = (0..*n).map(|_| self.val(t)).collect();
                                 (format!("[{}]", vs.iter().map(|v| v.0.clone()).collect::<Vec<_>>().join(", ")), T::Seq(vs.into_iter().map(|v| v.1).collect())) }
            Ty::Slice(t) => { let n = self.sizes(); let vs: Vec<_> = (0..n).map(|_| self.val(t)).collect();
                              let ty = self.src(t);
                              (format!("&*Vec::<{ty}>::leak(vec![{}])", vs.iter().map(|v| v.0.clone()).collect::<Vec<_>>().join(", ")), T::Ptr(Box::new(T::Seq(vs.into_iter().map(|v| v.1).collect())))) }
            Ty::Str => { let s = self.small_string(); (format!("{s:?}"), T::Str(s)) }
            Ty::String => { let s = self.small_string(); (format!("String::from({s:?})"), T::Str(s)) }
            Ty::Vec(t) => { let n = self.sizes(); let vs: Vec<_> = (0..n).map(|_| self.val(t)).collect();
                            let ty = self.src(t);
                            let e = match self.rng.below(3) {
                                0 => format!("Vec::<{ty}>::from([{}])", vs.iter().map(|v| v.0.clone()).collect::<Vec<_>>().join(", ")),
                                1 => format!("{{ let mut v = Vec::<{ty}>::with_capacity({}); {} v }}", n + self.rng.below(20) as usize, vs.iter().map(|v| format!("v.push({});", v.0)).collect::<Vec<_>>().join(" ")),
                                _ => format!("{{ let mut v = Vec::<{ty}>::new(); {} v }}", vs.iter().map(|v| format!("v.push({});", v.0)).collect::<Vec<_>>().join(" ")),
                            };
                            (e, T::Seq(vs.into_iter().map(|v| v.1).collect())) }
            Ty::Deque(t) => {
                // logical content = vs; built so that the ring's head is anywhere: `rot` push_back+pop_front cycles first
                let n = self.sizes(); let vs: Vec<_> = (0..n).map(|_| self.val(t)).collect();
                let ty = self.src(t);
                let cap = n + self.rng.below(6) as usize;
                let rot = self.rng.below(3 * (cap as u64 + 1));
                let filler = self.val(t).0;
                let front = self.rng.below(n as u64 + 1) as usize; // this many of the elements are push_front'ed (in reverse)
                let mut body = format!("let mut d = VecDeque::<{ty}>::with_capacity({cap}); for _ in 0..{rot} {{ d.push_back({filler}); d.pop_front(); }} ");
                for v in &vs[front..] { body += &format!("d.push_back({}); ", v.0); }
                for v in vs[..front].iter().rev() { body += &format!("d.push_front({}); ", v.0); }
                (format!("{{ {body} d }}"), T::Seq(vs.into_iter().map(|v| v.1).collect())) }
            Ty::HMap(k, v) => { let n = *self.rng.pick(&[0usize, 1, 2, 3, 7, 14, 15, 29, 40]); let extra = self.rng.below(n as u64 / 2 + 2) as usize;
                                let ks = self.keys(k, n + extra); let (kt, vt) = (self.src(k), self.src(v));
                                let mut body = format!("let mut m = HashMap::<{kt}, {vt}>::new(); ");
                                let mut truth = vec![];
                                let del: Vec<bool> = (0..ks.len()).map(|i| i >= n).collect(); // the last `extra` keys are inserted and removed again (tombstones)
                                let mut order: Vec<usize> = (0..ks.len()).collect();
                                for i in (1..order.len()).rev() { let j = self.rng.below(i as u64 + 1) as usize; order.swap(i, j); }
                                for &i in &order { let vv = self.val(v); body += &format!("m.insert({}, {}); ", ks[i].0, vv.0); if !del[i] { truth.push((ks[i].1.clone(), vv.1)); } }
                                for &i in &order { if del[i] { body += &format!("m.remove(&{}); ", ks[i].0); } }
                                (format!("{{ {body} m }}"), T::Map(truth)) }
            Ty::HSet(k) => { let n = *self.rng.pick(&[0usize, 1, 2, 3, 7, 14, 15, 29, 40]); let extra = self.rng.below(n as u64 / 2 + 2) as usize;
                             let ks = self.keys(k, n + extra); let kt = self.src(k);
                             let mut body = format!("let mut m = HashSet::<{kt}>::new(); ");
                             for kv in &ks { body += &format!("m.insert({}); ", kv.0); }
                             for kv in &ks[n.min(ks.len())..] { body += &format!("m.remove(&{}); ", kv.0); }
                             (format!("{{ {body} m }}"), T::Set(ks[..n.min(ks.len())].iter().map(|k| k.1.clone()).collect())) }
            Ty::BMap(k, v) => { let n = *self.rng.pick(&[0usize, 1, 2, 5, 11, 12, 13, 30, 80, 150]); let extra = self.rng.below(n as u64 / 2 + 2) as usize;
                                let ks = self.keys(k, n + extra); let (kt, vt) = (self.src(k), self.src(v));
                                let mut body = format!("let mut m = BTreeMap::<{kt}, {vt}>::new(); ");
                                let mut truth = vec![];
                                for (i, kv) in ks.iter().enumerate() { let vv = self.val(v); body += &format!("m.insert({}, {}); ", kv.0, vv.0); if i < n { truth.push((kv.1.clone(), vv.1)); } }
                                for kv in &ks[n.min(ks.len())..] { body += &format!("m.remove(&{}); ", kv.0); }
                                (format!("{{ {body} m }}"), T::Map(truth)) }
            Ty::BSet(k) => { let n = *self.rng.pick(&[0usize, 1, 2, 5, 11, 12, 13, 30, 80, 150]); let extra = self.rng.below(n as u64 / 2 + 2) as usize;
                             let ks = self.keys(k, n + extra); let kt = self.src(k);
                             let mut body = format!("let mut m = BTreeSet::<{kt}>::new(); ");
                             for kv in &ks { body += &format!("m.insert({}); ", kv.0); }
                             for kv in &ks[n.min(ks.len())..] { body += &format!("m.remove(&{}); ", kv.0); }
                             (format!("{{ {body} m }}"), T::Set(ks[..n.min(ks.len())].iter().map(|k| k.1.clone()).collect())) }
            Ty::Boxed(t) => { let v = self.val(t); (format!("Box::new({})", v.0), T::Ptr(Box::new(v.1))) }
            Ty::Rc(t) => { let v = self.val(t); (format!("Rc::new({})", v.0), T::Ptr(Box::new(v.1))) }
            Ty::Arc(t) => { let v = self.val(t); (format!("Arc::new({})", v.0), T::Ptr(Box::new(v.1))) }
            Ty::Cell(t) => { let v = self.val(t); (format!("Cell::new({})", v.0), T::Inner(Box::new(v.1))) }
            Ty::RefCell(t) => { let v = self.val(t); (format!("RefCell::new({})", v.0), T::Inner(Box::new(v.1))) }
            Ty::Ref(t) => { let v = self.val(t); let ty = self.src(t); (format!("&*Box::<{ty}>::leak(Box::new({}))", v.0), T::Ptr(Box::new(v.1))) }
            Ty::Raw(t) => { let v = self.val(t); let ty = self.src(t); (format!("(&*Box::<{ty}>::leak(Box::new({})) as *const {ty})", v.0), T::Ptr(Box::new(v.1))) }
        }
    }

}

fn shape_of(t: &T) -> String {
    match t {
        T::Seq(v) => format!("len{}", bucket(v.len())), T::Map(v) => format!("len{}", bucket(v.len())), T::Set(v) => format!("len{}", bucket(v.len())),
        T::Str(s) => format!("len{}", bucket(s.len())), _ => "-".into(),
    }
}
fn bucket(n: usize) -> &'static str { match n { 0 => "0", 1 => "1", 2..=12 => "2-12", 13..=16 => "13-16", 17..=100 => "17-100", _ => ">100" } }

fn defs_text(g: &Gen) -> String {
    let mut s = String::new();
    for d in &g.d.structs {
        s += &format!("struct {} {{ {} }}\n", d.name, d.fields.iter().map(|(n, t)| format!("{n}: {}", g.src(t))).collect::<Vec<_>>().join(", "));
    }
    for d in &g.d.cenums {
        if let Some(r) = d.repr { s += &format!("#[repr({r})] "); }
        s += &format!("#[derive(Clone, Copy, PartialEq, Eq, Hash, PartialOrd, Ord)] enum {} {{ {} }}\n", d.name,
            d.variants.iter().map(|(n, v)| if d.repr.is_some() { format!("{n} = {v}") } else { n.clone() }).collect::<Vec<_>>().join(", "));
    }
    for d in &g.d.enums {
        if let Some(r) = d.repr { s += &format!("#[repr({r})] "); }
        s += &format!("enum {} {{ {} }}\n", d.name, d.variants.iter().map(|(n, p, discr)| {
            let body = match p {
                Payload::Unit => n.clone(),
                Payload::Tuple(ts) => format!("{n}({})", ts.iter().map(|t| g.src(t)).collect::<Vec<_>>().join(", ")),
                Payload::Named(fs) => format!("{n} {{ {} }}", fs.iter().map(|(f, t)| format!("{f}: {}", g.src(t))).collect::<Vec<_>>().join(", ")),
            };
            match discr { Some(d) => format!("{body} = {d}"), None => body }
        }).collect::<Vec<_>>().join(", "));
    }
    s
}

/// profile: mix | scalars | colls | ptrs | bigdeque | deque | hash | btree
pub fn generate(profile: &str, seed: u64, krate: &str) -> Program {
    let mut rng = Rng::new(seed ^ 0xC06);
    let mut g = Gen::new(&mut rng);
    let mut locals: Vec<Var> = vec![];
    let mut lets: Vec<String> = vec![];
    if profile == "witness" {
        g.d.enums.push(EnumDef { name: "W0".into(), repr: Some("u8"), variants: vec![("V0".into(), Payload::Tuple(vec![Ty::Int("u16")]), Some(3)), ("V1".into(), Payload::Unit, Some(255))] });
    }
    if profile == "witness" {
        g.d.cenums.push(CEnumDef { name: "W1".into(), repr: Some("u64"), variants: vec![("W1P".into(), 1), ("W1Q".into(), 9223372036854775808)] });
        g.d.cenums.push(CEnumDef { name: "W2".into(), repr: None, variants: vec![("Only".into(), 0)] });
    }
    let witness: Vec<(Ty, String, T)> = vec![
        (Ty::CEnum(0), "W1::W1Q".into(), T::CVariant("W1Q".into())),
        (Ty::CEnum(1), "W2::Only".into(), T::CVariant("Only".into())),
        (Ty::Opt(Box::new(Ty::Char)), "None".into(), T::Variant("None".into(), vec![])),
        (Ty::CEnum(0), "W1::W1P".into(), T::CVariant("W1P".into())),
        (Ty::Enum(0), "W0::V1".into(), T::Variant("V1".into(), vec![])),
        (Ty::Enum(0), "W0::V0(7)".into(), T::Variant("V0".into(), vec![("__0".into(), T::Num("7".into()))])),
        (Ty::Opt(Box::new(Ty::Int("u128"))), "Some(5u128)".into(), T::Variant("Some".into(), vec![("__0".into(), T::Num("5".into()))])),
        (Ty::Opt(Box::new(Ty::Int("i128"))), "None".into(), T::Variant("None".into(), vec![])),
        (Ty::BMap(Box::new(Ty::Int("u32")), Box::new(Ty::String)), "BTreeMap::new()".into(), T::Map(vec![])),
        (Ty::BSet(Box::new(Ty::Int("i64"))), "BTreeSet::new()".into(), T::Set(vec![])),
        (Ty::Array(Box::new(Ty::Int("u8")), 3), "[1u8, 2, 3]".into(), T::Seq(vec![T::Num("1".into()), T::Num("2".into()), T::Num("3".into())])),
        (Ty::BMap(Box::new(Ty::Int("u32")), Box::new(Ty::Int("u8"))), "{ let mut m = BTreeMap::new(); m.insert(1u32, 2u8); m.remove(&1u32); m }".into(), T::Map(vec![])),
    ];
    let nvars = match profile { "bigdeque" => 2, "scalars" => 24, "witness" => witness.len(), _ => 14 };
    for i in 0..nvars {
        let ty = match profile {
            "witness" => witness[i].0.clone(),
            "scalars" => match i % 4 { 0 | 1 => g.scalar_ty(), 2 => { let d = g.rng.below(2) as u32; g.ty(1 + d) }, _ => Ty::Opt(Box::new(g.scalar_ty())) },
            "colls" => { let e = g.rng.below(2) as u32; let el = Box::new(g.ty(e)); let k = Box::new(g.key_ty(1));
                match i % 7 { 0 => Ty::Vec(el), 1 => Ty::Deque(el), 2 => Ty::HMap(k, el), 3 => Ty::HSet(k), 4 => Ty::BMap(k, el), 5 => Ty::BSet(k), _ => Ty::String } }
            "deque" => { let e = g.rng.below(2) as u32; Ty::Deque(Box::new(g.ty(e))) }
            "hash" => { let e = g.rng.below(2) as u32; let el = Box::new(g.ty(e)); let k = Box::new(g.key_ty(1)); if i % 2 == 0 { Ty::HMap(k, el) } else { Ty::HSet(k) } }
            "btree" => { let e = g.rng.below(2) as u32; let el = Box::new(g.ty(e)); let k = Box::new(g.key_ty(1)); if i % 2 == 0 { Ty::BMap(k, el) } else { Ty::BSet(k) } }
            "ptrs" => { let e = g.rng.below(2) as u32; let el = Box::new(g.ty(e));
                match i % 8 { 0 => Ty::Boxed(el), 1 => Ty::Rc(el), 2 => Ty::Arc(el), 3 => Ty::Cell(Box::new(g.scalar_ty())), 4 => Ty::RefCell(el), 5 => Ty::Ref(el), 6 => Ty::Raw(el), _ => Ty::Slice(el) } }
            "bigdeque" => Ty::Deque(Box::new(Ty::Int("u32"))),
            _ => { let d = g.rng.range(1, 3) as u32; g.ty(d) }
        };
        g.pre.clear();
        let (expr, truth) = if profile == "bigdeque" && i == 0 {
            // the defect repaired by 26a941a: capacity 16000 > CAP_GUARD, head 11990
            ("{ let mut d = VecDeque::<u32>::with_capacity(16000); for i in 0..12000u32 { d.push_back(i); } for _ in 0..11990 { d.pop_front(); } d }".to_string(),
             T::Seq((11990..12000u32).map(|i| T::Num(i.to_string())).collect()))
        } else if profile == "bigdeque" {
            // capacity 16000, head 11990, 12000 elements (wrapped after 4010): the documented guard shows the first LEN_GUARD = 10000 of
            // the logical sequence (4010 from the end of the buffer, 5990 from its start)
            ("{ let mut d = VecDeque::<u32>::with_capacity(16000); for i in 0..12000u32 { d.push_back(i); } for _ in 0..11990 { d.pop_front(); } for i in 12000..23990u32 { d.push_back(i); } d }".to_string(),
             T::Seq((11990..21990u32).map(|i| T::Num(i.to_string())).collect()))
        } else if profile == "witness" { (witness[i].1.clone(), witness[i].2.clone()) } else { g.val(&ty) };
        let name = format!("v{i}");
        lets.push(format!("    let {name}: {} = {expr};", g.src(&ty)));
        let hint = if profile == "bigdeque" { Some("vecdeque-capacity-above-guard-wrong-elements") } else { None };
        locals.push(Var { name, family: g.family(&ty).to_string(), shape: shape_of(&truth), ty, truth, hint });
    }
    // arguments of the probe function: a few by-value and by-reference values
    let mut args: Vec<Var> = vec![];
    let mut arg_exprs = vec![];
    if profile != "bigdeque" {
        for i in 0..(if profile == "witness" { 1 } else { 4 }) {
            let ty = match i { _ if profile == "witness" => Ty::Vec(Box::new(Ty::Int("u64"))), 0 => { let mut t = g.scalar_ty(); while t == Ty::Unit { t = g.scalar_ty(); } t } 1 => Ty::Tuple(vec![Ty::Int(INTS[g.rng.below(12) as usize].0), g.scalar_ty()]), 2 => Ty::Str, _ => { let d = g.rng.below(2) as u32; Ty::Vec(Box::new(g.ty(d))) } };
            let (expr, truth) = g.val(&ty);
            arg_exprs.push(expr);
            args.push(Var { name: format!("a{i}"), family: g.family(&ty).to_string(), shape: shape_of(&truth), ty, truth, hint: None });
        }
    }
    // statics
    let mut statics: Vec<Var> = vec![];
    let mut static_text = String::new();
    if profile != "bigdeque" {
        for i in 0..2 {
            let ty = if i == 0 { Ty::Int(INTS[g.rng.below(12) as usize].0) } else { Ty::Array(Box::new(Ty::Int("u16")), 3) };
            let (expr, truth) = g.val(&ty);
            let name = format!("G{i}_{}", krate.to_uppercase());
            static_text += &format!("static {name}: {} = {expr};\n", g.src(&ty));
            statics.push(Var { name, family: format!("static-{}", g.family(&ty)), shape: shape_of(&truth), ty, truth, hint: None });
        }
    }
    let mut src = String::new();
    src += "// generated by the C06 harness (deterministic: no input, no time; HashMap seeds are per-process and canonicalised)\n";
    src += "#![allow(unused, dead_code, non_upper_case_globals, non_camel_case_types)]\n";
    src += "use std::collections::{VecDeque, HashMap, HashSet, BTreeMap, BTreeSet};\nuse std::rc::Rc; use std::sync::Arc; use std::cell::{Cell, RefCell};\n";
    src += &defs_text(&g);
    src += &static_text;
    src += "#[inline(never)] fn sink<X>(x: &X) { std::hint::black_box(x); }\n";
    let arg_sig = args.iter().map(|a| format!("{}: {}", a.name, g.src(&a.ty))).collect::<Vec<_>>().join(", ");
    src += &format!("#[inline(never)] fn probe({arg_sig}) {{\n");
    src += "    let marker = 7u8;\n";
    let line = |s: &str| s.lines().count() as u64;
    let break_args = line(&src) + 1;
    src += "    sink(&marker);\n";
    for a in &args { src += &format!("    sink(&{});\n", a.name); }
    src += "}\nfn main() {\n";
    for l in &lets { src += l; src += "\n"; }
    for s in &statics { src += &format!("    sink(&{});\n", s.name); }
    let break_locals = line(&src) + 1;
    src += &format!("    sink(&0u8);\n");
    for v in &locals { src += &format!("    sink(&{});\n", v.name); }
    src += &format!("    probe({});\n", arg_exprs.join(", "));
    src += "    println!(\"done\");\n}\n";
    Program { krate: krate.to_string(), source: src, break_locals, break_args, locals, statics, args,
              defs: g.d.clone() }
}
