//! C14: debug registers encode exactly the active watchpoints.
//!  K(i)  the real `DebugControlRegister` / `DebugStatusRegister` operations against the Lean model, exhaustively
//!        over (slot, condition, size) x prior-image classes plus seeded operation chains;
//!  K(ii) live histories on a real debuggee: after every command the harness itself reads u_debugreg[0..7] of
//!        every thread with PTRACE_PEEKUSER and compares with the model's register files (see `live`);
//!  O     the DR7 image decoded directly from the Intel SDM layout (L_i = bit 2i, G_i = bit 2i+1,
//!        RW_i = bits 16+4i..17+4i, LEN_i = bits 18+4i..19+4i) against what was asked / what the API reports.
use crate::util::*;
use bugstalker::debugger::register::debug::{BreakCondition, BreakSize, DebugRegisterNumber};
use bugstalker::debugger::verif::{DebugControlRegister, DebugStatusRegister};
use serde_json::json;

#[path = "c14/live.rs"]
mod live;

// ------------------------------------------------------------------ Intel layout (independent of the code under test)
pub fn intel_l(d: u64, i: u64) -> bool { (d >> (2 * i)) & 1 == 1 }
pub fn intel_g(d: u64, i: u64) -> bool { (d >> (2 * i + 1)) & 1 == 1 }
pub fn intel_rw(d: u64, i: u64) -> u64 { (d >> (16 + 4 * i)) & 3 }
pub fn intel_len(d: u64, i: u64) -> u64 { (d >> (18 + 4 * i)) & 3 }
/// RW encoding: 01 = data writes, 11 = data reads or writes
pub fn intel_rw_of(cond: &str) -> u64 { if cond == "w" { 0b01 } else { 0b11 } }
/// LEN encoding: 00 = 1 byte, 01 = 2 bytes, 10 = 8 bytes, 11 = 4 bytes
pub fn intel_len_of(bytes: u64) -> u64 { match bytes { 1 => 0b00, 2 => 0b01, 8 => 0b10, _ => 0b11 } }

fn cond_of(t: &str) -> Option<BreakCondition> {
    match t { "w" => Some(BreakCondition::DataWrites), "rw" => Some(BreakCondition::DataReadsWrites), _ => None }
}
fn slot_of(t: &str) -> Option<DebugRegisterNumber> { t.parse::<usize>().ok().filter(|n| *n < 4).and_then(DebugRegisterNumber::from_repr) }
fn bool_of(t: &str) -> Option<bool> { match t { "0" => Some(false), "1" => Some(true), _ => None } }

fn prior_images(rng: &mut Rng, extra: u64) -> Vec<u64> {
    let mut v = vec![0u64, u64::MAX, 0xFFFF_FFFF, 0x0000_0000_FFFF_0000, 0x155, 0x2AA, 0x3FF, 0xAAAA_AAAA_AAAA_AAAA, 0x5555_5555_5555_5555];
    for b in 0..64 { v.push(1u64 << b); }
    for b in 0..64 { v.push(!(1u64 << b)); }
    for _ in 0..extra {
        v.push(match rng.below(4) {
            0 => rng.next(),
            1 => rng.next() & 0xFFFF_FFFF,
            2 => rng.next() & rng.next(),
            _ => { // a well-formed image: some slots enabled with valid fields
                let mut d = 0u64;
                for i in 0..4 { if rng.chance(1, 2) { d |= 1 << (2 * i); d |= (*rng.pick(&[1u64, 3])) << (16 + 4 * i); d |= rng.below(4) << (18 + 4 * i); } }
                if d & 0x55 != 0 { d |= 1 << 8; }
                d
            }
        });
    }
    v
}

const CONDS: &[&str] = &["w", "rw"];
const SIZES: &[u64] = &[1, 2, 4, 8];

pub fn gen_requests(rng: &mut Rng, n: u64, out: &mut Out) -> Vec<String> {
    let mut req = vec!["C14 new".to_string()];
    // ---- exhaustive part: every (slot, cond, size) / (slot, global, enable) on every prior-image class
    let priors = prior_images(rng, 40);
    out.count("prior_images", priors.len() as u64);
    for p in &priors {
        for slot in 0..4 {
            for c in CONDS { for s in SIZES {
                req.push(format!("C14 raw7 {p}"));
                req.push(format!("C14 cfg {slot} {c} {s}"));
                out.count("cfg.exhaustive", 1);
            } }
            for g in 0..2 { for e in 0..2 {
                req.push(format!("C14 raw7 {p}"));
                req.push(format!("C14 setdr {slot} {g} {e}"));
                out.count("setdr.exhaustive", 1);
            } }
            for g in 0..2 { req.push(format!("C14 raw7 {p}")); req.push(format!("C14 en {slot} {g}")); out.count("en.exhaustive", 1); }
        }
    }
    for low in 0..16u64 {
        for hi in [0u64, 0xFFFF_0FF0, 0x4000, u64::MAX & !0xF, rng.next() & !0xF] {
            req.push(format!("C14 raw6 {}", hi | low));
            req.push("C14 detect".into());
            req.push("C14 detect".into());
            out.count("detect.exhaustive", 2);
        }
    }
    for b in 0..=260u64 { req.push(format!("C14 size {b}")); out.count("size", 1); }
    // ---- seeded chains: the way the registry uses the register (configure + enable / disable) and arbitrary mixes
    let mut done = 0;
    while done < n {
        req.push("C14 new".into());
        let p = if rng.chance(2, 3) { 0 } else { *rng.pick(&priors) };
        req.push(format!("C14 raw7 {p}"));
        for _ in 0..rng.range(2, 24) {
            done += 1;
            let slot = rng.below(4);
            match rng.below(10) {
                0..=3 => { // enable sequence of HardwareBreakpoint::enable
                    req.push(format!("C14 cfg {slot} {} {}", rng.pick(CONDS), rng.pick(SIZES)));
                    req.push(format!("C14 setdr {slot} 0 1"));
                    out.count("chain.enable", 1);
                }
                4..=5 => { req.push(format!("C14 setdr {slot} 0 0")); out.count("chain.disable", 1); }
                6 => { req.push(format!("C14 setdr {slot} {} {}", rng.below(2), rng.below(2))); out.count("chain.setdr_any", 1); }
                7 => { req.push(format!("C14 cfg {slot} {} {}", rng.pick(CONDS), rng.pick(SIZES))); out.count("chain.cfg", 1); }
                8 => { req.push(format!("C14 en {slot} {}", rng.below(2))); out.count("chain.en", 1); }
                _ => {
                    req.push(format!("C14 raw6 {}", (rng.next() & !0xF & if rng.chance(1, 2) { 0xFFFF_FFFF } else { u64::MAX }) | rng.below(16)));
                    req.push("C14 detect".into());
                    out.count("chain.detect", 1);
                }
            }
        }
    }
    req
}

struct Pure { d7: u64, d6: u64 }

fn exec_pure(st: &mut Pure, line: &str, t: &[&str], out: &mut Out) -> String {
    let rep = |st: &Pure| json!({"line": line, "dr7_before": format!("{:#x}", st.d7), "dr6_before": format!("{:#x}", st.d6)});
    match t {
        ["raw7", n] => match n.parse::<u64>() { Ok(n) => { st.d7 = n; "ok".into() } Err(_) => "bad-op".into() },
        ["raw6", n] => match n.parse::<u64>() { Ok(n) => { st.d6 = n; "ok".into() } Err(_) => "bad-op".into() },
        ["cfg", dr, c, sz] => {
            let (Some(reg), Some(cond), Some(size)) = (slot_of(dr), cond_of(c), sz.parse::<u8>().ok().and_then(|b| BreakSize::try_from(b).ok())) else { return "bad-op".into() };
            let mut r = DebugControlRegister::verif_from_raw(st.d7 as usize);
            r.configure_bp(reg, cond, size);
            let new = r.verif_raw() as u64;
            // O: Intel layout
            let i = reg as u64; let bytes: u64 = sz.parse().unwrap();
            out.oracle_evals += 1;
            let field_mask = 0xFu64 << (16 + 4 * i);
            if intel_rw(new, i) != intel_rw_of(c) {
                out.oracle_fail("dr7-rw-field-wrong", &format!("configure_bp(slot {i}, {c}, {bytes}b) on {:#x} gives {new:#x}: RW{i} = {:#b}, Intel layout wants {:#b}", st.d7, intel_rw(new, i), intel_rw_of(c)), rep(st));
            } else if intel_len(new, i) != intel_len_of(bytes) {
                out.oracle_fail("dr7-len-field-wrong", &format!("configure_bp(slot {i}, {c}, {bytes}b) on {:#x} gives {new:#x}: LEN{i} = {:#b}, Intel layout wants {:#b}", st.d7, intel_len(new, i), intel_len_of(bytes)), rep(st));
            } else if (new & !field_mask) != (st.d7 & !field_mask) {
                out.oracle_fail("dr7-configure-touches-other-bits", &format!("configure_bp(slot {i}) changed bits outside RW{i}/LEN{i}: {:#x} -> {new:#x}", st.d7), rep(st));
            }
            st.d7 = new;
            new.to_string()
        }
        ["setdr", dr, g, e] => {
            let (Some(reg), Some(g), Some(e)) = (slot_of(dr), bool_of(g), bool_of(e)) else { return "bad-op".into() };
            let mut r = DebugControlRegister::verif_from_raw(st.d7 as usize);
            r.set_dr(reg, g, e);
            let new = r.verif_raw() as u64;
            let i = reg as u64;
            out.oracle_evals += 1;
            let en_bit = 2 * i + g as u64;           // L_i = bit 2i, G_i = bit 2i+1
            let exact = if g { 9 } else { 8 };        // LE = bit 8, GE = bit 9
            let others = !((1u64 << en_bit) | (1u64 << exact));
            let any_left = (0..4).any(|k| (new >> (2 * k + g as u64)) & 1 == 1);
            let want_exact = if e { true } else if any_left { (st.d7 >> exact) & 1 == 1 } else { false };
            if ((new >> en_bit) & 1 == 1) != e {
                out.oracle_fail("dr7-enable-bit-wrong", &format!("set_dr(slot {i}, global {g}, enable {e}) on {:#x} gives {new:#x}: bit {en_bit} is not {e}", st.d7), rep(st));
            } else if (new & others) != (st.d7 & others) {
                out.oracle_fail("dr7-setdr-touches-other-bits", &format!("set_dr(slot {i}, global {g}, enable {e}) changed foreign bits: {:#x} -> {new:#x}", st.d7), rep(st));
            } else if ((new >> exact) & 1 == 1) != want_exact {
                out.oracle_fail("dr7-exact-bit-wrong", &format!("set_dr(slot {i}, global {g}, enable {e}): {:#x} -> {new:#x}, bit {exact} should be {want_exact}", st.d7), rep(st));
            }
            st.d7 = new;
            new.to_string()
        }
        ["en", dr, g] => {
            let (Some(reg), Some(g)) = (slot_of(dr), bool_of(g)) else { return "bad-op".into() };
            let got = DebugControlRegister::verif_from_raw(st.d7 as usize).dr_enabled(reg, g);
            out.oracle_evals += 1;
            let want = if g { intel_g(st.d7, reg as u64) } else { intel_l(st.d7, reg as u64) };
            if got != want {
                out.oracle_fail("dr7-enabled-query-wrong", &format!("dr_enabled(slot {}, global {g}) on {:#x} = {got}, Intel layout says {want}", reg as u64, st.d7), rep(st));
            }
            (got as u8).to_string()
        }
        ["detect"] => {
            let mut r = DebugStatusRegister::verif_from_raw(st.d6 as usize);
            let got = r.detect_and_flush().map(|d| d as u64);
            let new = r.verif_raw() as u64;
            out.oracle_evals += 1;
            // DR6: B0..B3 = bits 0..3; the lowest set one is reported and cleared, nothing else changes
            let want = (0..4u64).find(|k| (st.d6 >> k) & 1 == 1);
            let want_new = match want { Some(k) => st.d6 & !(1 << k), None => st.d6 };
            if got != want {
                out.oracle_fail("dr6-detect-wrong-slot", &format!("detect_and_flush on {:#x} = {got:?}, B-bits say {want:?}", st.d6), rep(st));
            } else if new != want_new {
                out.oracle_fail("dr6-flush-wrong", &format!("detect_and_flush on {:#x} leaves {new:#x}, expected {want_new:#x}", st.d6), rep(st));
            }
            st.d6 = new;
            format!("{} {new}", got.map(|k| k.to_string()).unwrap_or("none".into()))
        }
        ["size", n] => {
            let Ok(n) = n.parse::<u64>() else { return "bad-op".into() };
            // the `size > u8::MAX` guard of Watchpoint::from_dqe precedes the conversion
            if n > u8::MAX as u64 { return "err".into(); }
            out.oracle_evals += 1;
            let got = BreakSize::try_from(n as u8).ok().map(|b| b as u64);
            let want = match n { 1 => Some(0b00), 2 => Some(0b01), 8 => Some(0b10), 4 => Some(0b11), _ => None };
            if got != want {
                out.oracle_fail("breaksize-encoding-wrong", &format!("BreakSize::try_from({n}) = {got:?}, Intel LEN encoding is {want:?}"), json!({"line": line}));
            }
            got.map(|c| c.to_string()).unwrap_or("err".into())
        }
        _ => "bad-op".into(),
    }
}

pub fn exec(req: &[String], out: &mut Out, tmpdir: &std::path::Path) {
    // live sessions (all lines from `C14 new live ..` up to the next session start) run first, a few at a time, each
    // in a forked worker; their answers are put in place below
    let mut blocks: Vec<(usize, usize)> = vec![];
    let mut i = 0;
    while i < req.len() {
        let t: Vec<&str> = req[i].split(' ').filter(|x| !x.is_empty()).collect();
        if t.len() >= 3 && t[0] == "C14" && t[1] == "new" && t[2] == "live" {
            let mut j = i + 1;
            while j < req.len() && !req[j].starts_with("C14 new") { j += 1; }
            blocks.push((i, j));
            i = j;
        } else { i += 1; }
    }
    let sessions: Vec<Vec<String>> = blocks.iter().map(|&(a, b)| req[a..b].to_vec()).collect();
    let mut done = live::run_live_sessions(&sessions, tmpdir).into_iter();
    let mut st = Pure { d7: 0, d6: 0 };
    let mut i = 0;
    let mut b = 0;
    while i < req.len() {
        let line = &req[i];
        if b < blocks.len() && blocks[b].0 == i {
            live::account(&req[blocks[b].0..blocks[b].1], done.next().unwrap(), out);
            i = blocks[b].1;
            b += 1;
            continue;
        }
        let t: Vec<&str> = line.split(' ').filter(|x| !x.is_empty()).collect();
        let ans = match t.as_slice() {
            ["C14", "new"] => { st = Pure { d7: 0, d6: 0 }; "ok".to_string() }
            ["C14", rest @ ..] if live::is_live_op(rest) => "no-session".to_string(),
            ["C14", rest @ ..] => {
                let r = std::panic::catch_unwind(std::panic::AssertUnwindSafe(|| exec_pure(&mut st, line, rest, out)));
                r.unwrap_or_else(|_| "panic".into())
            }
            _ => "bad-op".into(),
        };
        if out.samples.len() < 3 && ans != "ok" { out.sample(json!({"request": line, "answer": ans})); }
        out.pair(line.clone(), ans);
        i += 1;
    }
}

pub fn run(args: &[String]) {
    let a = parse_args(args);
    let mut out = Out::new(&a.out);
    let req = match &a.replay {
        Some(f) => read_lines(f),
        None => {
            let mut rng = Rng::new(a.seed);
            let mut r = gen_requests(&mut rng, a.n, &mut out);
            if !a.rest.iter().any(|x| x == "--no-live") { r.extend(live::gen_requests(&mut rng, &a, &mut out)); }
            r
        }
    };
    exec(&req, &mut out, &a.out);
    out.finish();
}
