//! C01: breakpoint stops are exactly the projection of the real execution.
//! Request lines (one session = one debugger on one program):
//!   C01 new <prog> <entry> <exit> <trace> <bytes>   abstract program for the model (from reftrace + the ELF file)
//!   C01 break <gaddr> | C01 remove <gaddr> | C01 start | C01 continue
//!   C01 frame <k> | C01 bt | C01 locals     context-only commands (set_frame_into_focus, backtrace, read_local_variables):
//!       they move / read the exploration context without running the program.  `exec` REWRITES `frame <k>` to
//!       `frame <k> <ip|->` with the ip the debugger's unwinder reported for frame k (`-` = refused), which is what the
//!       model focuses (its theorems hold for every ip); the oracle checks that ip against the reference call chain.
//!       `bt` / `locals` are rewritten to `bt <ok|->` / `locals <ok|->` (did the unwinder / the DWARF evaluation succeed).
//! Answer: `<outcome> p=<text bytes poked during the command, stably sorted by address>`; context-only commands answer
//! `ctx <focus frame> <focus pc>` (the exploration context after the command) or `err`.
use crate::live::*;
use crate::util::*;
use bugstalker::debugger::address::{Address, RelocatedAddress};
use bugstalker::debugger::StopReason;
use serde_json::json;
use std::collections::BTreeSet;

pub const PROGS: &[&str] = &["p1-1.89", "p2-1.89"];

pub fn crate_of(prog: &str) -> &str { prog.split('-').next().unwrap() }

/// instruction addresses executed inside the program's own functions (not std, not the runtime)
pub fn user_pcs(p: &Prog) -> Vec<u64> {
    let c = crate_of(&p.name);
    let pats = [format!("N{}{}", c.len(), c), format!("{c}..")];
    let fns: Vec<(u64, u64)> = p.symbols.iter().filter(|(_, _, n)| pats.iter().any(|q| n.contains(q.as_str()))).map(|(a, s, _)| (*a, *s)).collect();
    let set: BTreeSet<u64> = p.trace.iter().map(|s| s.pc).filter(|pc| fns.iter().any(|(a, s)| pc >= a && *pc < a + s)).collect();
    set.into_iter().collect()
}

pub fn new_line(id: &str, p: &Prog) -> String {
    // original bytes the model may need: every executed pc and every byte of every function the trace enters
    // (breakpoints and temporaries are only ever placed inside such functions)
    let mut pcs: BTreeSet<u64> = p.trace.iter().map(|s| s.pc).collect();
    let mut fns: BTreeSet<(u64, u64)> = BTreeSet::new();
    for a in pcs.clone() { if let Some((s, n, _)) = p.fn_of(a) { fns.insert((*s, *n)); } }
    for (s, n) in fns { for a in s..s + n { pcs.insert(a); } }
    format!("{id} new {} {:x} {} {} {}", p.name, p.entry, p.exit_code,
        enc_list(&p.trace, |s| format!("{:x}", s.pc)),
        enc_list(&pcs.iter().collect::<Vec<_>>(), |a| format!("{:x}:{:x}", a, p.orig_byte(**a).unwrap_or(0))))
}

/// the specification's view of a session, used by the generator to know where the debuggee will be stopped (and how
/// deep its call chain is there) and by the oracle
pub struct SpecSim { pub bset: BTreeSet<u64>, pub idx: usize, pub started: bool, pub exited: bool }

impl SpecSim {
    pub fn new() -> Self { SpecSim { bset: BTreeSet::new(), idx: 0, started: false, exited: false } }
    pub fn stopped(&self) -> bool { self.started && !self.exited }
    /// `start` / `continue`: Some(Some(j)) = stops at trace position j, Some(None) = runs to the exit, None = refused
    pub fn run(&mut self, p: &Prog, start: bool) -> Option<Option<usize>> {
        let legal = if start { !self.started } else { self.started && !self.exited };
        if !legal { return None; }
        let from = if self.started { self.idx + 1 } else { 0 };
        self.started = true;
        let want = (from..p.trace.len()).find(|j| self.bset.contains(&p.trace[*j].pc));
        match want { Some(j) => self.idx = j, None => self.exited = true }
        Some(want)
    }
    /// instruction pointers of the frames of the real call chain at the current stop, innermost first (absolute)
    pub fn frames(&self, p: &Prog) -> Vec<u64> {
        let st = &p.trace[self.idx];
        std::iter::once(p.base + st.pc).chain(st.chain.iter().rev().copied()).collect()
    }
}

/// context-only commands a user interleaves after a stop: with probability 1/3 select a frame of the current call
/// chain (mostly a near caller, sometimes any, sometimes one that does not exist), and/or inspect
pub fn gen_ctx_after_stop(rng: &mut Rng, id: &str, depth: usize, req: &mut Vec<String>, out: &mut Out) {
    if rng.chance(1, 3) {
        let k = match rng.below(10) {
            0..=4 => rng.range(1, depth.clamp(1, 4) as u64),
            5..=7 => rng.range(0, depth as u64),
            8 => 0,
            _ => depth as u64 + 1 + rng.below(3),
        };
        req.push(format!("{id} frame {k}"));
        out.count(if k == 0 { "ctx.frame0" } else if k as usize > depth { "ctx.frame_beyond" } else { "ctx.frame_caller" }, 1);
        if rng.chance(1, 3) { req.push(format!("{id} locals")); out.count("ctx.locals", 1); }
    }
    if rng.chance(1, 6) { req.push(format!("{id} bt")); out.count("ctx.bt", 1); }
}

pub fn gen_requests(rng: &mut Rng, n: u64, out: &mut Out) -> Vec<String> {
    let mut req = vec![];
    for _ in 0..n {
        let name = *rng.pick(PROGS);
        let p = Prog::load(name);
        let cands = user_pcs(&p);
        req.push(new_line("C01", &p));
        out.count(&format!("prog.{name}"), 1);
        let mut set: Vec<u64> = vec![];
        let mut sim = SpecSim::new();
        let pick = |rng: &mut Rng, set: &Vec<u64>| -> u64 {
            if !set.is_empty() && rng.chance(1, 4) { *rng.pick(set) } else { *rng.pick(&cands) }
        };
        for _ in 0..rng.below(5) {
            if !set.is_empty() && rng.chance(1, 5) {
                let a = pick(rng, &set); req.push(format!("C01 remove {a:x}")); set.retain(|x| *x != a); sim.bset.remove(&a); out.count("op.remove_before_start", 1);
            } else {
                let a = pick(rng, &set); req.push(format!("C01 break {a:x}")); if !set.contains(&a) { set.push(a); } sim.bset.insert(a); out.count("op.break_before_start", 1);
            }
        }
        if rng.chance(1, 12) { req.push("C01 continue".into()); out.count("op.continue_before_start", 1); }
        if rng.chance(1, 12) { req.push(format!("C01 {}", rng.pick(&["frame 0", "frame 1", "bt", "locals"]))); out.count("ctx.before_start", 1); }
        req.push("C01 start".into());
        let mut stop = sim.run(&p, true).flatten();
        if let Some(j) = stop { gen_ctx_after_stop(rng, "C01", p.trace[j].chain.len(), &mut req, out); }
        for _ in 0..rng.range(2, 28) {
            match rng.below(10) {
                0..=5 => {
                    req.push("C01 continue".into()); out.count("op.continue", 1);
                    if let Some(r) = sim.run(&p, false) { stop = r; }
                    if let (Some(j), true) = (stop, sim.stopped()) { gen_ctx_after_stop(rng, "C01", p.trace[j].chain.len(), &mut req, out); }
                    else if rng.chance(1, 20) { req.push(format!("C01 {}", rng.pick(&["frame 0", "frame 1", "bt", "locals"]))); out.count("ctx.after_exit", 1); }
                }
                6..=7 => { let a = pick(rng, &set); req.push(format!("C01 break {a:x}")); if !set.contains(&a) { set.push(a); } if !sim.exited { sim.bset.insert(a); } out.count("op.break", 1); }
                8 => { let a = pick(rng, &set); req.push(format!("C01 remove {a:x}")); set.retain(|x| *x != a); if !sim.exited { sim.bset.remove(&a); } out.count("op.remove", 1); }
                _ => { req.push("C01 start".into()); out.count("op.start_again", 1); }
            }
        }
    }
    req
}

/// Independent observer of the ptrace traffic (shares nothing with the model or the debugger's bookkeeping): which text
/// addresses currently carry an INT3 written by the debugger, and whether the FIRST resume (PTRACE_CONT / PTRACE_SINGLESTEP)
/// after a breakpoint stop was reported to the user happens with the INT3 still in place under the thread's pc — then the
/// instruction is not executed, the trap fires again at once and the same arrival is reported twice.
#[derive(Default)]
pub struct ResumeWatch { live_cc: BTreeSet<u64>, reported: Option<u64>, rip: Option<u64> }

impl ResumeWatch {
    /// digest the traffic of one command; returns (pokes answer token, failures)
    pub fn feed(&mut self, p: &Prog, base: u64) -> (String, Vec<String>) {
        let mut v: Vec<(u64, u64)> = vec![];
        let mut fails = vec![];
        for e in ipose::take() {
            if let ipose::Ev::Ptrace { req, addr, data, ret, rip, .. } = e {
                if ret != 0 { continue; }
                match req {
                    libc::PTRACE_POKEDATA | libc::PTRACE_POKETEXT if addr >= base && p.in_text(addr - base) => {
                        v.push((addr - base, data & 0xff));
                        if data & 0xff == 0xCC { self.live_cc.insert(addr - base); } else { self.live_cc.remove(&(addr - base)); }
                    }
                    libc::PTRACE_GETREGS | libc::PTRACE_SETREGS => self.rip = Some(rip.wrapping_sub(base)),
                    libc::PTRACE_CONT | libc::PTRACE_SINGLESTEP => {
                        if let Some(x) = self.reported.take() && self.live_cc.contains(&x) && self.rip.is_none_or(|r| r == x) {
                            fails.push(format!("the first {} after the stop at {x:x} was reported is issued with the INT3 still at {x:x}: the instruction there cannot execute, the same arrival traps again",
                                if req == libc::PTRACE_CONT { "PTRACE_CONT" } else { "PTRACE_SINGLESTEP" }));
                        }
                        self.rip = None;
                    }
                    _ => {}
                }
            }
        }
        v.sort_by_key(|x| x.0); // stable
        (enc_list(&v, |x| format!("{:x}:{:x}", x.0, x.1)), fails)
    }
    /// the command answered `stop <x>`
    pub fn stop_reported(&mut self, x: u64) { self.reported = Some(x); }
    pub fn no_stop(&mut self) { self.reported = None; }
}

/// stack pointer of the stopped debuggee, read straight through ptrace (not through the debugger)
fn raw_rsp(pid: i32) -> Option<u64> {
    let mut regs: libc::user_regs_struct = unsafe { std::mem::zeroed() };
    let r = unsafe { libc::ptrace(libc::PTRACE_GETREGS, pid, 0usize, &mut regs as *mut _ as usize) };
    if r == 0 { Some(regs.rsp) } else { None }
}

/// the exploration context as the answer of a context-only command
pub fn ctx_answer(live: &Live, base: u64) -> String {
    let e = live.dbg.ecx();
    format!("ctx {} {:x}", e.frame_num(), u64::from(e.location().pc).wrapping_sub(base))
}

/// `frame <k>` / `bt` / `locals` on the real debugger. Returns (rewritten request, answer, oracle failures).
/// `frames` = the real call chain at the current stop (innermost first, absolute ips) when the specification says the
/// debuggee is stopped.
pub fn ctx_command(id: &str, t: &[&str], live: &mut Live, base: u64, frames: Option<&[u64]>, emit: &mut dyn FnMut(String)) -> Option<(String, String, Vec<(String, String)>)> {
    let mut fails = vec![];
    match t {
        ["frame", k, ..] => {
            let k: u32 = k.parse().unwrap_or(u32::MAX);
            match live.dbg.set_frame_into_focus(k) {
                Ok(_) => {
                    let ip = u64::from(live.dbg.ecx().location().pc);
                    match frames {
                        Some(fr) => match fr.get(k as usize) {
                            Some(want) if *want == ip => {}
                            Some(want) => fails.push(("focused-frame-is-not-the-kth-frame-of-the-call-chain".to_string(),
                                format!("frame {k}: focus ip {:x}, frame {k} of the reference call chain is at {:x}", ip.wrapping_sub(base), want.wrapping_sub(base)))),
                            None => fails.push(("frame-selected-beyond-the-call-chain".to_string(),
                                format!("frame {k} accepted (ip {:x}), the reference call chain has {} frames", ip.wrapping_sub(base), fr.len()))),
                        },
                        None => {}
                    }
                    Some((format!("{id} frame {k} {:x}", ip.wrapping_sub(base)), ctx_answer(live, base), fails))
                }
                Err(_) => {
                    // refusing a frame that exists is C05's subject (the backtrace is cut at a repeated return address): counted only
                    if let Some(fr) = frames && (k as usize) < fr.len() { emit("!count ctx.frame-refused-inside-chain".into()); }
                    Some((format!("{id} frame {k} -"), "err".into(), fails))
                }
            }
        }
        // whether the unwinder / the DWARF evaluation succeed at the focused pc is not C01's subject (C05, C06, C19): the outcome
        // travels in the request (`ok` / `-`); what is compared is the exploration context afterwards
        ["bt", ..] => {
            let pid = live.dbg.ecx().pid_on_focus();
            let ok = live.dbg.backtrace(pid).is_ok();
            Some((format!("{id} bt {}", if ok { "ok" } else { "-" }), if ok { ctx_answer(live, base) } else { "err".into() }, fails))
        }
        ["locals", ..] => {
            let ok = live.dbg.read_local_variables().map(|v| v.len()).is_ok();
            Some((format!("{id} locals {}", if ok { "ok" } else { "-" }), if ok { ctx_answer(live, base) } else { "err".into() }, fails))
        }
        _ => None,
    }
}

/// one session inside a worker process; emits `request<TAB>answer` lines (the request as rewritten with the observed frame
/// ips), oracle failures as `!oracle <json>` lines
fn session(lines: &[String], emit: &mut dyn FnMut(String)) {
    let t: Vec<&str> = lines[0].split(' ').collect();
    let p = Prog::load(t[2]);
    // the abstract program sent to the model must be the one of this binary
    if lines[0] != new_line("C01", &p) { emit(format!("{}\tstale-program", lines[0])); return; }
    let mut live = match Live::launch(&p) { Ok(l) => l, Err(e) => { emit(format!("{}\tlaunch-failed {e}", lines[0])); return; } };
    emit(format!("{}\tok", lines[0]));
    ipose::enable();
    let base = p.base;
    // oracle state: the specification's view
    let mut sim = SpecSim::new();
    // real stack pointer - stack pointer of the reference run: constant over a run of a deterministic program (the environment
    // strings of the two runs differ in size); fixed at the first stop
    let mut shift: Option<i128> = None;
    let mut watch = ResumeWatch::default();
    for line in &lines[1..] {
        let t: Vec<&str> = line.split(' ').collect();
        let mut req = line.clone();
        let ans = match t.as_slice() {
            ["C01", "break", a] => {
                let a = u64::from_str_radix(a, 16).unwrap();
                let r = live.dbg.set_breakpoint_at_addr(RelocatedAddress::from(base + a)).map(|_| ());
                if r.is_ok() { sim.bset.insert(a); }
                if r.is_ok() { "ok".to_string() } else { "err".into() }
            }
            ["C01", "remove", a] => {
                let a = u64::from_str_radix(a, 16).unwrap();
                match live.dbg.remove_breakpoint(Address::Relocated(RelocatedAddress::from(base + a))) {
                    Ok(Some(_)) => { sim.bset.remove(&a); "ok".into() }
                    Ok(None) => "none".to_string(),
                    Err(_) => "err".into(),
                }
            }
            ["C01", c @ ("start" | "continue")] => {
                let r = if *c == "start" { live.dbg.start_debugee_with_reason() } else { live.dbg.continue_debugee_with_reason() };
                let ans = match &r {
                    Ok(StopReason::Breakpoint(_, pc)) => format!("stop {:x}", u64::from(*pc).wrapping_sub(base)),
                    Ok(StopReason::DebugeeExit(code)) => format!("exit {code}"),
                    Ok(other) => format!("other {other:?}").replace(' ', "_"),
                    Err(_) => "err".into(),
                };
                // ---- oracle: projection of the reference trace on the current breakpoint set
                let from = if sim.started { sim.idx + 1 } else { 0 };
                match sim.run(&p, *c == "start") {
                    Some(want) => {
                        let want_s = match want { Some(j) => format!("stop {:x}", p.trace[j].pc), None => format!("exit {}", p.exit_code) };
                        if ans != want_s {
                            emit(format!("!oracle {}", json!({"key": "stop-is-not-the-projection-of-the-execution",
                                "what": format!("{line}: debugger reports `{ans}`, the reference trace restricted to the breakpoints {:x?} says `{want_s}` (trace position {from})", sim.bset),
                                "replay": {"prog": p.name, "line": line}})));
                        } else if let (Some(j), Some(rsp)) = (want, raw_rsp(live.pid())) {
                            // ---- oracle: after a reported stop the exploration context is the stop location, frame 0 (whatever
                            // frame the user had selected before)
                            let e = live.dbg.ecx();
                            if e.frame_num() != 0 || u64::from(e.location().pc) != base + p.trace[j].pc {
                                emit(format!("!oracle {}", json!({"key": "exploration-context-after-a-stop-is-not-the-stop-location",
                                    "what": format!("{line}: debugger reports `{ans}`, its exploration context is frame {} pc {:x}", e.frame_num(), u64::from(e.location().pc).wrapping_sub(base)),
                                    "replay": {"prog": p.name, "line": line}})));
                            }
                            // ---- oracle: the stop is THAT arrival: the debuggee's stack pointer is the one the reference run has there
                            // (an arrival reported twice, or a later arrival at the same address in another activation, has another one)
                            let sh = rsp as i128 - p.trace[j].rsp as i128;
                            if shift.is_none() { shift = Some(sh); }
                            if shift != Some(sh) {
                                emit(format!("!oracle {}", json!({"key": "stop-is-not-the-arrival-the-execution-has-reached",
                                    "what": format!("{line}: debugger reports `{ans}` as the reference trace does for position {j}, but the stack pointer {rsp:x} is not the one of that arrival ({:x} + {:x})", p.trace[j].rsp, shift.unwrap()),
                                    "replay": {"prog": p.name, "line": line}})));
                            }
                        }
                    }
                    None => if ans != "err" {
                        emit(format!("!oracle {}", json!({"key": "run-command-accepted-in-wrong-state", "what": format!("{line} answered {ans}"), "replay": {"prog": p.name}})));
                    }
                }
                ans
            }
            ["C01", rest @ ..] => {
                let frames = if sim.stopped() { Some(sim.frames(&p)) } else { None };
                match ctx_command("C01", rest, &mut live, base, frames.as_deref(), emit) {
                    Some((r, ans, fails)) => {
                        req = r;
                        for (key, what) in fails {
                            emit(format!("!oracle {}", json!({"key": key, "what": format!("{line}: {what}"), "replay": {"prog": p.name, "line": line}})));
                        }
                        // ---- oracle: a context-only command is refused exactly when there is no stopped debuggee
                        if !sim.stopped() && ans != "err" {
                            emit(format!("!oracle {}", json!({"key": "context-command-accepted-without-a-stopped-debuggee", "what": format!("{line} answered {ans}"), "replay": {"prog": p.name}})));
                        }
                        ans
                    }
                    None => "bad-op".into(),
                }
            }
            _ => "bad-op".into(),
        };
        // ---- oracle (ptrace boundary): never resume onto the INT3 of the stop that was just reported
        let (pokes, resume_fails) = watch.feed(&p, base);
        for what in resume_fails {
            emit(format!("!oracle {}", json!({"key": "resumed-onto-the-breakpoint-just-reported", "what": format!("{line}: {what}"), "replay": {"prog": p.name, "line": line}})));
        }
        if matches!(t.get(1).copied(), Some("start" | "continue")) {
            match ans.strip_prefix("stop ").and_then(|x| u64::from_str_radix(x, 16).ok()) { Some(x) => watch.stop_reported(x), None => if ans != "err" { watch.no_stop() } }
        }
        // ---- oracle: the text differs from the ELF image exactly at the breakpoints (+ the entry point once started)
        if sim.stopped() {
            if let Some(d) = text_diff(&p, live.pid(), base) {
                let mut want: BTreeSet<u64> = sim.bset.clone();
                want.insert(p.entry);
                let got: BTreeSet<u64> = d.keys().copied().collect();
                let bad_bytes: Vec<_> = d.iter().filter(|(_, (_, l))| *l != 0xCC).collect();
                if got != want || !bad_bytes.is_empty() {
                    emit(format!("!oracle {}", json!({"key": "text-differs-from-elf-image-elsewhere-than-at-breakpoints",
                        "what": format!("after `{line}`: patched {:x?}, expected {:x?}, non-INT3 differences {:x?}", got, want, bad_bytes),
                        "replay": {"prog": p.name}})));
                }
            }
        }
        emit(format!("{req}\t{ans} p={pokes}"));
    }
    // program output must be the native one when the session ran to the end
    let got = live.finish();
    if sim.exited {
        if got != p.stdout {
            emit(format!("!oracle {}", json!({"key": "program-output-differs-from-native-run", "what": format!("got {:?} want {:?}", String::from_utf8_lossy(&got), String::from_utf8_lossy(&p.stdout)), "replay": {"prog": p.name}})));
        }
    }
}

pub fn exec(req: &[String], out: &mut Out, tmpdir: &std::path::Path) {
    // split into sessions
    let mut sessions: Vec<Vec<String>> = vec![];
    for l in req {
        if l.starts_with("C01 new ") || sessions.is_empty() { sessions.push(vec![]); }
        sessions.last_mut().unwrap().push(l.clone());
    }
    let results = run_sessions(&sessions, tmpdir, "c01", par_default(), session_timeout(), |s, emit| session(s, emit));
    for (i, (s, (lines, how))) in sessions.iter().zip(results).enumerate() {
        let mut pairs: Vec<(String, String)> = vec![];
        for l in lines {
            if let Some(c) = l.strip_prefix("!count ") { out.count(c, 1); continue; }
            if let Some(j) = l.strip_prefix("!oracle ") {
                let v: serde_json::Value = serde_json::from_str(j).unwrap();
                out.oracle_fail(v["key"].as_str().unwrap(), v["what"].as_str().unwrap(), json!({"session": s.iter().map(|l| short(l)).collect::<Vec<_>>(), "detail": v["replay"]}));
            } else if let Some((r, a)) = l.split_once('\t') { pairs.push((r.to_string(), a.to_string())); }
        }
        out.oracle_evals += pairs.len() as u64;
        if how != "ok" {
            out.oracle_fail("debugger-crashed-or-hung", &format!("worker ended with {how} after {} of {} commands", pairs.len(), s.len()),
                json!({"session": s.iter().map(|l| short(l)).collect::<Vec<_>>()}));
        }
        if i < 3 { out.sample(json!({"session": pairs.iter().map(|(r, a)| format!("{} => {}", short(r), short(a))).collect::<Vec<_>>()})); }
        for (k, l) in s.iter().enumerate() {
            match pairs.get(k) {
                Some((r, a)) => out.pair(r.clone(), a.clone()),
                None => out.pair(l.clone(), format!("worker-{how}")),
            }
        }
    }
}

pub fn short(l: &str) -> String { if l.len() > 120 { format!("{}…", &l[..120]) } else { l.to_string() } }

pub fn run(args: &[String]) {
    let a = parse_args(args);
    let mut out = Out::new(&a.out);
    let req = match &a.replay {
        Some(f) => read_lines(f),
        None => { let mut rng = Rng::new(a.seed); gen_requests(&mut rng, a.n, &mut out) }
    };
    exec(&req, &mut out, &a.out);
    out.finish();
}
