//! C01: breakpoint stops are exactly the projection of the real execution.
//! Request lines (one session = one debugger on one program):
//!   C01 new <prog> <entry> <exit> <trace> <bytes>   abstract program for the model (from reftrace + the ELF file)
//!   C01 break <gaddr> | C01 remove <gaddr> | C01 start | C01 continue
//! Answer: `<outcome> p=<text bytes poked during the command, stably sorted by address>`.
use crate::live::*;
use crate::util::*;
use bugstalker::debugger::address::{Address, RelocatedAddress};
use bugstalker::debugger::StopReason;
use serde_json::json;
use std::collections::BTreeSet;

pub const PROGS: &[&str] = &["p1-1.89", "p2-1.89"];

pub fn crate_of(prog: &str) -> &str { prog.split('-').next().unwrap() }

/// instruction addresses executed inside the program's own functions (not std, not the runtime)
pub fn user_pcs(p: &Prog) -> Vec<u64> {
    let c = crate_of(&p.name);
    let pats = [format!("N{}{}", c.len(), c), format!("{c}..")];
    let fns: Vec<(u64, u64)> = p.symbols.iter().filter(|(_, _, n)| pats.iter().any(|q| n.contains(q.as_str()))).map(|(a, s, _)| (*a, *s)).collect();
    let set: BTreeSet<u64> = p.trace.iter().map(|s| s.pc).filter(|pc| fns.iter().any(|(a, s)| pc >= a && *pc < a + s)).collect();
    set.into_iter().collect()
}

pub fn new_line(id: &str, p: &Prog) -> String {
    // original bytes the model may need: every executed pc and every byte of every function the trace enters
    // (breakpoints and temporaries are only ever placed inside such functions)
    let mut pcs: BTreeSet<u64> = p.trace.iter().map(|s| s.pc).collect();
    let mut fns: BTreeSet<(u64, u64)> = BTreeSet::new();
    for a in pcs.clone() { if let Some((s, n, _)) = p.fn_of(a) { fns.insert((*s, *n)); } }
    for (s, n) in fns { for a in s..s + n { pcs.insert(a); } }
    format!("{id} new {} {:x} {} {} {}", p.name, p.entry, p.exit_code,
        enc_list(&p.trace, |s| format!("{:x}", s.pc)),
        enc_list(&pcs.iter().collect::<Vec<_>>(), |a| format!("{:x}:{:x}", a, p.orig_byte(**a).unwrap_or(0))))
}

pub fn gen_requests(rng: &mut Rng, n: u64, out: &mut Out) -> Vec<String> {
    let mut req = vec![];
    for _ in 0..n {
        let name = *rng.pick(PROGS);
        let p = Prog::load(name);
        let cands = user_pcs(&p);
        req.push(new_line("C01", &p));
        out.count(&format!("prog.{name}"), 1);
        let mut set: Vec<u64> = vec![];
        let pick = |rng: &mut Rng, set: &Vec<u64>| -> u64 {
            if !set.is_empty() && rng.chance(1, 4) { *rng.pick(set) } else { *rng.pick(&cands) }
        };
        for _ in 0..rng.below(5) {
            if !set.is_empty() && rng.chance(1, 5) {
                let a = pick(rng, &set); req.push(format!("C01 remove {a:x}")); set.retain(|x| *x != a); out.count("op.remove_before_start", 1);
            } else {
                let a = pick(rng, &set); req.push(format!("C01 break {a:x}")); if !set.contains(&a) { set.push(a); } out.count("op.break_before_start", 1);
            }
        }
        if rng.chance(1, 12) { req.push("C01 continue".into()); out.count("op.continue_before_start", 1); }
        req.push("C01 start".into());
        for _ in 0..rng.range(2, 28) {
            match rng.below(10) {
                0..=5 => { req.push("C01 continue".into()); out.count("op.continue", 1); }
                6..=7 => { let a = pick(rng, &set); req.push(format!("C01 break {a:x}")); if !set.contains(&a) { set.push(a); } out.count("op.break", 1); }
                8 => { let a = pick(rng, &set); req.push(format!("C01 remove {a:x}")); set.retain(|x| *x != a); out.count("op.remove", 1); }
                _ => { req.push("C01 start".into()); out.count("op.start_again", 1); }
            }
        }
    }
    req
}

fn pokes_since(p: &Prog, base: u64) -> String {
    let mut v: Vec<(u64, u64)> = vec![];
    for e in ipose::take() {
        if let ipose::Ev::Ptrace { req, addr, data, ret, .. } = e
            && (req == libc::PTRACE_POKEDATA || req == libc::PTRACE_POKETEXT) && ret == 0
            && addr >= base && p.in_text(addr - base) {
            v.push((addr - base, data & 0xff));
        }
    }
    v.sort_by_key(|x| x.0); // stable
    enc_list(&v, |x| format!("{:x}:{:x}", x.0, x.1))
}

/// one session inside a worker process; returns answers through `emit`, oracle failures as `!oracle <json>` lines
fn session(lines: &[String], emit: &mut dyn FnMut(String)) {
    let t: Vec<&str> = lines[0].split(' ').collect();
    let p = Prog::load(t[2]);
    // the abstract program sent to the model must be the one of this binary
    if lines[0] != new_line("C01", &p) { emit("stale-program".into()); return; }
    let mut live = match Live::launch(&p) { Ok(l) => l, Err(e) => { emit(format!("launch-failed {e}")); return; } };
    emit("ok".into());
    ipose::enable();
    let base = p.base;
    // oracle state: the specification's view
    let mut bset: BTreeSet<u64> = BTreeSet::new();
    let mut idx: usize = 0;
    let mut started = false;
    let mut exited = false;
    for line in &lines[1..] {
        let t: Vec<&str> = line.split(' ').collect();
        ipose::take();
        let ans = match t.as_slice() {
            ["C01", "break", a] => {
                let a = u64::from_str_radix(a, 16).unwrap();
                let r = live.dbg.set_breakpoint_at_addr(RelocatedAddress::from(base + a)).map(|_| ());
                if r.is_ok() { bset.insert(a); }
                if r.is_ok() { "ok".to_string() } else { "err".into() }
            }
            ["C01", "remove", a] => {
                let a = u64::from_str_radix(a, 16).unwrap();
                match live.dbg.remove_breakpoint(Address::Relocated(RelocatedAddress::from(base + a))) {
                    Ok(Some(_)) => { bset.remove(&a); "ok".into() }
                    Ok(None) => "none".to_string(),
                    Err(_) => "err".into(),
                }
            }
            ["C01", c @ ("start" | "continue")] => {
                let r = if *c == "start" { live.dbg.start_debugee_with_reason() } else { live.dbg.continue_debugee_with_reason() };
                let legal = if *c == "start" { !started } else { started && !exited };
                let ans = match &r {
                    Ok(StopReason::Breakpoint(_, pc)) => format!("stop {:x}", u64::from(*pc).wrapping_sub(base)),
                    Ok(StopReason::DebugeeExit(code)) => format!("exit {code}"),
                    Ok(other) => format!("other {other:?}").replace(' ', "_"),
                    Err(_) => "err".into(),
                };
                // ---- oracle: projection of the reference trace on the current breakpoint set
                if legal {
                    let from = if started { idx + 1 } else { 0 };
                    started = true;
                    let want = (from..p.trace.len()).find(|j| bset.contains(&p.trace[*j].pc));
                    let want_s = match want { Some(j) => format!("stop {:x}", p.trace[j].pc), None => format!("exit {}", p.exit_code) };
                    if ans != want_s {
                        emit(format!("!oracle {}", json!({"key": "stop-is-not-the-projection-of-the-execution",
                            "what": format!("{line}: debugger reports `{ans}`, the reference trace restricted to the breakpoints {:x?} says `{want_s}` (trace position {from})", bset),
                            "replay": {"prog": p.name, "line": line}})));
                    }
                    match want { Some(j) => idx = j, None => { exited = true; } }
                } else if ans != "err" {
                    emit(format!("!oracle {}", json!({"key": "run-command-accepted-in-wrong-state", "what": format!("{line} answered {ans}"), "replay": {"prog": p.name}})));
                }
                ans
            }
            _ => "bad-op".into(),
        };
        let pokes = pokes_since(&p, base);
        // ---- oracle: the text differs from the ELF image exactly at the breakpoints (+ the entry point once started)
        if started && !exited {
            if let Some(d) = text_diff(&p, live.pid(), base) {
                let mut want: BTreeSet<u64> = bset.clone();
                want.insert(p.entry);
                let got: BTreeSet<u64> = d.keys().copied().collect();
                let bad_bytes: Vec<_> = d.iter().filter(|(_, (_, l))| *l != 0xCC).collect();
                if got != want || !bad_bytes.is_empty() {
                    emit(format!("!oracle {}", json!({"key": "text-differs-from-elf-image-elsewhere-than-at-breakpoints",
                        "what": format!("after `{line}`: patched {:x?}, expected {:x?}, non-INT3 differences {:x?}", got, want, bad_bytes),
                        "replay": {"prog": p.name}})));
                }
            }
        }
        emit(format!("{ans} p={pokes}"));
    }
    // program output must be the native one when the session ran to the end
    let got = live.finish();
    if exited {
        if got != p.stdout {
            emit(format!("!oracle {}", json!({"key": "program-output-differs-from-native-run", "what": format!("got {:?} want {:?}", String::from_utf8_lossy(&got), String::from_utf8_lossy(&p.stdout)), "replay": {"prog": p.name}})));
        }
    }
}

pub fn exec(req: &[String], out: &mut Out, tmpdir: &std::path::Path) {
    // split into sessions
    let mut sessions: Vec<Vec<String>> = vec![];
    for l in req {
        if l.starts_with("C01 new ") || sessions.is_empty() { sessions.push(vec![]); }
        sessions.last_mut().unwrap().push(l.clone());
    }
    let results = run_sessions(&sessions, tmpdir, "c01", par_default(), session_timeout(), |s, emit| session(s, emit));
    for (i, (s, (lines, how))) in sessions.iter().zip(results).enumerate() {
        let mut answers: Vec<String> = vec![];
        for l in lines {
            if let Some(j) = l.strip_prefix("!oracle ") {
                let v: serde_json::Value = serde_json::from_str(j).unwrap();
                out.oracle_fail(v["key"].as_str().unwrap(), v["what"].as_str().unwrap(), json!({"session": s.iter().map(|l| short(l)).collect::<Vec<_>>(), "detail": v["replay"]}));
            } else { answers.push(l); }
        }
        out.oracle_evals += answers.len() as u64;
        if how != "ok" {
            out.oracle_fail("debugger-crashed-or-hung", &format!("worker ended with {how} after {} of {} commands", answers.len(), s.len()),
                json!({"session": s.iter().map(|l| short(l)).collect::<Vec<_>>()}));
        }
        if i < 3 { out.sample(json!({"session": s.iter().map(|l| short(l)).collect::<Vec<_>>(), "answers": answers})); }
        for (k, l) in s.iter().enumerate() {
            out.pair(l.clone(), answers.get(k).cloned().unwrap_or_else(|| format!("worker-{how}")));
        }
    }
}

pub fn short(l: &str) -> String { if l.len() > 120 { format!("{}…", &l[..120]) } else { l.to_string() } }

pub fn run(args: &[String]) {
    let a = parse_args(args);
    let mut out = Out::new(&a.out);
    let req = match &a.replay {
        Some(f) => read_lines(f),
        None => { let mut rng = Rng::new(a.seed); gen_requests(&mut rng, a.n, &mut out) }
    };
    exec(&req, &mut out, &a.out);
    out.finish();
}
