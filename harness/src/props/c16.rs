//! C16: injected calls run once and leave no trace.
//! One session = one debugger on the debuggee `c16_calls` (progs-src/c16_calls.rs):
//!   C16 new <prog> <entry> <fns> <bytes>      abstract program for the model: callable functions
//!                                             `name:addr:types` (address from the ELF symbol table, parameter types from
//!                                             the program's source), text bytes `start:hex` of the program's own functions
//!   C16 break <gaddr> | C16 start | C16 continue
//!   C16 fault <KIND> <n>                      the n-th ptrace request of that kind of the NEXT call fails (EIO)
//!   C16 call <fn> <literals>                  rewritten by `exec` with what it observed at the ptrace boundary:
//!        ... <pc> <regs0> <page> <dorder> <eorder>   stop pc, registers of the stopped thread (raw PTRACE_GETREGS of the
//!                                             harness), address the kernel chose for the mmap, order in which the
//!                                             breakpoint HashMap was walked when disabling / re-enabling
//!   C16 finish                                remove all breakpoints, run to the end
//! Answer of a call: `<outcome class> t=<complete ptrace traffic of the call> post=<register diff>;<text word at pc>;<page still mapped>`.
//! The model (lean/BsVerif/Model/Call.lean) predicts all three from the request line.
//! Oracles (independent of the model): the debuggee's own argument log printed at exit vs the literals; raw GETREGS,
//! text vs ELF through /proc/<pid>/mem and /proc/<pid>/maps before/after each call; the program's output after running on
//! vs the native output.
use super::c01::{short, user_pcs};
use crate::live::*;
use crate::util::*;
use bugstalker::debugger::address::{Address, RelocatedAddress};
use bugstalker::debugger::variable::dqe::Literal;
use bugstalker::debugger::{Error, StopReason};
use bugstalker::debugger::call::CallError;
use serde_json::json;
use std::collections::BTreeSet;

pub const PROG: &str = "c16_calls-1.89";

/// callable functions of progs-src/c16_calls.rs: (name, id in the program's log, parameter types) — ground truth from the source
pub const FNS: &[(&str, u64, &[&str])] = &[
    ("f0", 0, &[]), ("f1_u8", 1, &["u1"]), ("f1_i8", 2, &["s1"]), ("f1_u16", 3, &["u2"]), ("f1_i16", 4, &["s2"]),
    ("f1_u32", 5, &["u4"]), ("f1_i32", 6, &["s4"]), ("f1_u64", 7, &["u8"]), ("f1_i64", 8, &["s8"]), ("f1_usize", 9, &["u8"]),
    ("f1_isize", 10, &["s8"]), ("f1_bool", 11, &["bool"]), ("f1_ptr", 12, &["ptr"]), ("f1_char", 13, &["char"]),
    ("f1_f64", 14, &["f64"]), ("f1_pair", 15, &["pair"]), ("f2", 20, &["u1", "s4"]), ("f3", 21, &["s2", "u8", "bool"]),
    ("f4", 22, &["u4", "s1", "ptr", "u2"]), ("f5", 23, &["s8", "u1", "s4", "bool", "u8"]),
    ("f6", 24, &["u1", "s2", "u4", "s8", "bool", "ptr"]), ("f6w", 25, &["u8", "u8", "u8", "u8", "u8", "u8"]),
    ("f7", 26, &["u8", "u8", "u8", "u8", "u8", "u8", "u8"]),
];

const REG_ORDER: usize = 27; // kernel user_regs_struct, in ABI order
fn regs_vec(r: &libc::user_regs_struct) -> [u64; REG_ORDER] {
    // order of `enum Register` / `struct RegisterMap` (tools/tables/regs.py: structFields)
    [r.rax, r.rbx, r.rcx, r.rdx, r.rdi, r.rsi, r.rbp, r.rsp, r.r8, r.r9, r.r10, r.r11, r.r12, r.r13, r.r14, r.r15, r.rip,
     r.eflags, r.cs, r.orig_rax, r.fs_base, r.gs_base, r.fs, r.gs, r.ss, r.ds, r.es]
}
fn regs_diff(a: &[u64; REG_ORDER], b: &[u64; REG_ORDER]) -> String {
    let d: Vec<String> = (0..REG_ORDER).filter(|i| a[*i] != b[*i]).map(|i| format!("{i}.{:x}", b[i])).collect();
    if d.is_empty() { "-".into() } else { d.join("/") }
}
fn raw_getregs(pid: i32) -> Option<libc::user_regs_struct> {
    let mut r: libc::user_regs_struct = unsafe { std::mem::zeroed() };
    let ret = unsafe { libc::ptrace(libc::PTRACE_GETREGS, pid, 0usize, &mut r as *mut _ as usize) };
    if ret == 0 { Some(r) } else { None }
}

fn fn_symbol(p: &Prog, name: &str) -> Option<(u64, u64)> {
    let pat = format!("9c16_calls{}{}17h", name.len(), name);
    p.symbols.iter().find(|(_, _, n)| n.contains(&pat)).map(|(a, s, _)| (*a, *s))
}

/// the program's own functions + the callable ones: (start, size)
fn own_fns(p: &Prog) -> Vec<(u64, u64)> {
    let mut v: Vec<(u64, u64)> = p.symbols.iter().filter(|(_, _, n)| n.contains("N9c16_calls") || n.contains("c16_calls.."))
        .map(|(a, s, _)| (*a, *s)).collect();
    v.sort(); v.dedup();
    v
}

/// text segments shipped to the model: the program's own functions (+8 bytes: a word read at the last instruction) and the entry point
fn segs(p: &Prog) -> Vec<(u64, u64)> {
    let mut v: Vec<(u64, u64)> = own_fns(p).iter().map(|(a, s)| (*a, s + 8)).collect();
    v.push((p.entry, 16));
    v
}
fn in_segs(p: &Prog, a: u64) -> bool { segs(p).iter().any(|(s, n)| a >= *s && a < s + n) }

/// the 8 bytes at `addr` as the file that backs the mapping holds them (independent of ptrace)
fn file_word(pid: i32, addr: u64) -> Option<u64> {
    use std::io::{Read, Seek, SeekFrom};
    let maps = std::fs::read_to_string(format!("/proc/{pid}/maps")).ok()?;
    for l in maps.lines() {
        let mut it = l.split_whitespace();
        let (a, b) = it.next()?.split_once('-')?;
        let (a, b) = (u64::from_str_radix(a, 16).ok()?, u64::from_str_radix(b, 16).ok()?);
        if addr < a || addr + 8 > b { continue; }
        let _perms = it.next()?;
        let off = u64::from_str_radix(it.next()?, 16).ok()?;
        let path = it.nth(2)?;
        let mut f = std::fs::File::open(path).ok()?;
        f.seek(SeekFrom::Start(off + (addr - a))).ok()?;
        let mut buf = [0u8; 8];
        f.read_exact(&mut buf).ok()?;
        return Some(u64::from_le_bytes(buf));
    }
    None
}

pub fn new_line(p: &Prog) -> String {
    let fns: Vec<String> = FNS.iter().map(|(n, _, tys)| {
        let (a, sz) = fn_symbol(p, n).unwrap_or((0, 0));
        format!("{n}:{a:x}:{sz:x}:{}", if tys.is_empty() { "-".to_string() } else { tys.join("+") })
    }).collect();
    let (ra, rs) = fn_symbol(p, "record").unwrap_or((0, 0));
    let bytes: Vec<String> = segs(p).iter().map(|(a, n)| {
        let h: String = (*a..a + n).map(|x| format!("{:02x}", p.orig_byte(x).unwrap_or(0))).collect();
        format!("{a:x}:{h}")
    }).collect();
    format!("C16 new {} {:x} {:x} {} {ra:x}:{rs:x} {}", p.name, p.base, p.entry, fns.join(","), bytes.join(","))
}

/// stop candidates: executed instruction addresses inside the program's own functions and inside the callables it runs itself
fn stop_pcs(p: &Prog) -> Vec<u64> {
    let mut s: BTreeSet<u64> = user_pcs(p).into_iter().collect();
    let fns = own_fns(p);
    for st in &p.trace { if fns.iter().any(|(a, n)| st.pc >= *a && st.pc < a + n) { s.insert(st.pc); } }
    s.into_iter().collect()
}

// ---------------------------------------------------------------- literals
fn lit_tok(l: &Literal) -> String {
    match l {
        Literal::Int(i) => format!("i{i}"),
        Literal::Bool(b) => format!("b{}", *b as u8),
        Literal::Address(a) => format!("a{a:x}"),
        Literal::String(_) => "s".into(),
        Literal::Float(_) => "f".into(),
        _ => "o".into(),
    }
}
fn lit_parse(t: &str) -> Option<Literal> {
    let (k, r) = t.split_at(1);
    Some(match k {
        "i" => Literal::Int(r.parse().ok()?),
        "b" => Literal::Bool(r == "1"),
        "a" => Literal::Address(usize::from_str_radix(r, 16).ok()?),
        "s" => Literal::String("str".into()),
        "f" => Literal::Float(1.5),
        _ => return None,
    })
}

/// specification of literal -> parameter (independent of the code): Some(value the callee must log) | None = must be refused
fn spec_arg(l: &Literal, ty: &str) -> Option<u64> {
    let int_range = |ty: &str| -> Option<(i128, i128)> {
        let (sg, n) = ty.split_at(1);
        let bits = 8 * n.parse::<u32>().ok()?;
        match sg { "u" => Some((0, (1i128 << bits) - 1)), "s" => Some((-(1i128 << (bits - 1)), (1i128 << (bits - 1)) - 1)), _ => None }
    };
    match (l, ty) {
        (Literal::Int(v), t) if int_range(t).is_some() => {
            let (lo, hi) = int_range(t).unwrap();
            if (*v as i128) >= lo && (*v as i128) <= hi { Some(*v as u64) } else { None }
        }
        (Literal::Bool(b), "bool") => Some(*b as u64),
        (Literal::Address(a), "ptr") => Some(*a as u64),
        _ => None,
    }
}

fn gen_lit(rng: &mut Rng, ty: &str, out: &mut Out) -> Literal {
    let int_lit = |rng: &mut Rng, sg: &str, bits: u32, out: &mut Out| -> Literal {
        let (lo, hi): (i128, i128) = if sg == "u" { (0, (1i128 << bits) - 1) } else { (-(1i128 << (bits - 1)), (1i128 << (bits - 1)) - 1) };
        let clamp = |v: i128| v.clamp(i64::MIN as i128, i64::MAX as i128) as i64;
        let v = match rng.below(10) {
            0 => { out.count("lit.int.lo", 1); clamp(lo) }
            1 => { out.count("lit.int.hi", 1); clamp(hi) }
            2 => { out.count("lit.int.out-of-range", 1); clamp(hi + 1 + rng.below(300) as i128) }
            3 => { out.count("lit.int.out-of-range", 1); clamp(lo - 1 - rng.below(300) as i128) }
            4 => { out.count("lit.int.small", 1); rng.below(100) as i64 }
            5 => { out.count("lit.int.out-of-range-or-wide", 1); rng.next() as i64 }
            _ => { out.count("lit.int.in-range", 1); let span = (hi - lo + 1) as u128; clamp(lo + (rng.next() as u128 % span.max(1)) as i128) }
        };
        Literal::Int(v)
    };
    // now and then a literal of the wrong kind
    if rng.chance(1, 12) {
        out.count("lit.wrong-kind", 1);
        return match rng.below(5) { 0 => Literal::Bool(true), 1 => Literal::Address(0x7000 + rng.below(64) as usize), 2 => Literal::String("str".into()), 3 => Literal::Float(1.5), _ => Literal::Int(1) };
    }
    match ty {
        "bool" => { out.count("lit.bool", 1); Literal::Bool(rng.chance(1, 2)) }
        "ptr" => { out.count("lit.addr", 1); Literal::Address(if rng.chance(1, 4) { rng.next() as usize } else { 0x1000 * rng.range(1, 4096) as usize }) }
        "char" | "f64" | "pair" => { out.count("lit.for-unsupported-type", 1); Literal::Int(rng.below(128) as i64) }
        t => { let (sg, n) = t.split_at(1); int_lit(rng, sg, 8 * n.parse::<u32>().unwrap(), out) }
    }
}

pub fn gen_requests(rng: &mut Rng, n: u64, out: &mut Out) -> Vec<String> {
    let p = Prog::load(PROG);
    let cands = stop_pcs(&p);
    let in_fn = |pat: &str| -> Vec<u64> { cands.iter().copied().filter(|a| p.fn_of(*a).map(|f| f.2.contains(pat)).unwrap_or(false)).collect() };
    let (leaf, spin, main, f3) = (in_fn("4leaf"), in_fn("4spin"), in_fn("4main"), p.fn_of(fn_symbol(&p, "f3").unwrap().0).map(|f| cands.iter().copied().filter(|a| *a >= f.0 && *a < f.0 + f.1).collect::<Vec<_>>()).unwrap_or_default());
    let mut req = vec![];
    for _ in 0..n {
        req.push(new_line(&p));
        let nb = rng.range(1, 3);
        let mut chosen: Vec<u64> = vec![];
        for _ in 0..nb {
            let (kind, a) = match rng.below(10) {
                0..=1 if !main.is_empty() => ("main", *rng.pick(&main)),
                2..=3 if !spin.is_empty() => ("loop", *rng.pick(&spin)),
                4..=5 if !f3.is_empty() => ("callee", *rng.pick(&f3)),
                6 if !leaf.is_empty() => ("leaf", *rng.pick(&leaf)),
                _ => ("any", *rng.pick(&cands)),
            };
            if chosen.contains(&a) { continue; }
            chosen.push(a);
            out.count(&format!("stop.{kind}"), 1);
            req.push(format!("C16 break {a:x}"));
        }
        req.push("C16 start".into());
        // how often the reference execution reaches one of the breakpoints = how many stops there are
        let hits = p.trace.iter().filter(|st| chosen.contains(&st.pc)).count() as u64;
        out.count(if hits == 0 { "session.no-stop" } else { "session.with-stops" }, 1);
        let fault_session = rng.chance(1, 3);
        let stops = rng.range(1, 4).min(hits.max(1));
        for s in 0..stops {
            for _ in 0..rng.range(1, 3) {
                let (name, _, tys) = if rng.chance(1, 25) { ("nosuch_fn", 0, &[][..]) } else {
                    // spread over the argument counts: pick the count first
                    let want = rng.below(8) as usize;
                    let cands: Vec<&(&str, u64, &[&str])> = FNS.iter().filter(|f| f.2.len() == want).collect();
                    let f = if cands.is_empty() { rng.pick(FNS) } else { *rng.pick(&cands) };
                    (f.0, f.1, f.2) };
                let mut lits: Vec<Literal> = tys.iter().map(|t| gen_lit(rng, t, out)).collect();
                if rng.chance(1, 15) { if rng.chance(1, 2) { lits.pop(); } else { lits.push(Literal::Int(3)); } out.count("call.wrong-count", 1); }
                out.count(&format!("call.nargs.{}", lits.len()), 1);
                if fault_session && s + 1 == stops && rng.chance(1, 2) {
                    let kind = *rng.pick(&["POKE", "POKE", "PEEK", "STEP", "CONT", "SETREGS", "SETREGS", "GETREGS", "GETREGS"]);
                    let nth = rng.range(1, match kind { "POKE" => 12, "PEEK" => 7, "SETREGS" => 7, "GETREGS" => 4, "STEP" => 3, _ => 1 });
                    req.push(format!("C16 fault {kind} {nth}"));
                    out.count(&format!("fault.{kind}"), 1);
                }
                req.push(format!("C16 call {name} {}", enc_list(&lits, lit_tok)));
            }
            if s + 1 < stops { req.push("C16 continue".into()); }
        }
        req.push("C16 finish".into());
    }
    req
}

fn err_class(e: &Error) -> &'static str {
    match e {
        Error::Call(CallError::InvalidArgumentCount(..)) => "e-argcount",
        Error::Call(CallError::TooManyArguments) => "e-toomany",
        Error::Call(CallError::UnsupportedLiteral(_)) => "e-unsuplit",
        Error::Call(CallError::UnknownArgumentType(_)) => "e-unktype",
        Error::Call(CallError::LiteralCast(..)) => "e-litcast",
        Error::Call(CallError::UnsupportedArgumentType(..)) => "e-unsuparg",
        Error::Call(CallError::FunctionNotFoundOrTooMany) => "e-notfound",
        Error::Call(CallError::Mmap) => "e-mmap",
        Error::Call(CallError::Munmap) => "e-munmap",
        Error::Call(CallError::Jmp) => "e-jmp",
        Error::Ptrace(_) => "e-ptrace",
        Error::Waitpid(_) => "e-wait",
        Error::ProcessNotStarted => "e-notstarted",
        _ => "e-other",
    }
}

struct Traffic { digest: String, page: u64, dorder: Vec<String>, eorder: Vec<String> }

/// canonical rendering of the ptrace traffic of one call
fn traffic(p: &Prog, pid: i32, base: u64, regs0: &[u64; REG_ORDER], new_maps: &[(u64, u64)]) -> Traffic {
    let (evs, regs) = ipose::take_with_regs();
    let mut items: Vec<(char, u64, String)> = vec![]; // (kind, raw address, rendering)
    let mut page = 0u64;
    let mut after_step = false;
    let mut seen_step = false;
    // first pass: find the page = rax of the GETREGS that follows the first SINGLESTEP
    for (i, e) in evs.iter().enumerate() {
        if let ipose::Ev::Ptrace { req, ret, .. } = e {
            if *req == libc::PTRACE_SINGLESTEP && !seen_step { seen_step = true; after_step = *ret == 0; }
            else if *req == libc::PTRACE_GETREGS && after_step {
                if let Some((_, r)) = regs.iter().find(|(j, _)| *j == i) { page = r.rax; }
                break;
            }
        }
    }
    // the GETREGS after the mmap step failed (injected fault): the page is whatever mapping appeared
    if page == 0 && seen_step && new_maps.len() == 1 { page = new_maps[0].0; }
    let addr_s = |a: u64| -> String {
        if page != 0 && page != u64::MAX && a >= page && a < page + 4096 { format!("p{:x}", a - page) }
        else if a >= base && in_segs(p, a - base) { format!("t{:x}", a - base) }
        else { format!("x{a:x}") }
    };
    for (i, e) in evs.iter().enumerate() {
        if let ipose::Ev::Ptrace { req, addr, data, ret, errno, .. } = e {
            let is_peek = *req == libc::PTRACE_PEEKDATA || *req == libc::PTRACE_PEEKTEXT;
            let failed = if is_peek { *errno != 0 } else { *ret != 0 };
            let bang = if failed { "!" } else { "" };
            let it = match *req {
                r if r == libc::PTRACE_PEEKDATA || r == libc::PTRACE_PEEKTEXT => ('K', *addr, format!("K{}{bang}", addr_s(*addr))),
                r if r == libc::PTRACE_POKEDATA || r == libc::PTRACE_POKETEXT => ('W', *addr, format!("W{}={:x}{bang}", addr_s(*addr), data)),
                libc::PTRACE_GETREGS => ('G', 0, format!("G{bang}")),
                libc::PTRACE_SETREGS => {
                    let d = regs.iter().find(|(j, _)| *j == i).map(|(_, r)| regs_diff(regs0, &regs_vec(r))).unwrap_or_else(|| "?".into());
                    ('S', 0, format!("S{d}{bang}"))
                }
                libc::PTRACE_SINGLESTEP => ('T', 0, format!("T{bang}")),
                libc::PTRACE_CONT => ('C', 0, format!("C{bang}")),
                r => ('?', 0, format!("?{r}{bang}")),
            };
            items.push(it);
        }
    }
    // page-relative rendering of register VALUES equal to page-derived addresses is not needed: the model is given `page`
    let ord = |a: u64| -> String {
        if a >= base && in_segs(p, a - base) { format!("t{:x}", a - base) } else { format!("x{a:x}.{:x}", file_word(pid, a).unwrap_or(0)) }
    };
    let lead: Vec<String> = items.iter().take_while(|x| x.0 == 'K' || x.0 == 'W').filter(|x| x.0 == 'K').map(|x| ord(x.1)).collect();
    let mut trail: Vec<String> = items.iter().rev().take_while(|x| x.0 == 'K' || x.0 == 'W').filter(|x| x.0 == 'K').map(|x| ord(x.1)).collect();
    trail.reverse();
    let digest = if items.is_empty() { "-".to_string() } else { items.iter().map(|x| x.2.clone()).collect::<Vec<_>>().join(",") };
    Traffic { digest, page, dorder: lead, eorder: trail }
}

fn hexlist(v: &[String]) -> String { enc_list(v, |a| a.clone()) }

/// is `obs` a merge of `a` and `b` (both orders kept)?
fn is_merge(obs: &[String], a: &[String], b: &[String]) -> bool {
    if obs.len() != a.len() + b.len() { return false; }
    let mut reach = vec![vec![false; b.len() + 1]; a.len() + 1];
    reach[0][0] = true;
    for i in 0..=a.len() { for j in 0..=b.len() {
        if !reach[i][j] { continue; }
        if i < a.len() && obs[i + j] == a[i] { reach[i + 1][j] = true; }
        if j < b.len() && obs[i + j] == b[j] { reach[i][j + 1] = true; }
    } }
    reach[a.len()][b.len()]
}

/// one session inside a worker process. Emits `request<TAB>answer` lines and `!oracle <json>` lines.
pub fn session(lines: &[String], emit: &mut dyn FnMut(String)) {
    let t: Vec<&str> = lines[0].split(' ').collect();
    let p = Prog::load(t.get(2).copied().unwrap_or(PROG));
    if lines[0] != new_line(&p) { emit(format!("{}\tstale-program", lines[0])); return; }
    let mut live = match Live::launch(&p) { Ok(l) => l, Err(e) => { emit(format!("{}\tlaunch-failed {e}", lines[0])); return; } };
    emit(format!("{}\tok", lines[0]));
    ipose::enable();
    ipose::enable_regs();
    let base = p.base;
    let pid = live.pid();
    let mut bset: BTreeSet<u64> = BTreeSet::new();
    let (mut started, mut exited) = (false, false);
    let mut expected_log: Vec<String> = vec![];   // log lines the injected calls must have produced (specification)
    let mut ran_calls = 0u64;       // injected calls whose callee was executed
    let mut state_ok = true;                       // no oracle failure so far that makes the final output meaningless
    let mut stops_in: Vec<String> = vec![];        // function names of the stops at which calls were made
    let mut pending_fault: Option<(u32, i64)> = None;
    let mut after_fault = false;
    let session_short: Vec<String> = lines.iter().map(|l| short(l)).collect();
    let oracle = |emit: &mut dyn FnMut(String), key: &str, what: String| {
        emit(format!("!oracle {}", json!({"key": key, "what": what, "replay": {"prog": p.name}})));
    };
    let _ = &session_short;
    for line in &lines[1..] {
        let t: Vec<&str> = line.split(' ').collect();
        match t.as_slice() {
            [_, "break", a] => {
                let a = u64::from_str_radix(a, 16).unwrap_or(0);
                let r = live.dbg.set_breakpoint_at_addr(RelocatedAddress::from(base + a)).map(|_| ());
                if r.is_ok() { bset.insert(a); }
                emit(format!("{line}\t{}", if r.is_ok() { "ok" } else { "err" }));
            }
            [_, c @ ("start" | "continue"), ..] => {
                let r = if *c == "start" { live.dbg.start_debugee_with_reason() } else { live.dbg.continue_debugee_with_reason() };
                let ans = match &r {
                    Ok(StopReason::Breakpoint(_, pc)) => { started = true; format!("stop {:x}", u64::from(*pc).wrapping_sub(base)) }
                    Ok(StopReason::DebugeeExit(code)) => { started = true; exited = true; format!("exit {code}") }
                    Ok(other) => format!("other {other:?}").replace(' ', "_"),
                    Err(_) => "err".into(),
                };
                // the model does not replay the execution (C01 does); the stop is passed to it in the next call line
                let obs = if ans.starts_with("stop") { "stop" } else if ans.starts_with("exit") { "exit" } else { "err" };
                emit(format!("C16 {c} {obs}\tok"));
            }
            [_, "fault", kind, n] => {
                let req = match *kind { "POKE" => libc::PTRACE_POKEDATA, "PEEK" => libc::PTRACE_PEEKDATA, "STEP" => libc::PTRACE_SINGLESTEP,
                                        "CONT" => libc::PTRACE_CONT, "SETREGS" => libc::PTRACE_SETREGS, "GETREGS" => libc::PTRACE_GETREGS, _ => u32::MAX };
                if req != u32::MAX { pending_fault = Some((req, n.parse().unwrap_or(1))); }
                emit(format!("{line}\t{}", if req != u32::MAX { "ok" } else { "bad-op" }));
            }
            [_, "call", name, lits, ..] => {
                let lits_v: Option<Vec<Literal>> = dec_list(lits, lit_parse).into_iter().collect();
                let Some(lits_v) = lits_v else { emit(format!("{line}\tbad-op")); continue; };
                if !started || exited || after_fault {
                    // outside a stop the call is refused before any traffic; after an injected fault the session's state is
                    // whatever the failure left: no further calls are compared
                    let cls = if after_fault { "after-fault".to_string() } else {
                        match live.dbg.call(name, &lits_v) { Ok(()) => "ok".to_string(), Err(e) => err_class(&e).to_string() } };
                    emit(format!("C16 call {name} {lits} 0 - 0 - -\t{cls} t=- post=-;0;0"));
                    continue;
                }
                let pc_abs = u64::from(live.dbg.ecx().location().pc);
                let pc = pc_abs.wrapping_sub(base);
                let Some(r0) = raw_getregs(pid) else { emit(format!("{line}\tno-regs")); continue; };
                let regs0 = regs_vec(&r0);
                let maps0: BTreeSet<(u64, u64)> = proc_maps(pid).iter().map(|m| (m.0, m.1)).collect();
                let fn_here = p.fn_of(pc).map(|f| f.2.clone()).unwrap_or_default();
                ipose::take_with_regs();
                let faulted = pending_fault.take();
                if let Some((req, n)) = faulted { ipose::arm_fault(req, n); }
                let res = std::panic::catch_unwind(std::panic::AssertUnwindSafe(|| live.dbg.call(name, &lits_v)));
                let fired = faulted.is_some() && ipose::fault_fired();
                ipose::disarm_fault();
                let maps_now: BTreeSet<(u64, u64)> = proc_maps(pid).iter().map(|m| (m.0, m.1)).collect();
                let new_maps: Vec<(u64, u64)> = maps_now.difference(&maps0).copied().collect();
                let tr = traffic(&p, pid, base, &regs0, &new_maps);
                let cls = match &res { Ok(Ok(())) => "ok".to_string(), Ok(Err(e)) => err_class(e).to_string(), Err(_) => "panic".to_string() };
                // ---- post state, observed independently of the debugger
                let regs1 = raw_getregs(pid).map(|r| regs_vec(&r));
                let word1 = proc_mem(pid, pc_abs, 8).map(|b| u64::from_le_bytes(b.try_into().unwrap())).unwrap_or(0);
                let maps1: BTreeSet<(u64, u64)> = proc_maps(pid).iter().map(|m| (m.0, m.1)).collect();
                let page_mapped = tr.page != 0 && proc_maps(pid).iter().any(|m| m.0 <= tr.page && tr.page < m.1);
                ipose::take_with_regs();
                let post = format!("{};{:x};{}", regs1.map(|r| regs_diff(&regs0, &r)).unwrap_or_else(|| "?".into()), word1, page_mapped as u8);
                let req_line = format!("C16 call {name} {lits} {pc:x} {} {:x} {} {}", enc_list(&regs0, |v| format!("{v:x}")), tr.page, hexlist(&tr.dorder), hexlist(&tr.eorder));
                if fired { after_fault = true; }

                let reached_cont = tr.digest.split(',').any(|x| x == "C");
                let callee_ranges: Vec<(u64, u64)> = fn_symbol(&p, name).into_iter().chain(fn_symbol(&p, "record")).collect();
                let through_pc = reached_cont && callee_ranges.iter().any(|(a, n)| pc + 2 > *a && pc < a + n);
                // ================= oracles =================
                let what_call = format!("`call {name} {}` at {pc:x} ({fn_here}){}", lits_v.iter().map(|l| l.to_string()).collect::<Vec<_>>().join(" "),
                    if fired { " with an injected ptrace failure" } else { "" });
                // (1) registers
                if let Some(r1) = regs1 { if r1 != regs0 && cls != "panic" {
                    state_ok = false;
                    oracle(emit, if fired { "registers-not-restored-after-failed-call" } else { "registers-not-restored-after-call" },
                        format!("{what_call} answered {cls}: registers differ afterwards: {}", regs_diff(&regs0, &r1)));
                } }
                // (2) text = ELF + INT3 exactly at the breakpoints (+ entry)
                if cls != "panic" { if let Some(d) = text_diff(&p, pid, base) {
                    let mut want: BTreeSet<u64> = bset.clone(); want.insert(p.entry);
                    let got: BTreeSet<u64> = d.keys().copied().collect();
                    let bad: Vec<_> = d.iter().filter(|(_, (_, l))| *l != 0xCC).collect();
                    if !bad.is_empty() || got.difference(&want).next().is_some() {
                        state_ok = false;
                        oracle(emit, if fired { "text-not-restored-after-failed-call" } else { "text-not-restored-after-call" },
                            format!("{what_call} answered {cls}: text differs from the ELF image at {:x?} (breakpoints {:x?})", d, want));
                    } else if got != want {
                        state_ok = false;
                        oracle(emit, if fired { "breakpoints-left-disabled-after-failed-call" } else { "breakpoints-not-reenabled-after-call" },
                            format!("{what_call} answered {cls}: INT3 present at {:x?}, breakpoints are {:x?}", got, want));
                    }
                } }
                // (3) address space
                if cls != "panic" && maps1 != maps0 {
                    let extra: Vec<_> = maps1.difference(&maps0).collect();
                    oracle(emit, if cls == "ok" { "page-leaked-after-successful-call" } else if fired { "page-leaked-after-failed-call" } else { "page-leaked-after-refused-call" },
                        format!("{what_call} answered {cls}: mappings afterwards differ, extra {:x?}", extra));
                }
                // (4) what the callee must have seen
                let f = FNS.iter().find(|f| f.0 == *name);
                let spec: Option<Vec<u64>> = f.and_then(|f| if f.2.len() == lits_v.len() && lits_v.len() <= 6 {
                    lits_v.iter().zip(f.2.iter()).map(|(l, t)| spec_arg(l, t)).collect() } else { None });
                // the callee ran iff the `cont` over `call *%rax; int3` was made (and it did not run into the patch): a command
                // that fails AFTERWARDS (restoring registers, munmap) has still executed f once
                let callee_ran = reached_cont && !through_pc;
                match (&spec, callee_ran) {
                    (Some(args), true) => {
                        let mut a = args.clone(); a.resize(6, 0);
                        expected_log.push(format!("log {} {}", f.unwrap().1, a.iter().map(|v| format!("{v:x}")).collect::<Vec<_>>().join(" ")));
                        ran_calls += 1;
                        stops_in.push(fn_here.clone());
                    }
                    (None, true) => { state_ok = false; } // the log will contain an entry the specification does not predict
                    _ => {}
                }
                match (&spec, cls.as_str()) {
                    (Some(_), "ok") if !callee_ran && !through_pc => {
                        state_ok = false;
                        oracle(emit, "call-answered-ok-without-running-the-callee", what_call.clone());
                    }
                    (None, "ok") => {
                        // accepted although the specification refuses it: which argument?
                        let why = match f {
                            None => "unknown function".to_string(),
                            Some(f) if f.2.len() != lits_v.len() => "wrong argument count".to_string(),
                            Some(f) => lits_v.iter().zip(f.2.iter()).filter(|(l, t)| spec_arg(l, t).is_none()).map(|(l, t)| format!("{l} for {t}")).collect::<Vec<_>>().join(", "),
                        };
                        let all_int_range = f.map(|f| f.2.len() == lits_v.len() && lits_v.iter().zip(f.2.iter()).all(|(l, t)| spec_arg(l, t).is_some() || (matches!(l, Literal::Int(_)) && (t.starts_with('u') || t.starts_with('s'))))).unwrap_or(false);
                        oracle(emit, if all_int_range { "literal-out-of-range-accepted-and-truncated" } else { "call-accepted-although-argument-does-not-fit" },
                            format!("{what_call} answered ok although {why}"));
                    }
                    (Some(_), c) if !fired && c != "panic" && c != "ok" => {
                        oracle(emit, "well-formed-call-refused", format!("{what_call} answered {c}"));
                    }
                    (_, "panic") if !fired && !through_pc => { state_ok = false; oracle(emit, "call-panicked", what_call.clone()); }
                    _ => {}
                }
                if fired { state_ok = state_ok && cls != "panic"; }
                // ---- does the callee pass through the stop pc, where the debugger's `jmp *%rax` patch is still in place?
                // (decided from the ELF symbol ranges: the callable's own code and `record`, which every callable runs)
                if through_pc {
                    state_ok = false; after_fault = true;
                    oracle(emit, "callee-runs-into-trampoline-patch-at-stop-pc", format!("{what_call} answered {cls}: the callee executes the instruction at the stop pc, where `jmp *%rax` is still patched in (post state {post})"));
                    emit(format!("{req_line}\twild"));
                    continue;
                }
                emit(format!("{req_line}\t{cls} t={} post={post}", tr.digest));
            }
            [_, "finish"] => {
                if started && !exited && state_ok {
                    for a in bset.clone() { let _ = live.dbg.remove_breakpoint(Address::Relocated(RelocatedAddress::from(base + a))); }
                    let r = std::panic::catch_unwind(std::panic::AssertUnwindSafe(|| live.dbg.continue_debugee_with_reason()));
                    match r {
                        Ok(Ok(StopReason::DebugeeExit(code))) => {
                            exited = true;
                            if code != p.exit_code { oracle(emit, "exit-status-differs-after-calls", format!("exit status {code}, native {}", p.exit_code)); }
                        }
                        Ok(other) => { if state_ok { oracle(emit, "program-did-not-run-to-completion-after-calls", format!("{:?}", other.map_err(|e| e.to_string()))); } }
                        Err(_) => { if state_ok { oracle(emit, "continue-panicked-after-calls", String::new()); } }
                    }
                }
                emit(format!("{line}\tok"));
            }
            _ => emit(format!("{line}\tbad-op")),
        }
    }
    let got = live.finish();
    if exited && state_ok {
        // ---- the program's output: its own results unchanged, the log = native log merged with the injected calls, in order
        let got_s = String::from_utf8_lossy(&got).to_string();
        let nat_s = String::from_utf8_lossy(&p.stdout).to_string();
        let part = |s: &str, pre: &str| -> Vec<String> { s.lines().filter(|l| l.starts_with(pre)).map(String::from).collect() };
        let nat_calls: u64 = part(&nat_s, "calls ").first().and_then(|l| l[6..].parse().ok()).unwrap_or(0);
        if part(&got_s, "sums ") != part(&nat_s, "sums ") {
            let key = if stops_in.iter().any(|f| f.contains("4leaf")) { "stack-below-rsp-clobbered-by-call-in-leaf-function" } else { "program-results-changed-after-calls" };
            oracle(emit, key, format!("after {ran_calls} injected calls (made while stopped in {:?}) the program printed {:?}, natively {:?}", stops_in, part(&got_s, "sums "), part(&nat_s, "sums ")));
        }
        if part(&got_s, "calls ") != vec![format!("calls {}", nat_calls + ran_calls)] {
            oracle(emit, "callee-not-run-exactly-once", format!("{ran_calls} injected calls executed their callee, program counted {:?}, natively {nat_calls}", part(&got_s, "calls ")));
        } else if part(&got_s, "sums ") == part(&nat_s, "sums ") && !is_merge(&part(&got_s, "log "), &part(&nat_s, "log "), &expected_log) {
            oracle(emit, "callee-arguments-differ-from-literals", format!("log {:?}; expected a merge of the native log {:?} and {:?}", part(&got_s, "log "), part(&nat_s, "log "), expected_log));
        }
    }
}

pub fn exec(req: &[String], out: &mut Out, tmpdir: &std::path::Path) {
    let mut sessions: Vec<Vec<String>> = vec![];
    for l in req {
        if l.starts_with("C16 new ") || sessions.is_empty() { sessions.push(vec![]); }
        sessions.last_mut().unwrap().push(l.clone());
    }
    let par = par_default().min(4);
    let results = run_sessions(&sessions, tmpdir, "c16", par, session_timeout(), |s, emit| session(s, emit));
    for (i, (s, (lines, how))) in sessions.iter().zip(results).enumerate() {
        let mut pairs: Vec<(String, String)> = vec![];
        for l in lines {
            if let Some(j) = l.strip_prefix("!oracle ") {
                let v: serde_json::Value = serde_json::from_str(j).unwrap();
                out.oracle_fail(v["key"].as_str().unwrap(), v["what"].as_str().unwrap(), json!({"session": s.iter().map(|l| short(l)).collect::<Vec<_>>(), "detail": v["replay"]}));
            } else if let Some((r, a)) = l.split_once('\t') { pairs.push((r.to_string(), a.to_string())); }
        }
        out.oracle_evals += pairs.iter().filter(|(r, _)| r.starts_with("C16 call")).count() as u64 * 4 + 1;
        if how != "ok" {
            out.oracle_fail("debugger-crashed-or-hung", &format!("worker ended with {how} after {} of {} commands", pairs.len(), s.len()),
                json!({"session": s.iter().map(|l| short(l)).collect::<Vec<_>>()}));
        }
        for (_, a) in &pairs { if let Some(c) = a.split(' ').next() { if a.contains(" t=") { out.count(&format!("outcome.{c}"), 1); } } }
        if i < 3 { out.sample(json!({"session": pairs.iter().map(|(r, a)| format!("{} => {}", short(r), short(a))).collect::<Vec<_>>()})); }
        for (k, l) in s.iter().enumerate() {
            match pairs.get(k) {
                Some((r, a)) => out.pair(r.clone(), a.clone()),
                None => out.pair(l.clone(), format!("worker-{how}")),
            }
        }
    }
}

pub fn run(args: &[String]) {
    let a = parse_args(args);
    let mut out = Out::new(&a.out);
    let req = match &a.replay {
        Some(f) => read_lines(f),
        None => { let mut rng = Rng::new(a.seed); gen_requests(&mut rng, a.n, &mut out) }
    };
    exec(&req, &mut out, &a.out);
    out.finish();
}
