mod util;
mod c17;

fn main() {
    let args: Vec<String> = std::env::args().skip(1).collect();
    let Some(cmd) = args.first() else { eprintln!("usage: bsv <cmd> [--seed S] [--n N] [--out DIR] ..."); std::process::exit(2) };
    match cmd.as_str() {
        "c17" => c17::run(&args[1..]),
        other => { eprintln!("unknown command {other}"); std::process::exit(2) }
    }
}
