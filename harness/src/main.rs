//! `bsv <sub-command> [--seed S] [--n N] [--out DIR] [--replay FILE] ...`
//! Sub-commands are the files of src/props/ (see build.rs).
pub mod util;
pub mod live;
pub mod dwline;
mod props { include!(concat!(env!("OUT_DIR"), "/dispatch.rs")); }

fn main() {
    let args: Vec<String> = std::env::args().skip(1).collect();
    let Some(cmd) = args.first() else { eprintln!("usage: bsv <{}> ...", props::COMMANDS.join("|")); std::process::exit(2) };
    if !props::dispatch(cmd, &args[1..]) { eprintln!("unknown command {cmd}; known: {}", props::COMMANDS.join(" ")); std::process::exit(2) }
}
