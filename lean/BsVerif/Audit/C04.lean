import BsVerif.Props.C04
open BsVerif.Lines
#print axioms C04_binary_search_found
#print axioms C04_binary_search_not_found
#print axioms C04_pc_to_row_last
#print axioms noShared_index
#print axioms C04_pc_to_row_repaired
#print axioms C04_pc_to_row_partial
#print axioms cexRows_sorted
#print axioms C04_pc_to_row_counterexample
#print axioms anyBelow_iff
#print axioms C04_pc_to_unit
#print axioms fnScan_some
#print axioms fnScan_none
#print axioms skipEqual_ge
#print axioms fnFindPos_after
#print axioms C04_pc_to_function
#print axioms peWalk_spec
#print axioms C04_fn_to_addr_partial
#print axioms C04_fn_to_addr_counterexample
#print axioms C04_fn_to_addr_counterexample_same_address
#print axioms closestPass_isStmtRow
#print axioms closestPass_ne_of_stmtRow
#print axioms C04_line_to_addrs_sound
#print axioms C04_line_to_addrs_line_wins
#print axioms C04_line_to_addrs_fallback
#print axioms C04_line_to_addrs_counterexample
#print axioms C04_line_to_addrs_counterexample_pe_lookahead
