import BsVerif.Props.C12
open BsVerif.Dap
#print axioms C12_one_response_step
#print axioms C12_one_response_from
#print axioms C12_one_response
#print axioms C12_cancel_records
#print axioms C12_cancelled_request_answered
#print axioms C12_thread_refresh_exact
#print axioms C12_thread_events_partial
#print axioms C12_thread_events_counterexample
#print axioms C12_seq_is_wire_order
#print axioms C12_seq_distinct_all_interleavings
#print axioms C12_lifecycle_monitor
#print axioms C12_lifecycle_once
#print axioms C12_silent_after_terminated
#print axioms C12_forwarders_silent_after_terminated
#print axioms C12_error_not_silence
#print axioms C12_never_silent
#print axioms C12_error_not_silence_run_rule
