import BsVerif.Props.C02
open BsVerif.Bp
#print axioms C02_step_over_executes_once
#print axioms C02_text_at_prompt
#print axioms C02_text_after_remove
#print axioms C02_native_equivalence
#print axioms C02_resumes_on_original_bytes
