import BsVerif.Props.C02
open BsVerif.Bp
#print axioms C02_step_over_executes_once
#print axioms C02_text_at_prompt
#print axioms C02_text_after_remove
#print axioms C02_native_equivalence
#print axioms C02_resumes_on_original_bytes
#print axioms C02_text_at_prompt_ctx
#print axioms C02_native_equivalence_ctx
#print axioms C02_ctx_ops_invisible_steps
#print axioms C02_step_ignores_selected_frame
