import BsVerif.Props.C02
