import BsVerif.Props.C14
open BsVerif.Dr
#print axioms C14_tables_match_intel
#print axioms C14_codes_fit
#print axioms C14_dr_enabled_reads_intel_bits
#print axioms C14_configure_bp_fields
#print axioms C14_set_dr_enable_fields
#print axioms C14_set_dr_disable_fields
#print axioms C14_free_slot_search
#print axioms C14_dr6_hit_maps_to_slot
#print axioms C14_dr7_encodes_set
#print axioms C14_at_most_four
#print axioms C14_slot_owner_unique
#print axioms C14_slot_reuse
#print axioms C14_remove_clears_slot
#print axioms C14_new_thread_inherits
#print axioms C14_clone_orders_agree
#print axioms C14_clear_local_disable_global
#print axioms C14_duplicate_refused
#print axioms C14_refused_no_side_effect
#print axioms C14_refused_witness
#print axioms C14_refused_then_reuse_witness
#print axioms C14_global_survives_restart
#print axioms C14_scope_removal
