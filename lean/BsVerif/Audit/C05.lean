import BsVerif.Props.C05
open BsVerif.Unwind
#print axioms C05_backtrace_is_stack_partial
#print axioms C05_backtrace_is_stack_counterexample
#print axioms C05_backtrace_is_prefix
#print axioms C05_no_unwind_info
#print axioms C05_depth_bound
#print axioms C05_frame_select_sp
#print axioms C05_frame_select_zero
#print axioms C05_frame_select_counterexample
#print axioms C05_return_address
#print axioms C05_frame_select_ip_partial
#print axioms C05_frame_info_innermost
#print axioms C05_frame_info_counterexample
#print axioms ctxNew_cfa
#print axioms Chain_head
#print axioms loop_spec
#print axioms loop_prefix
#print axioms unwindLoop_length
#print axioms applyRules_other
#print axioms ctxNew_sp
#print axioms restoreLoop_spec
#print axioms Ex.chainPlain
#print axioms Ex.chainRec
