import BsVerif.Props.C05
open BsVerif.Unwind
#print axioms C05_backtrace_is_stack
#print axioms C05_no_unwind_info
#print axioms C05_depth_bound
#print axioms C05_frame_select_ip
#print axioms C05_frame_select
#print axioms C05_frame_select_chain
#print axioms C05_frame_select_sp
#print axioms C05_frame_select_zero
#print axioms C05_return_address
#print axioms C05_frame_info
#print axioms C05_frame_info_innermost
#print axioms ctxNew_cfa
#print axioms Chain_head
#print axioms loop_spec
#print axioms unwindLoop_length
#print axioms applyRules_isSome
#print axioms ctxNew_isSome
#print axioms carried_isSome
#print axioms restoreLoop_carried
#print axioms updateFrom_carried
#print axioms carried_chain
#print axioms restoreLoop_chain
#print axioms Ex.chainPlain
#print axioms Ex.chainRec
#print axioms Ex.chainFp
