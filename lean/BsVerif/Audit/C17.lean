import BsVerif.Props.C17
open BsVerif.PathIndex
#print axioms C17_index_refines_suffix
#print axioms C17_match_is_component_suffix
#print axioms C17_no_miss
#print axioms C17_no_false_match
#print axioms C17_symbol_filter
open BsVerif.Symbols
#print axioms C17_symbols_all_objects
#print axioms C17_symbols_names
#print axioms C17_symbols_concat
#print axioms C17_symbols_single
#print axioms C17_symbols_once_per_object
#print axioms C17_symbols_count
#print axioms C17_symbols_perm
#print axioms C17_symbols_ignore_dwarf
#print axioms C17_symbols_registry_add
#print axioms C17_pattern_semantics
#print axioms C17_symbols_elf_partial
#print axioms C17_symbols_elf_counterexample
#print axioms C17_symbols_loaded_registry
#print axioms C17_symbols_registry_load_add
#print axioms C17_symbols_registry_load_remove
open BsVerif.FnPath
#print axioms C17_fn_path_components
#print axioms C17_fn_path_inherent_impl
#print axioms C17_fn_templates_mangling_independent
#print axioms C17_fn_path_nonempty
