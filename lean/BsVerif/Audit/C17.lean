import BsVerif.Props.C17
open BsVerif.PathIndex
#print axioms C17_index_refines_suffix
#print axioms C17_match_is_component_suffix
#print axioms C17_no_miss
#print axioms C17_no_false_match
#print axioms C17_symbol_filter
