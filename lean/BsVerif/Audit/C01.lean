import BsVerif.Props.C01
open BsVerif.Bp
#print axioms C01_nextHit_is_first
#print axioms Sim_status
#print axioms C01_simulation_step
#print axioms C01_simulation
#print axioms Sim_init
#print axioms C01_continue_projection
#print axioms C01_no_corrupt_no_outOfFuel
#print axioms C01_patch_inv
#print axioms C01_removed_never_stops
#print axioms C01_rearm_every_arrival
