import BsVerif.Props.C01
