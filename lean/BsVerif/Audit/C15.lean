import BsVerif.Props.C15
open BsVerif.MemIO
#print axioms C15_read_spec
#print axioms C15_read_exact
#print axioms C15_read_success_iff
#print axioms C15_read_total
#print axioms C15_read_total_long
#print axioms C15_read_witness
#print axioms C15_store_spec
#print axioms C15_write_exact
#print axioms C15_write_no_panic
#print axioms C15_write_success_iff_words
#print axioms C15_write_success_iff
#print axioms C15_write_fail_confined
#print axioms C15_poke_exact
#print axioms C15_write_then_read
#print axioms C15_reg_roundtrip
#print axioms C15_reg_write_visible
#print axioms C15_disasm_masks_patches
#print axioms C15_disasm_total
#print axioms C15_disasm_witness
#print axioms C15_setvar_int_roundtrip
#print axioms C15_setvar_range
#print axioms C15_setvar_accepted_exact
#print axioms C15_setvar_witness
