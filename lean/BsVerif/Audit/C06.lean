import BsVerif.Props.C06
open BsVerif.Value
#print axioms leBytes_length
#print axioms take_leBytes
#print axioms leNat_leBytes
#print axioms C06_scalar_unsigned
#print axioms pow256
#print axioms C06_scalar_signed
#print axioms C06_scalar_model_signed
#print axioms C06_scalar_model_unsigned
#print axioms C06_scalar_model_float
#print axioms C06_scalar_model_f32
#print axioms C06_scalar_model_char
#print axioms C06_scalar_model_bool
#print axioms C06_vec
#print axioms C06_vec_zst
#print axioms ring_mod
#print axioms ringIdx_spec
#print axioms C06_vecdeque_ring_partial
#print axioms C06_vecdeque_ring_counterexample
#print axioms C06_vecdeque_clamp_order_tie
#print axioms group_scan
#print axioms scan_from
#print axioms C06_hashbrown_iter
#print axioms C06_hashbrown_iter_nodup
#print axioms C06_hashbrown_iter_mem
#print axioms C06_hashbrown_bucket_location
