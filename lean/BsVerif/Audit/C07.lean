import BsVerif.Props.C07
open BsVerif.Dqe
#print axioms C07_index_array
#print axioms C07_index_vec
#print axioms C07_index_map
#print axioms C07_index_set
#print axioms C07_slice
#print axioms C07_slice_array
#print axioms C07_slice_total
#print axioms C07_slice_none_iff
#print axioms C07_canonic_len
#print axioms C07_canonic_plain
#print axioms C07_deref_address_partial
#print axioms C07_deref_address_counterexample
#print axioms C07_inapplicable_none
#print axioms C07_none_propagates
#print axioms C07_eval_compose
#print axioms C07_int_key_exact_partial
#print axioms C07_int_key_exact_counterexample
#print axioms C07_matchSet_greedy
#print axioms C07_set_match_counterexample
#print axioms C07_precedence
#print axioms C07_print_parse_partial
#print axioms C07_precedence_example
#print axioms C07_parse_slice
#print axioms C07_precedence_deref_field
#print axioms C07_display_parse_counterexample
