import BsVerif.Props.C09
open BsVerif.Tracer
#print axioms C09_table_ops_wf
#print axioms C09_bookkeeping_wf
#print axioms C09_bookkeeping_ops_only
