import BsVerif.Props.C09
open BsVerif.Tracer
#print axioms C09_table_ops_wf
#print axioms C09_bookkeeping_wf
#print axioms C09_bookkeeping_ops_only
#print axioms C09_only_cont_stopped_marks_running
#print axioms C09_prompt_is_quiescent
#print axioms C09_group_stop_coverage
#print axioms C09_second_round_noop
#print axioms C09_first_round_complete
#print axioms C09_inv_run
#print axioms C09_inv_session
#print axioms C09_all_marked_stopped
#print axioms C09_group_stop_covers
#print axioms C09_rewind_exact
#print axioms C09_rewound_thread_marked_stopped
#print axioms C09_resume_hit_is_reported
#print axioms C09_concurrent_hit_is_absorbed
#print axioms C09_every_user_hit_reported_partial
#print axioms C09_every_user_hit_reported_counterexample
