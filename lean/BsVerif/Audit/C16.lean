import BsVerif.Props.C16
open BsVerif.Call
#print axioms C16_literal_faithful_unsigned
#print axioms C16_literal_faithful_signed
#print axioms C16_literal_faithful_bool
#print axioms C16_literal_faithful_pointer
#print axioms C16_literal_range_counterexample
#print axioms C16_literal_truncated_witness
#print axioms C16_literal_kind_checked
#print axioms C16_sysv_order
#print axioms C16_args_in_sysv_registers
#print axioms C16_args_touch_only_sysv_registers
#print axioms C16_restore_from_any_failure
#print axioms C16_called_once_with_args
#print axioms C16_state_restored
#print axioms C16_memory_at_entry
#print axioms C16_text_restored
#print axioms wGood
#print axioms wFrame
#print axioms C16_stack_untouched_counterexample
#print axioms C16_no_leak_partial
#print axioms C16_no_leak_counterexample
#print axioms C16_breakpoints_reenabled_counterexample
#print axioms C16_callee_runs_original_code_counterexample
#print axioms C16_reentrant_call_witness
