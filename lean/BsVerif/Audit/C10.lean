import BsVerif.Props.C10
open BsVerif.Sig
#print axioms C10_quiet_table
#print axioms C10_transparent_table
#print axioms sigintStable
#print axioms C10_sigint_never_delivered
#print axioms noDupStable
#print axioms C10_never_duplicated
#print axioms quietStable
#print axioms C10_quiet_passthrough
#print axioms clean_of_noPileUp
#print axioms C10_delivery_once_partial
#print axioms C10_sent_arrives_or_pending
#print axioms C10_sent_delivered_once_partial
#print axioms exited_nothing_pending
#print axioms C10_delivery_once_exit_partial
#print axioms C10_delivery_lost_counterexample
#print axioms C10_burst_partial
#print axioms C10_burst_counterexample
