import BsVerif.Props.C18
open BsVerif.Reloc
#print axioms C18_relocate_exact
#print axioms C18_relocate_correct_partial
#print axioms C18_relocate_correct_counterexample
#print axioms C18_entry_relocation
#print axioms C18_roundtrip
#print axioms C18_roundtrip_global
#print axioms C18_find_range
#print axioms C18_find_range_sound
#print axioms C18_find_range_partial
#print axioms C18_find_range_counterexample
#print axioms C18_offset_of_mapped_address
#print axioms C18_reload_plan
#print axioms C18_reload_plan_nodup
#print axioms find_ranges_updateMappings
#print axioms C18_sharedlib_list
#print axioms C18_deferred_retained
#print axioms C18_deferred_never_duplicated
#print axioms C18_active_monotone
#print axioms C18_active_nodup
#print axioms C18_deferred_activates
