import BsVerif.Lemmas.Dqe
import BsVerif.Lemmas.DqeParse
/-!
# C07 — data query expressions mean what the documentation says

Property theorems only.  Models: `BsVerif/Model/Dqe.lean` (AST, character-level mirror of the chumsky grammar, canonical
printer) and `BsVerif/Model/DqeVal.lean` (operators on value trees, `match_literal`, evaluation).
Helper lemmas: `BsVerif/Lemmas/Dqe.lean`.
-/
namespace BsVerif.Dqe

/-! ## operators on value trees -/

/-- **C07_index_array.** `a[i]` on an array is the `i`-th element, for every array and every `i64` literal;
negative and too large indexes yield no result (never another element). -/
theorem C07_index_array (t : Bool) (items full : List Val) (i : Int)
    (hi : -2 ^ 63 ≤ i ∧ i < 2 ^ 63) (hlen : items.length ≤ 2 ^ 63) :
    index (.int i) (.array t items full) = if 0 ≤ i then items[i.toNat]? else none := by
  have e64 : (2 : Int) ^ 64 = 18446744073709551616 := by decide
  have e63 : (2 : Int) ^ 63 = 9223372036854775808 := by decide
  have n63 : (2 : Nat) ^ 63 = 9223372036854775808 := by decide
  rw [e63] at hi
  rw [n63] at hlen
  simp only [index, toUsize, e64]
  by_cases h : 0 ≤ i
  · rw [if_pos h]; congr 1; omega
  · rw [if_neg h]
    apply List.getElem?_eq_none
    omega

example : index (.int 1) (.array true [.int 10, .int 20] [.int 10, .int 20]) = some (.int 20) := by
  rw [C07_index_array _ _ _ _ (by omega) (by simp)]; rfl

/-- vectors and deques are indexed through their buffer array -/
theorem C07_index_vec (dq : Bool) (buf orig : Val) (l : Lit) : index l (.vec dq buf orig) = index l buf := by
  simp [index]

/-- **C07_index_map.** `m[lit]` is the value stored under the FIRST key (in the decoder's order) that matches the
literal: every earlier key does not match; no result iff no key matches. -/
theorem C07_index_map (bt : Bool) (kvs : List (Val × Val)) (orig : Val) (l : Lit) :
    (∀ v, index l (.map bt kvs orig) = some v ↔
      ∃ pre k post, kvs = pre ++ (k, v) :: post ∧ matchLit k l = true ∧ ∀ p ∈ pre, matchLit p.1 l = false) ∧
    (index l (.map bt kvs orig) = none ↔ ∀ kv ∈ kvs, matchLit kv.1 l = false) := by
  constructor
  · intro v
    simp only [index, Option.map_eq_some_iff, List.find?_eq_some_iff_append]
    constructor
    · rintro ⟨⟨k, v'⟩, ⟨hm, pre, post, rfl, hpre⟩, rfl⟩
      exact ⟨pre, k, post, rfl, hm, fun p hp => by simpa using hpre p hp⟩
    · rintro ⟨pre, k, post, rfl, hm, hpre⟩
      exact ⟨(k, v), ⟨hm, pre, post, rfl, fun p hp => by simpa using hpre p hp⟩, rfl⟩
  · simp [index]

example : index (.int 2) (.map true [(.int 1, .bool false), (.int 2, .bool true)] .other) = some (.bool true) := by
  simp [index, matchLit, toI64]

/-- sets answer membership -/
theorem C07_index_set (bt : Bool) (items : List Val) (orig : Val) (l : Lit) :
    index l (.set bt items orig) = some (.synth (items.any fun it => matchLit it l)) := by
  simp [index]

/-- **C07_slice.** `a[l..r]` is the elements `l .. r-1` (open bounds: from the start / to the end), for every array
and all bounds with `l ≤ r`, `l ≤ len`. -/
theorem C07_slice (items : List Val) (l r : Option Nat)
    (h1 : l.getD 0 ≤ r.getD items.length) (h2 : l.getD 0 ≤ items.length) :
    ∃ xs, sliceItems items l r = .ok xs ∧
      xs.length = min (r.getD items.length) items.length - l.getD 0 ∧
      ∀ k, k < xs.length → xs[k]? = items[l.getD 0 + k]? := by
  cases r with
  | none =>
    refine ⟨items.drop (l.getD 0), ?_, ?_, ?_⟩
    · have : ¬ (l.getD 0 > items.length) := by omega
      simp only [sliceItems, if_neg this]
    · simp
    · intro k _; simp
  | some r =>
    simp only [Option.getD_some] at h1
    have h0 : ¬ (l.getD 0 > items.length) := by omega
    have h3 : ¬ (r < l.getD 0) := by omega
    by_cases hlt : r - l.getD 0 < (items.drop (l.getD 0)).length
    · refine ⟨(items.drop (l.getD 0)).take (r - l.getD 0), ?_, ?_, ?_⟩
      · simp only [sliceItems, if_neg h0, if_neg h3, if_pos hlt]
      · rw [List.length_drop] at hlt
        rw [List.length_take, List.length_drop]
        simp only [Option.getD_some]; omega
      · intro k hk
        rw [List.length_take, List.length_drop] at hk
        rw [List.getElem?_take, if_pos (by omega), List.getElem?_drop]
    · refine ⟨items.drop (l.getD 0), ?_, ?_, ?_⟩
      · simp only [sliceItems, if_neg h0, if_neg h3, if_neg hlt]
      · rw [List.length_drop] at hlt
        rw [List.length_drop]
        simp only [Option.getD_some]; omega
      · intro k _; rw [List.getElem?_drop]

example : sliceItems [.int 1, .int 2, .int 3, .int 4] (some 1) (some 3) = .ok [.int 2, .int 3] := by rfl

/-- the slice of an array value keeps its memory image; vectors slice their buffer -/
theorem C07_slice_array (t : Bool) (items full xs : List Val) (l r : Option Nat) (h : sliceItems items l r = .ok xs) :
    slice l r (.array t items full) = .ok (.array t xs full) ∧
    ∀ dq orig, slice l r (.vec dq (.array t items full) orig) = .ok (.vec dq (.array t xs full) orig) := by
  simp [slice, h]

/-- **C07_slice_total.** Full statement for slices: never a panic, for every item list and all bounds (the code after
the repair of C08's defects `slice-left-greater-than-right-panics`, `slice-left-past-end-panics`: BugStalker ccf13b4). -/
theorem C07_slice_total (items : List Val) (l r : Option Nat) (c : String) : sliceItems items l r ≠ .panic c := by
  unfold sliceItems
  simp only []
  split
  · simp
  · cases r with
    | none => simp
    | some r => simp only []; split <;> (try split) <;> simp

/-- a range that does not fit (`l > len` or `r < l`) yields no result, and only such a range does
(the converse of `C07_slice`) -/
theorem C07_slice_none_iff (items : List Val) (l r : Option Nat) :
    sliceItems items l r = .none ↔ ¬ (l.getD 0 ≤ r.getD items.length ∧ l.getD 0 ≤ items.length) := by
  unfold sliceItems
  simp only []
  cases r with
  | none => simp only [Option.getD_none]; split <;> simp <;> omega
  | some r =>
    simp only [Option.getD_some]
    repeat' split
    all_goals simp
    all_goals omega

example : sliceItems [.int 1, .int 2, .int 3, .int 4] (some 3) (some 1) = .none := by rfl
example : sliceItems [.int 1, .int 2, .int 3, .int 4] (some 5) none = .none := by rfl

/-- **C07_canonic_len.** `~v` of a vector (deque, map, set, string, Rc, cell) is its underlying structure, so
`(~v).f` is the field `f` of that structure; `~` of any other value is the value itself. -/
theorem C07_canonic_len (dq : Bool) (buf orig : Val) (f : Str) :
    canonic (.vec dq buf orig) = .canon orig (.vec dq buf orig) ∧ field f (canonic (.vec dq buf orig)) = field f orig ∧
    index (.int 0) (canonic (.vec dq buf orig)) = none := by
  simp [canonic, field, index]

theorem C07_canonic_plain (v : Val) (h : ∀ dq b o, v ≠ .vec dq b o) (h2 : ∀ bt k o, v ≠ .map bt k o)
    (h3 : ∀ bt k o, v ≠ .set bt k o) (h4 : ∀ s o, v ≠ .string s o) (h5 : ∀ r o, v ≠ .rc r o) (h6 : ∀ c o, v ≠ .cell c o) :
    canonic v = v := by
  cases v <;> simp_all [canonic]

example : field ['l', 'e', 'n'] (canonic (.vec false (.array true [.int 7] [.int 7]) (.struct true [(some ['l', 'e', 'n'], .int 1)])))
    = some (.int 1) := by simp [canonic, field]

/-- a value as a whole: not the result of a slice -/
def Whole : Val → Prop
  | .array t items full => t = true ∧ items = full
  | .vec _ (.array t items full) _ => t = true ∧ items = full
  | .synth _ => False
  | .subr => False
  | .other => False
  | .canon _ _ => False
  | .ptr _ loc _ => loc = true
  | _ => True

/-- `*&x = x`, full statement -/
def C07_deref_address_full : Prop := ∀ v p, address v = some p → deref p = some v

/-- **C07_deref_address (partial).** For every value that has an address and is not the result of a slice, `&x` is a
pointer whose dereference is `x` (memory is consistent by construction in the model; that the debugger re-reads the same
value through the pointer it made is what the correspondence run checks). -/
theorem C07_deref_address_partial (v : Val) (h : Whole v) : ∃ p, address v = some p ∧ deref p = some v := by
  cases v <;> simp_all [Whole, address, deref, memImage, derefableAddr]
  case vec dq buf orig =>
    cases buf <;> simp_all [Whole, memImage]

/-- as found: `&` of a sliced array is the address of the whole array, so `*&(a[1..2])` is `a` -/
theorem C07_deref_address_counterexample : ¬ C07_deref_address_full := by
  intro h
  have := h (.array true [.int 20] [.int 10, .int 20]) _ rfl
  simp [deref, memImage, derefableAddr] at this

example : Whole (.array true [.int 1] [.int 1]) := by simp [Whole]

/-- values to which none of field / index / slice / deref applies -/
def isLeaf : Val → Bool
  | .int _ | .float _ | .bool _ | .chr _ | .unit | .noval | .synth _ | .cenum _ | .subr | .other => true
  | _ => false

/-- **C07_inapplicable_none.** An operator applied to a value kind it does not apply to yields no result (never a
value): scalars, C-like enums, subroutines support none of field/index/slice/deref; structures neither index, slice nor
deref; arrays neither field nor deref; pointers neither field nor index; maps and sets neither slice nor deref. -/
theorem C07_inapplicable_none (v : Val) (f : Str) (l : Lit) (lo hi : Option Nat) :
    (isLeaf v = true → field f v = none ∧ index l v = none ∧ slice lo hi v = .none ∧ deref v = none) ∧
    (∀ o ms, v = .struct o ms → index l v = none ∧ slice lo hi v = .none ∧ deref v = none) ∧
    (∀ t xs fl, v = .array t xs fl → field f v = none ∧ deref v = none) ∧
    (∀ d lc run, v = .ptr d lc run → field f v = none ∧ index l v = none) ∧
    (∀ bt kvs o, v = .map bt kvs o → slice lo hi v = .none ∧ deref v = none) ∧
    (∀ bt xs o, v = .set bt xs o → field f v = none ∧ slice lo hi v = .none ∧ deref v = none) ∧
    (∀ s o, v = .string s o → field f v = none ∧ index l v = none ∧ slice lo hi v = .none ∧ deref v = none) := by
  refine ⟨?_, ?_, ?_, ?_, ?_, ?_, ?_⟩
  · intro h; cases v <;> simp_all [isLeaf, field, index, slice, deref]
  all_goals (intros; subst_vars; simp [field, index, slice, deref])

example : isLeaf (.int 5) = true := rfl

/-- no result propagates: an operator applied to "no result" is "no result" (and a panic stays a panic) -/
theorem C07_none_propagates (env : Str → Option Val) (e : Dqe) (h : eval env e = .none) (f : Str) (l : Lit) (lo hi : Option Nat) :
    eval env (.field e f) = .none ∧ eval env (.index e l) = .none ∧ eval env (.slice e lo hi) = .none ∧
    eval env (.deref e) = .none ∧ eval env (.address e) = .none ∧ eval env (.canonic e) = .none := by
  simp [eval, h]

/-- evaluation composes: the value of `op e` is `op` applied to the value of `e` -/
theorem C07_eval_compose (env : Str → Option Val) (e : Dqe) (v : Val) (h : eval env e = .ok v) (f : Str) (l : Lit) (lo hi : Option Nat) :
    eval env (.field e f) = ofOpt (field f v) ∧ eval env (.index e l) = ofOpt (index l v) ∧
    eval env (.slice e lo hi) = slice lo hi v ∧ eval env (.deref e) = ofOpt (deref v) ∧
    eval env (.address e) = ofOpt (address v) ∧ eval env (.canonic e) = .ok (canonic v) := by
  simp [eval, h]

/-! ## literals as keys -/

/-- Full statement: an integer key matches an integer literal iff they are the same number. -/
def C07_int_key_exact_full : Prop := ∀ (v i : Int), -2 ^ 63 ≤ i ∧ i < 2 ^ 63 → (matchLit (.int v) (.int i) = true ↔ v = i)

/-- **partial**: true for keys in the `i64` range -/
theorem C07_int_key_exact_partial (v i : Int) (hv : -2 ^ 63 ≤ v ∧ v < 2 ^ 63) :
    matchLit (.int v) (.int i) = true ↔ v = i := by
  simp only [matchLit, toI64, beq_iff_eq]
  omega

/-- as found: the key `2^64 + 5` of a `BTreeMap<u128, _>` is compared after `as i64`, so the literal `5` selects it -/
theorem C07_int_key_exact_counterexample : ¬ C07_int_key_exact_full := by
  intro h
  have := (h (2 ^ 64 + 5) 5 (by omega)).mp (by simp [matchLit, toI64])
  omega

/-- the set matching of the code is the greedy procedure `greedySet` -/
theorem C07_matchSet_greedy (items : List Val) (lits : List Lit) : matchSet items lits = greedySet matchLit items lits := by
  induction items generalizing lits with
  | nil => simp [matchSet, greedySet]
  | cons it rest ih =>
    rw [matchSet, greedySet]
    cases h : findIdx? (fun l => !isWild l && matchLit it l) lits 0 with
    | some i => exact ih _
    | none =>
      cases h2 : findIdx? isWild lits 0 with
      | some i => exact ih _
      | none => rfl

/-- Full statement for set literals: a set matches `{l1, .., ln}` iff the literals can be arranged so that each item
matches its literal (a perfect matching). -/
def C07_set_match_full : Prop :=
  ∀ (items : List Val) (lits : List Lit),
    (∃ arranged, arranged.Perm lits ∧ items.length = arranged.length ∧ matchAll items arranged = true) → matchSet items lits = true

/-- as found: greedy matching commits `(1,2)` to the first literal it matches, `{1,*}`, and then nothing is left for `(1,3)` -/
theorem C07_set_match_counterexample : ¬ C07_set_match_full := by
  intro h
  let t (a b : Int) : Val := .struct false [(some ['_', '_', '0'], .int a), (some ['_', '_', '1'], .int b)]
  have := h [t 1 2, t 1 3] [.arr [.int 1, .wild], .arr [.int 1, .int 2]]
    ⟨[.arr [.int 1, .int 2], .arr [.int 1, .wild]], List.Perm.swap _ _ _, rfl, by
      simp [t, matchAll, matchLit, matchAllM, isWild, toI64]⟩
  simp [t, matchSet, findIdx?, matchLit, matchAllM, isWild, toI64, swapRemove] at this

/-! ## parser -/

/-- **C07_precedence.** Whatever the text, a parsed expression is: prefix operators (outermost, in text order) applied
to a postfix chain (fields / indexes / slices, innermost first) applied to an atom — a variable, a pointer cast, or a
parenthesised expression.  So `*a.b[1]` is `Deref(Index(Field(a, b), 1))`, never `Index(Field(Deref a, b), 1)`. -/
theorem C07_precedence (f : Nat) (s : Str) (e : Dqe) (r : Str) (h : parseExpr f s = .ok e r) :
    ∃ (pres : List Pre) (atom : Dqe) (posts : List Post),
      e = pres.foldr Pre.apply (posts.foldl Post.apply atom) ∧
      ((∃ n, atom = .var n) ∨ (∃ ty a, atom = .ptrCast ty a) ∨ (∃ f' s' r', parseExpr f' s' = .ok atom r')) :=
  precedence_shape f s e r h


/-! ## parsing is a function of the text alone: the canonical text parses back -/

/-- decidable well-formedness of names, fields, types and literals (what the grammar can express at all) -/
def canonName (n : Str) : Bool := rustIdent n == some (n, []) && (symS ['t', 'r', 'u', 'e'] n).isNone && (symS ['f', 'a', 'l', 's', 'e'] n).isNone
def canonVar (n : Str) : Bool := rustIdent n == some (n, [])
def isIntTok (t : Str) : Bool := scanInt t == some (t, [])
def canonField (f : Str) : Bool := isIdentB f || isIntTok f
def canonTy (ty : Str) : Bool := !ty.isEmpty && ty.all isTypeCh && trimSp ty == ty

mutual
def canonLit : Lit → Bool
  | .str s => !s.contains '"'
  | .int i => decide (-2 ^ 63 < i ∧ i < 2 ^ 63)
  | .float _ ip fp => isIntTok ip && isIntTok fp
  | .addr a => decide (a < 2 ^ 64)
  | .bool _ => true
  | .enumV name none => canonName name
  | .enumV name (some l) => canonName name && canonLit l
  | .arr items => canonItems items
  | .assoc kvs => !kvs.isEmpty && canonKvs kvs
  | .wild => false
def canonItems : List Lit → Bool
  | [] => true
  | .wild :: t => canonItems t
  | l :: t => canonLit l && canonItems t
def canonKvs : List (Str × Lit) → Bool
  | [] => true
  | (k, .wild) :: t => canonName k && canonKvs t
  | (k, l) :: t => canonName k && canonLit l && canonKvs t
end

def Canon : Dqe → Bool
  | .var n => canonVar n
  | .ptrCast ty a => canonTy ty && decide (a < 2 ^ 64)
  | .field e f => Canon e && canonField f
  | .index e l => Canon e && canonLit l
  | .slice e l r => Canon e && decide (l.getD 0 < 2 ^ 64 ∧ r.getD 0 < 2 ^ 64)
  | .deref e | .address e | .canonic e => Canon e

/-- **Full statement** (character level): the canonical text of every expressible expression parses back to it.
Proved below for the operator skeleton (`C07_print_parse_partial`); for literals, slices, pointer casts, path names and
tuple fields it is sampled on every run (correspondence run + the generator's expected AST), not proved. -/
def C07_print_parse_full : Prop := ∀ e, Canon e = true → parse (print e) = .ok e []

/-- **C07_print_parse (partial, character level).** For every expression built from variables and fields named by plain
identifiers, slices `[l..r]` (each bound absent or below 2^64), indexes `[i]` by an integer literal `0 ≤ i < 2^63` and the
prefix operators `*`, `&`, `~` — any nesting,
parenthesised where a prefix operator sits under a postfix one — the parser model maps the canonical text back to the
expression, consuming all of it.  (Inside: the index alternative `[literal]` fails on a slice text and the slice alternative
takes over; a parenthesised expression is never taken for a pointer cast; decimal printing and `parse::<usize>` are inverse.) -/
theorem C07_print_parse_partial (e : Dqe) (h : frag e = true) : parse (print e) = .ok e [] := print_parse_frag e h

/-- the fragment is part of the canonical class on which the full statement speaks (so the partial theorem is an instance of it) -/
example : frag (.field (.deref (.address (.slice (.field (.var ['a', '1']) ['_', 'b']) (some 1) none))) ['c']) = true := by decide

example : parse ['(', '*', '&', 'a', '.', 'b', ')', '.', 'c'] = .ok (.field (.deref (.address (.field (.var ['a']) ['b']))) ['c']) [] := by
  have := C07_print_parse_partial (.field (.deref (.address (.field (.var ['a']) ['b']))) ['c']) (by decide)
  simpa [print, printPre, printPost] using this

/-- the example of the documentation for every pair of identifiers and every index: `*a.b[i]` is
`Deref(Index(Field(a, b), i))` -/
theorem C07_precedence_example (a b : Str) (i : Nat) (ha : isIdentB a = true) (hb : isIdentB b = true) (hi : i < 2 ^ 63) :
    parse ('*' :: a ++ '.' :: b ++ '[' :: natText i ++ [']']) = .ok (.deref (.index (.field (.var a) b) (.int i))) [] := by
  have hi' : (i : Int) < 2 ^ 63 := by exact_mod_cast hi
  have hneg : ¬ ((i : Int) < 0) := by omega
  have := C07_print_parse_partial (.deref (.index (.field (.var a) b) (.int i))) (by simp [frag, okPost, ha, hb]; omega)
  simpa [print, printPre, printPost, printLit, hneg] using this

/-- `a[l..r]` and `(*a)[..r]`, for all identifiers and bounds -/
theorem C07_parse_slice (a : Str) (l r : Nat) (ha : isIdentB a = true) (hl : l < 2 ^ 64) (hr : r < 2 ^ 64) :
    parse (a ++ '[' :: natText l ++ '.' :: '.' :: natText r ++ [']']) = .ok (.slice (.var a) (some l) (some r)) [] ∧
    parse ('(' :: '*' :: a ++ ')' :: '[' :: '.' :: '.' :: natText r ++ [']']) = .ok (.slice (.deref (.var a)) none (some r)) [] := by
  constructor
  · have := C07_print_parse_partial (.slice (.var a) (some l) (some r)) (by simp [frag, okPost, ha, hl, hr])
    simpa [print, printPre, printPost, printBound] using this
  · have := C07_print_parse_partial (.slice (.deref (.var a)) none (some r)) (by simp [frag, okPost, ha, hr])
    simpa [print, printPre, printPost, printBound] using this

/-- **C07_precedence (instances for all identifiers).** `*a.b` is `Deref(Field(a, b))`; `(*a).b` is `Field(Deref a, b)`. -/
theorem C07_precedence_deref_field (a b : Str) (ha : isIdentB a = true) (hb : isIdentB b = true) :
    parse ('*' :: a ++ '.' :: b) = .ok (.deref (.field (.var a) b)) [] ∧
    parse ('(' :: '*' :: a ++ ')' :: '.' :: b) = .ok (.field (.deref (.var a)) b) [] := by
  constructor
  · have := C07_print_parse_partial (.deref (.field (.var a) b)) (by simp [frag, ha, hb])
    simpa [print, printPre, printPost] using this
  · have := C07_print_parse_partial (.field (.deref (.var a)) b) (by simp [frag, ha, hb])
    simpa [print, printPre, printPost] using this

/-! ## the repository's own canonical text of a literal (`Display for Literal`) -/

/-- Full statement: the text `Literal::to_string()` produces parses back to the literal (as an index of a variable `m`). -/
def C07_display_parse_full : Prop :=
  ∀ l, canonLit l = true → parse ('m' :: '[' :: displayLit l ++ [']']) = .ok (.index (.var ['m']) l) []

/-- as found: a structure literal is displayed with quoted keys, `{ "a": 1 }`, which the grammar rejects (keys are bare
identifiers); replayed on the real code by the harness (`C07 disp {61:i1}`, key literal-display-assoc-array-keys-quoted-not-reparsable) -/
theorem C07_display_parse_counterexample : ¬ C07_display_parse_full := by
  intro h
  have h1 := h (.assoc [(['a'], .int 1)]) (by decide)
  have h2 : parse ('m' :: '[' :: displayLit (.assoc [(['a'], .int 1)]) ++ [']']) = .fail := by rfl
  rw [h2] at h1
  cases h1

/-- the canonical printer of the model (bare keys) does parse back on the same literal (a test by evaluation) -/
example : parse ('m' :: '[' :: printLit (.assoc [(['a'], .int 1)]) ++ [']']) = .ok (.index (.var ['m']) (.assoc [(['a'], .int 1)])) [] := by rfl

end BsVerif.Dqe
