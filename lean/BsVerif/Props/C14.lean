import BsVerif.Lemmas.DrReg
/-!
# C14 — the debug registers of every thread encode exactly the active watchpoint set

Model: `BsVerif/Model/Dr.lean` (constants regenerated from `src/debugger/register.rs` / `watchpoint.rs` on every
run: `BsVerif/Gen/Dr.lean`).  The Intel layout used in the statements (`L G LE GE RW LEN`, `bitN`) is written
down independently of those constants in `BsVerif/Lemmas/Dr.lean`.

Histories are lists of `Op` (add by address / by expression, remove by number / address / expression, thread
creation — as one step, or split into the kernel's `spawn` and the two notifications `evClone` / `evStop` the tracer
may receive in either order, with any commands in between — thread exit, data-breakpoint hits, end-of-scope hits,
restart of a live debuggee and exit + rerun, both through the index loop of `clear_local_disable_global`) applied
with `run` to the initial system `{}` (no watchpoint, one thread, all debug registers zero).

`Sys.threads` are the threads the tracer has registered.  A thread in `Sys.newborn` exists in the kernel but has not
been seen by the tracer: it sits in its initial ptrace-stop, has executed nothing, and carries what Linux gives a
new thread (`kernelNewThread`: no breakpoint armed, DR0-3 zero, DR7 reading as the parent's; environment assumption,
probed by the live run); the first notification about it,
whichever it is, moves it to `Sys.threads` (`C14_new_thread_inherits`).

What is *not* a theorem: delivery of data breakpoints by the CPU/kernel ("every write stops once, old/new value
reported") — sampled by the live correspondence run.
-/
namespace BsVerif.Dr
open BsVerif.Gen.Dr

/-! ## the extracted tables agree with the Intel encodings -/

/-- RW: 01 = write, 11 = read/write; LEN: 00 = 1, 01 = 2, 10 = 8, 11 = 4 bytes; byte sizes map to the right
`BreakSize`; every discriminant fits in its two-bit field (so `set_bits` never panics) -/
theorem C14_tables_match_intel :
    BreakCondition.DataWrites.code = 1 ∧ BreakCondition.DataReadsWrites.code = 3 ∧
    BreakSize.Bytes1.code = 0 ∧ BreakSize.Bytes2.code = 1 ∧ BreakSize.Bytes8.code = 2 ∧ BreakSize.Bytes4.code = 3 ∧
    (∀ b : BreakSize, BreakSize.ofBytes? b.bytes = some b) ∧
    (∀ n, (BreakSize.ofBytes? n).isSome ↔ (n = 1 ∨ n = 2 ∨ n = 4 ∨ n = 8)) ∧
    (∀ n b, BreakSize.ofBytes? n = some b → b.bytes = n) ∧
    BreakSize.Bytes1.bytes = 1 ∧ BreakSize.Bytes2.bytes = 2 ∧ BreakSize.Bytes4.bytes = 4 ∧ BreakSize.Bytes8.bytes = 8 := by
  refine ⟨rfl, rfl, rfl, rfl, rfl, rfl, ?_, ?_, ?_, rfl, rfl, rfl, rfl⟩
  · intro b; cases b <;> rfl
  · intro n
    constructor
    · intro h; unfold BreakSize.ofBytes? at h; split at h <;> simp_all
    · rintro (h | h | h | h) <;> subst h <;> rfl
  · intro n b h; unfold BreakSize.ofBytes? at h; split at h <;> simp_all <;> subst h <;> rfl

theorem C14_codes_fit (c : BreakCondition) (s : BreakSize) : c.code < 2 ^ condWidth ∧ s.code < 2 ^ sizeWidth := by
  cases c <;> cases s <;> decide

/-! ## DR7 field lemmas, all four slots -/

/-- `dr_enabled` reads the Intel enable bits -/
theorem C14_dr_enabled_reads_intel_bits (d i : Nat) (hi : i < 4) :
    drEnabled d i false = (L d i == 1) ∧ drEnabled d i true = (G d i == 1) :=
  ⟨drEnabled_local hi, drEnabled_global hi⟩

/-- `configure_bp(k, cond, size)` writes RW_k and LEN_k and nothing else that matters: the fields of the other
slots, all enable bits, LE and GE are untouched -/
theorem C14_configure_bp_fields (d k : Nat) (hk : k < 4) (c : BreakCondition) (s : BreakSize) :
    RW (configureBp d k c s) k = c.code ∧ LEN (configureBp d k c s) k = s.code ∧
    (∀ i, i < 4 → i ≠ k → RW (configureBp d k c s) i = RW d i ∧ LEN (configureBp d k c s) i = LEN d i) ∧
    (∀ i, i < 4 → L (configureBp d k c s) i = L d i ∧ G (configureBp d k c s) i = G d i) ∧
    LE (configureBp d k c s) = LE d ∧ GE (configureBp d k c s) = GE d ∧
    configureBp d k c s % 65536 = d % 65536 :=
  ⟨configureBp_RW_same hk c s, configureBp_LEN_same hk c s,
   fun _ hi hne => ⟨configureBp_RW_other hk hi hne c s, configureBp_LEN_other hk hi hne c s⟩,
   fun _ hi => ⟨configureBp_L hk hi c s, configureBp_G hk hi c s⟩,
   configureBp_LE hk c s, configureBp_GE hk c s, configureBp_low hk c s⟩

/-- `set_dr(k, local, true)` sets L_k and LE, and touches no other enable bit, no G bit, GE, nor any RW/LEN field -/
theorem C14_set_dr_enable_fields (d k : Nat) (hk : k < 4) :
    L (setDr d k false true) k = 1 ∧ LE (setDr d k false true) = 1 ∧ GE (setDr d k false true) = GE d ∧
    (∀ i, i < 4 → i ≠ k → L (setDr d k false true) i = L d i) ∧
    (∀ i, i < 4 → G (setDr d k false true) i = G d i ∧ RW (setDr d k false true) i = RW d i ∧
      LEN (setDr d k false true) i = LEN d i) :=
  ⟨setDr_enable_L_same hk, setDr_enable_LE hk, setDr_enable_GE hk, fun _ hi hne => setDr_enable_L_other hk hi hne,
   fun _ hi => ⟨setDr_enable_G hk hi, RW_of_high (setDr_enable_high hk) hi, LEN_of_high (setDr_enable_high hk) hi⟩⟩

/-- `set_dr(k, local, false)` clears L_k, clears LE exactly when no local enable bit is left, and touches nothing else -/
theorem C14_set_dr_disable_fields (d k : Nat) (hk : k < 4) :
    L (setDr d k false false) k = 0 ∧ GE (setDr d k false false) = GE d ∧
    (∀ i, i < 4 → i ≠ k → L (setDr d k false false) i = L d i) ∧
    (∀ i, i < 4 → G (setDr d k false false) i = G d i ∧ RW (setDr d k false false) i = RW d i ∧
      LEN (setDr d k false false) i = LEN d i) ∧
    LE (setDr d k false false) =
      (if L (setDr d k false false) 0 = 0 ∧ L (setDr d k false false) 1 = 0 ∧ L (setDr d k false false) 2 = 0 ∧
          L (setDr d k false false) 3 = 0 then 0 else LE d) :=
  ⟨setDr_disable_L_same hk, setDr_disable_GE hk, fun _ hi hne => setDr_disable_L_other hk hi hne,
   fun _ hi => ⟨setDr_disable_G hk hi, RW_of_high (setDr_disable_high hk) hi, LEN_of_high (setDr_disable_high hk) hi⟩,
   setDr_disable_LE hk⟩

/-- the free-slot search returns the lowest slot whose **local** enable bit is clear, and fails iff all four are set -/
theorem C14_free_slot_search (d : Nat) :
    (∀ r, findFree d = some r → r < 4 ∧ L d r = 0 ∧ ∀ j, j < r → L d j = 1) ∧
    (findFree d = none ↔ (L d 0 = 1 ∧ L d 1 = 1 ∧ L d 2 = 1 ∧ L d 3 = 1)) := by
  have e0 := drEnabled_local (d := d) (show 0 < 4 by omega)
  have e1 := drEnabled_local (d := d) (show 1 < 4 by omega)
  have e2 := drEnabled_local (d := d) (show 2 < 4 by omega)
  have e3 := drEnabled_local (d := d) (show 3 < 4 by omega)
  constructor
  · intro r h
    refine ⟨(findFree_some h).1, (findFree_some h).2, ?_⟩
    intro j hj
    rcases L_cases d 0 with h0 | h0 <;> rcases L_cases d 1 with h1 | h1 <;> rcases L_cases d 2 with h2 | h2 <;>
      rcases L_cases d 3 with h3 | h3 <;>
      simp [findFree, freeSearchOrder, List.find?, e0, e1, e2, e3, h0, h1, h2, h3] at h <;> subst h <;>
      first | omega | (have : j = 0 ∨ j = 1 ∨ j = 2 := by omega
                       rcases this with h | h | h <;> subst h <;> first | assumption | omega)
  · constructor
    · exact findFree_none
    · rintro ⟨h0, h1, h2, h3⟩
      simp [findFree, freeSearchOrder, List.find?, e0, e1, e2, e3, h0, h1, h2, h3]

/-! ## DR6 -/

/-- `detect_and_flush` reports the lowest B bit that is set, as the debug register of the same number, clears
exactly that bit, and reports nothing (changing nothing) iff B0..B3 are clear -/
theorem C14_dr6_hit_maps_to_slot (d : Nat) :
    (d % 16 = 0 → detectAndFlush d = (none, d)) ∧
    (∀ k, k < 4 → bitN d k = 1 → (∀ j, j < k → bitN d j = 0) → detectAndFlush d = (some k, d - 2 ^ k)) := by
  have g : ∀ i, getBit d i = (bitN d i == 1) := fun _ => rfl
  constructor
  · intro h
    have b0 : bitN d 0 = 0 := by simp only [bitN, Nat.reducePow]; omega
    have b1 : bitN d 1 = 0 := by simp only [bitN, Nat.reducePow]; omega
    have b2 : bitN d 2 = 0 := by simp only [bitN, Nat.reducePow]; omega
    have b3 : bitN d 3 = 0 := by simp only [bitN, Nat.reducePow]; omega
    simp [detectAndFlush, detectOrder, detectGo, trapBit, g, b0, b1, b2, b3]
  · intro k hk hb hlow
    rcases slot_cases hk with h | h | h | h <;> subst h
    · simp only [detectAndFlush, detectOrder, detectGo, trapBit, List.getD_cons_zero, g, hb, beq_self_eq_true, if_true,
        setBit, Bool.false_eq_true, if_false, Prod.mk.injEq, true_and]
      simp only [bitN, Nat.reducePow] at hb ⊢; omega
    · have b0 := hlow 0 (by omega)
      simp [detectAndFlush, detectOrder, detectGo, trapBit, g, hb, b0, setBit]
      simp only [bitN, Nat.reducePow] at hb ⊢; omega
    · have b0 := hlow 0 (by omega); have b1 := hlow 1 (by omega)
      simp [detectAndFlush, detectOrder, detectGo, trapBit, g, hb, b0, b1, setBit]
      simp only [bitN, Nat.reducePow] at hb ⊢; omega
    · have b0 := hlow 0 (by omega); have b1 := hlow 1 (by omega); have b2 := hlow 2 (by omega)
      simp [detectAndFlush, detectOrder, detectGo, trapBit, g, hb, b0, b1, b2, setBit]
      simp only [bitN, Nat.reducePow] at hb ⊢; omega


/-! ## the encoding invariant over all histories -/

/-- every thread of a system -/
def Sys.threads (s : Sys) : List Img := s.main :: s.others

/-- **Main invariant.**  After ANY history — thread creations in it may be single `clone` steps or the kernel's
`spawn t` followed, at any later points and in either order, by the notifications `evClone t` / `evStop t`; restarts
may hit a live or a dead process with any mix of scoped and unscoped watchpoints — in EVERY thread the tracer has
registered (a thread it has not yet seen is stopped, see the header): slot i's local-enable bit is set iff some active
watchpoint owns slot i, and then DR_i is its address, RW_i its condition, LEN_i its size (Intel encodings); all
global-enable bits and GE are clear; LE is set iff there is a watchpoint; every watchpoint owns a slot `< 4`, no
slot has two owners, and there are at most four watchpoints.  (No stale enable bit: an enable bit without an owner
contradicts the first clause.) -/
theorem C14_dr7_encodes_set (ops : List Op) :
    let s := run {} ops
    (∀ t ∈ s.threads, ∀ i, i < 4 →
        (L t.dr7 i = 1 ↔ ∃ w ∈ s.wps, w.hw.reg = some i) ∧
        (∀ w ∈ s.wps, w.hw.reg = some i →
          t.addr i = w.hw.addr ∧ RW t.dr7 i = w.hw.cond.code ∧ LEN t.dr7 i = w.hw.size.code) ∧
        G t.dr7 i = 0) ∧
    (∀ t ∈ s.threads, GE t.dr7 = 0 ∧ (LE t.dr7 = 1 ↔ s.wps ≠ [])) ∧
    (∀ w ∈ s.wps, ∃ r, r < 4 ∧ w.hw.reg = some r) ∧
    (∀ w₁ ∈ s.wps, ∀ w₂ ∈ s.wps, w₁.hw.reg = w₂.hw.reg → cnt s.wps (w₁.hw.reg.getD 0) = 1) ∧
    s.wps.length ≤ 4 := by
  intro s
  have hinv : Inv s := run_inv ops inv_init
  have enc : ∀ t ∈ s.threads, Encodes t s.wps := by
    intro t ht
    rcases List.mem_cons.1 ht with h | h
    · subst h; exact hinv.main
    · exact hinv.others t h
  refine ⟨?_, ?_, hinv.reg.slots, ?_, hinv.reg.length_le⟩
  · intro t ht i hi
    exact ⟨(enc t ht).enabled i hi, (enc t ht).fields i hi, (enc t ht).global i hi⟩
  · intro t ht; exact ⟨(enc t ht).ge, (enc t ht).le⟩
  · intro w₁ h₁ w₂ _ _
    obtain ⟨r, hr, hw⟩ := hinv.reg.slots w₁ h₁
    have h1 := hinv.reg.uniq r hr
    have h2 := (cnt_pos_iff s.wps r).2 ⟨w₁, h₁, hw⟩
    rw [hw]; simp only [Option.getD_some]; omega

/-- at most four watchpoints after any history -/
theorem C14_at_most_four (ops : List Op) : (run {} ops).wps.length ≤ 4 :=
  (run_inv ops inv_init).reg.length_le

/-- two different list positions never share a slot (stated with the counting function: each slot has ≤ 1 owner) -/
theorem C14_slot_owner_unique (ops : List Op) (i : Nat) (hi : i < 4) : cnt (run {} ops).wps i ≤ 1 :=
  (run_inv ops inv_init).reg.uniq i hi

/-- **Freed slots are reusable / the limit is exactly four.**  In any reachable state a new address is refused
with `limitReached` iff four watchpoints are active; with fewer it is accepted, into the lowest free slot. -/
theorem C14_slot_reuse (ops : List Op) (a : Nat) (sz : BreakSize) (c : BreakCondition)
    (hnew : observed (run {} ops).main a = false) :
    let s := run {} ops
    ((addMem s a sz c).1 = .refused .limitReached ↔ s.wps.length = 4) ∧
    (s.wps.length < 4 → ∃ r, r < 4 ∧ (addMem s a sz c).1 = .added s.nextWp r ∧ L s.main.dr7 r = 0 ∧
        (∀ j, j < r → L s.main.dr7 j = 1) ∧ (addMem s a sz c).2.wps.length = s.wps.length + 1) := by
  intro s
  have hinv : Inv s := run_inv ops inv_init
  have hnew' : observed s.main a = false := hnew
  constructor
  · constructor
    · intro h
      unfold addMem at h
      simp only [hnew', Bool.false_eq_true, if_false] at h
      split at h
      · rename_i e he
        exact findFree_none_full hinv.reg hinv.main (hwEnable_error he).1
      · simp at h
    · intro h
      have hf : findFree s.main.dr7 = none := by
        cases hf : findFree s.main.dr7 with
        | none => rfl
        | some r =>
          obtain ⟨hr, hfree⟩ := findFree_some hf
          have h0 : ¬ 0 < cnt s.wps r := by
            intro hp; have := (hinv.main.enabled r hr).2 ((cnt_pos_iff s.wps r).1 hp); omega
          have := length_eq_cnt s.wps hinv.reg.slots
          have := hinv.reg.uniq 0 (by omega); have := hinv.reg.uniq 1 (by omega)
          have := hinv.reg.uniq 2 (by omega); have := hinv.reg.uniq 3 (by omega)
          rcases slot_cases hr with h' | h' | h' | h' <;> subst h' <;> omega
      simp [addMem, hnew', hwEnable, hf]
  · intro hlt
    obtain ⟨r, hr⟩ := findFree_exists hinv.reg hinv.main hlt
    obtain ⟨hr4, hfree, hlow⟩ := (C14_free_slot_search s.main.dr7).1 r hr
    refine ⟨r, hr4, ?_, hfree, hlow, ?_⟩
    · simp [addMem, hnew', hwEnable, hr, Sys.syncAll]
    · simp [addMem, hnew', hwEnable, hr, Sys.syncAll]

/-- **No stale enable bit after a removal.**  Removing a watchpoint (by number, address or expression: any
predicate) from a reachable state clears its slot's enable bit in every thread and shortens the list by one; the
other watchpoints keep their slots (the invariant `C14_dr7_encodes_set` holds again for the result). -/
theorem C14_remove_clears_slot (ops : List Op) (p : Wp → Bool) :
    let s := run {} ops
    ∃ n s', removeWhere s p = some (n, s') ∧ Inv s' ∧
      (n = none → s' = s ∧ ∀ w ∈ s.wps, p w = false) ∧
      (∀ num, n = some num → ∃ x ∈ s.wps, p x = true ∧ x.num = num ∧ s'.wps.length + 1 = s.wps.length ∧
        (∀ y ∈ s'.wps, y ∈ s.wps) ∧
        ∃ k, k < 4 ∧ x.hw.reg = some k ∧ ∀ t ∈ s'.threads, L t.dr7 k = 0) := by
  intro s
  have hinv : Inv s := run_inv ops inv_init
  obtain ⟨n, s', h⟩ := removeWhere_total hinv p
  have hinv' := removeWhere_inv hinv p h
  refine ⟨n, s', h, hinv', ?_, ?_⟩
  · intro hn; subst hn
    unfold removeWhere at h
    split at h
    · rename_i hx; simp at h; exact ⟨h.symm, extract_none hx⟩
    · rename_i w rest hx
      split at h <;> simp at h
  · intro num hn; subst hn
    unfold removeWhere at h
    split at h
    · simp at h
    · rename_i w rest hx
      obtain ⟨xin, px, sub, _, hlen, hc⟩ := extract_some hx
      obtain ⟨k, hk4, hk⟩ := hinv.reg.slots w xin
      simp only [wpDisable, hk, Option.some.injEq, Prod.mk.injEq] at h
      obtain ⟨hnum, hs'⟩ := h
      have hw' : s'.wps = rest := by rw [← hs']; simp [Sys.syncAll]
      refine ⟨w, xin, px, hnum, by rw [hw']; omega, by rw [hw']; exact sub, k, hk4, hk, ?_⟩
      intro t ht
      have enc : Encodes t s'.wps := by
        rcases List.mem_cons.1 ht with h | h
        · subst h; exact hinv'.main
        · exact hinv'.others t h
      have hno : ¬ ∃ w' ∈ s'.wps, w'.hw.reg = some k := by
        rw [hw']; intro hex
        have := (cnt_pos_iff rest k).2 hex
        have := hc k; have := hinv.reg.uniq k hk4; simp [hk] at *; omega
      rcases L_cases t.dr7 k with h | h
      · exact h
      · exact absurd ((enc.enabled k hk4).1 h) hno

/-- **Threads created later inherit the set — for every order of the two notifications.**  In any reachable state
(the history may contain `spawn t` at any point, followed by any commands: adds and removes do not reach a thread
the tracer does not know), the FIRST notification about an unregistered thread `t` — be it the parent's
PTRACE_EVENT_CLONE or the child's own PTRACE_EVENT_STOP — registers it with a register file that encodes the
current watchpoint list (it is `last_seen_state` when there is one); any LATER notification about `t` (the other one
of the pair, or a PTRACE_EVENT_STOP of an interrupt) finds it registered and changes nothing. -/
theorem C14_new_thread_inherits (ops : List Op) (t : Nat) (ev : Op) (hev : ev = .evClone t ∨ ev = .evStop t) :
    let s := run {} ops
    let s' := (step s ev).2
    (t ∈ s.newborn → s'.wps = s.wps ∧ s'.main = s.main ∧ t ∉ s'.newborn ∧
      ∃ img, s'.others = s.others ++ [img] ∧ Encodes img s.wps ∧ (∀ l, s.last = some l → img = l)) ∧
    (t ∉ s.newborn → s' = s) := by
  intro s s'
  have hinv : Inv s := run_inv ops inv_init
  have hs' : s' = if s.newborn.contains t then register s t else s := by
    rcases hev with h | h <;> subst h <;> rfl
  constructor
  · intro ht
    have hc : s.newborn.contains t = true := by simpa using ht
    rw [hs', hc]
    refine ⟨rfl, rfl, ?_, s.last.getD (kernelNewThread s.main), rfl, ?_, ?_⟩
    · simp [register]
    · cases hl : s.last with
      | some l => exact hinv.last l hl
      | none =>
        have hm := hinv.main
        rw [hinv.lastNone hl] at hm ⊢
        exact encodes_kernelNew hm
    · intro l hl; simp [hl]
  · intro ht
    have hc : s.newborn.contains t = false := by simpa using ht
    rw [hs', hc]; rfl

/-- both orders end in the same state, the one the single-step `clone` describes: `spawn t` followed by the two
notifications in either order (with `t` a fresh thread id) -/
theorem C14_clone_orders_agree (s : Sys) (t : Nat) (ht : t ∉ s.newborn) :
    run s [.spawn t, .evClone t, .evStop t] = { (step s .clone).2 with newborn := s.newborn } ∧
    run s [.spawn t, .evStop t, .evClone t] = { (step s .clone).2 with newborn := s.newborn } := by
  have hc : s.newborn.contains t = false := by simpa using ht
  have hf : (s.newborn ++ [t]).filter (· != t) = s.newborn := by
    rw [List.filter_append]
    have : s.newborn.filter (· != t) = s.newborn := by
      apply List.filter_eq_self.2
      intro x hx; simp only [bne_iff_ne, ne_eq]; rintro rfl; exact ht hx
    simp [this]
  let s1 : Sys := { s with newborn := s.newborn ++ [t] }
  let s2 : Sys := { (step s .clone).2 with newborn := s.newborn }
  have h1 : (step s (.spawn t)).2 = s1 := by simp only [step, hc]; rfl
  have hc1 : s1.newborn.contains t = true := by simp [s1]
  have hr : register s1 t = s2 := by simp only [register, s1, s2, step, hf]
  have hc2 : s2.newborn.contains t = false := hc
  have a1 : (step s1 (.evClone t)).2 = s2 := by simp only [step, hc1, if_true]; exact hr
  have a2 : (step s1 (.evStop t)).2 = s2 := by simp only [step, hc1, if_true]; exact hr
  have b1 : (step s2 (.evClone t)).2 = s2 := by simp only [step, hc2]; rfl
  have b2 : (step s2 (.evStop t)).2 = s2 := by simp only [step, hc2]; rfl
  constructor
  · show run (step (step (step s (.spawn t)).2 (.evClone t)).2 (.evStop t)).2 [] = s2
    rw [h1, a1, b2]; rfl
  · show run (step (step (step s (.spawn t)).2 (.evStop t)).2 (.evClone t)).2 [] = s2
    rw [h1, a2, b1]; rfl

/-- non-vacuity: a watchpoint is set, a thread is born, a second watchpoint is set while the tracer does not know
the thread yet, then the child's stop arrives BEFORE the clone event: the thread gets both watchpoints -/
example :
    let s := run {} [.addMem 4096 .Bytes8 .DataWrites, .spawn 7, .addMem 8192 .Bytes4 .DataReadsWrites, .evStop 7, .evClone 7]
    s.others = [s.main] ∧ s.newborn = [] ∧ s.main.a0 = 4096 ∧ s.main.a1 = 8192 ∧ s.wps.length = 2 := by
  decide +kernel

/-! ## refusals -/

/-- **A second watchpoint on an observed address is refused, without any side effect** — by raw address and by
expression (scoped or not: the duplicate check precedes the creation of the companion breakpoint). -/
theorem C14_duplicate_refused (ops : List Op) (w : Wp) (hw : w ∈ (run {} ops).wps) :
    let s := run {} ops
    (∀ sz c, addMem s w.hw.addr sz c = (.refused .alreadyObserved, s)) ∧
    (∀ e b c se, addExpr s e w.hw.addr b c se = (.refused .alreadyObserved, s)) := by
  intro s
  have hinv : Inv s := run_inv ops inv_init
  obtain ⟨k, hk, hr⟩ := hinv.reg.slots w hw
  have ho := observed_of_owner hinv.main hw hk hr
  constructor
  · intro sz c; simp [addMem, ho]
  · intro e b c se; simp [addExpr, ho]

/-- **C14_refused_no_side_effect** (full strength; false before the repair of `from_dqe`, which created the
end-of-scope companion breakpoint before `hw.enable` could refuse): a refused request — fifth watchpoint by address,
on a global or on a scoped local, every duplicate, every wrong size — leaves the whole system (registers of all
threads, registry, breakpoints, counters) unchanged. -/
theorem C14_refused_no_side_effect (s : Sys) (op : Op) (e : Err)
    (h : (step s op).1 = .refused e) : (step s op).2 = s := by
  cases op with
  | addMem a sz c =>
    simp only [step] at h ⊢
    unfold addMem at h ⊢
    by_cases ho : observed s.main a = true
    · simp [ho]
    · simp only [ho, Bool.false_eq_true, if_false] at h ⊢
      cases he : hwEnable s { addr := a, size := sz, cond := c } with
      | error e' => simp
      | ok v => obtain ⟨st, hw', s1⟩ := v; simp [he] at h
  | addExpr ex a b c se =>
    simp only [step] at h ⊢
    unfold addExpr at h ⊢
    by_cases ho : observed s.main a = true
    · simp [ho]
    · by_cases hb : b > 255
      · simp [ho, hb]
      · cases hs : BreakSize.ofBytes? b with
        | none => simp [ho, hb]
        | some size =>
          simp only [ho, hb, hs, Bool.false_eq_true, if_false] at h ⊢
          cases he : hwEnable s { addr := a, size := size, cond := c } with
          | error e' => simp
          | ok v => obtain ⟨st, hw', s1⟩ := v; simp [he] at h
  | rmNum n => simp only [step] at h; unfold rmRes at h; split at h <;> simp at h
  | rmAddr a => simp only [step] at h; unfold rmRes at h; split at h <;> simp at h
  | rmExpr x => simp only [step] at h; unfold rmRes at h; split at h <;> simp at h
  | clone => simp [step] at h
  | spawn t => simp [step] at h
  | evClone t => simp [step] at h
  | evStop t => simp [step] at h
  | threadExit i => simp [step] at h
  | hit t bits =>
    simp only [step] at h
    split at h
    · simp at h
    · split at h <;> simp at h
  | scopeEnd a =>
    simp only [step] at h
    split at h
    · simp at h
    · split at h
      · split at h <;> simp at h
      · simp at h
  | restart alive => simp only [step] at h; split at h <;> simp at h

/-- witness of the repaired defect: four watchpoints by address, then a fifth on a scoped local (companion at
36864).  Replayed on the real code by the corpus. -/
def C14_witness : List Op :=
  [.addMem 4096 .Bytes8 .DataWrites, .addMem 4104 .Bytes8 .DataWrites, .addMem 4112 .Bytes4 .DataReadsWrites,
   .addMem 4120 .Bytes1 .DataWrites]
def C14_witness_op : Op := .addExpr 7 4128 8 .DataWrites (some 36864)

/-- on the witness the fifth watchpoint is refused and nothing is left behind: no companion breakpoint, no
breakpoint number consumed (before the repair the companion stayed, listing watchpoint number 5 that was never
allocated; its next hit tripped `debug_assert_eq!` in the end-of-scope hook, or — after the number had been given to
a later watchpoint — removed that foreign watchpoint) -/
theorem C14_refused_witness :
    (step (run {} C14_witness) C14_witness_op).1 = .refused .limitReached ∧
    (step (run {} C14_witness) C14_witness_op).2 = run {} C14_witness ∧
    (step (run {} C14_witness) C14_witness_op).2.comps = [] := by
  decide +kernel

/-- after the refusal the history continues as if the request had never been made: remove #1, add a watchpoint on
8192 (it gets number 5); there is no companion at 36864 whose hit could remove it -/
theorem C14_refused_then_reuse_witness :
    let s := run {} (C14_witness ++ [C14_witness_op, .rmNum 1, .addMem 8192 .Bytes8 .DataWrites])
    s = run {} (C14_witness ++ [.rmNum 1, .addMem 8192 .Bytes8 .DataWrites]) ∧
    (s.wps.any (fun w => w.hw.addr == 8192 && w.num == 5)) = true ∧ s.comps = [] := by
  decide +kernel

/-! ## restart, end of scope -/

/-- **`clear_local_disable_global`, the loop the code has, for EVERY registry content** (any length, any mix and
order of scoped and unscoped watchpoints, well-formed or not): whenever the index loop — which removes from the
vector it is iterating — completes, the vector holds exactly the unscoped watchpoints, in their order, each
hibernated (slot given up when the process is alive, untouched when it is dead), no scoped one, and
`last_seen_state` is forgotten.  It completes always when the process is dead, and when it is alive as soon as every
watchpoint owns a slot (otherwise `register.expect("should exist")` panics). -/
theorem C14_clear_local_disable_global (s : Sys) (alive : Bool) :
    (∀ s', clearLocalDisableGlobal alive s = some s' →
      s'.wps = (s.wps.filter (fun w => !w.scoped)).map (hibernated alive) ∧ s'.last = none ∧
      (∀ w ∈ s'.wps, w.scoped = false) ∧
      (∀ w ∈ s.wps, w.scoped = false → hibernated alive w ∈ s'.wps) ∧
      (alive = true → ∀ w ∈ s'.wps, w.hw.reg = none)) ∧
    ((alive = false ∨ ∀ w ∈ s.wps, w.hw.reg.isSome) → (clearLocalDisableGlobal alive s).isSome) := by
  constructor
  · intro s' h
    obtain ⟨hw, hl⟩ := cldg_spec alive s s' h
    refine ⟨hw, hl, ?_, ?_, ?_⟩
    · intro w hm
      rw [hw] at hm
      simp only [List.mem_map, List.mem_filter] at hm
      obtain ⟨x, ⟨_, hx⟩, rfl⟩ := hm
      rw [hibernated_scoped]; simpa using hx
    · intro w hm hs
      rw [hw]
      exact List.mem_map.2 ⟨w, List.mem_filter.2 ⟨hm, by simp [hs]⟩, rfl⟩
    · intro ha w hm
      subst ha
      rw [hw] at hm
      simp only [List.mem_map] at hm
      obtain ⟨x, _, rfl⟩ := hm
      rfl
  · intro h
    obtain ⟨s', hs'⟩ := cldg_total alive s h
    simp [hs']

/-- non-vacuity, and the inputs that matter: two scoped watchpoints adjacent in the vector, between unscoped ones -/
example :
    let s := run {} [.addMem 4096 .Bytes8 .DataWrites, .addExpr 11 45056 8 .DataWrites (some 900000),
      .addExpr 12 49152 8 .DataWrites (some 900000), .addExpr 5 20480 8 .DataReadsWrites none]
    (s.wps.map (·.scoped) = [false, true, true, false]) ∧
    ((clearLocalDisableGlobal true s).map (fun s' => s'.wps.map (fun w => (w.hw.addr, w.hw.reg))) =
      some [(4096, none), (20480, none)]) ∧
    ((clearLocalDisableGlobal false s).map (fun s' => s'.wps.map (fun w => (w.hw.addr, w.hw.reg))) =
      some [(4096, some 0), (20480, some 3)]) := by
  decide +kernel

/-- **A watchpoint on a global survives a restart**, one on a scoped local does not — whether the debuggee is
restarted while it runs or has exited and is run again: the step completes (no panic: neither the loop nor the
`debug_assert!(!wp.scoped())` of `refresh`), the list is exactly the unscoped watchpoints, with the same numbers,
addresses, sizes and conditions, in the same order, and the new process's registers encode it (the main invariant
holds again; no thread of the old process is left) -/
theorem C14_global_survives_restart (ops : List Op) (alive : Bool) :
    let s := run {} ops
    let s' := (step s (.restart alive)).2
    (step s (.restart alive)).1 = .done ∧
    s'.wps.map (fun w => (w.num, w.hw.addr, w.hw.size, w.hw.cond, w.expr, w.companion)) =
      (s.wps.filter (fun w => !w.scoped)).map (fun w => (w.num, w.hw.addr, w.hw.size, w.hw.cond, w.expr, w.companion)) ∧
    (∀ w ∈ s'.wps, w.scoped = false) ∧
    Inv s' := by
  intro s s'
  have hinv : Inv s := run_inv ops inv_init
  obtain ⟨r, hr, hi, hm⟩ := restart_inv hinv alive
  have e1 : (step s (.restart alive)).1 = .done := by simp only [step, hr]
  have e2 : s' = r := by show (step s (.restart alive)).2 = r; simp only [step, hr]
  refine ⟨e1, by rw [e2]; exact hm, ?_, by rw [e2]; exact hi⟩
  intro w hw
  rw [e2] at hw
  have : w.companion ∈ (r.wps.map (fun w => (w.num, w.hw.addr, w.hw.size, w.hw.cond, w.expr, w.companion))).map (·.2.2.2.2.2) := by
    simp only [List.map_map, List.mem_map]; exact ⟨w, hw, rfl⟩
  rw [hm] at this
  simp only [List.map_map, List.mem_map, List.mem_filter] at this
  obtain ⟨x, ⟨_, hx⟩, hc⟩ := this
  simp only [Function.comp] at hc
  simp only [Wp.scoped, ← hc] at hx ⊢
  simpa using hx

/-- **A watchpoint on a local is removed when execution leaves its scope**: when the companion breakpoint at `a` is
hit and the hook completes, the watchpoints removed are exactly those listed by that companion (each number: the
first list entry with that number), the rest of the list is untouched, and all threads' registers encode the new list -/
theorem C14_scope_removal (ops : List Op) (a : Nat) (l : List Nat) :
    let s := run {} ops
    (step s (.scopeEnd a)).1 = .ended l →
    ∃ c, s.comps.find? (fun c => c.addr == a) = some c ∧ l = c.wps ∧
      (step s (.scopeEnd a)).2.wps = l.foldl (fun ws n => dropFirst (fun w => w.num == n) ws) s.wps ∧
      Inv (step s (.scopeEnd a)).2 := by
  intro s h
  have hinv : Inv s := run_inv ops inv_init
  have hi := step_inv hinv (.scopeEnd a)
  simp only [step] at h hi ⊢
  cases hc : s.comps.find? (fun c => c.addr == a) with
  | none => simp [hc] at h
  | some c =>
    simp only [hc] at h hi ⊢
    by_cases hall : (c.wps.all fun n => s.wps.any fun w => w.num == n) = true
    · simp only [hall, if_true] at h hi ⊢
      cases hs : removeNums s c.wps with
      | none => simp [hs] at h
      | some s' =>
        simp only [hs] at h hi ⊢
        simp only [Res.ended.injEq] at h
        exact ⟨c, rfl, h.symm, by rw [removeNums_wps c.wps hs, h], hi⟩
    · simp [hall] at h


/-! ## sanity tests (tests, not theorems) -/
#guard (run {} C14_witness).main.dr7 = 0x1F990155
#guard (run {} C14_witness).wps.map (fun w => w.hw.reg) = [some 0, some 1, some 2, some 3]
#guard (step (run {} C14_witness) C14_witness_op).1 = .refused .limitReached
#guard (step (run {} (C14_witness ++ [.rmNum 2])) (.addMem 1 .Bytes2 .DataWrites)).1 = .added 5 1
#guard detectAndFlush 0xFFFF0FF6 = (some 1, 0xFFFF0FF4)
-- restart with two adjacent locals between globals: the new process holds the two globals in slots 0 and 1
#guard (run {} [.addMem 4096 .Bytes8 .DataWrites, .addExpr 11 45056 8 .DataWrites (some 900000),
  .addExpr 12 49152 8 .DataWrites (some 900000), .addExpr 5 20480 8 .DataReadsWrites none, .clone, .restart true]).wps.map
    (fun w => (w.hw.addr, w.hw.reg)) = [(4096, some 0), (20480, some 1)]
#guard (run {} [.addMem 4096 .Bytes8 .DataWrites, .addExpr 11 45056 8 .DataWrites (some 900000),
  .addExpr 12 49152 8 .DataWrites (some 900000), .restart false]).main.dr7 = 0x90101

end BsVerif.Dr
