import BsVerif.Model.DapArgs
import BsVerif.Props.C08
import BsVerif.Gen.DapDispatch
/-!
C08, DAP leg: **no DAP message can crash the adapter** — theorems about `Model/DapArgs.lean`.

* `C08_dap_completion_prefix_total` / `_utf8`: `completion_prefix` never panics, for every text and every column; what it
  cuts are whole characters of the UTF-8 text. `C08_dap_completion_bytes_counterexample`: the same scan with the
  column taken as a *byte* offset is not total (`&text[a..b]` off a char boundary).
* `C08_dap_args_total`: with the repairs (`repaired`), for every command of the dispatch table, every JSON argument
  value, every request sequence number and every session state, decoding ends in a success, an error response or a
  call into the debugger — never in a panic, an abort, a signal to the adapter's own group or a dropped session.
* `C08_dap_args_total_partial` (the code as it is, decidable hypothesis `benign`: only `disassemble`'s count sum and
  `terminateThreads`' first id are left), `C08_dap_args_total_counterexample`, `C08_dap_args_witnesses`;
  `C08_dap_args_witnesses_regression` / `_witness_expr_regression`: what the model said before the repairs of the
  expression parser and of the read-buffer reservation, and what it says now.
* `C08_dap_session_total`: the same for every history of messages (incl. malformed envelopes) and every sequence of
  debugger answers; `C08_dap_envelope_counterexample`: a malformed envelope still ends the session.
-/
namespace BsVerif.DapArgs
open BsVerif BsVerif.CmdNum

/-! ## the early-exit monad -/

/-- the step finished (or went on) without a fault -/
def R.SafeR {α} : R α → Prop
  | .val _ => True
  | .stop o => o.Safe

def R.SafeOut : R Out → Prop
  | .val o => o.Safe
  | .stop o => o.Safe

theorem R_safeOut_run (x : R Out) : x.SafeOut ↔ x.run.Safe := by cases x <;> simp [R.SafeOut, R.run]

theorem safeOut_bind {α} (x : R α) (f : α → R Out) (hx : x.SafeR) (hf : ∀ a, (f a).SafeOut) : (x >>= f).SafeOut := by
  cases x with
  | val a => exact hf a
  | stop o => exact hx

theorem safeR_bind {α β} (x : R α) (f : α → R β) (hx : x.SafeR) (hf : ∀ a, (f a).SafeR) : (x >>= f).SafeR := by
  cases x with
  | val a => exact hf a
  | stop o => exact hx

theorem safeR_orErr {α} (o : Option α) (m : String) : (orErr o m).SafeR := by
  cases o <;> simp [orErr, R.SafeR, Out.Safe]
theorem safeR_rejectIf (c : Bool) (m : String) : (rejectIf c m).SafeR := by
  unfold rejectIf; split <;> simp [R.SafeR, Out.Safe]
theorem safeR_needDbg (s : Sess) (m : String) : (needDbg s m).SafeR := by
  unfold needDbg; split <;> simp [R.SafeR, Out.Safe]
theorem safeR_cancelCheck (s : Sess) (q : Int) : (cancelCheck s q).SafeR := by
  unfold cancelCheck; split <;> simp [R.SafeR, Out.Safe]
theorem safeR_memRefR (r : Except String Nat) (c : Option String) : (memRefR r c).SafeR := by
  cases r <;> simp [memRefR, R.SafeR, Out.Safe]
theorem safeR_pure {α} (a : α) : (pure a : R α).SafeR := by simp [pure, R.SafeR]
theorem safeR_val {α} (a : α) : (R.val a : R α).SafeR := by simp [R.SafeR]
theorem safeOut_pure_iff (o : Out) : (pure o : R Out).SafeOut ↔ o.Safe := by simp [pure, R.SafeOut]
theorem safeOut_val_iff (o : Out) : (R.val o : R Out).SafeOut ↔ o.Safe := by simp [R.SafeOut]
theorem safeOut_stop_iff (o : Out) : (R.stop o : R Out).SafeOut ↔ o.Safe := by simp [R.SafeOut]
theorem safeR_stop_iff {α} (o : Out) : (R.stop o : R α).SafeR ↔ o.Safe := by simp [R.SafeR]

/-- walks through a handler written in `do` notation: binds, join points, `if`s and `match`es -/
macro "dap_safe" : tactic => `(tactic|
  repeat' (first
    | intro _
    | exact trivial
    | assumption
    | apply safeOut_bind
    | apply safeR_bind
    | (simp only [safeR_orErr, safeR_rejectIf, safeR_needDbg, safeR_cancelCheck, safeR_memRefR, safeR_pure, safeR_val,
        safeOut_pure_iff, safeOut_val_iff, safeOut_stop_iff, safeR_stop_iff, Out.Safe]; done)
    | split
    | dsimp only))

/-! ## `completion_prefix` -/

theorem isPrefixChar_ascii (c : Char) (h : isPrefixChar c = true) : utf8Len c = 1 := by
  have hlt : c.toNat < 128 := by
    simp only [isPrefixChar, Bool.or_eq_true, Bool.and_eq_true, decide_eq_true_eq, beq_iff_eq] at h
    rcases h with (((h | h) | h) | h) | h
    · omega
    · omega
    · omega
    · subst h; decide
    · subst h; decide
  simp [utf8Len, hlt]

/-- the scan stays inside the text, stops at or before `start`, and everything it passed is a prefix character -/
theorem scanBack_spec (cs : List Char) : ∀ (f start : Nat), start ≤ cs.length →
    ∃ r, scanBack cs f start = .val r ∧ r ≤ start ∧ ∀ i, r ≤ i → i < start → ∃ c, cs[i]? = some c ∧ isPrefixChar c = true := by
  intro f
  induction f with
  | zero => intro start _; exact ⟨start, rfl, Nat.le_refl _, fun i h1 h2 => absurd h2 (by omega)⟩
  | succ f ih =>
    intro start hs
    unfold scanBack
    by_cases h0 : start = 0
    · simp only [h0, ↓reduceIte]
      exact ⟨0, rfl, Nat.le_refl _, fun i _ h2 => absurd h2 (by omega)⟩
    · simp only [h0, ↓reduceIte]
      have hlt : start - 1 < cs.length := by omega
      have hget : cs[start - 1]? = some cs[start - 1] := List.getElem?_eq_getElem hlt
      rw [hget]
      dsimp only
      by_cases hp : isPrefixChar cs[start - 1] = true
      · simp only [hp, ↓reduceIte]
        obtain ⟨r, hr, hle, hall⟩ := ih (start - 1) (by omega)
        refine ⟨r, hr, by omega, ?_⟩
        intro i h1 h2
        by_cases hi : i < start - 1
        · exact hall i h1 hi
        · have : i = start - 1 := by omega
          subst this
          exact ⟨_, hget, hp⟩
      · simp only [hp]
        exact ⟨start, by simp, Nat.le_refl _, fun i h1 h2 => absurd h2 (by omega)⟩

/-- **`completion_prefix` is total**: for every text and every column it returns; the prefix is the `len`
characters before the (clamped) column, all of them identifier characters, and it lies inside the text. -/
theorem C08_dap_completion_prefix_total (text : List Char) (column : Int) :
    ∃ p st len, completionPrefix text column = .val (p, st, len) ∧ 1 ≤ st ∧ st - 1 + len ≤ text.length ∧
      p = (text.drop (st - 1)).take len ∧ p.length = len ∧ ∀ c ∈ p, isPrefixChar c = true := by
  unfold completionPrefix
  dsimp only
  generalize hend : (max 1 (min column ((text.length : Int) + 1)) - 1).toNat = endIdx
  have hle : endIdx ≤ text.length := by omega
  obtain ⟨r, hr, hrle, hall⟩ := scanBack_spec text endIdx endIdx hle
  rw [hr]
  dsimp only
  have hc : r ≤ endIdx ∧ endIdx ≤ text.length := ⟨hrle, hle⟩
  rw [if_pos hc]
  refine ⟨_, _, _, rfl, by omega, by simp; omega, by simp, ?_, ?_⟩
  · simp only [List.length_take, List.length_drop]; omega
  · intro c hc
    obtain ⟨i, hi, hget⟩ := List.mem_iff_getElem.mp hc
    simp only [List.length_take, List.length_drop] at hi
    have : ((text.drop r).take (endIdx - r))[i]? = some c := by rw [List.getElem?_eq_getElem (by simpa using hi)]; simp [hget]
    rw [List.getElem?_take_of_lt (by omega), List.getElem?_drop] at this
    obtain ⟨c', h1, h2⟩ := hall (r + i) (by omega) (by omega)
    rw [h1] at this
    cases this
    exact h2

example : completionPrefix ['d', 'í', ' ', 'a', 'c'] 6 = .val (['a', 'c'], 4, 2) := by decide
example : completionPrefix ['d', 'í'] 3 = .val ([], 3, 0) := by decide
example : completionPrefix ['d', 'í'] 99 = .val ([], 3, 0) := by decide

/-! ### the UTF-8 view -/

theorem utf8Len_pos (c : Char) : 1 ≤ utf8Len c := by unfold utf8Len; split <;> (try split) <;> (try split) <;> omega

theorem byteOff_zero (cs : List Char) : byteOff cs 0 = 0 := by simp [byteOff]
theorem byteOff_cons_succ (c : Char) (cs : List Char) (k : Nat) : byteOff (c :: cs) (k + 1) = utf8Len c + byteOff cs k := by
  simp [byteOff]

/-- the byte offset of a character index is a char boundary -/
theorem byteOff_isCharBoundary : ∀ (cs : List Char) (k : Nat), k ≤ cs.length → isCharBoundary cs (byteOff cs k) = true := by
  intro cs
  induction cs with
  | nil => intro k hk; have : k = 0 := by simpa using hk
           subst this; simp [byteOff, isCharBoundary]
  | cons c cs ih =>
    intro k hk
    cases k with
    | zero => simp [byteOff_zero, isCharBoundary]
    | succ k =>
      rw [byteOff_cons_succ]
      have hp := utf8Len_pos c
      obtain ⟨m, hm⟩ : ∃ m, utf8Len c + byteOff cs k = m + 1 := ⟨utf8Len c + byteOff cs k - 1, by omega⟩
      rw [hm]
      unfold isCharBoundary
      have : utf8Len c ≤ m + 1 := by omega
      simp only [this, ↓reduceIte]
      have : m + 1 - utf8Len c = byteOff cs k := by omega
      rw [this]
      exact ih k (by simpa using hk)

theorem byteOff_mono (cs : List Char) (i j : Nat) (h : i ≤ j) : byteOff cs i ≤ byteOff cs j := by
  induction cs generalizing i j with
  | nil => simp [byteOff]
  | cons c cs ih =>
    cases i with
    | zero => simp [byteOff_zero]
    | succ i =>
      cases j with
      | zero => omega
      | succ j => rw [byteOff_cons_succ, byteOff_cons_succ]; have := ih i j (by omega); omega

theorem byteOff_le_byteLen (cs : List Char) (k : Nat) : byteOff cs k ≤ byteLen cs := by
  induction cs generalizing k with
  | nil => simp [byteOff, byteLen]
  | cons c cs ih =>
    cases k with
    | zero => simp [byteOff_zero]
    | succ k => rw [byteOff_cons_succ]; have := ih k; simp only [byteLen, List.map_cons, List.sum_cons] at *; omega

theorem byteLen_ascii (p : List Char) (h : ∀ c ∈ p, isPrefixChar c = true) : byteLen p = p.length := by
  induction p with
  | nil => simp [byteLen]
  | cons c p ih =>
    have h1 := isPrefixChar_ascii c (h c (by simp))
    have h2 := ih (fun c hc => h c (by simp [hc]))
    simp only [byteLen, List.map_cons, List.sum_cons, List.length_cons] at *
    omega

/-- **char-boundary arithmetic of `completion_prefix`**: cutting the UTF-8 text at the byte offsets of the character
indices the function computes never splits a character (`&text[a..b]` does not panic there), and the prefix, being
ASCII, is as many bytes long as the `length` it reports. -/
theorem C08_dap_completion_prefix_utf8 (text : List Char) (column : Int) :
    ∃ p st len, completionPrefix text column = .val (p, st, len) ∧
      (∃ q, strSlice text (byteOff text (st - 1)) (byteOff text (st - 1 + len)) = .val q) ∧ byteLen p = len := by
  obtain ⟨p, st, len, h, h1, h2, _, h4, h5⟩ := C08_dap_completion_prefix_total text column
  refine ⟨p, st, len, h, ?_, ?_⟩
  · unfold strSlice
    have ha := byteOff_isCharBoundary text (st - 1) (by omega)
    have hb := byteOff_isCharBoundary text (st - 1 + len) h2
    have hm := byteOff_mono text (st - 1) (st - 1 + len) (by omega)
    have hl := byteOff_le_byteLen text (st - 1 + len)
    rw [if_pos ⟨hm, hl, ha, hb⟩]
    exact ⟨_, rfl⟩
  · rw [byteLen_ascii p h5, h4]

/-- **the byte-offset variant is not total**: with `column` used as an offset into the UTF-8 bytes and the prefix cut by
`&text[start..end]`, the text `dí` with column 3 (inside the two-byte `í`) panics ("byte index 2 is not a char
boundary") — the class of change the byte view of the model exists to expose. -/
theorem C08_dap_completion_bytes_counterexample :
    completionPrefixBytes ['d', 'í'] 3 = .stop (.panic .charBoundary) ∧
    completionPrefixBytes ['日', '本'] 2 = .stop (.panic .charBoundary) := by decide

/-- on the same inputs the function as written answers -/
example : completionPrefix ['d', 'í'] 3 = .val ([], 3, 0) ∧ completionPrefix ['日', '本'] 2 = .val ([], 2, 0) := by decide

/-! ## the pieces that can fault -/

theorem safeR_completionPrefix (t : List Char) (c : Int) : (completionPrefix t c).SafeR := by
  obtain ⟨p, st, len, h, _⟩ := C08_dap_completion_prefix_total t c
  rw [h]; trivial

theorem resToR_safe (r : Res) (h : r.isPanic = false) : (resToR r).SafeR := by
  cases r <;> simp_all [resToR, R.SafeR, Res.isPanic]

theorem safeR_parseExpr (q : Q) (hq : q.parser.checked = true) (s : List Char) : (parseExpr q s).SafeR :=
  resToR_safe _ (C08_run_total q.parser hq G.env _ _ s)

theorem safeR_parseWpAddr (q : Q) (hq : q.parser.checked = true) (s : List Char) : (parseWpAddr q s).SafeR :=
  resToR_safe _ (C08_run_total q.parser hq G.env _ _ s)

/-- `parse_data_breakpoint_expression` faults only through the two parsers -/
theorem safeR_parseDataBpExpr_of (q : Q) (e : List Char)
    (h1 : (parseWpAddr q (trim e)).SafeR) (h2 : (parseExpr q (trim e)).SafeR) : (parseDataBpExpr q e).SafeR := by
  unfold parseDataBpExpr
  dsimp only
  split
  · trivial
  · cases hw : parseWpAddr q (trim e) with
    | stop o => rw [hw] at h1; exact h1
    | val b => cases b <;> simp only [R.SafeR] <;> first | exact h2 | trivial

theorem safeR_parseDataBpExpr (q : Q) (hq : q.parser.checked = true) (e : List Char) : (parseDataBpExpr q e).SafeR :=
  safeR_parseDataBpExpr_of q e (safeR_parseWpAddr q hq _) (safeR_parseExpr q hq _)

theorem safeR_parseDataBpId (q : Q) (hq : q.parser.checked = true) (d : List Char) : (parseDataBpId q d).SafeR := by
  unfold parseDataBpId
  dsimp only
  split
  · exact safeR_parseDataBpExpr q hq _
  · split <;> exact safeR_parseDataBpExpr q hq _

theorem safeOut_ite (c : Prop) [Decidable c] (x y : R Out) (hx : x.SafeOut) (hy : y.SafeOut) :
    (if c then x else y).SafeOut := by split <;> assumption

theorem dataBpLoop_safe (q : Q) (hq : q.parser.checked = true) : ∀ bps : List J, (dataBpLoop q bps).SafeOut := by
  intro bps
  induction bps with
  | nil => simp [dataBpLoop, R.SafeOut, Out.Safe]
  | cons bp rest ih =>
    have key : ∀ d, (match parseDataBpId q d with
        | .stop o => R.stop o
        | .val _ => dataBpLoop q rest).SafeOut := by
      intro d
      have := safeR_parseDataBpId q hq d
      cases h : parseDataBpId q d with
      | stop o => rw [h] at this; exact this
      | val b => exact ih
    unfold dataBpLoop
    split
    · exact ih
    · dsimp only
      exact safeOut_ite _ _ _ (key _) ih

theorem safeR_alloc (q : Q) (hq : q.allocGuard = true) (n : Nat) : (alloc q n).SafeR := by
  unfold alloc; split
  · trivial
  · simp [hq, R.SafeR]

theorem safeR_alloc_small (q : Q) (n : Nat) (h : n < allocMax) : (alloc q n).SafeR := by
  unfold alloc; simp [h, R.SafeR]

theorem safeR_addGuard (q : Q) (hq : q.checkedArith = true) (n : Nat) : (addGuard q n).SafeR := by
  unfold addGuard; split
  · trivial
  · simp [hq, R.SafeR, Out.Safe]

theorem safeR_addGuard_small (q : Q) (n : Nat) (h : n < 2 ^ 64) : (addGuard q n).SafeR := by
  unfold addGuard; simp [h, R.SafeR]

theorem killFirst_safe (q : Q) (hq : q.killGuard = true) (t : J) : (killFirst q t).SafeOut := by
  unfold killFirst
  split
  · simp [R.SafeOut, Out.Safe]
  · split
    · simp [R.SafeOut, Out.Safe]
    · split
      · simp [R.SafeOut, Out.Safe]
      · split <;> simp [hq, R.SafeOut, Out.Safe]

/-- the quirk settings under which nothing faults: every repair is in place -/
structure Q.AllRepaired (q : Q) : Prop where
  parser : q.parser.checked = true
  arith : q.checkedArith = true
  alloc : q.allocGuard = true
  kill : q.killGuard = true

theorem repaired_allRepaired : repaired.AllRepaired := ⟨rfl, rfl, rfl, rfl⟩

macro "dap_safe2" : tactic => `(tactic|
  repeat' (first
    | intro _
    | apply safeOut_bind
    | apply safeR_bind
    | (simp only [safeR_orErr, safeR_rejectIf, safeR_needDbg, safeR_cancelCheck, safeR_memRefR, safeR_pure, safeR_val,
        safeOut_pure_iff, safeOut_val_iff, safeOut_stop_iff, safeR_stop_iff, Out.Safe]; done)
    | (apply safeR_parseExpr; assumption)
    | (apply safeR_parseDataBpExpr; assumption)
    | (apply safeR_alloc; assumption)
    | (apply safeR_addGuard; assumption)
    | (apply dataBpLoop_safe; assumption)
    | (apply killFirst_safe; assumption)
    | apply safeR_completionPrefix
    | split
    | dsimp only))

/-! ## every command, every argument value, every session state -/

/-- the full statement: decoding a request never faults -/
def C08_dap_args_total_full (q : Q) : Prop :=
  ∀ (s : Sess) (seq : Int) (c : Cmd) (a : J), (decode q s seq c a).run.Safe

theorem decAttach_safe (q : Q) (h1 : q.parser.checked = true) (h3 : q.allocGuard = true) (s : Sess) (seq : Int) (cmd : String) (a : J) : (decAttach a).SafeOut := by
  unfold decAttach; dap_safe2

theorem decBreakpointLocations_safe (q : Q) (h1 : q.parser.checked = true) (h3 : q.allocGuard = true) (s : Sess) (seq : Int) (cmd : String) (a : J) : (decBreakpointLocations s a).SafeOut := by
  unfold decBreakpointLocations; dap_safe2

theorem decSetDataBreakpoints_safe (q : Q) (h1 : q.parser.checked = true) (h3 : q.allocGuard = true) (s : Sess) (seq : Int) (cmd : String) (a : J) : (decSetDataBreakpoints q s a).SafeOut := by
  unfold decSetDataBreakpoints; dap_safe2

theorem decRestartFrame_safe (q : Q) (h1 : q.parser.checked = true) (h3 : q.allocGuard = true) (s : Sess) (seq : Int) (cmd : String) (a : J) : (decRestartFrame s a).SafeOut := by
  unfold decRestartFrame; dap_safe2

theorem decStepInTargets_safe (q : Q) (h1 : q.parser.checked = true) (h3 : q.allocGuard = true) (s : Sess) (seq : Int) (cmd : String) (a : J) : (decStepInTargets s a).SafeOut := by
  unfold decStepInTargets; dap_safe2

theorem decReverse_safe (q : Q) (h1 : q.parser.checked = true) (h3 : q.allocGuard = true) (s : Sess) (seq : Int) (cmd : String) (a : J) : (decReverse cmd a).SafeOut := by
  unfold decReverse; dap_safe2

theorem decGotoTargets_safe (q : Q) (h1 : q.parser.checked = true) (h3 : q.allocGuard = true) (s : Sess) (seq : Int) (cmd : String) (a : J) : (decGotoTargets s a).SafeOut := by
  unfold decGotoTargets; dap_safe2

theorem decGoto_safe (q : Q) (h1 : q.parser.checked = true) (h3 : q.allocGuard = true) (s : Sess) (seq : Int) (cmd : String) (a : J) : (decGoto s a).SafeOut := by
  unfold decGoto; dap_safe2

theorem decEvaluate_safe (q : Q) (h1 : q.parser.checked = true) (h3 : q.allocGuard = true) (s : Sess) (seq : Int) (cmd : String) (a : J) : (decEvaluate q s seq a).SafeOut := by
  unfold decEvaluate; dap_safe2

theorem decSetExpression_safe (q : Q) (h1 : q.parser.checked = true) (h3 : q.allocGuard = true) (s : Sess) (seq : Int) (cmd : String) (a : J) : (decSetExpression q s a).SafeOut := by
  unfold decSetExpression; dap_safe2

theorem decCompletions_safe (q : Q) (h1 : q.parser.checked = true) (h3 : q.allocGuard = true) (s : Sess) (seq : Int) (cmd : String) (a : J) : (decCompletions a).SafeOut := by
  unfold decCompletions; dap_safe2

theorem decReadMemory_safe (q : Q) (h1 : q.parser.checked = true) (h3 : q.allocGuard = true) (s : Sess) (seq : Int) (cmd : String) (a : J) : (decReadMemory q s seq a).SafeOut := by
  unfold decReadMemory; dap_safe2

theorem decWriteMemory_safe (q : Q) (h1 : q.parser.checked = true) (h3 : q.allocGuard = true) (s : Sess) (seq : Int) (cmd : String) (a : J) : (decWriteMemory s a).SafeOut := by
  unfold decWriteMemory; dap_safe2

theorem decDisassemble_safe (q : Q) (h1 : q.parser.checked = true) (h3 : q.allocGuard = true) (h2 : q.checkedArith = true) (s : Sess) (seq : Int) (cmd : String) (a : J) : (decDisassemble q s seq a).SafeOut := by
  unfold decDisassemble; dap_safe2

theorem decTerminateThreads_safe (q : Q) (h1 : q.parser.checked = true) (h3 : q.allocGuard = true) (h4 : q.killGuard = true) (s : Sess) (seq : Int) (cmd : String) (a : J) : (decTerminateThreads q a).SafeOut := by
  unfold decTerminateThreads; dap_safe2

theorem decCancel_safe (q : Q) (h1 : q.parser.checked = true) (h3 : q.allocGuard = true) (s : Sess) (seq : Int) (cmd : String) (a : J) : (decCancel a).SafeOut := by
  unfold decCancel; dap_safe2

theorem decRunInTerminal_safe (q : Q) (h1 : q.parser.checked = true) (h3 : q.allocGuard = true) (s : Sess) (seq : Int) (cmd : String) (a : J) : (decRunInTerminal a).SafeOut := by
  unfold decRunInTerminal; dap_safe2

theorem decSource_safe (q : Q) (h1 : q.parser.checked = true) (h3 : q.allocGuard = true) (s : Sess) (seq : Int) (cmd : String) (a : J) : (decSource a).SafeOut := by
  unfold decSource; dap_safe2

/-- decoding faults at most where `disassemble` adds up its count and where `terminateThreads` signals -/
theorem decode_safe_gen (q : Q) (h1 : q.parser.checked = true) (h3 : q.allocGuard = true) (s : Sess) (seq : Int) (c : Cmd) (a : J)
    (hd : c = .disassemble → (decDisassemble q s seq a).SafeOut)
    (hk : c = .terminateThreads → (decTerminateThreads q a).SafeOut) : (decode q s seq c a).SafeOut := by
  cases c
  case attach => exact decAttach_safe q h1 h3 s seq "" a
  case breakpointLocations => exact decBreakpointLocations_safe q h1 h3 s seq "" a
  case setDataBreakpoints => exact decSetDataBreakpoints_safe q h1 h3 s seq "" a
  case restartFrame => exact decRestartFrame_safe q h1 h3 s seq "" a
  case stepInTargets => exact decStepInTargets_safe q h1 h3 s seq "" a
  case stepBack => exact decReverse_safe q h1 h3 s seq "stepBack" a
  case reverseContinue => exact decReverse_safe q h1 h3 s seq "reverseContinue" a
  case gotoTargets => exact decGotoTargets_safe q h1 h3 s seq "" a
  case goto => exact decGoto_safe q h1 h3 s seq "" a
  case evaluate => exact decEvaluate_safe q h1 h3 s seq "" a
  case setExpression => exact decSetExpression_safe q h1 h3 s seq "" a
  case completions => exact decCompletions_safe q h1 h3 s seq "" a
  case readMemory => exact decReadMemory_safe q h1 h3 s seq "" a
  case writeMemory => exact decWriteMemory_safe q h1 h3 s seq "" a
  case disassemble => exact hd rfl
  case terminateThreads => exact hk rfl
  case cancel => exact decCancel_safe q h1 h3 s seq "" a
  case runInTerminal => exact decRunInTerminal_safe q h1 h3 s seq "" a
  case source => exact decSource_safe q h1 h3 s seq "" a
  all_goals (simp only [decode]; dap_safe2)

theorem decode_safe (q : Q) (hq : q.AllRepaired) (s : Sess) (seq : Int) (c : Cmd) (a : J) : (decode q s seq c a).SafeOut :=
  decode_safe_gen q hq.parser hq.alloc s seq c a (fun _ => decDisassemble_safe q hq.parser hq.alloc hq.arith s seq "" a)
    (fun _ => decTerminateThreads_safe q hq.parser hq.alloc hq.kill s seq "" a)

/-- **C08_dap_args_total** (repaired): for every command of the dispatch table, every JSON argument value, every
request number and every session state (no debugger / loaded / stopped / exited, any mode, any cancellation set),
decoding yields a success, an error response or a call into the debugger — never a panic, an abort, a signal to the
adapter's own process group or a dropped session. -/
theorem C08_dap_args_total : C08_dap_args_total_full repaired :=
  fun s seq c a => (R_safeOut_run _).mp (decode_safe repaired repaired_allRepaired s seq c a)

example : (decode repaired {} 1 .completions (.obj [(k!"text", .str ['d', 'í']), (k!"column", .num 3)])).run = .ok := by decide

/-! ## the code as it is: where the full statement still fails, and the requests for which it holds -/

def witnessDisassemble : J :=
  .obj [(k!"memoryReference", .str k!"0x10"), (k!"instructionCount", .num (2 ^ 63 - 1)), (k!"instructionOffset", .num (-(2 ^ 63)))]

/-- **C08_dap_args_total_counterexample.** For the code as it is the full statement is false: `disassemble` with
`instructionCount = i64::MAX` and `instructionOffset = i64::MIN` overflows `instruction_count as usize +
back_instructions + 16` (source.rs:70) — in any session state, before the debugger is even looked at. -/
theorem C08_dap_args_total_counterexample : ¬ C08_dap_args_total_full current := by
  intro h
  have := h {} 1 .disassemble witnessDisassemble
  revert this
  decide

/-- the witnesses of the fault classes that are still open (replayed on the real code, corpus/C08/dap-witnesses.req) -/
theorem C08_dap_args_witnesses :
    (decode current {} 1 .disassemble witnessDisassemble).run = .panic .addOverflow ∧
    (decode current {} 1 .terminateThreads (.obj [(k!"threadIds", .arr [.num 0])])).run = .killed := by decide

/-- **regression**: what the same model says for the code as it was found — the read-buffer reservation
(`Vec::with_capacity`, repaired by 939acb3) and the numeric tokens of the expression parser (repaired by 49f358c,
67375f8) made `disassemble`, `readMemory`, `dataBreakpointInfo`, `evaluate` fault — and for the code as it is: the
same requests are handed to the debugger (which answers `ENOMEM` / a parse error) or answered. -/
theorem C08_dap_args_witnesses_regression :
    (decode asFound { dbg := .live } 1 .disassemble
      (.obj [(k!"memoryReference", .str k!"0x10"), (k!"instructionCount", .num (2 ^ 62))])).run = .panic .capacity ∧
    (decode asFound { dbg := .live } 1 .readMemory
      (.obj [(k!"memoryReference", .str k!"0x10"), (k!"count", .num (2 ^ 47))])).run = .abort ∧
    (decode current { dbg := .live } 1 .disassemble
      (.obj [(k!"memoryReference", .str k!"0x10"), (k!"instructionCount", .num (2 ^ 62))])).run = .pass ∧
    (decode current { dbg := .live } 1 .readMemory
      (.obj [(k!"memoryReference", .str k!"0x10"), (k!"count", .num (2 ^ 47))])).run = .pass := by decide

theorem C08_dap_args_witness_expr_regression :
    (decode asFound {} 1 .dataBreakpointInfo (.obj [(k!"name", .str k!"a[18446744073709551616]")])).run = .panic (.expr .litInt) ∧
    (decode asFound { dbg := .loaded } 1 .evaluate (.obj [(k!"expression", .str k!"a[1..99999999999999999999]")])).run
      = .panic (.expr .sliceBound) ∧
    (decode current {} 1 .dataBreakpointInfo (.obj [(k!"name", .str k!"a[18446744073709551616]")])).run = .ok ∧
    (decode current { dbg := .loaded } 1 .evaluate (.obj [(k!"expression", .str k!"a[1..99999999999999999999]")])).run = .pass := by
  decide +kernel

/-- with the remaining repairs the open witnesses are answered with an error response -/
theorem C08_dap_args_witnesses_repaired :
    (decode repaired {} 1 .disassemble witnessDisassemble).run = .err "disassemble: instruction count overflow" ∧
    (decode repaired {} 1 .terminateThreads (.obj [(k!"threadIds", .arr [.num 0])])).run = .err "terminateThreads: threadIds must be positive" := by
  decide

theorem R_val_bind {α β} (a : α) (f : α → R β) : (R.val a >>= f) = f a := rfl
theorem R_stop_bind {α β} (o : Out) (f : α → R β) : ((R.stop o : R α) >>= f) = R.stop o := rfl

/-- **the decidable hypothesis of the partial theorem**: `disassemble` does not ask for a count that overflows
`usize`, and `terminateThreads` does not start with thread id 0. (Before the repairs of the expression parser and of
the read-buffer reservation the hypothesis also had to exclude out-of-range numeric tokens in every expression string
and sizes beyond the address space.) -/
def benign (c : Cmd) (a : J) : Bool :=
  match c with
  | .disassemble =>
    decide (((getI64 a k!"instructionCount").getD 0).toNat + ((getI64 a k!"instructionOffset").getD 0).natAbs + 16 < 2 ^ 64)
  | .terminateThreads => match (a.get k!"threadIds").bind J.arr? with
    | some (t :: _) => t.i64? != some 0
    | _ => true
  | _ => true

macro "dap_safe3" : tactic => `(tactic|
  repeat' (first
    | intro _
    | assumption
    | apply safeOut_bind
    | apply safeR_bind
    | (simp only [safeR_orErr, safeR_rejectIf, safeR_needDbg, safeR_cancelCheck, safeR_memRefR, safeR_pure, safeR_val,
        safeOut_pure_iff, safeOut_val_iff, safeOut_stop_iff, safeR_stop_iff, Out.Safe]; done)
    | (apply safeR_alloc; assumption)
    | split
    | dsimp only
    | contradiction))

section
attribute [local irreducible] alloc addGuard allocMax

theorem decDisassemble_partial (q : Q) (h3 : q.allocGuard = true) (s : Sess) (seq : Int) (a : J) (h : benign .disassemble a = true) :
    (decDisassemble q s seq a).SafeOut := by
  unfold decDisassemble
  simp only [benign, decide_eq_true_eq] at h
  cases hc : getI64 a k!"instructionCount" with
  | none => simp only [orErr, R_stop_bind]; dap_safe3
  | some c =>
    rw [hc] at h
    simp only [Option.getD_some] at h
    have hG := safeR_addGuard_small q _ h
    clear h
    simp only [orErr, R_val_bind]
    dap_safe3

theorem decTerminateThreads_partial (q : Q) (a : J) (h : benign .terminateThreads a = true) :
    (decTerminateThreads q a).SafeOut := by
  unfold decTerminateThreads
  simp only [benign] at h
  apply safeOut_bind _ _ (safeR_rejectIf _ _); intro _
  cases hg : a.get k!"threadIds" with
  | none => simp [pure, R_val_bind, R.SafeOut, Out.Safe]
  | some v =>
    rw [hg] at h
    simp only [Option.bind_some] at h
    cases hv : v.arr? with
    | none => simp [hv, orErr, R_stop_bind, R.SafeOut, Out.Safe]
    | some ids =>
      rw [hv] at h
      simp only [hv, orErr, R_val_bind]
      cases ids with
      | nil => simp [pure, R.SafeOut, Out.Safe]
      | cons t rest =>
        simp only [bne_iff_ne, ne_eq] at h
        show (killFirst q t).SafeOut
        unfold killFirst
        split
        · simp [R.SafeOut, Out.Safe]
        · next tid ht =>
          have : tid ≠ 0 := by intro h0; subst h0; exact h ht
          split
          · simp [R.SafeOut, Out.Safe]
          · split
            · simp [R.SafeOut, Out.Safe]
            · simp [this, R.SafeOut, Out.Safe]

end

/-- **C08_dap_args_total_partial** (the code as it is): every `benign` request — any command, any argument value, any
session state — is decoded without a fault. -/
theorem C08_dap_args_total_partial (s : Sess) (seq : Int) (c : Cmd) (a : J) (h : benign c a = true) :
    (decode current s seq c a).run.Safe := by
  rw [← R_safeOut_run]
  exact decode_safe_gen current rfl rfl s seq c a
    (fun hc => by subst hc; exact decDisassemble_partial current rfl s seq a h)
    (fun hc => by subst hc; exact decTerminateThreads_partial current a h)

/-- non-vacuity: benign requests exist for the two commands with a hypothesis; the witnesses are not benign -/
example : benign .disassemble (.obj [(k!"memoryReference", .str k!"0x10"), (k!"instructionCount", .num (2 ^ 62))]) = true := by decide
example : benign .disassemble witnessDisassemble = false := by decide
example : benign .terminateThreads (.obj [(k!"threadIds", .arr [.num 0])]) = false := by decide
example : benign .terminateThreads (.obj [(k!"threadIds", .arr [.num 4200001, .num 0])]) = true := by decide

/-! ## histories of messages -/

theorem stepMsg_safe (q : Q) (hq : q.AllRepaired) (hg : q.envelopeGuard = true) (s : Sess) (m : J) (h : Hint) :
    (stepMsg q s m h).2.Safe := by
  unfold stepMsg
  split
  · trivial
  · split
    · simp [hg, Out.Safe]
    · dsimp only
      split
      · trivial
      · exact (R_safeOut_run _).mp (decode_safe q hq _ _ _ _)

/-- the full statement for sessions: whatever messages arrive (well-formed or not) and whatever the debugger answers
in between (`Hint`), no message is answered with a fault -/
def C08_dap_session_total_full (q : Q) : Prop :=
  ∀ (s : Sess) (hist : List (J × Hint)), ∀ o ∈ runAll q s hist, o.Safe

/-- **C08_dap_session_total** (repaired): every history, from every session state. -/
theorem C08_dap_session_total : C08_dap_session_total_full repaired := by
  intro s hist
  induction hist generalizing s with
  | nil => intro o ho; simp [runAll] at ho
  | cons mh rest ih =>
    obtain ⟨m, h⟩ := mh
    intro o ho
    simp only [runAll, List.mem_cons] at ho
    rcases ho with rfl | ho
    · exact stepMsg_safe repaired repaired_allRepaired rfl s m h
    · exact ih _ o ho

/-- **C08_dap_envelope_counterexample** (the code as it is): a message whose envelope does not deserialize (`null`, a missing or
ill-typed `seq` / `type` / `command`) makes `run` return `Err`: the session is dropped, later requests find it closed. -/
theorem C08_dap_envelope_counterexample :
    runAll current {} [(.null, {}), (.obj [(k!"seq", .num 2), (k!"type", .str k!"request"), (k!"command", .str k!"threads")], {})]
      = [.dropped, .closed] ∧
    runAll current {} [(.obj [(k!"seq", .str k!"7"), (k!"type", .str k!"request"), (k!"command", .str k!"threads")], {})] = [.dropped] ∧
    runAll repaired {} [(.null, {})] = [.ignored] := by decide

theorem C08_dap_session_total_counterexample : ¬ C08_dap_session_total_full current := by
  intro h
  have := h {} [(.null, {})] .dropped (by decide)
  exact this

/-- once the session has ended nothing is answered any more -/
theorem C08_dap_closed_after_end (q : Q) (s : Sess) (hist : List (J × Hint)) (h : s.ended = true) :
    ∀ o ∈ runAll q s hist, o = .closed := by
  induction hist with
  | nil => intro o ho; simp [runAll] at ho
  | cons mh rest ih =>
    obtain ⟨m, hh⟩ := mh
    intro o ho
    simp only [runAll, stepMsg, h, ↓reduceIte, List.mem_cons] at ho
    rcases ho with rfl | ho
    · rfl
    · exact ih o ho

theorem afterHint_dead (s : Sess) (c : Cmd) (o : Out) (h : Hint) (ho : ¬ o.Safe) : (afterHint s c o h).ended = true := by
  unfold afterHint
  cases o <;> simp [Out.Safe] at ho <;> simp

/-- a fault is the end of the session: the state after a message that was not answered safely is `ended` -/
theorem C08_dap_fault_ends_session (q : Q) (s : Sess) (m : J) (h : Hint) (hf : ¬ (stepMsg q s m h).2.Safe) :
    (stepMsg q s m h).1.ended = true := by
  unfold stepMsg at hf ⊢
  by_cases he : s.ended = true
  · simp [he, Out.Safe] at hf
  · simp only [if_neg he] at hf ⊢
    cases hd : decodeEnvelope m with
    | none =>
      simp only [hd] at hf ⊢
      by_cases hg : q.envelopeGuard = true
      · simp [hg, Out.Safe] at hf
      · simp [hg]
    | some e =>
      simp only [hd] at hf ⊢
      by_cases ht : e.type ≠ k!"request"
      · simp [ht, Out.Safe] at hf
      · simp only [if_neg ht] at hf ⊢
        exact afterHint_dead _ _ _ _ hf

/-! ## memory references -/

/-- an accepted memory reference (+ offset) is an address below 2^63: `addr + bytes.len()` and the word rounding of
`write_bytes` (data.rs:457) cannot overflow `usize` for any buffer a message can carry -/
theorem C08_dap_memref_in_range (r : List Char) (off : Int) (a : Nat) (h : memRefWithOffset r off = .ok a) : a < 2 ^ 63 := by
  unfold memRefWithOffset at h
  split at h
  · cases h
  · dsimp only at h
    split at h
    · cases h
    · split at h
      · cases h
      · split at h
        · cases h
        · cases h; omega

theorem C08_dap_write_span_no_overflow (addr len : Nat) (ha : addr < 2 ^ 63) (hl : len < 2 ^ 62) :
    addr + len < 2 ^ 64 ∧ (addr + len) / 8 * 8 + 8 < 2 ^ 64 := by omega

example : memRefWithOffset k!" 0x10 " (-1) = .ok 15 := by rfl
#guard (match memRefWithOffset k!"0x7fffffffffffffff" 1 with | .error e => e == "memoryReference + offset overflow" | _ => false)
#guard (match memRefWithOffset k!"0x8000000000000000" 0 with | .error e => e == "memoryReference out of range" | _ => false)
example : memRefWithOffset k!"+16" (-17) = .error "memoryReference + offset is negative" := by rfl

/-! ## sanity tests on strings (evaluated, *not* proofs) and the tie to the dispatch table of the source -/

#guard Cmd.all.map Cmd.name == Gen.DapDispatch.commands
#guard Gen.DapDispatch.endsSession == [Cmd.terminate.name, Cmd.disconnect.name]
#guard Cmd.ofName "completions" == .completions && Cmd.ofName "día" == .other
#guard slug "completions: arguments must be object (possibly empty)" == "completions_arguments_must_be_object_possibly_empty"
#guard slug "Unsupported DAP command: " == "unsupported_dap_command"
#guard b64DecodedLen "QUJD".toList == some 3 && b64DecodedLen "QQ==".toList == some 1 && b64DecodedLen "QR==".toList == none
#guard b64DecodedLen "".toList == some 0 && b64DecodedLen "QUJ".toList == none && b64DecodedLen "Q=Q=".toList == none
#guard trim "\u2003 0x20\t".toList == "0x20".toList
#guard (parseMemRef "0x+10".toList matches .ok 16) && (parseMemRef "１６".toList matches .error _)
#guard byteOff "dí".toList 2 == 3 && isCharBoundary "dí".toList 2 == false && utf8Bytes "dí".toList == [100, 195, 173]

end BsVerif.DapArgs
