import BsVerif.Lemmas.LifeDr
/-!
C11 — start, restart, exit, quit and detach leave the world in the promised state.

Theorems about the life-cycle model `BsVerif.Life` (Model/Lifecycle.lean), quantified over ALL programs
(site sequences, thread counts at every site, on-disk bytes, ways of ending), ALL command histories
(`Op`: break / remove / watch / unwatch / start / continue / restart, any order, any length) and BOTH ways of
starting (`initLaunched p`; `initAttached p k n`: attached after `k` sites with `n` threads).
Helper lemmas: Lemmas/LifeCore.lean (process table, exit status), Lemmas/LifeText.lean (text), Lemmas/LifeDr.lean (DR7).
-/
namespace BsVerif.Life

/-! ## quit / drop -/

/-- full statement: for every program and every command history on a launched program, dropping the debugger
leaves every process it ever launched — the current one and those of earlier generations (restarts) — dead and
collected (`NoChildLeft`) -/
def C11_drop_kills_launched_full : Prop :=
  ∀ (p : Prog) (ops : List Op), NoChildLeft (execDrop (execAll (initLaunched p) ops))

/-- **proved part** (named hypothesis: the history does not end in the not-started state): whatever else the state
is — stopped at a breakpoint or in a signal stop with any number of threads, exited, died by a signal, any number
of earlier generations — every launched process is dead and collected after the drop -/
theorem C11_drop_kills_launched_partial (p : Prog) (ops : List Op)
    (hu : (execAll (initLaunched p) ops).status ≠ .unload) :
    NoChildLeft (execDrop (execAll (initLaunched p) ops)) := life_drop_kills_launched p ops hu

/-- the same for a debugger that attached to a running process (which is not its child and is released, not
killed): whatever it launched by later restarts is dead and collected -/
theorem C11_drop_kills_launched_after_attach (p : Prog) (k n : Nat) (ops : List Op)
    (hu : (execAll (initAttached p k n) ops).status ≠ .unload) :
    NoChildLeft (execDrop (execAll (initAttached p k n) ops)) := life_drop_kills_launched_after_attach p k n ops hu

/-- false of the unchanged code: dropping a debugger whose program was never started kills the child but does not
collect it — `waitpid(pid)` in `Drop` returns the stop notification left pending by PTRACE_SEIZE, not the death
(replayed on the real code: corpus/C11/drop-not-started.req) -/
theorem C11_drop_kills_launched_counterexample : ¬ C11_drop_kills_launched_full := by
  intro h
  have := h witnessAbort [] (execDrop (execAll (initLaunched witnessAbort) [])).proc (by simp) (by decide)
  revert this
  decide

example : NoChildLeft (execDrop (execAll (initLaunched witnessAbort) [.brk 200, .start, .restart, .cont])) :=
  C11_drop_kills_launched_partial _ _ (by decide)
-- non-vacuity: the history above really creates two processes and the drop really has one to kill
example : (execAll (initLaunched witnessAbort) [.brk 200, .start, .restart]).old.length = 1
    ∧ (execAll (initLaunched witnessAbort) [.brk 200, .start, .restart]).proc.alive = true
    ∧ (execDrop (execAll (initLaunched witnessAbort) [.brk 200, .start, .restart])).proc.alive = false := by decide

/-! ## detach / release: the text -/

/-- **C11_detach_restores_text.** For every program and every history, launched or attached anywhere: if the
process is alive, `detach` leaves it alive with every byte of its text equal to the on-disk byte — whatever
breakpoints (user, entry point, dynamic-linker) are registered and whichever of them the process is stopped at. -/
theorem C11_detach_restores_text (p : Prog) (ops : List Op) :
    (let s := execAll (initLaunched p) ops
     s.proc.alive = true → (execDetach s).proc.alive = true ∧ ∀ a, (execDetach s).proc.code a = p.orig a) ∧
    (∀ k n, let s := execAll (initAttached p k n) ops
     s.proc.alive = true → (execDetach s).proc.alive = true ∧ ∀ a, (execDetach s).proc.code a = p.orig a) := by
  have main : ∀ s0 : St, s0.prog = p → TextInv s0 → AliveInv s0 → InvKill (core s0) →
      (execAll s0 ops).proc.alive = true →
      (execDetach (execAll s0 ops)).proc.alive = true ∧ ∀ a, (execDetach (execAll s0 ops)).proc.code a = p.orig a := by
    intro s0 hp ht ha hk hal
    have hi := inv2_execAll ops s0 ht ha
    have hh := (invKill_execAll ops s0 hk).here
    simp only [core] at hh
    unfold execDetach
    rw [if_neg (by simp [hh.1, hh.2])]
    have := detach_restores_text { execAll s0 ops with log := [] } (textInv_of_tcore rfl hi.1) hal hh.1
    rw [show ({ execAll s0 ops with log := [] } : St).prog = p from (prog_execAll ops s0).trans hp] at this
    exact this
  exact ⟨main _ rfl (textInv_initLaunched p).1 (textInv_initLaunched p).2 (invKill_initLaunched p),
         fun k n => main _ rfl (textInv_initAttached p k n).1 (textInv_initAttached p k n).2 (invKill_initAttached p k n)⟩

/-- **C11_text_invariant.** At every moment of every history, every deviation of the live text from the on-disk
bytes is an INT3 at the address of a registered breakpoint whose saved byte is the on-disk byte (so that
`disable` puts the right byte back). -/
theorem C11_text_invariant (p : Prog) (ops : List Op) :
    TextInv (execAll (initLaunched p) ops) ∧ ∀ k n, TextInv (execAll (initAttached p k n) ops) :=
  ⟨(inv2_execAll ops _ (textInv_initLaunched p).1 (textInv_initLaunched p).2).1,
   fun k n => (inv2_execAll ops _ (textInv_initAttached p k n).1 (textInv_initAttached p k n).2).1⟩

-- non-vacuity: a state with three live patches (user, entry, linker) that detach removes
example : let s := execAll (initAttached witnessAbort 1 3) [.brk 200, .cont]
    s.proc.alive = true ∧ s.proc.code 200 = INT3 ∧ (execDetach s).proc.code 200 = 0x55 := by decide

/-! ## detach / release: threads and debug registers -/

/-- full statement of the debug-register clause: for every history on an attached process that is still alive,
`detach` releases every thread (untraced, running) with all DR7 enable bits clear, without panicking -/
def C11_detach_clears_debug_registers_full : Prop :=
  ∀ (p : Prog) (k n : Nat) (ops : List Op),
    let s := execAll (initAttached p k n) ops
    s.external = true → s.proc.alive = true →
    (∀ t ∈ (execDetach s).proc.threads, (∀ j, t.dr7 j = false) ∧ t.traced = false ∧ t.run = .running) ∧
    (execDetach s).panicked = false ∧ (execDetach s).proc.threads.length = s.proc.threads.length

/-- proved part, for EVERY state that satisfies the named hypothesis `DrOk` (alive, at least one thread, every
registered watchpoint holds a slot, every enable bit of every thread belongs to a registered watchpoint — the
invariant C14 proves for its model as `C14_dr7_encodes_set`; here it is NOT proved to hold along all histories of
the life-cycle model, only sampled by the correspondence run and checked by the oracle's own PEEKUSER) -/
theorem C11_detach_clears_debug_registers_partial (s : St) (h : DrOk s) (hd : s.detached = false) :
    (∀ t ∈ (detach s).proc.threads, (∀ j, t.dr7 j = false) ∧ t.traced = false ∧ t.run = .running) ∧
    (detach s).panicked = false ∧ (detach s).proc.threads.length = s.proc.threads.length :=
  detach_clears_dr s h hd

-- test: three threads with two armed watchpoints; after detach no enable bit is left in any of them
example : let s := execAll (initAttached { witnessAbort with full := [⟨100, 1⟩, ⟨200, 3⟩] } 1 3) [.watch 5000, .watch 5008, .brk 200, .cont]
    (s.proc.threads.map fun t => (t.dr7 0, t.dr7 1)) = [(true, true), (true, true), (true, true)] ∧
    ((execDetach s).proc.threads.map fun t => (t.dr7 0, t.dr7 1, t.traced)) = [(false, false, false), (false, false, false), (false, false, false)] := by
  decide

/-! ## exit status -/

/-- **C11_exit_code.** For every program, every history (launched or attached anywhere) and every further
command: if the command reports `exit c` (what `StopReason::DebugeeExit` / `EventHook::on_exit` carry) then `c`
is the status the program really ends with. -/
theorem C11_exit_code (p : Prog) (ops : List Op) (op : Op) (c : Nat) :
    ((exec (execAll (initLaunched p) ops) op).2 = .exit c → p.fin = .exit c) ∧
    (∀ k n, (exec (execAll (initAttached p k n) ops) op).2 = .exit c → p.fin = .exit c) :=
  life_exit_code p ops op c

/-- in ANY state: a command that reports `exit c` does so only when the program's way of ending is `exit c`; the
process is then gone and the status is Exited -/
theorem C11_exit_code_state (s : St) (op : Op) (c : Nat) (h : (exec s op).2 = .exit c) :
    s.prog.fin = .exit c ∧ (exec s op).1.proc.alive = false ∧ (exec s op).1.status = .exited :=
  exec_exit_sound s op c h

/-- full statement: whenever the process of the current generation ends during a command, the command reports how
it ended (`reports`: `exit c` for an exit, the signal for a death by signal) -/
def C11_end_reported_full : Prop := EndReportedFull

/-- proved part (hypothesis: the program ends by `exit`): in any state, for any command, if the process ends
during the command then the command reports `exit c` with the real code -/
theorem C11_end_reported_partial (s : St) (op : Op) (c : Nat) (hfin : s.prog.fin = .exit c)
    (ha : s.proc.alive = true) (hold : (exec s op).1.old.length = s.old.length)
    (hd : (exec s op).1.proc.alive = false) : (exec s op).2 = .exit c :=
  life_end_reported_partial s op c hfin ha hold hd

/-- the unchanged code does not report a death by signal: the last `continue` of a program that aborts answers
with an error ("process not started") — no status, no `on_exit` (replayed: corpus/C11/abort-then-restart.req) -/
theorem C11_end_reported_counterexample : ¬ C11_end_reported_full := life_end_reported_counterexample

example : (exec (execAll (initLaunched { witnessAbort with fin := .exit 37 }) [.start]) .cont).2 = .err := by decide
example : (exec (initLaunched { witnessAbort with fin := .exit 37 }) .start).2 = .exit 37 := by decide

/-! ## restart -/
/-- user breakpoints as the UI lists them: (number, address) -/
def userBps (s : St) : List (Nat × Addr) :=
  (s.active.filter (·.kind == Kind.user)).map (fun b => (b.num, b.addr)) ++
  (s.uninit.filter (·.kind == Kind.user)).map (fun u => (u.num, u.key.addr))

/-- full statement: after a restart every user breakpoint is still registered under its number and address and,
unless the new process has already ended, is armed again (INT3 in the new text) -/
def C11_restart_preserves_user_bps_full : Prop :=
  ∀ (p : Prog) (ops : List Op),
    let s := execAll (initLaunched p) ops
    let s' := (exec s .restart).1
    ∀ x ∈ userBps s, x ∈ userBps s' ∧ (s'.status = .inProgress → s'.proc.code x.2 = INT3)

/-- false of the unchanged code: after a death by signal nothing is cleaned up; the restart finds no entry-point
breakpoint to enable, the new process is never stopped at its entry point and the user breakpoint is not armed
(replayed on the real code: corpus/C11/abort-then-restart.req) -/
theorem C11_restart_preserves_user_bps_counterexample : ¬ C11_restart_preserves_user_bps_full := by
  intro h
  have := h witnessAbort [.brk 200, .start, .cont, .cont]
  revert this
  decide

/-- what IS proved about restart for every history: afterwards every launched process of an earlier generation
(in particular the one the restart replaced) is dead and collected, and a new process that has already ended is
dead and collected too -/
theorem C11_restart_leaves_no_old_process (p : Prog) (ops : List Op) :
    let s' := (exec (execAll (initLaunched p) ops) .restart).1
    (∀ q ∈ s'.old, q.child = true → q.alive = false ∧ q.reaped = true) ∧
    (s'.status = .exited → s'.proc.alive = false ∧ (s'.proc.child = true → s'.proc.reaped = true)) := by
  intro s'
  have hk' := invKill_exec _ .restart (invKill_execAll ops _ (invKill_initLaunched p))
  exact ⟨hk'.old, hk'.exited⟩

example : (exec (execAll (initLaunched witnessAbort) [.brk 200, .start]) .restart).1.old.length = 1 := by decide

end BsVerif.Life
