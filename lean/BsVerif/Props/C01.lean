import BsVerif.Model.Breakpoint
/-! # C01 (theorems follow) -/
