import BsVerif.Lemmas.Breakpoint
import BsVerif.Lemmas.Context
/-!
# C01 — breakpoint stops are exactly the projection of the real execution

Property theorems about the model `BsVerif/Model/Breakpoint.lean` (mirror of `BreakpointRegistry`,
`Breakpoint::{enable,disable}`, `step_over_breakpoint`, `continue_execution`).  Everything is proved for ALL
traces `τ`, ALL original texts `orig`, ALL exit codes and ALL operation lists, by invariants and induction
(helper lemmas: `BsVerif/Lemmas/Breakpoint.lean`).

## The specification (read this first)

An abstract debugger that knows nothing about INT3, saved bytes, registries or step-over: it only has the *set* `B`
of user breakpoint addresses, the position `idx` in the native trace `τ` and a status.
-/
namespace BsVerif.Bp
open BsVerif.Mem

structure Spec where
  B : List Addr := []          -- user breakpoints currently set (used as a set)
  late : List Addr := []       -- breakpoints added after the debuggee exited (see the note at `Spec.step`)
  idx : Nat := 0               -- position in `τ` at which the debuggee is stopped
  status : Status := .unload

/-- first position `j ≥ i` of `τ` whose address is in `B`; `τ.length` if there is none
(`firstFrom` is defined in the model file; `C01_nextHit_is_first` below says it is what its name says) -/
def nextHit (B : List Addr) (τ : List Addr) (i : Nat) : Nat := firstFrom (fun a => decide (a ∈ B)) τ i

/-- run to the first position `≥ i` with a breakpoint and stop there; exit if there is none -/
def Spec.goto (τ : List Addr) (exitCode : Nat) (sp : Spec) (i : Nat) : Spec × Out :=
  match τ[nextHit sp.B τ i]? with
  | some a => ({ sp with idx := nextHit sp.B τ i, status := .inProgress }, .stop a)
  | none => ({ sp with idx := nextHit sp.B τ i, status := .exited }, .exit exitCode)

/-- one command.  Note on `exited`: when the debuggee exits, the real registry moves its breakpoints to the
"uninit" list under *global* address keys, while `break`/`remove` by address use *relocated* keys; so after the exit
`remove a` answers `none` for the breakpoints set before, and only finds those added since (`late`). -/
def Spec.step (τ : List Addr) (exitCode : Nat) (sp : Spec) : Op → Spec × Out
  | .brk a => match sp.status with
    | .exited => ({ sp with late := a :: sp.late }, .ok)
    | _ => ({ sp with B := a :: sp.B }, .ok)
  | .remove a => match sp.status with
    | .exited => ({ sp with late := sp.late.filter (· != a) }, if a ∈ sp.late then .ok else .none)
    | _ => ({ sp with B := sp.B.filter (· != a) }, if a ∈ sp.B then .ok else .none)
  | .start => match sp.status with
    | .unload => sp.goto τ exitCode 0
    | _ => (sp, .err)
  | .cont => match sp.status with
    | .inProgress => sp.goto τ exitCode (sp.idx + 1)
    | _ => (sp, .err)

def Spec.run (τ : List Addr) (exitCode : Nat) (sp : Spec) : List Op → Spec × List Out
  | [] => (sp, [])
  | op :: ops =>
    let (sp1, o) := sp.step τ exitCode op
    let (sp2, os) := Spec.run τ exitCode sp1 ops
    (sp2, o :: os)

/-- `nextHit` is the first position at or after `i` whose address is in `B` -/
theorem C01_nextHit_is_first (B τ : List Addr) (i : Nat) (hi : i ≤ τ.length) :
    i ≤ nextHit B τ i ∧ nextHit B τ i ≤ τ.length ∧
    (∀ h : nextHit B τ i < τ.length, τ[nextHit B τ i] ∈ B) ∧
    (∀ k, i ≤ k → k < nextHit B τ i → ∀ hk : k < τ.length, τ[k] ∉ B) := by
  refine ⟨firstFrom_ge _ _ _ hi, firstFrom_le _ _ _, fun h => ?_, fun k h1 h2 hk => ?_⟩
  · exact of_decide_eq_true (firstFrom_hit (fun a => decide (a ∈ B)) τ i h)
  · exact of_decide_eq_false (firstFrom_min (fun a => decide (a ∈ B)) τ i k h1 h2 hk)

/-! ## Hypotheses of the projection theorem -/

/-- the user never sets a breakpoint at the ELF entry address: `add_and_enable` would replace the debugger's internal
entry-point breakpoint there (same key), which the `continue_execution` loop never reports.
(On the real debugger a user breakpoint needs a DWARF line-table place at its address — `PlaceNotFound` otherwise —
which `_start` normally lacks; the model's `break` assumes the address has one, as all addresses used in the
correspondence run do.  See `C01_continue_projection_counterexample_break_at_entry`.) -/
def NoBreakAtEntry (entry : Addr) (ops : List Op) : Prop := ∀ op ∈ ops, op ≠ .brk entry

/-- ... and never removes "the breakpoint at the entry address": `remove_by_addr` does not look at the kind, so it
answers `ok` and deletes the internal entry-point breakpoint (reproduced on the real debugger; see
`C01_continue_projection_counterexample_remove_at_entry`) -/
def NoRemoveAtEntry (entry : Addr) (ops : List Op) : Prop := ∀ op ∈ ops, op ≠ .remove entry

instance (entry ops) : Decidable (NoBreakAtEntry entry ops) := by unfold NoBreakAtEntry; infer_instance
instance (entry ops) : Decidable (NoRemoveAtEntry entry ops) := by unfold NoRemoveAtEntry; infer_instance

/-! ## The refinement relation and the simulation -/

/-- model state `s` refines spec state `sp` (`Fresh`/`Live`/`Gone`: see `Lemmas/Breakpoint.lean` §5-6) -/
def Sim (τ : List Addr) (exitCode : Nat) (orig : Code) (entry : Addr) (s : St) (sp : Spec) : Prop :=
  s.τ = τ ∧ s.exitCode = exitCode ∧
  match sp.status with
  | .unload => Fresh orig entry sp.B s ∧ sp.late = []
  | .inProgress => Live orig entry sp.B s ∧ s.idx = sp.idx ∧ s.idx < τ.length ∧ sp.late = []
  | .exited => Gone sp.late s

theorem C01_sim_status {τ x orig entry s sp} (h : Sim τ x orig entry s sp) : s.status = sp.status := by
  obtain ⟨_, _, hm⟩ := h
  cases hs : sp.status <;> rw [hs] at hm
  · exact hm.1.st
  · exact hm.1.st
  · exact hm.st

private theorem Sim.unload {τ x orig entry s sp} (hτ : s.τ = τ) (hx : s.exitCode = x) (hs : sp.status = .unload)
    (hf : Fresh orig entry sp.B s) (hl : sp.late = []) : Sim τ x orig entry s sp :=
  ⟨hτ, hx, by rw [hs]; exact ⟨hf, hl⟩⟩

private theorem Sim.live {τ x orig entry s sp} (hτ : s.τ = τ) (hx : s.exitCode = x) (hs : sp.status = .inProgress)
    (hf : Live orig entry sp.B s) (hi : s.idx = sp.idx) (hlt : s.idx < τ.length) (hl : sp.late = []) :
    Sim τ x orig entry s sp :=
  ⟨hτ, hx, by rw [hs]; exact ⟨hf, hi, hlt, hl⟩⟩

private theorem Sim.gone {τ x orig entry s sp} (hτ : s.τ = τ) (hx : s.exitCode = x) (hs : sp.status = .exited)
    (hf : Gone sp.late s) : Sim τ x orig entry s sp :=
  ⟨hτ, hx, by rw [hs]; exact hf⟩

/-- one command: same answer, and the refinement relation is kept -/
theorem C01_simulation_step (τ : List Addr) (x : Nat) (orig : Code) (entry : Addr)
    (ho : Bytes orig) (hcc : ∀ a ∈ τ, orig a ≠ 0xCC) (hhead : τ.head? = some entry)
    (s : St) (sp : Spec) (h : Sim τ x orig entry s sp) (op : Op)
    (hb : op ≠ .brk entry) (hr : op ≠ .remove entry) :
    (exec s op).2 = (sp.step τ x op).2 ∧ Sim τ x orig entry (exec s op).1 (sp.step τ x op).1 := by
  obtain ⟨rfl, rfl, hm⟩ := h
  cases hs : sp.status with
  | unload =>
    rw [hs] at hm
    obtain ⟨hf, hl⟩ := hm
    cases op with
    | brk a =>
      obtain ⟨r1, r2, r3, r4⟩ := exec_brk_fresh hf a (fun e => hb (e ▸ rfl))
      have e : sp.step s.τ s.exitCode (.brk a) = ({ sp with B := a :: sp.B }, .ok) := by
        simp only [Spec.step, hs]
      rw [e]; exact ⟨r1, Sim.unload r3 r4 hs r2 hl⟩
    | remove a =>
      obtain ⟨r1, r2, r3, r4⟩ := exec_remove_fresh hf a
      have e : sp.step s.τ s.exitCode (.remove a)
          = ({ sp with B := sp.B.filter (· != a) }, if a ∈ sp.B then .ok else .none) := by
        simp only [Spec.step, hs]
      rw [e]; exact ⟨r1, Sim.unload r3 r4 hs r2 hl⟩
    | start =>
      obtain ⟨r1, r2, r3, r4, r5, r6⟩ := exec_start_fresh ho hf hcc hhead
      have e : sp.step s.τ s.exitCode .start = sp.goto s.τ s.exitCode 0 := by simp only [Spec.step, hs]
      rw [e]; unfold Spec.goto nextHit
      cases hj : s.τ[firstFrom (fun a => decide (a ∈ sp.B)) s.τ 0]? with
      | none =>
        have hge := List.getElem?_eq_none_iff.mp hj
        exact ⟨by rw [r4]; simp only [answerAt, hj], Sim.gone r1 r2 rfl (hl ▸ r6 hge)⟩
      | some a =>
        have hlt := (List.getElem?_eq_some_iff.mp hj).1
        exact ⟨by rw [r4]; simp only [answerAt, hj],
          Sim.live r1 r2 rfl (r5 hlt) r3 (by rw [r3]; exact hlt) hl⟩
    | cont =>
      rw [exec_cont_fresh hf]
      have e : sp.step s.τ s.exitCode .cont = (sp, .err) := by simp only [Spec.step, hs]
      rw [e]; exact ⟨rfl, Sim.unload rfl rfl hs hf.pokes hl⟩
  | inProgress =>
    rw [hs] at hm
    obtain ⟨hf, hi, hlt, hl⟩ := hm
    cases op with
    | brk a =>
      obtain ⟨r1, r2, r3, r4, r5⟩ := exec_brk_live ho hf a (fun e => hb (e ▸ rfl))
      have e : sp.step s.τ s.exitCode (.brk a) = ({ sp with B := a :: sp.B }, .ok) := by
        simp only [Spec.step, hs]
      rw [e]; exact ⟨r1, Sim.live r3 r4 hs r2 (r5.trans hi) (by rw [r5]; exact hlt) hl⟩
    | remove a =>
      obtain ⟨r1, r2, r3, r4, r5, _⟩ := exec_remove_live ho hf a (fun e => hr (e ▸ rfl))
      have e : sp.step s.τ s.exitCode (.remove a)
          = ({ sp with B := sp.B.filter (· != a) }, if a ∈ sp.B then .ok else .none) := by
        simp only [Spec.step, hs]
      rw [e]; exact ⟨r1, Sim.live r3 r4 hs r2 (r5.trans hi) (by rw [r5]; exact hlt) hl⟩
    | start =>
      rw [exec_start_live hf]
      have e : sp.step s.τ s.exitCode .start = (sp, .err) := by simp only [Spec.step, hs]
      rw [e]; exact ⟨rfl, Sim.live rfl rfl hs hf.pokes hi hlt hl⟩
    | cont =>
      obtain ⟨r1, r2, r3, r4, r5, r6⟩ := exec_cont_live ho hf hcc hlt
      have e : sp.step s.τ s.exitCode .cont = sp.goto s.τ s.exitCode (sp.idx + 1) := by
        simp only [Spec.step, hs]
      rw [e, ← hi]; unfold Spec.goto nextHit
      cases hj : s.τ[firstFrom (fun a => decide (a ∈ sp.B)) s.τ (s.idx + 1)]? with
      | none =>
        have hge := List.getElem?_eq_none_iff.mp hj
        exact ⟨by rw [r4]; simp only [answerAt, hj], Sim.gone r1 r2 rfl (hl ▸ r6 hge)⟩
      | some a =>
        have hlt' := (List.getElem?_eq_some_iff.mp hj).1
        exact ⟨by rw [r4]; simp only [answerAt, hj],
          Sim.live r1 r2 rfl (r5 hlt') r3 (by rw [r3]; exact hlt') hl⟩
  | exited =>
    rw [hs] at hm
    cases op with
    | brk a =>
      obtain ⟨r1, r2, r3, r4⟩ := exec_brk_gone hm a
      have e : sp.step s.τ s.exitCode (.brk a) = ({ sp with late := a :: sp.late }, .ok) := by
        simp only [Spec.step, hs]
      rw [e]; exact ⟨r1, Sim.gone r3 r4 hs r2⟩
    | remove a =>
      obtain ⟨r1, r2, r3, r4⟩ := exec_remove_gone hm a
      have e : sp.step s.τ s.exitCode (.remove a)
          = ({ sp with late := sp.late.filter (· != a) }, if a ∈ sp.late then .ok else .none) := by
        simp only [Spec.step, hs]
      rw [e]; exact ⟨r1, Sim.gone r3 r4 hs r2⟩
    | start =>
      rw [exec_start_gone hm]
      have e : sp.step s.τ s.exitCode .start = (sp, .err) := by simp only [Spec.step, hs]
      rw [e]; exact ⟨rfl, Sim.gone rfl rfl hs hm.pokes⟩
    | cont =>
      rw [exec_cont_gone hm]
      have e : sp.step s.τ s.exitCode .cont = (sp, .err) := by simp only [Spec.step, hs]
      rw [e]; exact ⟨rfl, Sim.gone rfl rfl hs hm.pokes⟩

/-! ## Whole histories -/

private theorem run_cons (τ x) (sp : Spec) (op : Op) (ops : List Op) :
    Spec.run τ x sp (op :: ops) = ((Spec.run τ x (sp.step τ x op).1 ops).1,
      (sp.step τ x op).2 :: (Spec.run τ x (sp.step τ x op).1 ops).2) := rfl

/-- **simulation, from any pair of related states**: same answers, related end states -/
theorem C01_simulation (τ : List Addr) (x : Nat) (orig : Code) (entry : Addr)
    (ho : Bytes orig) (hcc : ∀ a ∈ τ, orig a ≠ 0xCC) (hhead : τ.head? = some entry) :
    ∀ (ops : List Op) (s : St) (sp : Spec), Sim τ x orig entry s sp →
      NoBreakAtEntry entry ops → NoRemoveAtEntry entry ops →
      (execAll s ops).2 = (Spec.run τ x sp ops).2 ∧
      Sim τ x orig entry (execAll s ops).1 (Spec.run τ x sp ops).1 := by
  intro ops
  induction ops with
  | nil => intro s sp h _ _; exact ⟨rfl, h⟩
  | cons op ops ih =>
    intro s sp h hb hr
    obtain ⟨h1, h2⟩ := C01_simulation_step τ x orig entry ho hcc hhead s sp h op
      (hb op List.mem_cons_self) (hr op List.mem_cons_self)
    obtain ⟨i1, i2⟩ := ih _ _ h2 (fun o ho' => hb o (List.mem_cons_of_mem _ ho'))
      (fun o ho' => hr o (List.mem_cons_of_mem _ ho'))
    rw [execAll_cons, run_cons]
    exact ⟨by show _ :: _ = _ :: _; rw [h1, i1], i2⟩

theorem C01_sim_init (τ : List Addr) (x : Nat) (orig : Code) (entry : Addr) :
    Sim τ x orig entry (init τ entry orig x) {} :=
  Sim.unload rfl rfl rfl (init_fresh τ entry orig x) rfl

/-- **C01_continue_projection.**  For every native trace `τ` that starts at the ELF entry address, every original
text without an `int3` of its own on the trace, every exit code and every command history that does not put or
remove a breakpoint *at the entry address*, the debugger model answers exactly like the specification: `start` and
`continue` stop at the successive first positions whose address is a user breakpoint *currently* set, report the
true pc `τ[j]`, and report the exit (with the exit code) when there is no such position. -/
theorem C01_continue_projection (τ : List Addr) (entry : Addr) (orig : Code) (exitCode : Nat) (ops : List Op)
    (ho : Bytes orig) (hcc : ∀ a ∈ τ, orig a ≠ 0xCC) (hhead : τ.head? = some entry)
    (hb : NoBreakAtEntry entry ops) (hr : NoRemoveAtEntry entry ops) :
    (execAll (init τ entry orig exitCode) ops).2 = (Spec.run τ exitCode {} ops).2 :=
  (C01_simulation τ exitCode orig entry ho hcc hhead ops _ _ (C01_sim_init τ exitCode orig entry) hb hr).1

private theorem spec_step_out (τ x) (sp : Spec) (op : Op) :
    (sp.step τ x op).2 ≠ .corrupt ∧ (sp.step τ x op).2 ≠ .outOfFuel := by
  cases op <;> cases hs : sp.status <;> simp only [Spec.step, Spec.goto] <;>
    (try split) <;> (try split) <;> simp

private theorem spec_run_out (τ x) : ∀ (ops : List Op) (sp : Spec), ∀ o ∈ (Spec.run τ x sp ops).2,
    o ≠ .corrupt ∧ o ≠ .outOfFuel := by
  intro ops
  induction ops with
  | nil => intro sp o ho; cases ho
  | cons op ops ih =>
    intro sp o ho
    rw [run_cons] at ho
    rcases List.mem_cons.mp ho with rfl | ho
    · exact spec_step_out τ x sp op
    · exact ih _ o ho

/-- in particular the debugger never meets a SIGTRAP without a registered breakpoint, and the loop of
`continue_execution` always terminates within the fuel -/
theorem C01_no_corrupt_no_outOfFuel (τ : List Addr) (entry : Addr) (orig : Code) (exitCode : Nat) (ops : List Op)
    (ho : Bytes orig) (hcc : ∀ a ∈ τ, orig a ≠ 0xCC) (hhead : τ.head? = some entry)
    (hb : NoBreakAtEntry entry ops) (hr : NoRemoveAtEntry entry ops) :
    ∀ o ∈ (execAll (init τ entry orig exitCode) ops).2, o ≠ .corrupt ∧ o ≠ .outOfFuel := by
  rw [C01_continue_projection τ entry orig exitCode ops ho hcc hhead hb hr]
  exact spec_run_out τ exitCode ops {}

/-! ## The patch invariant -/

/-- text = original text with `0xCC` exactly at the addresses of enabled registered breakpoints (while the debuggee
process exists), every saved byte is the original byte at its address, registry addresses are pairwise distinct, and
(at a prompt) every registered breakpoint is enabled -/
structure PatchInv (orig : Code) (s : St) : Prop where
  text : s.status ≠ .exited →
    ∀ a, s.code a = if s.active.any (fun b => b.addr == a && b.enabled) then 0xCC else orig a
  saved : ∀ b ∈ s.active, b.saved = orig b.addr
  distinct : (s.active.map (·.addr)).Nodup
  enabled : ∀ b ∈ s.active, b.enabled = true

private theorem patchInv_of_ginv {orig s} (h : GInv orig s) : PatchInv orig s := by
  by_cases hs : s.status = .exited
  · have := h.dead hs
    refine ⟨fun hne => absurd hs hne, ?_, ?_, ?_⟩ <;> rw [this]
    · intro b hb; cases hb
    · exact List.nodup_nil
    · intro b hb; cases hb
  · have hi := h.live hs
    exact ⟨fun _ => hi.text, hi.saved, hi.nodup, hi.allEn⟩

/-- **C01_patch_inv.**  After every command history whatsoever (any trace, any entry address, double adds at one
address, removals of anything, ...) the patch invariant holds.  No hypothesis except that `orig` is made of bytes. -/
theorem C01_patch_inv (τ : List Addr) (entry : Addr) (orig : Code) (exitCode : Nat) (ops : List Op)
    (ho : Bytes orig) : PatchInv orig (execAll (init τ entry orig exitCode) ops).1 :=
  patchInv_of_ginv (execAll_ginv ho ops _ (init_ginv τ entry orig exitCode)).1

/-! ## Corollaries of the projection theorem -/

private theorem spec_goto_stop (τ x) (sp : Spec) (i : Nat) (a : Addr) (h : (sp.goto τ x i).2 = .stop a) : a ∈ sp.B := by
  unfold Spec.goto at h
  cases hj : τ[nextHit sp.B τ i]? with
  | none => rw [hj] at h; cases h
  | some b =>
    rw [hj] at h
    have hb : b = a := by simpa using h
    obtain ⟨hlt, hb'⟩ := List.getElem?_eq_some_iff.mp hj
    rw [← hb, ← hb']
    exact of_decide_eq_true (firstFrom_hit (fun a => decide (a ∈ sp.B)) τ i hlt)

private theorem spec_goto_B (τ x) (sp : Spec) (i : Nat) : (sp.goto τ x i).1.B = sp.B := by
  unfold Spec.goto; split <;> rfl

/-- spec states in which `a` can no longer be reported -/
private def Cleared (a : Addr) (sp : Spec) : Prop := sp.status = .exited ∨ a ∉ sp.B

private theorem cleared_step (τ x) (a : Addr) (sp : Spec) (h : Cleared a sp) (op : Op) (hop : op ≠ .brk a) :
    Cleared a (sp.step τ x op).1 ∧ (sp.step τ x op).2 ≠ .stop a := by
  cases hs : sp.status with
  | exited =>
    cases op <;> simp only [Spec.step, hs] <;> refine ⟨Or.inl (by first | rfl | exact hs), ?_⟩ <;> (try split) <;> simp
  | unload =>
    have ha : a ∉ sp.B := by rcases h with h | h; · rw [hs] at h; cases h
                             · exact h
    cases op with
    | brk b =>
      simp only [Spec.step, hs]
      refine ⟨Or.inr ?_, by simp⟩
      intro hm; rcases List.mem_cons.mp hm with e | hm
      · exact hop (e ▸ rfl)
      · exact ha hm
    | remove b =>
      simp only [Spec.step, hs]
      exact ⟨Or.inr (fun hm => ha (List.mem_filter.mp hm).1), by split <;> simp⟩
    | start =>
      simp only [Spec.step, hs]
      exact ⟨Or.inr (by rw [spec_goto_B]; exact ha), fun e => ha (spec_goto_stop τ x sp 0 a e)⟩
    | cont => simp only [Spec.step, hs]; exact ⟨Or.inr ha, by simp⟩
  | inProgress =>
    have ha : a ∉ sp.B := by rcases h with h | h; · rw [hs] at h; cases h
                             · exact h
    cases op with
    | brk b =>
      simp only [Spec.step, hs]
      refine ⟨Or.inr ?_, by simp⟩
      intro hm; rcases List.mem_cons.mp hm with e | hm
      · exact hop (e ▸ rfl)
      · exact ha hm
    | remove b =>
      simp only [Spec.step, hs]
      exact ⟨Or.inr (fun hm => ha (List.mem_filter.mp hm).1), by split <;> simp⟩
    | start => simp only [Spec.step, hs]; exact ⟨Or.inr ha, by simp⟩
    | cont =>
      simp only [Spec.step, hs]
      exact ⟨Or.inr (by rw [spec_goto_B]; exact ha), fun e => ha (spec_goto_stop τ x sp _ a e)⟩

private theorem cleared_run (τ x) (a : Addr) : ∀ (ops : List Op) (sp : Spec), Cleared a sp → .brk a ∉ ops →
    ∀ o ∈ (Spec.run τ x sp ops).2, o ≠ .stop a := by
  intro ops
  induction ops with
  | nil => intro sp _ _ o ho; cases ho
  | cons op ops ih =>
    intro sp h hn o ho
    obtain ⟨c1, c2⟩ := cleared_step τ x a sp h op (fun e => hn (e ▸ List.mem_cons_self))
    rw [run_cons] at ho
    rcases List.mem_cons.mp ho with rfl | ho
    · exact c2
    · exact ih _ c1 (fun hm => hn (List.mem_cons_of_mem _ hm)) o ho

private theorem cleared_remove (τ x) (a : Addr) (sp : Spec) : Cleared a (sp.step τ x (.remove a)).1 := by
  cases hs : sp.status <;> simp only [Spec.step, hs]
  · exact Or.inr (fun hm => by simpa using (List.mem_filter.mp hm).2)
  · exact Or.inr (fun hm => by simpa using (List.mem_filter.mp hm).2)
  · exact Or.inl rfl

/-- **C01_removed_never_stops.**  After `remove a`, as long as `a` is not set again, no answer is `stop a`:
whatever happened before (`pre`) and whatever is done afterwards (`post`, without `break a`). -/
theorem C01_removed_never_stops (τ : List Addr) (entry : Addr) (orig : Code) (exitCode : Nat)
    (pre post : List Op) (a : Addr)
    (ho : Bytes orig) (hcc : ∀ a ∈ τ, orig a ≠ 0xCC) (hhead : τ.head? = some entry)
    (hb : NoBreakAtEntry entry (pre ++ post)) (hr : NoRemoveAtEntry entry (pre ++ .remove a :: post))
    (hpost : .brk a ∉ post) :
    ∀ o ∈ (execAll (exec (execAll (init τ entry orig exitCode) pre).1 (.remove a)).1 post).2, o ≠ .stop a := by
  have hb1 : NoBreakAtEntry entry pre := fun o h => hb o (List.mem_append_left _ h)
  have hb2 : NoBreakAtEntry entry post := fun o h => hb o (List.mem_append_right _ h)
  have hr1 : NoRemoveAtEntry entry pre := fun o h => hr o (List.mem_append_left _ h)
  have hr2 : NoRemoveAtEntry entry post :=
    fun o h => hr o (List.mem_append_right _ (List.mem_cons_of_mem _ h))
  have hra : Op.remove a ≠ .remove entry := hr _ (List.mem_append_right _ List.mem_cons_self)
  obtain ⟨_, s1⟩ := C01_simulation τ exitCode orig entry ho hcc hhead pre _ _ (C01_sim_init τ exitCode orig entry) hb1 hr1
  obtain ⟨_, s2⟩ := C01_simulation_step τ exitCode orig entry ho hcc hhead _ _ s1 (.remove a) (by simp) hra
  obtain ⟨s3, _⟩ := C01_simulation τ exitCode orig entry ho hcc hhead post _ _ s2 hb2 hr2
  rw [s3]
  exact cleared_run τ exitCode a post _ (cleared_remove τ exitCode a _) hpost

private theorem spec_conts (τ x) : ∀ (m : Nat) (sp : Spec), sp.status = .inProgress →
    ((τ.drop (sp.idx + 1)).filter (fun a => decide (a ∈ sp.B))).length = m →
    (Spec.run τ x sp (List.replicate (m + 1) .cont)).2
      = ((τ.drop (sp.idx + 1)).filter (fun a => decide (a ∈ sp.B))).map .stop ++ [.exit x] := by
  intro m
  induction m with
  | zero =>
    intro sp hs hm
    have hnil := List.eq_nil_of_length_eq_zero hm
    have hfd := filter_drop_firstFrom (fun a => decide (a ∈ sp.B)) τ (sp.idx + 1)
    rw [hnil] at hfd
    have hge : ¬ firstFrom (fun a => decide (a ∈ sp.B)) τ (sp.idx + 1) < τ.length := by
      intro hlt; rw [dif_pos hlt] at hfd; cases hfd
    have hj : τ[nextHit sp.B τ (sp.idx + 1)]? = none := List.getElem?_eq_none_iff.mpr (Nat.not_lt.mp hge)
    rw [hnil]
    show (Spec.run τ x sp [.cont]).2 = [.exit x]
    simp only [Spec.run, Spec.step, hs, Spec.goto, hj]
  | succ m ih =>
    intro sp hs hm
    have hfd := filter_drop_firstFrom (fun a => decide (a ∈ sp.B)) τ (sp.idx + 1)
    have hlt : firstFrom (fun a => decide (a ∈ sp.B)) τ (sp.idx + 1) < τ.length := by
      apply Classical.byContradiction; intro hge
      rw [dif_neg hge] at hfd; rw [hfd] at hm; cases hm
    rw [dif_pos hlt] at hfd
    have hj : τ[nextHit sp.B τ (sp.idx + 1)]? = some τ[firstFrom (fun a => decide (a ∈ sp.B)) τ (sp.idx + 1)] :=
      List.getElem?_eq_getElem hlt
    have hstep : sp.step τ x .cont
        = ({ sp with idx := nextHit sp.B τ (sp.idx + 1), status := .inProgress },
           .stop τ[firstFrom (fun a => decide (a ∈ sp.B)) τ (sp.idx + 1)]) := by
      simp only [Spec.step, hs, Spec.goto, hj]
    rw [show List.replicate (m + 1 + 1) Op.cont = .cont :: List.replicate (m + 1) .cont from rfl, run_cons, hstep]
    rw [hfd] at hm ⊢
    have := ih { sp with idx := nextHit sp.B τ (sp.idx + 1), status := .inProgress } rfl
      (by simpa [nextHit] using hm)
    rw [this]; rfl

/-- **C01_rearm_every_arrival.**  From any stop reached by any history `pre`, continuing until the exit reports
exactly the later positions of the trace whose address is a breakpoint currently set (`sp.B`, the set maintained by
the history), each of them, in trace order, then the exit: every arrival at a breakpoint address is reported, be
it the 1st or the 1000th pass of a loop or a recursion (repeated pcs in `τ`), and nothing else is. -/
theorem C01_rearm_every_arrival (τ : List Addr) (entry : Addr) (orig : Code) (exitCode : Nat) (pre : List Op)
    (ho : Bytes orig) (hcc : ∀ a ∈ τ, orig a ≠ 0xCC) (hhead : τ.head? = some entry)
    (hb : NoBreakAtEntry entry pre) (hr : NoRemoveAtEntry entry pre)
    (hst : (execAll (init τ entry orig exitCode) pre).1.status = .inProgress) :
    (execAll (execAll (init τ entry orig exitCode) pre).1
        (List.replicate (((τ.drop ((execAll (init τ entry orig exitCode) pre).1.idx + 1)).filter
          (fun a => decide (a ∈ (Spec.run τ exitCode {} pre).1.B))).length + 1) .cont)).2
      = ((τ.drop ((execAll (init τ entry orig exitCode) pre).1.idx + 1)).filter
          (fun a => decide (a ∈ (Spec.run τ exitCode {} pre).1.B))).map .stop ++ [.exit exitCode] := by
  obtain ⟨_, s1⟩ := C01_simulation τ exitCode orig entry ho hcc hhead pre _ _ (C01_sim_init τ exitCode orig entry) hb hr
  have hsp : (Spec.run τ exitCode {} pre).1.status = .inProgress := by rw [← C01_sim_status s1]; exact hst
  have hidx : (execAll (init τ entry orig exitCode) pre).1.idx = (Spec.run τ exitCode {} pre).1.idx := by
    obtain ⟨_, _, hm⟩ := s1
    rw [hsp] at hm; exact hm.2.1
  have hconts : ∀ n, NoBreakAtEntry entry (List.replicate n .cont) ∧ NoRemoveAtEntry entry (List.replicate n .cont) :=
    fun n => ⟨fun o h => by rw [List.eq_of_mem_replicate h]; simp,
              fun o h => by rw [List.eq_of_mem_replicate h]; simp⟩
  obtain ⟨s2, _⟩ := C01_simulation τ exitCode orig entry ho hcc hhead _ _ _ s1 (hconts _).1 (hconts _).2
  rw [s2, hidx]
  exact spec_conts τ exitCode _ _ hsp rfl

/-! ## Non-vacuity and sanity tests (the `#guard`s are tests, not proofs) -/

/-- a loop `0x1004 0x1008` executed twice; the hypotheses of the theorems above are satisfiable -/
example :
    let τ : List Addr := [0x1000, 0x1004, 0x1008, 0x1004, 0x1008, 0x100c]
    let orig : Code := fun _ => 0x90
    let ops : List Op := [.brk 0x1004, .start, .cont, .remove 0x1004, .brk 0x1008, .cont, .cont]
    Bytes orig ∧ (∀ a ∈ τ, orig a ≠ 0xCC) ∧ τ.head? = some 0x1000 ∧
    NoBreakAtEntry 0x1000 ops ∧ NoRemoveAtEntry 0x1000 ops := by
  refine ⟨fun _ => by show (0x90 : Nat) < 256; decide, fun _ _ => by show (0x90 : Nat) ≠ 0xCC; decide,
    rfl, by decide, by decide⟩

#guard (execAll (init [0x1000, 0x1004, 0x1008, 0x1004, 0x1008, 0x100c] 0x1000 (fun _ => 0x90) 7)
    [.brk 0x1004, .start, .cont, .remove 0x1004, .brk 0x1008, .cont, .cont]).2
  == [.ok, .stop 0x1004, .stop 0x1004, .ok, .ok, .stop 0x1008, .exit 7]
#guard (Spec.run [0x1000, 0x1004, 0x1008, 0x1004, 0x1008, 0x100c] 7 {}
    [.brk 0x1004, .start, .cont, .remove 0x1004, .brk 0x1008, .cont, .cont]).2
  == [.ok, .stop 0x1004, .stop 0x1004, .ok, .ok, .stop 0x1008, .exit 7]

/-! ## Why each hypothesis is there: the full statements are false of the model (witnesses evaluated by the kernel) -/

/-- the projection statement without the two hypotheses about the entry address -/
def C01_continue_projection_full : Prop :=
  ∀ (τ : List Addr) (entry : Addr) (orig : Code) (exitCode : Nat) (ops : List Op),
    Bytes orig → (∀ a ∈ τ, orig a ≠ 0xCC) → τ.head? = some entry →
    (execAll (init τ entry orig exitCode) ops).2 = (Spec.run τ exitCode {} ops).2

private theorem nop_bytes : Bytes (fun _ => 0x90) := fun _ => by show (0x90 : Nat) < 256; decide
private theorem nop_nocc (τ : List Addr) : ∀ a ∈ τ, (fun _ => 0x90 : Code) a ≠ 0xCC :=
  fun _ _ => by show (0x90 : Nat) ≠ 0xCC; decide

/-- `break <entry>` before `start`: `enable_all_breakpoints` replaces the internal entry breakpoint by the user's, at
the very moment it is being handled; the arrival at the entry address is never reported (model: `exit`, spec: `stop`).
`NoRemoveAtEntry` holds on this witness, so `NoBreakAtEntry` is needed on its own. -/
theorem C01_continue_projection_counterexample_break_at_entry :
    ¬ C01_continue_projection_full ∧ NoRemoveAtEntry 0x1000 [.brk 0x1000, .start] ∧
    (execAll (init [0x1000, 0x1004] 0x1000 (fun _ => 0x90) 0) [.brk 0x1000, .start]).2 = [.ok, .exit 0] ∧
    (Spec.run [0x1000, 0x1004] 0 {} [.brk 0x1000, .start]).2 = [.ok, .stop 0x1000] := by
  have h1 : (execAll (init [0x1000, 0x1004] 0x1000 (fun _ => 0x90) 0) [.brk 0x1000, .start]).2 = [.ok, .exit 0] := by
    decide +kernel
  have h2 : (Spec.run [0x1000, 0x1004] 0 {} [.brk 0x1000, .start]).2 = [.ok, .stop 0x1000] := by decide +kernel
  refine ⟨fun h => ?_, by decide, h1, h2⟩
  have := h [0x1000, 0x1004] 0x1000 (fun _ => 0x90) 0 [.brk 0x1000, .start] nop_bytes (nop_nocc _) rfl
  rw [h1, h2] at this
  exact absurd this (by decide)

/-- `remove <entry>` while the debuggee runs: `remove_by_addr` does not look at the kind, answers `ok` and deletes the
debugger's internal entry-point breakpoint (spec: `none`, there is no user breakpoint there).
`NoBreakAtEntry` holds on this witness. -/
theorem C01_continue_projection_counterexample_remove_at_entry :
    NoBreakAtEntry 0x1000 [.brk 0x1004, .start, .remove 0x1000] ∧
    (execAll (init [0x1000, 0x1004, 0x1008] 0x1000 (fun _ => 0x90) 0) [.brk 0x1004, .start, .remove 0x1000]).2
      = [.ok, .stop 0x1004, .ok] ∧
    (Spec.run [0x1000, 0x1004, 0x1008] 0 {} [.brk 0x1004, .start, .remove 0x1000]).2
      = [.ok, .stop 0x1004, .none] := by
  refine ⟨by decide, by decide +kernel, by decide +kernel⟩

/-- if the trace does not start at the entry address, the user breakpoints before the first arrival at the entry
address are not yet enabled (they are enabled when the entry breakpoint is hit) and are missed -/
theorem C01_continue_projection_counterexample_entry_not_first :
    (execAll (init [0x1004, 0x1000, 0x1008] 0x1000 (fun _ => 0x90) 0) [.brk 0x1004, .start]).2 = [.ok, .exit 0] ∧
    (Spec.run [0x1004, 0x1000, 0x1008] 0 {} [.brk 0x1004, .start]).2 = [.ok, .stop 0x1004] := by
  refine ⟨by decide +kernel, by decide +kernel⟩

/-- a debuggee with an `int3` of its own on the trace makes the debugger meet a SIGTRAP it has no breakpoint for -/
theorem C01_continue_projection_counterexample_own_int3 :
    (execAll (init [0x1000, 0x1004] 0x1000 (fun a => if a = 0x1004 then 0xCC else 0x90) 0) [.start]).2
      = [.corrupt] := by
  decide +kernel

/-- the text clause of the patch invariant without the restriction to live processes -/
def C01_patch_inv_full : Prop :=
  ∀ (τ : List Addr) (entry : Addr) (orig : Code) (exitCode : Nat) (ops : List Op), Bytes orig →
    ∀ a, (execAll (init τ entry orig exitCode) ops).1.code a
      = if (execAll (init τ entry orig exitCode) ops).1.active.any (fun b => b.addr == a && b.enabled)
        then 0xCC else orig a

/-- after the exit the registry is emptied (`disable_all_breakpoints`; its pokes fail, the process is gone) but the
model keeps the last text: the text clause is only meaningful, and only claimed, while the process exists -/
theorem C01_patch_inv_counterexample_after_exit : ¬ C01_patch_inv_full := by
  intro h
  have := h [0x1000, 0x1004] 0x1000 (fun _ => 0x90) 0 [.start] nop_bytes 0x1000
  revert this
  decide +kernel

/-! ## Histories with context-only commands (`frame k`, `backtrace`, reading locals)

`Model/Context.lean` states the debugger WITH its exploration context (`CSt`, `execC`): `step_over_breakpoint`,
the `continue_execution` loop, `start`/`continue` with the reads and writes of the ecx the code has, plus the commands
that only move or read the ecx.  The theorems above are about the ecx-free machine (`exec`); the ones below carry them
over to every history in which context-only commands are interleaved at will: what `break`/`remove`/`start`/
`continue` answer, and what they do to the text, does not depend on them. -/

/-- **C01_ctx_ops_invisible.**  For every program, EVERY history over the extended alphabet (no hypothesis): the
answers to the commands that are not context-only are, one by one, the answers the ecx-free machine gives to the
history with the context-only commands deleted, and the machine ends in the same state up to the poke log of the last
command (text, registry, position, status, execution log all equal). -/
theorem C01_ctx_ops_invisible (τ : List Addr) (entry : Addr) (orig : Code) (exitCode : Nat) (cops : List COp) :
    baseOuts (execAllC (initC τ entry orig exitCode) cops).2
      = (execAll (init τ entry orig exitCode) (eraseCtx cops)).2 ∧
    PokeEq (execAllC (initC τ entry orig exitCode) cops).1.m
      (execAll (init τ entry orig exitCode) (eraseCtx cops)).1 :=
  let h := execAllC_erase cops (initC τ entry orig exitCode) (init τ entry orig exitCode) (PokeEq.refl _)
  ⟨h.2, h.1⟩

/-- **C01_continue_projection_ctx.**  `C01_continue_projection` for histories with arbitrary interleavings of
context-only commands (each `frame k` with an arbitrary ip, also a caller's return address that itself carries a
breakpoint): `start`/`continue` still report exactly the successive first positions whose address is a user
breakpoint currently set.  Selecting a frame or inspecting between two continues changes nothing of what the
continues report. -/
theorem C01_continue_projection_ctx (τ : List Addr) (entry : Addr) (orig : Code) (exitCode : Nat) (cops : List COp)
    (ho : Bytes orig) (hcc : ∀ a ∈ τ, orig a ≠ 0xCC) (hhead : τ.head? = some entry)
    (hb : NoBreakAtEntry entry (eraseCtx cops)) (hr : NoRemoveAtEntry entry (eraseCtx cops)) :
    baseOuts (execAllC (initC τ entry orig exitCode) cops).2 = (Spec.run τ exitCode {} (eraseCtx cops)).2 := by
  rw [(C01_ctx_ops_invisible τ entry orig exitCode cops).1]
  exact C01_continue_projection τ entry orig exitCode (eraseCtx cops) ho hcc hhead hb hr

private theorem patchInv_pokeEq {orig s s'} (h : PatchInv orig s') (e : PokeEq s s') : PatchInv orig s := by
  refine ⟨fun hs a => ?_, ?_, ?_, ?_⟩
  · rw [e.code, e.active]; exact h.text (by rw [← e.status]; exact hs) a
  · rw [e.active]; exact h.saved
  · rw [e.active]; exact h.distinct
  · rw [e.active]; exact h.enabled

/-- **C01_patch_inv_ctx.**  The patch invariant after every history over the extended alphabet (no hypothesis except
that `orig` is made of bytes). -/
theorem C01_patch_inv_ctx (τ : List Addr) (entry : Addr) (orig : Code) (exitCode : Nat) (cops : List COp)
    (ho : Bytes orig) : PatchInv orig (execAllC (initC τ entry orig exitCode) cops).1.m :=
  patchInv_pokeEq (C01_patch_inv τ entry orig exitCode (eraseCtx cops) ho)
    (C01_ctx_ops_invisible τ entry orig exitCode cops).2

/-- **C01_ctx_after_stop.**  Whenever `start`/`continue` (or any other command) reports `stop p` — from ANY state and
ANY exploration context — the exploration context afterwards is (`p`, frame 0) and `p` is the thread's position:
the context a user left on a caller frame does not survive the next stop. -/
theorem C01_ctx_after_stop (c : CSt) (op : Op) (p : Addr) (h : (execC c (.base op)).2 = .base (.stop p)) :
    (execC c (.base op)).1.ecx = { pc := p, frame := 0 } ∧ pc (execC c (.base op)).1.m = some p := by
  have h' : (execBaseC c op).2 = .stop p := by
    have : (execC c (.base op)).2 = .base (execBaseC c op).2 := rfl
    rw [this] at h; injection h
  show (execBaseC c op).1.ecx = _ ∧ pc (execBaseC c op).1.m = _
  cases op with
  | brk a =>
    exfalso; revert h'
    cases hs : c.m.status <;> simp [execBaseC, exec, hs]
  | remove a =>
    exfalso; revert h'
    simp only [execBaseC, exec]
    split <;> simp
  | start =>
    revert h'
    cases hs : c.m.status <;> simp only [execBaseC, hs] <;> intro h'
    · exact traceLoopC_stop _ _ p h'
    · cases h'
    · cases h'
  | cont =>
    revert h'
    cases hs : c.m.status <;> simp only [execBaseC, hs] <;> intro h'
    · cases h'
    · exact traceLoopC_stop _ _ p h'
    · cases h'

/-- **C01_ctx_answers.**  What the context-only commands do: while the debuggee runs, `frame k` (frame `k` exists, the
unwinder says its ip is `ip`) focuses (`ip`, `k`) and answers it; `backtrace` and reading locals (when the unwinder /
the DWARF evaluation succeed there) answer the current context and leave it alone; outside a running debuggee, for a
frame that does not exist, and when the inspection fails, the command is refused and the context stays.  None of them touches the machine (only the per-command poke log starts afresh). -/
theorem C01_ctx_answers (c : CSt) :
    (∀ x, (execC c (.ctx x)).1.m = { c.m with pokes := [] }) ∧
    (c.m.status = .inProgress → ∀ k ip, execC c (.ctx (.frame k (some ip)))
        = ({ m := { c.m with pokes := [] }, ecx := { pc := ip, frame := k } }, .ctx (some { pc := ip, frame := k }))) ∧
    (c.m.status = .inProgress → ∀ x, x = CtxOp.backtrace true ∨ x = CtxOp.locals true →
      execC c (.ctx x) = ({ c with m := { c.m with pokes := [] } }, .ctx (some c.ecx))) ∧
    (∀ x, (∃ k, x = CtxOp.frame k none) ∨ x = CtxOp.backtrace false ∨ x = CtxOp.locals false →
      execC c (.ctx x) = ({ c with m := { c.m with pokes := [] } }, .ctx none)) ∧
    (c.m.status ≠ .inProgress → ∀ x, execC c (.ctx x) = ({ c with m := { c.m with pokes := [] } }, .ctx none)) := by
  refine ⟨fun x => execC_ctx_m c x, fun hs k ip => ?_, fun hs x hx => ?_, fun x hx => ?_, fun hs x => ?_⟩
  · simp only [execC, execCtx, hs]
  · rcases hx with rfl | rfl <;> simp only [execC, execCtx, hs]
  · rcases hx with ⟨k, rfl⟩ | rfl | rfl <;> cases hs : c.m.status <;> simp only [execC, execCtx, hs]
  · cases hs' : c.m.status with
    | inProgress => exact absurd hs' hs
    | unload => simp only [execC, execCtx, hs']
    | exited => simp only [execC, execCtx, hs']

/-! ### non-vacuity and sanity tests for the extended alphabet (the `#guard`s are tests, not proofs) -/

/-- `main` (0x1000..0x100c) calls `f` (0x2000, 0x2004) twice; breakpoint in `f`; between the two continues the user
selects the caller frame (ip = the return address 0x1008, on which a breakpoint is then even set) and inspects -/
example :
    let τ : List Addr := [0x1000, 0x1004, 0x2000, 0x2004, 0x1008, 0x2000, 0x2004, 0x100c]
    let orig : Code := fun _ => 0x90
    let cops : List COp := [.base (.brk 0x2000), .base .start, .ctx (.frame 1 (some 0x1008)), (.ctx (.locals true)),
      .base .cont, (.ctx (.backtrace true)), .base (.brk 0x100c), .ctx (.frame 1 (some 0x100c)), .base .cont, .base .cont]
    Bytes orig ∧ (∀ a ∈ τ, orig a ≠ 0xCC) ∧ τ.head? = some 0x1000 ∧
    NoBreakAtEntry 0x1000 (eraseCtx cops) ∧ NoRemoveAtEntry 0x1000 (eraseCtx cops) := by
  refine ⟨fun _ => by show (0x90 : Nat) < 256; decide, fun _ _ => by show (0x90 : Nat) ≠ 0xCC; decide,
    rfl, by decide, by decide⟩

#guard (execAllC (initC [0x1000, 0x1004, 0x2000, 0x2004, 0x1008, 0x2000, 0x2004, 0x100c] 0x1000 (fun _ => 0x90) 3)
    [.base (.brk 0x2000), .base .start, .ctx (.frame 1 (some 0x1008)), (.ctx (.locals true)), .base .cont, (.ctx (.backtrace true)),
     .base (.brk 0x100c), .ctx (.frame 1 (some 0x100c)), .base .cont, .base .cont, (.ctx (.backtrace true))]).2
  == [.base .ok, .base (.stop 0x2000), .ctx (some ⟨0x1008, 1⟩), .ctx (some ⟨0x1008, 1⟩), .base (.stop 0x2000),
      .ctx (some ⟨0x2000, 0⟩), .base .ok, .ctx (some ⟨0x100c, 1⟩), .base (.stop 0x100c), .base (.exit 3), .ctx none]

/-! ### why `step_over_breakpoint` must ask the tracee for its pc -/

/-- `step_over_breakpoint` as it would be if it took the pc from the exploration context (`self.ecx().location().pc`,
"the same as `single_step_instruction` does") instead of `tracee.pc()` -/
def stepOverBreakpointFromEcx (c : CSt) : CSt :=
  match find? c.m.active c.ecx.pc with
  | none => c
  | some b => if b.enabled then ecxUpdate { c with m := stepOverWith c.m b } else c

/-- `continue` built on it -/
def contFromEcx (c : CSt) : CSt × Out :=
  let c0 : CSt := { c with m := { c.m with pokes := [] } }
  traceLoopC (fuelFor c0.m) (stepOverBreakpointFromEcx c0)

/-- **C01_ctx_real_pc_needed_counterexample.**  With that variant the erasure theorem is false, on the smallest
possible history: stop at a breakpoint in a callee, select the caller frame, continue.  The breakpoint under the
thread's real pc is not stepped over, its INT3 traps again at once, and the SAME arrival is reported a second time
(the position has not moved); the model of the real code (`execC`) goes on to the exit, as the specification says. -/
theorem C01_ctx_real_pc_needed_counterexample :
    let τ : List Addr := [0x1000, 0x1004, 0x2000, 0x2004, 0x1008]
    let c := (execAllC (initC τ 0x1000 (fun _ => 0x90) 0)
      [.base (.brk 0x2000), .base .start, .ctx (.frame 1 (some 0x1008))]).1
    (c.m.idx = 2 ∧ c.ecx = ⟨0x1008, 1⟩) ∧
    (execC c (.base .cont)).2 = .base (.exit 0) ∧
    (Spec.run τ 0 {} [.brk 0x2000, .start, .cont]).2 = [.ok, .stop 0x2000, .exit 0] ∧
    (contFromEcx c).2 = .stop 0x2000 ∧ (contFromEcx c).1.m.idx = 2 := by
  refine ⟨⟨by decide +kernel, by decide +kernel⟩, by decide +kernel, by decide +kernel, by decide +kernel,
    by decide +kernel⟩

end BsVerif.Bp
