import BsVerif.Lemmas.ValueTree
/-!
# C06 — the structural theorem (second Props module: it uses the per-node lemmas of Props/C06)

`Shows c d id bs v` (defined in Lemmas/ValueTree.lean) is the layout-level ground truth: integers are little-endian
two's-complement images, a structure holds each member at its constant offset, an array holds element `j` at `j * size`.
-/
namespace BsVerif.Value

/-- **C06_struct_array_enum** (structures, tuples, arrays and integers of every width/sign, nested to ANY depth): whenever
    the bytes hold `v` at type `id` in the layout sense, the decoder shows exactly `v` — for every type graph, every offset
    table (also reordered / padded layouts), every element count and size, every address.  Structural induction over the
    depth of the type.  (Enum variant selection is covered per node by C06_enum_no_foreign_variant /
    C06_enum_keyed_variant_shown in Props/C06; floats, bool, char by C06_scalar_model_*.) -/
theorem C06_struct_array_enum (c : Ctx) (d id : Nat) (bs : Bytes) (v : Val) (h : Shows c d id bs v) (a : Option Nat) :
    parseInner c d (some ⟨bs, a⟩) id = some v :=
  decode_shows c d id bs v h a

/-- `struct { a: u16 @0, b: [u8; 2] @2 }` (unnamed, so no std re-interpretation applies) -/
def exG2 : Graph := fun i =>
  if i = 1 then some (.scalar none [] (some 2) (some 7))
  else if i = 2 then some (.scalar none [] (some 1) (some 7))
  else if i = 3 then some (.array [] (some 2) none (some 2) (some 2))
  else if i = 4 then some (.struct none [] (some 4) [⟨some (some 0), none, some 1⟩, ⟨some (some 2), none, some 3⟩] [])
  else none
def exC2 : Ctx := ⟨exG2, fun _ _ => none, 89⟩

def exU8 (n : Nat) : Val := .scalar (Ident.show ⟨[], none⟩) (some (.num .u8 n))
def exV : Val := .struct (exC2.ident 4).show [none, none]
  [.scalar (Ident.show ⟨[], none⟩) (some (.num .u16 0x1234)), .array (exC2.ident 3).show 0 [exU8 7, exU8 9]] []

example : Shows exC2 3 4 [0x34, 0x12, 7, 9] exV := by
  refine ⟨rfl, _, rfl, rfl, ?_⟩
  intro i h h'
  match i, h, h' with
  | 0, _, _ => exact ⟨0, 1, 2, rfl, rfl, rfl, by decide, ⟨.u16, 0x1234, by decide, rfl, by decide, rfl, rfl⟩⟩
  | 1, _, _ =>
    refine ⟨2, 3, 2, rfl, rfl, rfl, by decide, ⟨2, 1, [exU8 7, exU8 9], by decide, rfl, by decide, rfl, rfl, rfl, rfl, rfl, ?_⟩⟩
    intro j hj
    match j, hj with
    | 0, _ => exact ⟨.u8, 7, by decide, rfl, by decide, rfl, rfl⟩
    | 1, _ => exact ⟨.u8, 9, by decide, rfl, by decide, rfl, rfl⟩

example : parseInner exC2 3 (some ⟨[0x34, 0x12, 7, 9], some 1000⟩) 4 = some exV :=
  decode_shows exC2 3 4 _ _ (by
    refine ⟨rfl, _, rfl, rfl, ?_⟩
    intro i h h'
    match i, h, h' with
    | 0, _, _ => exact ⟨0, 1, 2, rfl, rfl, rfl, by decide, ⟨.u16, 0x1234, by decide, rfl, by decide, rfl, rfl⟩⟩
    | 1, _, _ =>
      refine ⟨2, 3, 2, rfl, rfl, rfl, by decide, ⟨2, 1, [exU8 7, exU8 9], by decide, rfl, by decide, rfl, rfl, rfl, rfl, rfl, ?_⟩⟩
      intro j hj
      match j, hj with
      | 0, _ => exact ⟨.u8, 7, by decide, rfl, by decide, rfl, rfl⟩
      | 1, _ => exact ⟨.u8, 9, by decide, rfl, by decide, rfl, rfl⟩) _

end BsVerif.Value
