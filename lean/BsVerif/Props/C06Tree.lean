import BsVerif.Lemmas.ValueTree
import BsVerif.Lemmas.ValueGlue
/-!
# C06 — the structural theorem (second Props module: it uses the per-node lemmas of Props/C06)

`Shows c d id bs v` (defined in Lemmas/ValueTree.lean) is the layout-level ground truth: integers are little-endian
two's-complement images, a structure holds each member at its constant offset, an array holds element `j` at `j * size`.
-/
namespace BsVerif.Value

/-- **C06_struct_array_enum** (structures, tuples, arrays and integers of every width/sign, nested to ANY depth): whenever
    the bytes hold `v` at type `id` in the layout sense, the decoder shows exactly `v` — for every type graph, every offset
    table (also reordered / padded layouts), every element count and size, every address.  Structural induction over the
    depth of the type.  (Enum variant selection is covered per node by C06_enum_no_foreign_variant /
    C06_enum_keyed_variant_shown in Props/C06; floats, bool, char by C06_scalar_model_*.) -/
theorem C06_struct_array_enum (c : Ctx) (d id : Nat) (bs : Bytes) (v : Val) (h : Shows c d id bs v) (a : Option Nat) :
    parseInner c d (some ⟨bs, a⟩) id = some v :=
  decode_shows c d id bs v h a

/-- `struct { a: u16 @0, b: [u8; 2] @2 }` (unnamed, so no std re-interpretation applies) -/
def exG2 : Graph := fun i =>
  if i = 1 then some (.scalar none [] (some 2) (some 7))
  else if i = 2 then some (.scalar none [] (some 1) (some 7))
  else if i = 3 then some (.array [] (some 2) none (some 2) (some 2))
  else if i = 4 then some (.struct none [] (some 4) [⟨some (some 0), none, some 1⟩, ⟨some (some 2), none, some 3⟩] [])
  else none
def exC2 : Ctx := ⟨exG2, fun _ _ => none, 89⟩

def exU8 (n : Nat) : Val := .scalar (Ident.show ⟨[], none⟩) (some (.num .u8 n))
def exV : Val := .struct (exC2.ident 4).show [none, none]
  [.scalar (Ident.show ⟨[], none⟩) (some (.num .u16 0x1234)), .array (exC2.ident 3).show 0 [exU8 7, exU8 9]] []

example : Shows exC2 3 4 [0x34, 0x12, 7, 9] exV := by
  refine ⟨rfl, _, rfl, rfl, ?_⟩
  intro i h h'
  match i, h, h' with
  | 0, _, _ => exact ⟨0, 1, 2, rfl, rfl, rfl, by decide, ⟨.u16, 0x1234, by decide, rfl, by decide, rfl, rfl⟩⟩
  | 1, _, _ =>
    refine ⟨2, 3, 2, rfl, rfl, rfl, by decide, ⟨2, 1, [exU8 7, exU8 9], by decide, rfl, by decide, rfl, rfl, rfl, rfl, rfl, ?_⟩⟩
    intro j hj
    match j, hj with
    | 0, _ => exact ⟨.u8, 7, by decide, rfl, by decide, rfl, rfl⟩
    | 1, _ => exact ⟨.u8, 9, by decide, rfl, by decide, rfl, rfl⟩

example : parseInner exC2 3 (some ⟨[0x34, 0x12, 7, 9], some 1000⟩) 4 = some exV :=
  decode_shows exC2 3 4 _ _ (by
    refine ⟨rfl, _, rfl, rfl, ?_⟩
    intro i h h'
    match i, h, h' with
    | 0, _, _ => exact ⟨0, 1, 2, rfl, rfl, rfl, by decide, ⟨.u16, 0x1234, by decide, rfl, by decide, rfl, rfl⟩⟩
    | 1, _, _ =>
      refine ⟨2, 3, 2, rfl, rfl, rfl, by decide, ⟨2, 1, [exU8 7, exU8 9], by decide, rfl, by decide, rfl, rfl, rfl, rfl, rfl, ?_⟩⟩
      intro j hj
      match j, hj with
      | 0, _ => exact ⟨.u8, 7, by decide, rfl, by decide, rfl, rfl⟩
      | 1, _ => exact ⟨.u8, 9, by decide, rfl, by decide, rfl, rfl⟩) _

/-! ## `Vec` and `VecDeque` end to end (header fields as found by the breadth-first lookup are hypotheses) -/

/-- **C06_vec_end_to_end**: `len = n ≤ LEN_GUARD`, buffer = concatenation of the `n` element images, element decoder shows
    `items[j]` on image `j` ⇒ the `Vec` is shown as exactly `items`, in order (and `cap` as the guarded capacity). -/
theorem C06_vec_end_to_end (c : Ctx) (rec : Rec) (sv : Val) (id : Nat) (tps : List (String × Option Nat))
    (inner el n cap p : Nat) (blocks : List Bytes) (items : List Val)
    (hT : lookupTParam tps "T" = some inner)
    (hlen : assumeScalarNumber sv "len" = some (n : Int)) (hn : (n : Int) ≤ LEN_GUARD)
    (hcap : extractCapacity c.ver sv = some cap)
    (hp : assumePointer sv "pointer" = some p)
    (hel : c.size inner = some el) (hel0 : 0 < el)
    (hb : blocks.length = n) (hbl : ∀ b ∈ blocks, b.length = el)
    (hrd : c.rd p (n * el) = some blocks.flatten)
    (hil : items.length = blocks.length)
    (hitems : ∀ j (h : j < blocks.length) (h' : j < items.length) (a : Option Nat), rec (some ⟨blocks[j], a⟩) inner = some items[j]) :
    specialize c rec .vec sv id tps =
      some (.specVec false sv (vecStructure c sv.tyName inner items (guardCap cap).toNat tps)) :=
  vec_end_to_end c rec sv id tps inner el n cap p blocks items hT hlen hn hcap hp hel hel0 hb hbl hrd hil hitems

/-- **C06_vecdeque_end_to_end** (EVERY capacity, also above CAP_GUARD; repaired by 26a941a): the memory at `p` holds the
    ring buffer `buf` of `cap` slots ⇒ the deque is shown as exactly the logical sequence: item `i` is the element decoder's
    result on the image in slot `(head + i) % cap` — for every ring position, wrapped or not; only the slots shown are
    read (head part at its slot, wrapped part at slot 0) and only the capacity SHOWN goes through `guard_cap`. -/
theorem C06_vecdeque_end_to_end (c : Ctx) (rec : Rec) (sv : Val) (id : Nat) (tps : List (String × Option Nat))
    (inner el n cap head p : Nat) (buf : Bytes) (items : List Val)
    (hT : lookupTParam tps "T" = some inner)
    (hlen : assumeScalarNumber sv "len" = some (n : Int)) (hn : (n : Int) ≤ LEN_GUARD)
    (hel : c.size inner = some el) (hel0 : 0 < el)
    (hcap : extractCapacity c.ver sv = some cap) (hc0 : 0 < cap) (hnc : n ≤ cap)
    (hhead : assumeScalarNumber sv "head" = some (head : Int)) (hh64 : head < 2 ^ 64)
    (hp : assumePointer sv "pointer" = some p) (haddr : p + cap * el < 2 ^ 64)
    (hbuf : buf.length = cap * el)
    (hrd : ∀ off len, off + len ≤ cap * el → c.rd (p + off) len = some ((buf.drop off).take len))
    (hil : items.length = n)
    (hitems : ∀ i (h : i < n) (h' : i < items.length),
      rec (some ⟨(buf.drop (((head + i) % cap) * el)).take el, some (p + ((head + i) % cap) * el)⟩) inner = some items[i]) :
    specialize c rec .vecdeque sv id tps =
      some (.specVec true sv (vecStructure c sv.tyName inner items (guardCap cap).toNat tps)) :=
  deque_end_to_end c rec sv id tps inner el n cap head p buf items hT hlen hn hel hel0 hcap hc0 hnc hhead hh64 hp haddr hbuf hrd hil hitems

/-- **C06_hashmap_end_to_end**: header fields found; the loaded 16-byte groups are the table's control bytes (with the
    tail invariant); the element decoder shows the pair `(k j, v j)` on the image of bucket `j`, located `(j + 1) * size`
    below the control bytes ⇒ the map is shown as exactly the pairs of the full buckets `j < buckets`, each once, in index
    order: tombstones and empty buckets are not shown, nothing is invented. -/
theorem C06_hashmap_end_to_end (c : Ctx) (rec : Rec) (sv : Val) (id : Nat) (tps : List (String × Option Nat))
    (ctrlp mask kv kvSize : Nat) (ctrl : Nat → Nat) (tty : String) (tnames : List (Option String)) (tvals : List Val)
    (ttps : List (String × Option Nat)) (loaded : List Bytes) (k v : Nat → Val)
    (hctrl : assumePointer sv "pointer" = some ctrlp)
    (hmask : assumeScalarNumber sv "bucket_mask" = some (mask : Int))
    (htable : assumeStruct sv "table" = some (.struct tty tnames tvals ttps))
    (hkv : lookupTParam ttps "T" = some kv) (hsz : c.size kv = some kvSize)
    (hload : (List.range (if mask + 1 ≤ 16 then 1 else (mask + 1 + 15) / 16)).mapM (fun g => c.rd (ctrlp + 16 * g) 16) = some loaded)
    (hl : ∀ g, (g = 0 ∨ 16 * g < mask + 1) → loaded.getD g [] = groupAt ctrl g)
    (tail : ∀ j, mask + 1 ≤ j → j < 16 * ((mask + 1 + 15) / 16) → ctrl j ≥ 128)
    (hpairs : ∀ j, j < mask + 1 → ctrl j < 128 → ∃ ty names tp,
      rec ((c.rd (ctrlp - (j + 1) * kvSize) kvSize).map fun bs => ⟨bs, some (ctrlp - (j + 1) * kvSize)⟩) kv =
        some (.struct ty names [k j, v j] tp)) :
    specialize c rec .hashmap sv id tps =
      some (.specMap false sv (((List.range (mask + 1)).filter (isFull ctrl)).map k)
                               (((List.range (mask + 1)).filter (isFull ctrl)).map v)) :=
  hashmap_end_to_end c rec sv id tps ctrlp mask kv kvSize ctrl tty tnames tvals ttps loaded k v
    hctrl hmask htable hkv hsz hload hl tail hpairs

/-- tests (compiled evaluation, not theorems): the header hypotheses are satisfiable — a `VecDeque`-shaped structure value
    whose fields the breadth-first lookup finds -/
def exDeque : Val := .struct "VecDeque<u8>" [some "head", some "len", some "buf"]
  [usizeScalar 3, usizeScalar 2,
   .struct "RawVec" [some "ptr", some "cap"]
     [.struct "Unique" [some "pointer"] [.ptr "*const u8" (some 1000) none] [],
      .struct "Cap" [some "__0"] [usizeScalar 4] []] []] [("T", some 2)]
#guard assumeScalarNumber exDeque "len" == some 2
#guard assumeScalarNumber exDeque "head" == some 3
#guard assumePointer exDeque "pointer" == some 1000
#guard extractCapacity 89 exDeque == some 4
#guard (specialize ⟨exG2, fun a n => if a = 1003 ∧ n = 1 then some [13] else if a = 1000 ∧ n = 1 then some [10] else none, 89⟩
          (parseInner ⟨exG2, fun _ _ => none, 89⟩ 2) .vecdeque exDeque 0 [("T", some 2)]).map render
        == some "Xdeq<VecDeque<u8>>T<VecDeque<u8>>{buf:A<[unknown]>[0:S<unknown>13,1:S<unknown>10],cap:S<usize>4}"

end BsVerif.Value
