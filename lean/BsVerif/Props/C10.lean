import BsVerif.Model.Signals
import BsVerif.Lemmas.Signals
import BsVerif.Lemmas.SignalsK
/-!
C10 — signals reach the debuggee exactly once.  Property theorems about `BsVerif.Model.Signals`
(the tracer's queue discipline against the kernel's ptrace rules, one thread; tables re-read from tracer.rs).
-/
namespace BsVerif.Sig
open BsVerif.Gen.Signals

/-! ## tables (re-extracted from src/debugger/debugee/tracer.rs on every run) -/

/-- the quiet signals are exactly SIGALRM, SIGURG, SIGCHLD, SIGIO, SIGVTALRM, SIGPROF -/
theorem C10_quiet_table : ∀ s, s ∈ quiet ↔ s ∈ [14, 23, 17, 29, 26, 27] := by
  intro s; simp [quiet]

/-- only SIGINT is transparent, and it is not quiet -/
theorem C10_transparent_table : transparent = [SIGINT] ∧ SIGINT ∉ quiet := by decide

/-! ## witnesses of the defects of the unchanged code (replayed on the real code: corpus/C10/*.req) -/

def wTwice : D := (D.init [.point]).run [.brk, .start, .send true 14, .stepi, .drain]
def wBurst : D := (D.init [.point]).run [.brk, .start, .send true 10, .send true 12, .cont, .cont, .cont, .drain]
def wPanic : D := (D.init [.point]).run [.brk, .start, .send true 14, .send true 23, .stepi]

#guard wTwice.k.delivered == [14, 14]
#guard wBurst.k.delivered == [12] && wBurst.reported == [10, 12, 12]
#guard wPanic.dead


/-! ## what holds of the code as it is, for every script of the debuggee and every command history -/

/-- the invariant behind `C10_sigint_never_delivered` is closed under the tracer's atomic steps -/
theorem sigintStable : StableB (fun d => SIGINT ∉ d.queue ∧ SIGINT ∉ d.k.delivered) := by
  have ht : SIGINT ∈ transparent := by decide
  have hq : SIGINT ∉ quiet := by decide
  have key : ∀ (d : D) (m : Mode) (s : Sig), s ≠ SIGINT → SIGINT ∉ d.queue → SIGINT ∉ d.k.delivered →
      SIGINT ∉ (d.kp m s).1.queue ∧ SIGINT ∉ (d.kp m s).1.k.delivered := by
    intro d m s hs h1 h2
    have hc := D.kp_counts d m s SIGINT
    obtain ⟨hd, δ, _, _, _, hqc⟩ := hc
    simp only [ht, if_true, Nat.add_zero] at hqc
    constructor
    · rw [← List.count_eq_zero]; rw [hqc]; exact List.count_eq_zero.mpr h1
    · rw [← List.count_eq_zero]; rw [hd]
      have : d.k.delivered.count SIGINT = 0 := List.count_eq_zero.mpr h2
      split <;> simp_all
  refine ⟨?_, ?_, ?_, ?_, ?_, ?_, ?_⟩
  · intro d d' hk hq' h; rw [hk, hq']; exact h
  · intro d m b h; exact key _ m 0 (by decide) h.1 h.2
  · intro d s h hq'
    have hs : s ≠ SIGINT := by intro e; apply h.1; rw [hq', e]; simp
    exact key _ .cont s hs (by simp) h.2
  · intro d a h ha _
    have hs : a ≠ SIGINT := by intro e; exact hq (e ▸ ha)
    exact key d .step a hs h.1 h.2
  · intro d s s' rest h hq'
    refine ⟨?_, h.2⟩
    intro hm; apply h.1; rw [hq']; exact List.mem_cons_of_mem _ hm
  · intro d h
    refine ⟨h.1, ?_⟩
    have := (K.resume_spec d.k .sysc 0 d.bpOn).1
    simp only [D.kres_k, this]; simpa using h.2
  · intro d p s h
    exact ⟨h.1, by simpa [(K.send_fields d.k p s).1] using h.2⟩

/-- **SIGINT stops the program without being delivered**: for every script and every command history the handler
log of the debuggee never contains SIGINT (no resume request ever carries it). -/
theorem C10_sigint_never_delivered (script : List PEv) (cmds : List Cmd) :
    SIGINT ∉ ((D.init script).run cmds).k.delivered :=
  (D.run_stable sigintStable.toStable cmds (D.init script) (by simp [D.init])).2

example : wTwice.k.arrived = [14] ∧ SIGINT ∉ wTwice.k.delivered := by decide

/-- closure of "deliveries + queued instances of a non-quiet signal never exceed its arrivals" -/
theorem noDupStable (x : Sig) (hx : x ∉ quiet) :
    StableB (fun d => d.k.delivered.count x + d.queue.count x ≤ d.k.arrived.count x) := by
  refine ⟨?_, ?_, ?_, ?_, ?_, ?_, ?_⟩
  · intro d d' hk hq' h; rw [hk, hq']; exact h
  · intro d m b h
    obtain ⟨hd, δ, _, _, ha, hqc⟩ := D.kp_counts { d with bpOn := b } m 0 x
    simp only [or_true, if_true, Nat.add_zero] at hd
    rw [hd, ha, hqc]; simp only []; split <;> omega
  · intro d s h hq'
    obtain ⟨hd, δ, _, _, ha, hqc⟩ := D.kp_counts { d with queue := [] } .cont s x
    rw [hd, ha, hqc]
    simp only [List.count_nil] at *
    rw [hq'] at h
    have : (if s = x then 1 else 0) = List.count x [s] := by
      simp [List.count_singleton]
    split <;> split <;> (try split) <;> simp_all <;> omega
  · intro d a h ha _
    have hax : a ≠ x := fun e => hx (e ▸ ha)
    obtain ⟨hd, δ, _, _, har, hqc⟩ := D.kp_counts d .step a x
    rw [hd, har, hqc]; simp only [hax, if_false]
    split <;> split <;> omega
  · intro d s s' rest h hq'
    simp only []
    rw [hq'] at h
    have : List.count x (s' :: rest) ≤ List.count x (s :: s' :: rest) := by
      rw [List.count_cons (a := x) (b := s) (l := s' :: rest)]; omega
    omega
  · intro d h
    have hs := K.resume_spec d.k .sysc 0 d.bpOn
    simp only [D.kres_k, D.kres_queue]
    rw [hs.1]; simp only [or_true, if_true]
    cases hw : (d.k.resume .sysc 0 d.bpOn).2 with
    | sigStop a => rw [hs.2.1 a hw, List.count_append]; omega
    | _ => rw [hs.2.2 (by simp [hw])]; exact h
  · intro d p s h
    simpa [(K.send_fields d.k p s).1, (K.send_fields d.k p s).2.1] using h

/-- **a non-quiet signal is never duplicated** (unconditionally, defects included): for every script, every command
history and every signal outside the quiet table, the debuggee's handler has run at most as often as the signal
entered a signal-delivery-stop; what is still queued for injection is covered as well. -/
theorem C10_nonquiet_never_duplicated (script : List PEv) (cmds : List Cmd) (x : Sig) (hx : x ∉ quiet) :
    let d := (D.init script).run cmds
    d.k.delivered.count x + d.queue.count x ≤ d.k.arrived.count x :=
  D.run_stable (noDupStable x hx).toStable cmds (D.init script) (by simp [D.init])

example : (10 : Sig) ∉ quiet ∧ wBurst.k.arrived.count 10 = 1 := by decide

/-! ## exactly once, under the hypothesis that no signal arrives while `single_step` is waiting -/

/-- the named hypothesis: during the whole history no signal-delivery-stop was reported inside `Tracer::single_step`
(neither during `stepi` nor during the step over a breakpoint that `continue` starts with).  Decidable: it is a
ghost flag of the run. -/
def NoSignalInsideStep (script : List PEv) (cmds : List Cmd) : Bool := !((D.init script).run cmds).stepArr

/-- the conservation law: nothing queued twice, nothing owed after exit, and for every non-transparent signal
handler runs + queued instances = signal-delivery-stops -/
def Clean (d : D) : Prop :=
  d.queue.length ≤ 1 ∧ (d.k.stop = .exited → d.queue = []) ∧
  ∀ x, x ≠ 0 → x ∉ transparent → d.k.delivered.count x + d.queue.count x = d.k.arrived.count x

theorem cleanStable : Stable (fun d => d.stepArr = false → Clean d) := by
  -- a `PTRACE_CONT` issued with an empty queue (after the optional injection of `s`)
  have contStep : ∀ (d : D) (s : Sig), d.k.stop ≠ .exited → d.queue = [] →
      (∀ x, x ≠ 0 → x ∉ transparent → d.k.delivered.count x + (if s = 0 then 0 else if s = x then 1 else 0) = d.k.arrived.count x) →
      Clean (d.kp .cont s).1 := by
    intro d s hne hq hc
    have hst := K.resume_stop d.k .cont s d.bpOn
    refine ⟨?_, ?_, ?_⟩
    · cases hw : (d.k.resume .cont s d.bpOn).2 with
      | sigStop a => rw [D.kp_sig hw]; simp [D.push_queue, hq]; split <;> simp
      | _ => rw [D.kp_other (by simp [hw])]; simp [hq]
    · intro hex
      cases hw : (d.k.resume .cont s d.bpOn).2 with
      | sigStop a =>
        have := hst.1 a hw
        rw [D.kp_k] at hex; rw [this] at hex; cases hex
      | _ => rw [D.kp_other (by simp [hw])]; simp [hq]
    · intro x hx0 hx
      obtain ⟨hd, δ, _, _, ha, hqc⟩ := D.kp_counts d .cont s x
      rw [hd, ha, hqc]
      have := hc x hx0 hx
      simp only [hne, false_or, hx, if_false, hq, List.count_nil] at *
      split <;> simp_all <;> omega
  refine ⟨?_, ?_, ?_, ?_, ?_, ?_, ?_, ?_⟩
  · intro d d' hk hq hs h; rw [hs]; intro hf; have := h hf; unfold Clean at *; rw [hk, hq]; exact this
  · -- resume, empty queue
    intro d b h hq hf
    have hf' : d.stepArr = false := by simpa using hf
    have hc := h hf'
    by_cases hex : d.k.stop = .exited
    · -- nothing happens to an exited debuggee
      have e : (({ d with bpOn := b } : D).k.resume .cont 0 b) = (d.k, .unmodelled) := by simp [K.resume, hex]
      have : (({ d with bpOn := b } : D).kp .cont 0).1.k = d.k ∧ (({ d with bpOn := b } : D).kp .cont 0).1.queue = d.queue := by
        rw [D.kp_other (by intro a; simp [e])]; simp [e]
      unfold Clean; rw [this.1, this.2]; exact hc
    · exact contStep { d with bpOn := b } 0 hex hq (fun x hx0 hx => by simpa [hq] using hc.2.2 x hx0 hx)
  · -- resume, one queued signal
    intro d s h hq hf
    have hf' : d.stepArr = false := by simpa using hf
    have hc := h hf'
    have hex : d.k.stop ≠ .exited := by intro e; have := hc.2.1 e; rw [hq] at this; cases this
    refine contStep { d with queue := [] } s hex rfl (fun x hx0 hx => ?_)
    have := hc.2.2 x hx0 hx
    rw [hq, List.count_singleton] at this
    by_cases hs0 : s = 0
    · subst hs0
      -- signal number 0 is never queued by the model's callers, but the law still holds: nothing is injected
      simp only [if_true]
      have h0 : ¬ (0 : Sig) = x := fun e => hx0 e.symm
      simp_all
    · simp only [hs0, if_false]
      by_cases hsx : s = x <;> simp_all
  · -- single_step, PTRACE_SINGLESTEP(0)
    intro d h hf
    cases hw : (d.kp .step 0).2 with
    | sigStop a => rw [D.kps_sig hw] at hf; simp at hf
    | _ =>
      have hno : ∀ a, (d.kp .step 0).2 ≠ .sigStop a := by simp [hw]
      rw [D.kps_other hno] at hf ⊢
      have hf' : d.stepArr = false := by simpa using hf
      have hc := h hf'
      have hev : ∀ a, (d.k.resume .step 0 d.bpOn).2 ≠ .sigStop a := by intro a; rw [← D.kp_ev]; exact hno a
      have hst := K.resume_stop d.k .step 0 d.bpOn
      have hsp := K.resume_spec d.k .step 0 d.bpOn
      rw [D.kp_other hev]
      refine ⟨hc.1, ?_, ?_⟩
      · intro hex
        rcases hst.2 hex with e | e
        · exact hc.2.1 e
        · cases e
      · intro x hx0 hx
        simp only [D.kres_k, D.kres_queue]
        rw [hsp.1, hsp.2.2 hev]; simpa using hc.2.2 x hx0 hx
  · -- single_step, quiet injection: only after a signal arrived inside the step
    intro d a _ _ _ hs hf
    rw [D.kps_stepArr_true hs] at hf; cases hf
  · -- two queued signals: excluded by the law
    intro d s s' rest h hq hf
    have hc := h hf
    have := hc.1; rw [hq] at this; simp at this
  · -- PTRACE_SYSCALL
    intro d h hf
    cases hw : (d.kres .sysc 0).2 with
    | sigStop a => rw [D.ksys_sig hw] at hf; simp at hf
    | _ =>
      have hno : ∀ a, (d.kres .sysc 0).2 ≠ .sigStop a := by intro a h'; rw [hw] at h'; cases h'
      rw [D.ksys_other hno] at hf ⊢
      have hf' : d.stepArr = false := by simpa using hf
      have hc := h hf'
      have hst := K.resume_stop d.k .sysc 0 d.bpOn
      have hsp := K.resume_spec d.k .sysc 0 d.bpOn
      refine ⟨hc.1, ?_, ?_⟩
      · intro hex
        rcases hst.2 hex with e | e
        · exact hc.2.1 e
        · cases e
      · intro x hx0 hx
        simp only [D.kres_k, D.kres_queue]
        rw [hsp.1, hsp.2.2 hno]; simpa using hc.2.2 x hx0 hx
  · intro d p s h hf
    have hc := h hf
    have hs := K.send_fields d.k p s
    unfold Clean
    simp only [hs.1, hs.2.1, hs.2.2.1]
    exact hc

/-- **exactly once, partial**: for every script and every command history in which no signal arrived inside a
single step, at every prompt and for every signal that is not transparent: handler runs + instances still queued for
injection = signal-delivery-stops; at most one signal is queued; and once the debuggee has exited every signal that
entered a signal-delivery-stop was handled exactly once. -/
theorem C10_delivery_once_partial (script : List PEv) (cmds : List Cmd)
    (h : NoSignalInsideStep script cmds = true) :
    let d := (D.init script).run cmds
    (∀ x, x ≠ 0 → x ∉ transparent → d.k.delivered.count x + d.queue.count x = d.k.arrived.count x) ∧
    d.queue.length ≤ 1 ∧
    (d.k.stop = .exited → ∀ x, x ≠ 0 → x ∉ transparent → d.k.delivered.count x = d.k.arrived.count x) := by
  have hc : Clean ((D.init script).run cmds) :=
    D.run_stable cleanStable cmds (D.init script) (fun _ => by simp [Clean, D.init])
      (by simpa [NoSignalInsideStep] using h)
  refine ⟨hc.2.2, hc.1, fun hex x hx0 hx => ?_⟩
  have := hc.2.2 x hx0 hx
  rw [hc.2.1 hex] at this
  simpa using this

/-- non-vacuity: a history with self-raised and externally sent signals, quiet and non-quiet, a breakpoint, an
instruction step and a run to the end meets the hypothesis, and three signals are handled -/
example : NoSignalInsideStep [.point, .raise 10, .kill 14, .point]
    [.brk, .start, .stepi, .send true 12, .unbrk, .cont, .cont, .cont, .drain] = true ∧
    ((D.init [.point, .raise 10, .kill 14, .point]).run
      [.brk, .start, .stepi, .send true 12, .unbrk, .cont, .cont, .cont, .drain]).k.delivered = [12, 10, 14] := by decide

/-- kernel side, for every script and command history: every signal sent (by the debuggee itself or from outside,
merged sends not counted) has entered a signal-delivery-stop or is still pending - the kernel model loses nothing -/
theorem C10_sent_arrives_or_pending (script : List PEv) (cmds : List Cmd) (x : Sig) :
    let d := (D.init script).run cmds
    d.k.sent.count x = d.k.arrived.count x + d.k.pp.count x + d.k.sp.count x :=
  D.run_stable (consStable x).toStable cmds (D.init script) (by simp [D.init, K.Cons])

/-- **exactly once in terms of the signals sent** (partial): under `NoSignalInsideStep`, at every prompt every signal
sent is accounted for exactly once - handled by the debuggee, or queued by the tracer for the next resume, or still
pending in the kernel; never twice, never nowhere -/
theorem C10_sent_delivered_once_partial (script : List PEv) (cmds : List Cmd)
    (h : NoSignalInsideStep script cmds = true) (x : Sig) (hx0 : x ≠ 0) (hx : x ∉ transparent) :
    let d := (D.init script).run cmds
    d.k.sent.count x = d.k.delivered.count x + d.queue.count x + d.k.pp.count x + d.k.sp.count x := by
  have h1 := (C10_delivery_once_partial script cmds h).1 x hx0 hx
  have h2 := C10_sent_arrives_or_pending script cmds x
  simp only [] at *
  omega

example : NoSignalInsideStep [.raise 10] [.start, .send true 12, .send false 12] = true ∧
    ((D.init [.raise 10]).run [.start, .send true 12, .send false 12]).k.sent = [10, 12, 12] := by decide

/-! ## bursts -/

/-- bursts, full strength: after any history that met the hypothesis, any burst of signals (sent thread- or
process-directed, in any number and order) interleaved with `continue`s stays within it - wherever the debuggee is stopped -/
def C10_burst_full (script : List PEv) (cmds burst : List Cmd) : Prop :=
  (∀ c ∈ burst, burstCmd c = true) → NoSignalInsideStep script cmds = true →
  NoSignalInsideStep script (cmds ++ burst) = true

/-- **bursts** (partial: no breakpoint is set while the burst is handled): every burst of sends and `continue`s keeps
`NoSignalInsideStep`, so by `C10_sent_delivered_once_partial` every signal of the burst is accounted for exactly once at
every prompt - one signal is injected per resume, none is dropped -/
theorem C10_burst_partial (script : List PEv) (cmds burst : List Cmd)
    (hbp : ((D.init script).run cmds).bpOn = false) : C10_burst_full script cmds burst := by
  intro hb h
  have := D.run_burst_flags burst ((D.init script).run cmds) hb hbp
  simp only [NoSignalInsideStep, D.run_append] at *
  rw [this.1]; exact h

example : C10_burst_full [.raise 1] [.start] [.send true 12, .send true 10, .send false 14, .cont, .cont, .cont] ∧
    ((D.init [.raise 1]).run [.start, .send true 12, .send true 10, .send false 14, .cont, .cont, .cont]).k.delivered
      = [1, 10, 12, 14] := by
  refine ⟨C10_burst_partial _ _ _ (by decide), by decide⟩

/-- at a breakpoint the burst theorem fails: two signals sent while stopped at a breakpoint, `continue`, `continue` -/
theorem C10_burst_counterexample :
    ¬ C10_burst_full [.point] [.brk, .start] [.send true 10, .send true 12, .cont, .cont] := by
  intro h
  have := h (by decide) (by decide)
  revert this; decide

/-! ## the full statement is false of the unchanged code: kernel-checked witnesses -/

/-- full strength: when the debuggee has exited, every signal other than SIGINT was handled exactly as often as it
was sent (and SIGINT never) -/
def C10_delivery_once_full (script : List PEv) (cmds : List Cmd) : Prop :=
  let d := (D.init script).run cmds
  d.k.stop = .exited → ∀ x, d.k.delivered.count x = if x ∈ transparent then 0 else d.k.sent.count x

/-- one SIGALRM sent while stopped at a breakpoint, then `stepi`: handled twice -/
theorem C10_delivery_once_counterexample :
    ¬ C10_delivery_once_full [.point] [.brk, .start, .send true 14, .stepi, .drain] := by
  intro h
  have := h (by decide) 14
  revert this; decide

/-- SIGUSR1 and SIGUSR2 sent while stopped at a breakpoint, then `continue`s: SIGUSR1 is never handled -/
theorem C10_delivery_lost_counterexample :
    ¬ C10_delivery_once_full [.point] [.brk, .start, .send true 10, .send true 12, .cont, .cont, .cont, .drain] := by
  intro h
  have := h (by decide) 10
  revert this; decide

/-- quiet signals pass straight through, full strength: no stop is ever reported for a quiet signal -/
def C10_quiet_passthrough_full (script : List PEv) (cmds : List Cmd) : Prop :=
  ∀ x ∈ ((D.init script).run cmds).reported, x ∉ quiet

/-- SIGUSR1 then SIGALRM arrive during two `stepi`; the next `continue` reports a stop for SIGALRM -/
theorem C10_quiet_passthrough_counterexample :
    ¬ C10_quiet_passthrough_full [.point] [.brk, .start, .send true 10, .send true 14, .stepi, .stepi, .cont] := by
  intro h
  have := h 14 (by decide)
  revert this; decide

end BsVerif.Sig
