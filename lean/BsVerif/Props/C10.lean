import BsVerif.Model.Signals
import BsVerif.Lemmas.Signals
/-!
C10 — signals reach the debuggee exactly once.  Property theorems about `BsVerif.Model.Signals`
(the tracer's queue discipline against the kernel's ptrace rules, one thread; tables re-read from tracer.rs).
-/
namespace BsVerif.Sig
open BsVerif.Gen.Signals

/-! ## tables (re-extracted from src/debugger/debugee/tracer.rs on every run) -/

/-- the quiet signals are exactly SIGALRM, SIGURG, SIGCHLD, SIGIO, SIGVTALRM, SIGPROF -/
theorem C10_quiet_table : ∀ s, s ∈ quiet ↔ s ∈ [14, 23, 17, 29, 26, 27] := by
  intro s; simp [quiet]

/-- only SIGINT is transparent, and it is not quiet -/
theorem C10_transparent_table : transparent = [SIGINT] ∧ SIGINT ∉ quiet := by decide

/-! ## witnesses of the defects of the unchanged code (replayed on the real code: corpus/C10/*.req) -/

def wTwice : D := (D.init [.point]).run [.brk, .start, .send true 14, .stepi, .drain]
def wBurst : D := (D.init [.point]).run [.brk, .start, .send true 10, .send true 12, .cont, .cont, .cont, .drain]
def wPanic : D := (D.init [.point]).run [.brk, .start, .send true 14, .send true 23, .stepi]

#guard wTwice.k.delivered == [14, 14]
#guard wBurst.k.delivered == [12] && wBurst.reported == [10, 12, 12]
#guard wPanic.dead


/-! ## what holds of the code as it is, for every script of the debuggee and every command history -/

/-- the invariant behind `C10_sigint_never_delivered` is closed under the tracer's atomic steps -/
theorem sigintStable : Stable (fun d => SIGINT ∉ d.queue ∧ SIGINT ∉ d.k.delivered) := by
  have ht : SIGINT ∈ transparent := by decide
  have hq : SIGINT ∉ quiet := by decide
  have key : ∀ (d : D) (m : Mode) (s : Sig), s ≠ SIGINT → SIGINT ∉ d.queue → SIGINT ∉ d.k.delivered →
      SIGINT ∉ (d.kp m s).1.queue ∧ SIGINT ∉ (d.kp m s).1.k.delivered := by
    intro d m s hs h1 h2
    have hc := D.kp_counts d m s SIGINT
    obtain ⟨hd, δ, _, _, _, hqc⟩ := hc
    simp only [ht, if_true, Nat.add_zero] at hqc
    constructor
    · rw [← List.count_eq_zero]; rw [hqc]; exact List.count_eq_zero.mpr h1
    · rw [← List.count_eq_zero]; rw [hd]
      have : d.k.delivered.count SIGINT = 0 := List.count_eq_zero.mpr h2
      split <;> simp_all
  refine ⟨?_, ?_, ?_, ?_, ?_, ?_, ?_⟩
  · intro d d' hk hq' h; rw [hk, hq']; exact h
  · intro d m b h; exact key _ m 0 (by decide) h.1 h.2
  · intro d s h hq'
    have hs : s ≠ SIGINT := by intro e; apply h.1; rw [hq', e]; simp
    exact key _ .cont s hs (by simp) h.2
  · intro d a h ha _
    have hs : a ≠ SIGINT := by intro e; exact hq (e ▸ ha)
    exact key d .step a hs h.1 h.2
  · intro d s s' rest h hq'
    refine ⟨?_, h.2⟩
    intro hm; apply h.1; rw [hq']; exact List.mem_cons_of_mem _ hm
  · intro d h
    refine ⟨h.1, ?_⟩
    have := (K.resume_spec d.k .sysc 0 d.bpOn).1
    simp only [D.kres_k, this]; simpa using h.2
  · intro d p s h
    exact ⟨h.1, by simpa [(K.send_fields d.k p s).1] using h.2⟩

/-- **SIGINT stops the program without being delivered**: for every script and every command history the handler
log of the debuggee never contains SIGINT (no resume request ever carries it). -/
theorem C10_sigint_never_delivered (script : List PEv) (cmds : List Cmd) :
    SIGINT ∉ ((D.init script).run cmds).k.delivered :=
  (D.run_stable sigintStable cmds (D.init script) (by simp [D.init])).2

example : wTwice.k.arrived = [14] ∧ SIGINT ∉ wTwice.k.delivered := by decide

/-- closure of "deliveries + queued instances of a non-quiet signal never exceed its arrivals" -/
theorem noDupStable (x : Sig) (hx : x ∉ quiet) :
    Stable (fun d => d.k.delivered.count x + d.queue.count x ≤ d.k.arrived.count x) := by
  refine ⟨?_, ?_, ?_, ?_, ?_, ?_, ?_⟩
  · intro d d' hk hq' h; rw [hk, hq']; exact h
  · intro d m b h
    obtain ⟨hd, δ, _, _, ha, hqc⟩ := D.kp_counts { d with bpOn := b } m 0 x
    simp only [or_true, if_true, Nat.add_zero] at hd
    rw [hd, ha, hqc]; simp only []; split <;> omega
  · intro d s h hq'
    obtain ⟨hd, δ, _, _, ha, hqc⟩ := D.kp_counts { d with queue := [] } .cont s x
    rw [hd, ha, hqc]
    simp only [List.count_nil] at *
    rw [hq'] at h
    have : (if s = x then 1 else 0) = List.count x [s] := by
      simp [List.count_singleton]
    split <;> split <;> (try split) <;> simp_all <;> omega
  · intro d a h ha _
    have hax : a ≠ x := fun e => hx (e ▸ ha)
    obtain ⟨hd, δ, _, _, har, hqc⟩ := D.kp_counts d .step a x
    rw [hd, har, hqc]; simp only [hax, if_false]
    split <;> split <;> omega
  · intro d s s' rest h hq'
    simp only []
    rw [hq'] at h
    have : List.count x (s' :: rest) ≤ List.count x (s :: s' :: rest) := by
      rw [List.count_cons (a := x) (b := s) (l := s' :: rest)]; omega
    omega
  · intro d h
    have hs := K.resume_spec d.k .sysc 0 d.bpOn
    simp only [D.kres_k, D.kres_queue]
    rw [hs.1]; simp only [or_true, if_true]
    cases hw : (d.k.resume .sysc 0 d.bpOn).2 with
    | sigStop a => rw [hs.2.1 a hw, List.count_append]; omega
    | _ => rw [hs.2.2 (by simp [hw])]; exact h
  · intro d p s h
    simpa [(K.send_fields d.k p s).1, (K.send_fields d.k p s).2.1] using h

/-- **a non-quiet signal is never duplicated** (unconditionally, defects included): for every script, every command
history and every signal outside the quiet table, the debuggee's handler has run at most as often as the signal
entered a signal-delivery-stop; what is still queued for injection is covered as well. -/
theorem C10_nonquiet_never_duplicated (script : List PEv) (cmds : List Cmd) (x : Sig) (hx : x ∉ quiet) :
    let d := (D.init script).run cmds
    d.k.delivered.count x + d.queue.count x ≤ d.k.arrived.count x :=
  D.run_stable (noDupStable x hx) cmds (D.init script) (by simp [D.init])

example : (10 : Sig) ∉ quiet ∧ wBurst.k.arrived.count 10 = 1 := by decide

/-! ## the full statement is false of the unchanged code: kernel-checked witnesses -/

/-- full strength: when the debuggee has exited, every signal other than SIGINT was handled exactly as often as it
was sent (and SIGINT never) -/
def C10_delivery_once_full (script : List PEv) (cmds : List Cmd) : Prop :=
  let d := (D.init script).run cmds
  d.k.stop = .exited → ∀ x, d.k.delivered.count x = if x ∈ transparent then 0 else d.k.sent.count x

/-- one SIGALRM sent while stopped at a breakpoint, then `stepi`: handled twice -/
theorem C10_delivery_once_counterexample :
    ¬ C10_delivery_once_full [.point] [.brk, .start, .send true 14, .stepi, .drain] := by
  intro h
  have := h (by decide) 14
  revert this; decide

/-- SIGUSR1 and SIGUSR2 sent while stopped at a breakpoint, then `continue`s: SIGUSR1 is never handled -/
theorem C10_delivery_lost_counterexample :
    ¬ C10_delivery_once_full [.point] [.brk, .start, .send true 10, .send true 12, .cont, .cont, .cont, .drain] := by
  intro h
  have := h (by decide) 10
  revert this; decide

/-- quiet signals pass straight through, full strength: no stop is ever reported for a quiet signal -/
def C10_quiet_passthrough_full (script : List PEv) (cmds : List Cmd) : Prop :=
  ∀ x ∈ ((D.init script).run cmds).reported, x ∉ quiet

/-- SIGUSR1 then SIGALRM arrive during two `stepi`; the next `continue` reports a stop for SIGALRM -/
theorem C10_quiet_passthrough_counterexample :
    ¬ C10_quiet_passthrough_full [.point] [.brk, .start, .send true 10, .send true 14, .stepi, .stepi, .cont] := by
  intro h
  have := h 14 (by decide)
  revert this; decide

end BsVerif.Sig
