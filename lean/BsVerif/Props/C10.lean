import BsVerif.Model.Signals
import BsVerif.Lemmas.Signals
import BsVerif.Lemmas.SignalsK
/-!
C10 — signals reach the debuggee exactly once.  Property theorems about `BsVerif.Model.Signals`
(the tracer's queue discipline against the kernel's ptrace rules, one thread; tables re-read from tracer.rs).
-/
namespace BsVerif.Sig
open BsVerif.Gen.Signals

/-! ## tables (re-extracted from src/debugger/debugee/tracer.rs on every run) -/

/-- the quiet signals are exactly SIGALRM, SIGURG, SIGCHLD, SIGIO, SIGVTALRM, SIGPROF -/
theorem C10_quiet_table : ∀ s, s ∈ quiet ↔ s ∈ [14, 23, 17, 29, 26, 27] := by
  intro s; simp [quiet]

/-- only SIGINT is transparent, and it is not quiet -/
theorem C10_transparent_table : transparent = [SIGINT] ∧ SIGINT ∉ quiet := by decide

/-! ## witnesses (replayed on the real code on every run: corpus/C10/*.req) -/

/-- repaired (fix b8881fa): one SIGALRM sent while stopped, then `stepi` -/
def wTwice : D := (D.init [.point]).run [.brk, .start, .send true 14, .stepi, .drain]
/-- repaired (fix 4f1e4d9): SIGALRM and SIGURG pending, `stepi` -/
def wPanic : D := (D.init [.point]).run [.brk, .start, .send true 14, .send true 23, .stepi, .drain]
/-- the defect that is left: SIGUSR1 and SIGUSR2 pending at a breakpoint, three `continue`s -/
def wBurst : D := (D.init [.point]).run [.brk, .start, .send true 10, .send true 12, .cont, .cont, .cont, .drain]

-- tests: one SIGALRM during `stepi` is handled once; two quiet signals during one `stepi` are both handled, nothing is
-- reported, the debuggee runs to its end; with two signals queued for the one thread the head is lost
#guard wTwice.k.delivered == [14]
#guard wPanic.k.delivered == [14, 23] && wPanic.reported == [] && wPanic.k.stop == .exited
#guard wBurst.k.delivered == [12] && wBurst.reported == [10, 12, 12]

/-! ## what holds of the code as it is, for every script of the debuggee and every command history -/

/-- the invariant behind `C10_sigint_never_delivered` is closed under the tracer's atomic steps -/
theorem sigintStable : Stable (fun d => SIGINT ∉ d.queue ∧ SIGINT ∉ d.k.delivered) := by
  have ht : SIGINT ∈ transparent := by decide
  have hq : SIGINT ∉ quiet := by decide
  have key : ∀ (d : D) (m : Mode) (s : Sig), s ≠ SIGINT → SIGINT ∉ d.queue → SIGINT ∉ d.k.delivered →
      SIGINT ∉ (d.kp m s).1.queue ∧ SIGINT ∉ (d.kp m s).1.k.delivered := by
    intro d m s hs h1 h2
    have hc := D.kp_counts d m s SIGINT
    obtain ⟨hd, δ, _, _, _, hqc⟩ := hc
    simp only [ht, if_true, Nat.add_zero] at hqc
    constructor
    · rw [← List.count_eq_zero]; rw [hqc]; exact List.count_eq_zero.mpr h1
    · rw [← List.count_eq_zero]; rw [hd]
      have : d.k.delivered.count SIGINT = 0 := List.count_eq_zero.mpr h2
      split <;> simp_all
  refine ⟨?_, ?_, ?_, ?_, ?_, ?_, ?_, ?_⟩
  · intro d d' hk hq' _ _ h; rw [hk, hq']; exact h
  · intro d h _; exact key _ .cont 0 (by decide) h.1 h.2
  · intro d m h _; exact key _ m 0 (by decide) h.1 h.2
  · intro d s h hq'
    have hs : s ≠ SIGINT := by intro e; apply h.1; rw [hq', e]; simp
    exact key _ .cont s hs (by simp) h.2
  · intro d q0 a h ha hq'
    have hs : a ≠ SIGINT := by intro e; exact hq (e ▸ ha)
    refine key _ .step a hs ?_ h.2
    intro hm; apply h.1; rw [hq']; exact List.mem_append_left _ hm
  · intro d s s' rest h hq'
    refine ⟨?_, h.2⟩
    intro hm; apply h.1; rw [hq']; exact List.mem_cons_of_mem _ hm
  · intro d p s h _
    exact ⟨h.1, by simpa [(K.send_fields d.k p s).1] using h.2⟩
  · intro d s h _; exact h

/-- **SIGINT stops the program without being delivered**: for every script and every command history the handler
log of the debuggee never contains SIGINT (no resume request ever carries it). -/
theorem C10_sigint_never_delivered (script : List PEv) (cmds : List Cmd) :
    SIGINT ∉ ((D.init script).run cmds).k.delivered :=
  (D.run_holds sigintStable script cmds (by simp [D.init])).2

example : wTwice.k.arrived = [14] ∧ SIGINT ∉ wTwice.k.delivered := by decide

/-- closure of "deliveries + queued instances of a signal never exceed its arrivals" -/
theorem noDupStable (x : Sig) :
    Stable (fun d => d.k.delivered.count x + d.queue.count x ≤ d.k.arrived.count x) := by
  have step0 : ∀ (d : D) (m : Mode), d.k.delivered.count x + d.queue.count x ≤ d.k.arrived.count x →
      (d.kp m 0).1.k.delivered.count x + (d.kp m 0).1.queue.count x ≤ (d.kp m 0).1.k.arrived.count x := by
    intro d m h
    obtain ⟨hd, δ, _, _, ha, hqc⟩ := D.kp_counts d m 0 x
    simp only [or_true, if_true, Nat.add_zero] at hd
    rw [hd, ha, hqc]; split <;> omega
  refine ⟨?_, ?_, ?_, ?_, ?_, ?_, ?_, ?_⟩
  · intro d d' hk hq' _ _ h; rw [hk, hq']; exact h
  · intro d h _; exact step0 d .cont h
  · intro d m h _; exact step0 d m h
  · intro d s h hq'
    obtain ⟨hd, δ, _, _, ha, hqc⟩ := D.kp_counts { d with queue := [] } .cont s x
    rw [hd, ha, hqc]
    simp only [List.count_nil] at *
    rw [hq'] at h
    have : (if s = x then 1 else 0) = List.count x [s] := by
      simp [List.count_singleton]
    split <;> split <;> (try split) <;> simp_all <;> omega
  · intro d q0 a h _ hq'
    obtain ⟨hd, δ, _, _, har, hqc⟩ := D.kp_counts { d with queue := q0 } .step a x
    rw [hd, har, hqc]
    rw [hq', List.count_append, List.count_singleton] at h
    simp only [] at *
    split <;> split <;> (try split) <;> simp_all <;> omega
  · intro d s s' rest h hq'
    simp only []
    rw [hq'] at h
    have : List.count x (s' :: rest) ≤ List.count x (s :: s' :: rest) := by
      rw [List.count_cons (a := x) (b := s) (l := s' :: rest)]; omega
    omega
  · intro d p s h _
    simpa [(K.send_fields d.k p s).1, (K.send_fields d.k p s).2.1] using h
  · intro d s h _; exact h

/-- **a signal is never duplicated** (unconditionally, the remaining defect included): for every script, every command
history and every signal - quiet or not, arriving during `continue`, `stepi` or the step over a breakpoint - the
debuggee's handler has run at most as often as the signal entered a signal-delivery-stop; what is still queued for
injection is covered as well. -/
theorem C10_never_duplicated (script : List PEv) (cmds : List Cmd) (x : Sig) :
    let d := (D.init script).run cmds
    d.k.delivered.count x + d.queue.count x ≤ d.k.arrived.count x :=
  D.run_holds (noDupStable x) script cmds (by simp [D.init])

example : (14 : Sig) ∈ quiet ∧ wTwice.k.arrived.count 14 = 1 ∧ wTwice.k.delivered.count 14 = 1 := by decide

/-! ## quiet signals -/

theorem quietStable : Stable (fun d => ∀ x ∈ d.reported, x ∉ quiet) := by
  refine ⟨?_, ?_, ?_, ?_, ?_, ?_, ?_, ?_⟩
  · intro d d' _ _ hr _ h; rw [hr]; exact h
  · intro d h _; simpa using h
  · intro d m h _; simpa using h
  · intro d s h _; simpa using h
  · intro d q0 a h _ _; simpa using h
  · intro d s s' rest h _; exact h
  · intro d p s h _; exact h
  · intro d s h hs x hx
    simp only [D.report, List.mem_append, List.mem_singleton] at hx
    rcases hx with hx | hx
    · exact h x hx
    · rw [hx]; exact hs

/-- **quiet signals pass straight through** (unconditionally): for every script and every command history no stop is
ever reported for a quiet signal - neither by `continue` nor by `stepi`, not even when `resume` re-reports a signal out
of a queue that holds two (no quiet signal ever waits in the queue at a prompt) -/
theorem C10_quiet_passthrough (script : List PEv) (cmds : List Cmd) :
    ∀ x ∈ ((D.init script).run cmds).reported, x ∉ quiet :=
  D.run_holds quietStable script cmds (by simp [D.init])

/-- the former counterexample: SIGUSR1 then SIGALRM arrive during two `stepi`; SIGUSR1 is reported, SIGALRM is not, both are
handled -/
example : ((D.init [.point]).run [.brk, .start, .send true 10, .send true 14, .stepi, .stepi, .cont, .drain]).reported = [10] ∧
    ((D.init [.point]).run [.brk, .start, .send true 10, .send true 14, .stepi, .stepi, .cont, .drain]).k.delivered = [14, 10] := by
  decide

/-! ## exactly once, as long as no signal is queued for the thread while another one still waits for injection -/

/-- the named hypothesis: during the whole history `apply_new_status` never queued a signal while the queue still held
one (this needs a signal-delivery-stop inside `Tracer::single_step` - `stepi`, or the step over a breakpoint that
`continue` starts with - of a thread whose previous, non-quiet signal was reported by a step and is not injected yet).
Decidable: it is a ghost flag of the run. -/
def NoPileUp (script : List PEv) (cmds : List Cmd) : Bool := !((D.init script).run cmds).piled

theorem clean_of_noPileUp (script : List PEv) (cmds : List Cmd) (h : NoPileUp script cmds = true) :
    Clean ((D.init script).run cmds) :=
  D.run_holds cleanStable script cmds (fun _ => by simp [Clean, D.init]) (by simpa [NoPileUp] using h)

/-- **exactly once, partial**: for every script and every command history in which no signal was queued on top of
another one, at every prompt and for every signal that is not transparent: handler runs + instances still queued for
injection = signal-delivery-stops; at most one signal is queued; and once the debuggee has exited every signal that
entered a signal-delivery-stop was handled exactly once.  Signals that arrive inside a single step are covered. -/
theorem C10_delivery_once_partial (script : List PEv) (cmds : List Cmd)
    (h : NoPileUp script cmds = true) :
    let d := (D.init script).run cmds
    (∀ x, x ≠ 0 → x ∉ transparent → d.k.delivered.count x + d.queue.count x = d.k.arrived.count x) ∧
    d.queue.length ≤ 1 ∧
    (d.k.stop = .exited → ∀ x, x ≠ 0 → x ∉ transparent → d.k.delivered.count x = d.k.arrived.count x) := by
  have hc := clean_of_noPileUp script cmds h
  refine ⟨hc.2.2, hc.1, fun hex x hx0 hx => ?_⟩
  have := hc.2.2 x hx0 hx
  rw [hc.2.1 hex] at this
  simpa using this

/-- non-vacuity: a history with self-raised and externally sent signals, quiet and non-quiet, a breakpoint, signals
arriving inside instruction steps and a run to the end meets the hypothesis, and all four signals are handled -/
example : NoPileUp [.point, .raise 10, .kill 14, .point]
    [.brk, .start, .send true 23, .stepi, .send true 12, .stepi, .unbrk, .cont, .cont, .cont, .drain] = true ∧
    ((D.init [.point, .raise 10, .kill 14, .point]).run
      [.brk, .start, .send true 23, .stepi, .send true 12, .stepi, .unbrk, .cont, .cont, .cont, .drain]).k.delivered
        = [23, 12, 10, 14] := by decide

/-- kernel side, for every script and command history: every signal sent (by the debuggee itself or from outside,
merged sends not counted) has entered a signal-delivery-stop or is still pending - the kernel model loses nothing -/
theorem C10_sent_arrives_or_pending (script : List PEv) (cmds : List Cmd) (x : Sig) :
    let d := (D.init script).run cmds
    d.k.sent.count x = d.k.arrived.count x + d.k.pp.count x + d.k.sp.count x :=
  D.run_holds (consStable x) script cmds (by simp [D.init, K.Cons])

/-- **exactly once in terms of the signals sent** (partial): under `NoPileUp`, at every prompt every signal sent is
accounted for exactly once - handled by the debuggee, or queued by the tracer for the next resume, or still pending in
the kernel; never twice, never nowhere -/
theorem C10_sent_delivered_once_partial (script : List PEv) (cmds : List Cmd)
    (h : NoPileUp script cmds = true) (x : Sig) (hx0 : x ≠ 0) (hx : x ∉ transparent) :
    let d := (D.init script).run cmds
    d.k.sent.count x = d.k.delivered.count x + d.queue.count x + d.k.pp.count x + d.k.sp.count x := by
  have h1 := (C10_delivery_once_partial script cmds h).1 x hx0 hx
  have h2 := C10_sent_arrives_or_pending script cmds x
  simp only [] at *
  omega

example : NoPileUp [.raise 10] [.start, .send true 12, .send false 12] = true ∧
    ((D.init [.raise 10]).run [.start, .send true 12, .send false 12]).k.sent = [10, 12, 12] := by decide

/-- the debuggee exits only when no signal is pending -/
theorem exited_nothing_pending (script : List PEv) (cmds : List Cmd) :
    let d := (D.init script).run cmds
    d.k.stop = .exited → d.k.pp = [] ∧ d.k.sp = [] :=
  D.run_holds exitedStable script cmds (by simp [D.init])

/-- full strength: when the debuggee has exited, every signal other than SIGINT was handled exactly as often as it
was sent, and SIGINT never (0 is not a signal number) -/
def C10_delivery_once_full (script : List PEv) (cmds : List Cmd) : Prop :=
  let d := (D.init script).run cmds
  d.k.stop = .exited → ∀ x, x ≠ 0 → d.k.delivered.count x = if x ∈ transparent then 0 else d.k.sent.count x

/-- **exactly once at exit, partial**: the full statement holds for every history that meets `NoPileUp` -/
theorem C10_delivery_once_exit_partial (script : List PEv) (cmds : List Cmd) (h : NoPileUp script cmds = true) :
    C10_delivery_once_full script cmds := by
  intro hex x hx0
  by_cases hx : x ∈ transparent
  · have ht := C10_transparent_table.1
    rw [ht] at hx
    have hx' : x = SIGINT := by simpa using hx
    subst hx'
    simp only [ht, List.mem_singleton, if_true]
    exact List.count_eq_zero.mpr (C10_sigint_never_delivered script cmds)
  · simp only [hx, if_false]
    have h1 := (C10_delivery_once_partial script cmds h).2.2 hex x hx0 hx
    have h2 := C10_sent_arrives_or_pending script cmds x
    have h3 := exited_nothing_pending script cmds hex
    simp only [] at h1 h2 h3
    rw [h2, h3.1, h3.2, h1]; simp

/-- the two repaired witnesses meet the hypothesis and reach the exit: the theorem speaks about them -/
example : NoPileUp [.point] [.brk, .start, .send true 14, .stepi, .drain] = true ∧ wTwice.k.stop = .exited ∧
    NoPileUp [.point] [.brk, .start, .send true 14, .send true 23, .stepi, .drain] = true ∧ wPanic.k.stop = .exited := by
  decide

/-- the defect that is left: SIGUSR1 and SIGUSR2 sent while stopped at a breakpoint, then `continue`s: SIGUSR1 is
never handled -/
theorem C10_delivery_lost_counterexample :
    ¬ C10_delivery_once_full [.point] [.brk, .start, .send true 10, .send true 12, .cont, .cont, .cont, .drain] := by
  intro h
  have := h (by decide) 10 (by decide)
  revert this; decide

/-! ## bursts -/

/-- bursts, full strength: after any history that met the hypothesis, any burst of signals (sent thread- or
process-directed, in any number and order) interleaved with `continue`s stays within it - wherever the debuggee is stopped -/
def C10_burst_full (script : List PEv) (cmds burst : List Cmd) : Prop :=
  (∀ c ∈ burst, burstCmd c = true) → NoPileUp script cmds = true →
  NoPileUp script (cmds ++ burst) = true

/-- **bursts** (partial: no breakpoint is set while the burst is handled): every burst of sends and `continue`s keeps
`NoPileUp`, so by `C10_sent_delivered_once_partial` every signal of the burst is accounted for exactly once at
every prompt - one signal is injected per resume, none is dropped -/
theorem C10_burst_partial (script : List PEv) (cmds burst : List Cmd)
    (hbp : ((D.init script).run cmds).bpOn = false) : C10_burst_full script cmds burst := by
  intro hb h
  have := D.run_burst_flags burst ((D.init script).run cmds) hb hbp
  simp only [NoPileUp, D.run_append] at *
  rw [this.1]; exact h

example : C10_burst_full [.raise 1] [.start] [.send true 12, .send true 10, .send false 14, .cont, .cont, .cont] ∧
    ((D.init [.raise 1]).run [.start, .send true 12, .send true 10, .send false 14, .cont, .cont, .cont]).k.delivered
      = [1, 10, 12, 14] := by
  refine ⟨C10_burst_partial _ _ _ (by decide), by decide⟩

/-- at a breakpoint the burst theorem fails: two signals sent while stopped at a breakpoint, `continue`, `continue` -/
theorem C10_burst_counterexample :
    ¬ C10_burst_full [.point] [.brk, .start] [.send true 10, .send true 12, .cont, .cont] := by
  intro h
  have := h (by decide) (by decide)
  revert this; decide

end BsVerif.Sig
