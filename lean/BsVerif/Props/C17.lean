import BsVerif.Lemmas.PathIndex
/-!
# C17 — names select exactly the functions, files and symbols they denote

Property theorems only.  Model: `BsVerif/Model/PathIndex.lean` (mirror of `PathSearchIndex`).
-/
namespace BsVerif.PathIndex

/-- **C17_index_refines_suffix.**  For *every* sequence of inserts and *every* needle
(already split into components `etail ++ [ehead]`), the index returns exactly the values whose path
`tail ++ [head]` has the needle's components as a suffix — component equality, so no
partial-component match and no miss — in insertion order. -/
theorem C17_index_refines_suffix {α} (log : Log α) (etail : List String) (ehead : String) :
    (Log.build log).getComps etail ehead = log.query etail ehead := by
  suffices h : ∀ (log : Log α) (ix : Index α), Inv ix →
      (log.foldl (fun ix e => ix.insertWHead e.1 e.2.1 e.2.2) ix).getComps etail ehead
        = ix.getComps etail ehead ++ Log.query log etail ehead by
    have := h log Index.empty inv_empty
    simpa [Log.build, Index.getComps, Index.empty, alookup] using this
  intro log
  induction log with
  | nil => intro ix _; simp [Log.query]
  | cons e rest ih =>
    intro ix hinv
    rw [List.foldl_cons, ih _ (inv_insert ix e.1 e.2.1 e.2.2 hinv), get_insert ix _ _ _ _ _ hinv]
    unfold Log.query
    simp only [List.filter_cons]
    split <;> simp

/-- the boolean used by model and implementation is the mathematical suffix relation
on component lists: `needle` matches `path` iff `needle <:+ path`. -/
theorem C17_match_is_component_suffix (etail tail : List String) (ehead head : String) :
    suffixMatch etail ehead tail head = true ↔ (etail ++ [ehead]) <:+ (tail ++ [head]) := by
  unfold suffixMatch
  simp only [Bool.and_eq_true, beq_iff_eq, endsWith_iff_suffix]
  constructor
  · rintro ⟨rfl, ⟨p, rfl⟩⟩; exact ⟨p, by simp⟩
  · rintro ⟨p, hp⟩
    have h1 : (p ++ etail) ++ [ehead] = tail ++ [head] := by simpa using hp
    have := List.append_inj' h1 rfl
    exact ⟨by simpa using this.2.symm, ⟨p, this.1⟩⟩

/-- no miss: every inserted value whose path ends with the needle is returned. -/
theorem C17_no_miss {α} (log : Log α) (etail : List String) (ehead : String)
    (e : List String × String × α) (he : e ∈ log)
    (hm : (etail ++ [ehead]) <:+ (e.1 ++ [e.2.1])) :
    e.2.2 ∈ (Log.build log).getComps etail ehead := by
  rw [C17_index_refines_suffix]
  unfold Log.query
  exact List.mem_map.mpr ⟨e, List.mem_filter.mpr ⟨he, (C17_match_is_component_suffix _ _ _ _).mpr hm⟩, rfl⟩

/-- no false match: every returned value was inserted under a path ending with the needle. -/
theorem C17_no_false_match {α} (log : Log α) (etail : List String) (ehead : String) (v : α)
    (hv : v ∈ (Log.build log).getComps etail ehead) :
    ∃ e ∈ log, e.2.2 = v ∧ (etail ++ [ehead]) <:+ (e.1 ++ [e.2.1]) := by
  rw [C17_index_refines_suffix] at hv
  unfold Log.query at hv
  obtain ⟨e, he, rfl⟩ := List.mem_map.mp hv
  have := List.mem_filter.mp he
  exact ⟨e, this.1, rfl, (C17_match_is_component_suffix _ _ _ _).mp this.2⟩

/-- `symbol <regex>`: the listing is the filter of the symbol table by the predicate
(the regex engine is a parameter `p`; see DESIGN §3). -/
theorem C17_symbol_filter {σ} (p : σ → Bool) (symbols : List σ) (s : σ) :
    s ∈ symbols.filter p ↔ s ∈ symbols ∧ p s = true := List.mem_filter

/-! Sanity tests (evaluated, *not* proofs; the theorems above have no hypotheses, so there is
nothing to show non-vacuous): the repository's own unit test run through the model. -/
def sampleLog : Log Nat :=
  [(["ns1","ns2"],"fn1",10), (["ns3","ns2"],"fn1",11), (["ns1"],"fn2",2), ([], "fn4", 4)]

#guard (Log.build sampleLog).get "::" "ns2::fn1" == [10, 11]
#guard (Log.build sampleLog).get "::" "s1::ns2::fn1" == []
#guard (Log.build sampleLog).get "::" "fn" == []
#guard (Log.build sampleLog).get "::" "ns1::ns2" == []
#guard (Log.build sampleLog).get "::" "" == []
#guard needleComps "/" "/home/x.rs" == ["/", "home", "x.rs"]
#guard splitStr ":::" "::" == ["", ":"]

end BsVerif.PathIndex
