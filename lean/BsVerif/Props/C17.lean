import BsVerif.Lemmas.PathIndex
import BsVerif.Lemmas.Symbols
import BsVerif.Lemmas.FnPath
/-!
# C17 — names select exactly the functions, files and symbols they denote

Property theorems only.  Model: `BsVerif/Model/PathIndex.lean` (mirror of `PathSearchIndex`).
-/
namespace BsVerif.PathIndex

/-- **C17_index_refines_suffix.**  For *every* sequence of inserts and *every* needle
(already split into components `etail ++ [ehead]`), the index returns exactly the values whose path
`tail ++ [head]` has the needle's components as a suffix — component equality, so no
partial-component match and no miss — in insertion order. -/
theorem C17_index_refines_suffix {α} (log : Log α) (etail : List String) (ehead : String) :
    (Log.build log).getComps etail ehead = log.query etail ehead := by
  suffices h : ∀ (log : Log α) (ix : Index α), Inv ix →
      (log.foldl (fun ix e => ix.insertWHead e.1 e.2.1 e.2.2) ix).getComps etail ehead
        = ix.getComps etail ehead ++ Log.query log etail ehead by
    have := h log Index.empty inv_empty
    simpa [Log.build, Index.getComps, Index.empty, alookup] using this
  intro log
  induction log with
  | nil => intro ix _; simp [Log.query]
  | cons e rest ih =>
    intro ix hinv
    rw [List.foldl_cons, ih _ (inv_insert ix e.1 e.2.1 e.2.2 hinv), get_insert ix _ _ _ _ _ hinv]
    unfold Log.query
    simp only [List.filter_cons]
    split <;> simp

/-- the boolean used by model and implementation is the mathematical suffix relation
on component lists: `needle` matches `path` iff `needle <:+ path`. -/
theorem C17_match_is_component_suffix (etail tail : List String) (ehead head : String) :
    suffixMatch etail ehead tail head = true ↔ (etail ++ [ehead]) <:+ (tail ++ [head]) := by
  unfold suffixMatch
  simp only [Bool.and_eq_true, beq_iff_eq, endsWith_iff_suffix]
  constructor
  · rintro ⟨rfl, ⟨p, rfl⟩⟩; exact ⟨p, by simp⟩
  · rintro ⟨p, hp⟩
    have h1 : (p ++ etail) ++ [ehead] = tail ++ [head] := by simpa using hp
    have := List.append_inj' h1 rfl
    exact ⟨by simpa using this.2.symm, ⟨p, this.1⟩⟩

/-- no miss: every inserted value whose path ends with the needle is returned. -/
theorem C17_no_miss {α} (log : Log α) (etail : List String) (ehead : String)
    (e : List String × String × α) (he : e ∈ log)
    (hm : (etail ++ [ehead]) <:+ (e.1 ++ [e.2.1])) :
    e.2.2 ∈ (Log.build log).getComps etail ehead := by
  rw [C17_index_refines_suffix]
  unfold Log.query
  exact List.mem_map.mpr ⟨e, List.mem_filter.mpr ⟨he, (C17_match_is_component_suffix _ _ _ _).mpr hm⟩, rfl⟩

/-- no false match: every returned value was inserted under a path ending with the needle. -/
theorem C17_no_false_match {α} (log : Log α) (etail : List String) (ehead : String) (v : α)
    (hv : v ∈ (Log.build log).getComps etail ehead) :
    ∃ e ∈ log, e.2.2 = v ∧ (etail ++ [ehead]) <:+ (e.1 ++ [e.2.1]) := by
  rw [C17_index_refines_suffix] at hv
  unfold Log.query at hv
  obtain ⟨e, he, rfl⟩ := List.mem_map.mp hv
  have := List.mem_filter.mp he
  exact ⟨e, this.1, rfl, (C17_match_is_component_suffix _ _ _ _).mp this.2⟩

/-- `symbol <regex>`: the listing is the filter of the symbol table by the predicate
(the regex engine is a parameter `p`; see DESIGN §3). -/
theorem C17_symbol_filter {σ} (p : σ → Bool) (symbols : List σ) (s : σ) :
    s ∈ symbols.filter p ↔ s ∈ symbols ∧ p s = true := List.mem_filter

/-! Sanity tests (evaluated, *not* proofs; the theorems above have no hypotheses, so there is
nothing to show non-vacuous): the repository's own unit test run through the model. -/
def sampleLog : Log Nat :=
  [(["ns1","ns2"],"fn1",10), (["ns3","ns2"],"fn1",11), (["ns1"],"fn2",2), ([], "fn4", 4)]

#guard (Log.build sampleLog).get "::" "ns2::fn1" == [10, 11]
#guard (Log.build sampleLog).get "::" "s1::ns2::fn1" == []
#guard (Log.build sampleLog).get "::" "fn" == []
#guard (Log.build sampleLog).get "::" "ns1::ns2" == []
#guard (Log.build sampleLog).get "::" "" == []
#guard needleComps "/" "/home/x.rs" == ["/", "home", "x.rs"]
#guard splitStr ":::" "::" == ["", ":"]

end BsVerif.PathIndex

/-! ## function paths: the components of a demangled name do not depend on the mangling scheme

Model: `BsVerif/Model/FnPath.lean` (`NamespaceHierarchy::split_path`, used by `from_mangled` for the names and by
`BsUnit::search_functions` for the templates).  Demangling itself (rustc-demangle) is environment; a name is the text it
prints: the legacy scheme prints `a::b::f` for every instance of a generic `f` and `krate::Type::m` for an inherent
method, the v0 scheme prints `a::b::f::<T>` and `<krate::Type>::m`.  (Before the repair the text was cut at EVERY `::`,
also inside `<…>`, and these theorems were false for every generic instance and inherent method built with v0.) -/
namespace BsVerif.FnPath
open BsVerif.PathIndex

/-- **C17_fn_path_components.**  For every path `seg::seg::…` whose segments are plain names, each optionally followed
by `::<generic arguments>` (any bracket-balanced text, `->` allowed), the components are exactly the segments' names:
the arguments the v0 scheme prints do not change the path, so an instance `a::b::f::<T>` has the components the legacy
scheme gives every instance, `[a, b, f]`.  (With no arguments anywhere this is the legacy case itself.) -/
theorem C17_fn_path_components (s : Seg) (ss : List Seg) (hs : ∀ x ∈ s :: ss, x.WF) :
    splitPathChars (render (s :: ss)) = (s :: ss).map Seg.name :=
  fn_path_components s ss hs

/-- **C17_fn_path_inherent_impl.**  A method of an inherent impl, printed `<krate::Type>::method…` by v0, has the
components of `krate::Type::method…` (what legacy prints). -/
theorem C17_fn_path_inherent_impl (t : List Char) (ts : List (List Char)) (ss : List Seg)
    (ht : ∀ x ∈ t :: ts, Plain x) (hs : ∀ x ∈ ss, x.WF) :
    splitPathChars ('<' :: (render ((t :: ts).map fun t => ⟨t, none⟩) ++ '>' :: renderTail ss))
      = (t :: ts) ++ ss.map Seg.name :=
  fn_path_inherent_impl t ts ss ht hs

/-- an index entry of a function: (namespace parts, subroutine name, value) as `from_mangled` + the parser make it -/
def entry {α} (p : List (List Char)) (v : α) : List String × String × α :=
  (p.dropLast.map String.ofList, String.ofList (p.getLastD []), v)

/-- **C17_fn_templates_mangling_independent** (the end-to-end clause, no `LegacyMangling ∨ NonGeneric` restriction).
For EVERY list of functions, each printed with arbitrary generic arguments after any of its segments, and every
template already split into components, the function index answers exactly the functions whose plain path
`[a, b, f]` ends with the template's components — every monomorphization, under both schemes. -/
theorem C17_fn_templates_mangling_independent {α} (fns : List (Seg × List Seg × α))
    (h : ∀ f ∈ fns, ∀ x ∈ f.1 :: f.2.1, x.WF) (etail : List String) (ehead : String) :
    (Log.build (fns.map fun f => entry (splitPathChars (render (f.1 :: f.2.1))) f.2.2)).getComps etail ehead
      = Log.query (fns.map fun f => entry ((f.1 :: f.2.1).map Seg.name) f.2.2) etail ehead := by
  rw [C17_index_refines_suffix]
  congr 1
  exact List.map_congr_left fun f hf => by rw [fn_path_components _ _ (h f hf)]

/-- `split_path` never returns an empty list: `parts.pop().expect(..)` of `from_mangled` cannot fire. -/
theorem C17_fn_path_nonempty (s : List Char) : splitPathChars s ≠ [] := by
  unfold splitPathChars
  have h : ∀ (l : List Char) (pd : Bool) (d k : Nat) (cur : List Char), splitTopAux sepColons l pd d k cur ≠ [] := by
    intro l
    induction l with
    | nil => intros; simp [splitTopAux]
    | cons c cs ih =>
      intro pd d k cur
      cases k with
      | succ k => simp only [splitTopAux]; exact ih _ _ _ _
      | zero =>
        simp only [splitTopAux]
        repeat' split
        all_goals first | exact ih _ _ _ _ | simp
  have hne : ∀ (l : List Char) (pd : Bool) (d k : Nat) (cur : List Char) (dl : List Char),
      splitTopAux dl l pd d k cur ≠ [] := by
    intro l
    induction l with
    | nil => intros; simp [splitTopAux]
    | cons c cs ih =>
      intro pd d k cur dl
      cases k with
      | succ k => simp only [splitTopAux]; exact ih _ _ _ _ _
      | zero =>
        simp only [splitTopAux]
        repeat' split
        all_goals first | exact ih _ _ _ _ _ | simp
  cases hp : splitTop sepColons s with
  | nil => exact absurd hp (h s false 0 0 [])
  | cons p ps =>
    simp only [normParts]
    cases hb : stripBrackets p with
    | none => simp
    | some ty =>
      simp only [Bool.true_and, Bool.not_true, Bool.false_and, Bool.false_eq_true, if_false]
      split
      · intro hc
        exact hne ty false 0 0 [] sepColons (List.append_eq_nil_iff.mp hc).1
      · simp

/-! Sanity tests (evaluated, not proofs): the texts `nm -C` prints for the debuggees of the end-to-end leg, a trait
impl (kept as ONE component, ` as ` only counts outside nested brackets), legacy `<impl T>` segments, fn pointers. -/
#guard splitPath "c17_names_v0::alpha::beta::zq_ident::<alloc::vec::Vec<u8>>" == ["c17_names_v0", "alpha", "beta", "zq_ident"]
#guard splitPath "c17_names::alpha::beta::zq_ident" == ["c17_names", "alpha", "beta", "zq_ident"]
#guard splitPath "<c17_names_v0::Zq>::zq_method" == ["c17_names_v0", "Zq", "zq_method"]
#guard splitPath "<c17_names_v0::Zq as c17_names_v0::ZqT>::zq_tm" == ["<c17_names_v0::Zq as c17_names_v0::ZqT>", "zq_tm"]
#guard splitPath "<k::Foo<<X as Y>::Z>>::m" == ["k", "Foo<<X as Y>::Z>", "m"]
#guard splitPath "core::slice::<impl [T]>::len" == ["core", "slice", "<impl [T]>", "len"]
#guard splitPath "<fn(u8) -> a::B as k::T>::m::<fn() -> u8>::{closure#0}" == ["<fn(u8) -> a::B as k::T>", "m", "{closure#0}"]
#guard splitPath "core::ptr::drop_in_place<alloc::string::String>" == ["core", "ptr", "drop_in_place<alloc::string::String>"]
#guard splitPath "" == [""]
#guard splitPath "::f" == ["", "f"]
#guard fromDemangled "poll" == ([], "poll")
/-- the hypotheses of `C17_fn_path_components` are satisfiable: `a::f::<u8>` -/
example : ∀ x ∈ [(⟨['a'], none⟩ : Seg), ⟨['f'], some ['u', '8']⟩], x.WF := by
  intro x hx
  simp only [List.mem_cons, List.mem_nil_iff, or_false] at hx
  rcases hx with rfl | rfl
  · exact ⟨by intro c hc; simp at hc; subst hc; decide, by simp⟩
  · refine ⟨by intro c hc; simp at hc; subst hc; decide, ?_⟩
    intro a ha
    cases ha
    exact ⟨Bal.chr _ _ (by decide) (by decide) (by decide) (Bal.chr _ _ (by decide) (by decide) (by decide) Bal.nil), by decide⟩

end BsVerif.FnPath

/-! ## `symbol <regex>` across all loaded objects

Model: `BsVerif/Model/Symbols.lean` (`Debugger::get_symbols` over the registry's objects, `SymbolTab`).
The regex engine is the parameter `p` (a predicate on demangled names); names arrive demangled. -/
namespace BsVerif.Symbols

/-- **C17_symbols_all_objects.**  For *every* list of objects (with or without DWARF units, with or without a
`.symtab`) and *every* predicate, an entry is listed iff some object of the list has a `.symtab` whose LAST entry
of that name it is, and the name matches: no object is skipped, nothing else is listed. -/
theorem C17_symbols_all_objects (objs : List Obj) (p : String → Bool) (s : Sym) :
    s ∈ getSymbols objs p ↔
      ∃ o ∈ objs, ∃ es, o.symtab = some es ∧ lastNamed s.name es = some s ∧ p s.name = true := by
  unfold getSymbols
  rw [List.mem_flatMap]
  constructor
  · rintro ⟨o, ho, hs⟩
    refine ⟨o, ho, ?_⟩
    unfold Obj.findSymbols Obj.table at hs
    cases hst : o.symtab with
    | none => simp [hst] at hs
    | some es =>
      simp only [hst, Option.map_some, tabFind, List.mem_filter] at hs
      exact ⟨es, rfl, (mem_tabNew es s).mp hs.1, hs.2⟩
  · rintro ⟨o, ho, es, hst, hl, hp⟩
    refine ⟨o, ho, ?_⟩
    unfold Obj.findSymbols Obj.table
    simp only [hst, Option.map_some, tabFind, List.mem_filter]
    exact ⟨(mem_tabNew es s).mpr hl, hp⟩

/-- **C17_symbols_names.**  The listed NAMES are exactly the matching names of the `.symtab`s of ALL objects. -/
theorem C17_symbols_names (objs : List Obj) (p : String → Bool) (n : String) :
    n ∈ (getSymbols objs p).map (·.name) ↔ (∃ o ∈ objs, n ∈ o.symtabNames) ∧ p n = true := by
  constructor
  · intro h
    obtain ⟨s, hs, rfl⟩ := List.mem_map.mp h
    obtain ⟨o, ho, es, hst, hl, hp⟩ := (C17_symbols_all_objects objs p s).mp hs
    refine ⟨⟨o, ho, ?_⟩, hp⟩
    unfold Obj.symtabNames
    rw [hst]
    exact List.mem_map.mpr ⟨s, lastNamed_mem hl, rfl⟩
  · rintro ⟨⟨o, ho, hn⟩, hp⟩
    unfold Obj.symtabNames at hn
    cases hst : o.symtab with
    | none => simp [hst] at hn
    | some es =>
      rw [hst] at hn
      obtain ⟨s, hs⟩ := (lastNamed_some_iff n es).mpr (by simpa using hn)
      have hname := lastNamed_name hs
      exact List.mem_map.mpr ⟨s, (C17_symbols_all_objects objs p s).mpr
        ⟨o, ho, es, hst, hname ▸ hs, hname ▸ hp⟩, hname⟩

/-- **C17_symbols_concat.**  The listing over a list of objects is the concatenation of the per-object listings
(so loading one more object only ADDS that object's matches). -/
theorem C17_symbols_concat (a b : List Obj) (p : String → Bool) :
    getSymbols (a ++ b) p = getSymbols a p ++ getSymbols b p := by
  simp [getSymbols]

theorem C17_symbols_single (o : Obj) (p : String → Bool) : getSymbols [o] p = o.findSymbols p := by
  simp [getSymbols]

/-- **C17_symbols_once_per_object.**  One object never contributes a name twice. -/
theorem C17_symbols_once_per_object (o : Obj) (p : String → Bool) :
    ((o.findSymbols p).map (·.name)).Nodup := by
  unfold Obj.findSymbols Obj.table
  cases o.symtab with
  | none => simp
  | some es =>
    simp only [Option.map_some, tabFind]
    exact ((List.filter_sublist (l := tabNew es)).map _).nodup (nodup_tabNew es)

/-- **C17_symbols_count.**  No object skipped, none duplicated: a matching name is listed exactly once per object
whose `.symtab` contains it (and a non-matching name never). -/
theorem C17_symbols_count (objs : List Obj) (p : String → Bool) (n : String) :
    ((getSymbols objs p).map (·.name)).count n =
      if p n then (objs.filter fun o => decide (n ∈ o.symtabNames)).length else 0 := by
  induction objs with
  | nil => simp [getSymbols]
  | cons o rest ih =>
    have hc : getSymbols (o :: rest) p = getSymbols [o] p ++ getSymbols rest p :=
      C17_symbols_concat [o] rest p
    rw [hc, List.map_append, List.count_append, ih, C17_symbols_single]
    have h1 : ((o.findSymbols p).map (·.name)).count n =
        if n ∈ (o.findSymbols p).map (·.name) then 1 else 0 :=
      (C17_symbols_once_per_object o p).count
    have h2 : n ∈ (o.findSymbols p).map (·.name) ↔ n ∈ o.symtabNames ∧ p n = true := by
      have := C17_symbols_names [o] p n
      rw [C17_symbols_single] at this
      simpa using this
    rw [h1]
    by_cases hp : p n = true
    · by_cases hm : n ∈ o.symtabNames
      · simp [h2, hp, hm]; omega
      · simp [h2, hp, hm]
    · simp [h2, hp]

/-- **C17_symbols_perm.**  The order of the objects in the registry (a sort of hash-map values) only permutes
the listing. -/
theorem C17_symbols_perm (a b : List Obj) (p : String → Bool) (h : a.Perm b) :
    (getSymbols a p).Perm (getSymbols b p) :=
  List.Perm.flatMap_right _ h

/-- **C17_symbols_ignore_dwarf.**  Whether an object has DWARF units has no influence on the listing. -/
theorem C17_symbols_ignore_dwarf (objs : List Obj) (f : Obj → Bool) (p : String → Bool) :
    getSymbols (objs.map fun o => { o with hasDwarf := f o }) p = getSymbols objs p := by
  unfold getSymbols
  rw [List.flatMap_map]
  congr 1

/-- the registry keeps one object per path, and `add` makes the new object's symbols visible -/
theorem C17_symbols_registry_add (o : Obj) (objs : List Obj) (p : String → Bool) (s : Sym)
    (hs : s ∈ o.findSymbols p) : s ∈ getSymbols (regAdd o objs) p := by
  unfold getSymbols
  rw [List.mem_flatMap]
  refine ⟨o, ?_, hs⟩
  induction objs with
  | nil => simp [regAdd]
  | cons x rest ih =>
    unfold regAdd
    split
    · simp
    · exact List.mem_cons_of_mem _ ih

/-- the registry of loaded entries (symbol table computed once per object, as `DebugInformationBuilder::build`
does) answers exactly like the specification-level `getSymbols` over the objects -/
theorem C17_symbols_loaded_registry (objs : List Obj) (p : String → Bool) :
    getSymbolsE (objs.map load) p = getSymbols objs p := by
  unfold getSymbolsE getSymbols
  rw [List.flatMap_map]
  rfl

theorem C17_symbols_registry_load_add (o : Obj) (objs : List Obj) :
    regAddE (load o) (objs.map load) = (regAdd o objs).map load := by
  induction objs with
  | nil => simp [regAddE, regAdd]
  | cons x rest ih =>
    simp only [List.map_cons, regAddE, regAdd, load]
    split
    · simp [load]
    · simp only [List.map_cons, List.cons.injEq]
      exact ⟨rfl, ih⟩

theorem C17_symbols_registry_load_remove (f : String) (objs : List Obj) :
    regRemoveE f (objs.map load) = (regRemove f objs).map load := by
  induction objs with
  | nil => simp [regRemoveE, regRemove]
  | cons x rest ih =>
    unfold regRemoveE regRemove at ih ⊢
    simp only [List.map_cons, List.filter_cons, load] at ih ⊢
    split <;> simp_all [load]

/-- the regex class the model evaluates: an alternative matches iff the literal is the whole name / a prefix /
a suffix / an infix of the name, according to its anchors -/
theorem C17_pattern_semantics (a : Alt) (s : List Char) :
    a.matches s = true ↔
      (match a.anchorStart, a.anchorEnd with
       | true, true => s = a.lit
       | true, false => a.lit <+: s
       | false, true => a.lit <:+ s
       | false, false => a.lit <:+: s) := by
  unfold Alt.matches
  cases a.anchorStart <;> cases a.anchorEnd <;>
    simp [isInfixChars_iff, List.isPrefixOf_iff_prefix, List.isSuffixOf_iff_suffix]

/-! ### the full statement: *ELF symbols* include `.dynsym`

The statement of C17 speaks of "the ELF symbols whose demangled name matches".  The implementation reads `.symtab`
only, so an object that has been stripped of `.symtab` (`strip`, `-C strip=symbols`; most distribution libraries)
contributes nothing although its `.dynsym` names its exported symbols. -/

/-- every `.dynsym` name of every object is also a `.symtab` name of that object -/
def DynsymCovered (objs : List Obj) : Prop :=
  ∀ o ∈ objs, ∀ n ∈ o.dynsym.map (·.name), n ∈ o.symtabNames

instance (objs : List Obj) : Decidable (DynsymCovered objs) := by
  unfold DynsymCovered; exact inferInstance

def C17_symbols_elf_full : Prop :=
  ∀ (objs : List Obj) (p : String → Bool) (n : String),
    n ∈ (getSymbols objs p).map (·.name) ↔ (∃ o ∈ objs, n ∈ o.elfNames) ∧ p n = true

theorem C17_symbols_elf_partial (objs : List Obj) (hc : DynsymCovered objs) (p : String → Bool) (n : String) :
    n ∈ (getSymbols objs p).map (·.name) ↔ (∃ o ∈ objs, n ∈ o.elfNames) ∧ p n = true := by
  rw [C17_symbols_names]
  constructor
  · rintro ⟨⟨o, ho, hn⟩, hp⟩
    exact ⟨⟨o, ho, by unfold Obj.elfNames; exact List.mem_append_left _ hn⟩, hp⟩
  · rintro ⟨⟨o, ho, hn⟩, hp⟩
    refine ⟨⟨o, ho, ?_⟩, hp⟩
    unfold Obj.elfNames at hn
    rcases List.mem_append.mp hn with h | h
    · exact h
    · exact hc o ho n h

/-- a library without `.symtab` exporting `f`: `symbol f` lists nothing -/
def strippedLib : Obj :=
  { file := "libs.so", hasDwarf := false, symtab := none, dynsym := [⟨"f", 2, 4096⟩] }

theorem C17_symbols_elf_counterexample : ¬ C17_symbols_elf_full := by
  intro h
  have := (h [strippedLib] (fun _ => true) "f").mpr ⟨⟨strippedLib, by simp, by simp [Obj.elfNames, strippedLib]⟩, rfl⟩
  simp [getSymbols, Obj.findSymbols, Obj.table, strippedLib] at this

/-! non-vacuity / sanity (evaluated tests, not proofs) -/
def exeObj : Obj :=
  { file := "prog", hasDwarf := true,
    symtab := some [⟨"", 1, 0⟩, ⟨"main", 2, 100⟩, ⟨"lib_add", 0, 0⟩, ⟨"dup", 3, 8⟩, ⟨"dup", 3, 16⟩] }
def noDwarfLib : Obj :=
  { file := "libp.so", hasDwarf := false, symtab := some [⟨"", 1, 0⟩, ⟨"lib_add", 2, 64⟩, ⟨"lib_unused", 2, 96⟩],
    dynsym := [⟨"lib_add", 2, 64⟩, ⟨"lib_unused", 2, 96⟩] }

#guard (getSymbols [exeObj, noDwarfLib] (patMatches [⟨true, false, "lib_".toList⟩])).map (·.name)
        == ["lib_add", "lib_add", "lib_unused"]
#guard (getSymbols [exeObj, noDwarfLib] (patMatches [⟨true, true, "dup".toList⟩])) == [⟨"dup", 3, 16⟩]
#guard (getSymbols [exeObj, strippedLib] (patMatches [⟨false, false, "f".toList⟩])) == []
#guard (getSymbols [exeObj, noDwarfLib] (patMatches [⟨true, true, "main".toList⟩, ⟨false, true, "unused".toList⟩])).length == 2
#guard decide (DynsymCovered [exeObj, noDwarfLib])
#guard !decide (DynsymCovered [strippedLib])
example : DynsymCovered [exeObj, noDwarfLib] := by decide
/-- an object WITHOUT DWARF units contributes its symbols (the hypotheses of `C17_symbols_all_objects` are satisfiable) -/
example (n : String) :
    (⟨n, 2, 96⟩ : Sym) ∈ getSymbols [exeObj, { file := "libp.so", hasDwarf := false, symtab := some [⟨n, 2, 96⟩] }]
      (fun _ => true) := by
  have h := C17_symbols_concat [exeObj] [{ file := "libp.so", hasDwarf := false, symtab := some [⟨n, 2, 96⟩] }] (fun _ => true)
  rw [List.singleton_append] at h
  rw [h]
  exact List.mem_append_right _ (by simp [getSymbols, Obj.findSymbols, Obj.table, tabNew, tabInsert, tabFind])

end BsVerif.Symbols
