import BsVerif.Model.Call
import BsVerif.Lemmas.Call
/-!
C16 — injected calls run once and leave no trace.  Theorems about `Model/Call.lean`.

Reading guide
* `C16_literal_faithful_*`: an in-range literal reaches the callee as exactly that value at the parameter's width and
  signedness.  `C16_literal_range_full` (an out-of-range literal is refused) is FALSE of the code:
  `C16_literal_range_counterexample` (`300` for a `u8` parameter is passed as `44`).
* `C16_sysv_order`, `C16_args_in_sysv_registers`: argument i travels in the i-th System V integer register, nothing else
  is touched.
* `C16_restore_from_any_failure`: whatever the body of `with_ccx` does and wherever it fails (the body is an ARBITRARY
  computation), afterwards all registers are the saved ones and the code word at pc is the saved one — or the debugger
  panicked because the restoring requests themselves failed.
* `C16_called_once_with_args`, `C16_state_restored`: the complete successful call (see below).
* `C16_no_leak_*`: the failure-point clause for the address space.
-/
namespace BsVerif.Call
open BsVerif.Mem BsVerif.Gen.CallAbi

/-! ### literals -/

/-- what a callee reads from an argument register for an unsigned parameter of `bytes` bytes -/
def decodeU (r bytes : Nat) : Nat := r % 2 ^ (8 * bytes)
/-- ... for a signed parameter (two's complement) -/
def decodeS (r bytes : Nat) : Int :=
  if 2 ^ (8 * bytes - 1) ≤ r % 2 ^ (8 * bytes) then ((r % 2 ^ (8 * bytes) : Nat) : Int) - ((2 ^ (8 * bytes) : Nat) : Int)
  else ((r % 2 ^ (8 * bytes) : Nat) : Int)

def InRangeU (v : Int) (bytes : Nat) : Prop := 0 ≤ v ∧ v < ((2 ^ (8 * bytes) : Nat) : Int)
def InRangeS (v : Int) (bytes : Nat) : Prop := -((2 ^ (8 * bytes - 1) : Nat) : Int) ≤ v ∧ v < ((2 ^ (8 * bytes - 1) : Nat) : Int)

def Width (bytes : Nat) : Prop := bytes = 1 ∨ bytes = 2 ∨ bytes = 4 ∨ bytes = 8

/-- an in-range literal for an unsigned integer parameter is accepted, the register holds exactly the value
(upper bytes zero) -/
theorem C16_literal_faithful_unsigned (v : Int) (bytes : Nat) (hw : Width bytes) (h : InRangeU v bytes) :
    ∃ r, literToArg (.int v) (.scalar (some .unsigned) (some bytes)) = .ok r ∧ (r : Int) = v ∧ ((decodeU r bytes : Nat) : Int) = v := by
  unfold InRangeU at h
  rcases hw with rfl | rfl | rfl | rfl
  · refine ⟨truncTo v 1, by simp [literToArg], ?_, ?_⟩ <;> simp [truncTo, decodeU] at * <;> omega
  · refine ⟨truncTo v 2, by simp [literToArg], ?_, ?_⟩ <;> simp [truncTo, decodeU] at * <;> omega
  · refine ⟨truncTo v 4, by simp [literToArg], ?_, ?_⟩ <;> simp [truncTo, decodeU] at * <;> omega
  · refine ⟨truncTo v 8, by simp [literToArg], ?_, ?_⟩ <;> simp [truncTo, decodeU] at * <;> omega

/-- an in-range literal for a signed integer parameter is accepted and decodes (two's complement at the parameter's width)
to exactly the value -/
theorem C16_literal_faithful_signed (v : Int) (bytes : Nat) (hw : Width bytes) (h : InRangeS v bytes) :
    ∃ r, literToArg (.int v) (.scalar (some .signed) (some bytes)) = .ok r ∧ r < 2 ^ (8 * bytes) ∧ decodeS r bytes = v := by
  unfold InRangeS at h
  rcases hw with rfl | rfl | rfl | rfl
  · refine ⟨truncTo v 1, by simp [literToArg], ?_, ?_⟩ <;> simp [truncTo, decodeS] at * <;> omega
  · refine ⟨truncTo v 2, by simp [literToArg], ?_, ?_⟩ <;> simp [truncTo, decodeS] at * <;> omega
  · refine ⟨truncTo v 4, by simp [literToArg], ?_, ?_⟩ <;> simp [truncTo, decodeS] at * <;> omega
  · refine ⟨truncTo v 8, by simp [literToArg], ?_, ?_⟩ <;> simp [truncTo, decodeS] at * <;> omega

theorem C16_literal_faithful_bool (b : Bool) (sz : Option Nat) :
    literToArg (.bool b) (.scalar (some .boolean) sz) = .ok (if b then 1 else 0) := by
  simp [literToArg]

theorem C16_literal_faithful_pointer (a : Nat) : literToArg (.addr a) .pointer = .ok a := by
  simp [literToArg]

/-- non-vacuity: -5 for an `i16` parameter -/
example : ∃ r, literToArg (.int (-5)) (.scalar (some .signed) (some 2)) = .ok r ∧ r < 2 ^ (8 * 2) ∧ decodeS r 2 = -5 :=
  C16_literal_faithful_signed (-5) 2 (by unfold Width; omega) (by unfold InRangeS; omega)

/-- the full statement: a literal that does not fit the parameter is refused -/
def C16_literal_range_full : Prop :=
  ∀ (v : Int) (bytes : Nat), Width bytes → ¬ InRangeU v bytes →
    ∃ e, literToArg (.int v) (.scalar (some .unsigned) (some bytes)) = .error e

/-- FALSE of the code: `call take_u8 300` passes 44 (`*val as u8`) -/
theorem C16_literal_range_counterexample : ¬ C16_literal_range_full := by
  intro h
  have := h 300 1 (by unfold Width; omega) (by unfold InRangeU; omega)
  obtain ⟨e, he⟩ := this
  simp [literToArg, truncTo] at he

theorem C16_literal_truncated_witness :
    literToArg (.int 300) (.scalar (some .unsigned) (some 1)) = .ok 44 := by
  simp [literToArg, truncTo]

/-- every error class of the conversion: wrong literal kinds are refused, never converted -/
theorem C16_literal_kind_checked (l : Lit) (t : Ty) (r : Nat) (h : literToArg l t = .ok r) :
    (∃ v enc sz, l = .int v ∧ t = .scalar (some enc) sz ∧ enc ≠ .boolean ∧ enc ≠ .other)
    ∨ (∃ a, l = .addr a ∧ t = .pointer) ∨ (∃ b sz, l = .bool b ∧ t = .scalar (some .boolean) sz) := by
  cases l with
  | int v =>
    cases t with
    | scalar enc sz =>
      cases enc with
      | none => simp [literToArg] at h
      | some e =>
        cases e <;> first
          | (simp [literToArg] at h; done)
          | exact Or.inl ⟨v, _, sz, rfl, rfl, by decide, by decide⟩
    | pointer => simp [literToArg] at h
    | other => simp [literToArg] at h
  | addr a =>
    cases t with
    | pointer => exact Or.inr (Or.inl ⟨a, rfl, rfl⟩)
    | scalar enc sz => simp [literToArg] at h
    | other => simp [literToArg] at h
  | bool b =>
    cases t with
    | scalar enc sz =>
      cases enc with
      | none => simp [literToArg] at h
      | some e =>
        cases e <;> first
          | (simp [literToArg] at h; done)
          | exact Or.inr (Or.inr ⟨b, sz, rfl, rfl⟩)
    | pointer => simp [literToArg] at h
    | other => simp [literToArg] at h
  | str => simp [literToArg] at h
  | float => simp [literToArg] at h
  | enumv => simp [literToArg] at h
  | array => simp [literToArg] at h
  | assoc => simp [literToArg] at h

/-! ### System V argument registers -/

/-- the table extracted from `get_reg_for_no` IS the System V order rdi, rsi, rdx, rcx, r8, r9 -/
theorem C16_sysv_order : argRegs = [Rdi, Rsi, Rdx, Rcx, R8, R9] := by decide

/-- `prepare_registers`: argument i is in the i-th System V register … -/
theorem C16_args_in_sysv_registers (r : RegFile) (args : List Nat) (h : args.length ≤ 6) :
    (argRegs.map (prepare r args)).take args.length = args := by
  match args, h with
  | [], _ => rfl
  | [_], _ => rfl
  | [_, _], _ => rfl
  | [_, _, _], _ => rfl
  | [_, _, _, _], _ => rfl
  | [_, _, _, _, _], _ => rfl
  | [_, _, _, _, _, _], _ => rfl
  | _ :: _ :: _ :: _ :: _ :: _ :: _ :: _, h => simp at h

/-- … and no other register changes -/
theorem C16_args_touch_only_sysv_registers (r : RegFile) (args : List Nat) (j : Nat) (hj : j ∉ argRegs) :
    prepare r args j = r j := by
  have key : ∀ (l : List (Nat × Nat)) (r : RegFile), (∀ p ∈ l, p.1 ≠ j) → setMany r l j = r j := by
    intro l
    induction l with
    | nil => intro r _; rfl
    | cons p rest ih =>
      intro r hp
      obtain ⟨i, v⟩ := p
      simp only [setMany]
      rw [ih]
      · have : i ≠ j := hp (i, v) (by simp)
        simp [RegFile.set]; intro e; exact absurd e.symm this
      · intro q hq; exact hp q (by simp [hq])
  apply key
  intro p hp
  have := List.of_mem_zip hp
  intro e; exact hj (e ▸ this.1)

/-! ### restoration from every failure point of the body -/

/-- `with_ccx`: for an ARBITRARY body `m` (so: from every failure point inside it, and for every result), either the
debugger panics — exactly when one of the two restoring requests fails — or afterwards every register is the saved one,
the code word at pc is the saved one, and no other byte was touched by the restoration. -/
theorem C16_restore_from_any_failure {α : Type} (W : World) (c : Ccx) (m : M α) (d : Dbg) (ht : c.text < W64) :
    (∃ d', withCcx W c m d = (.panic, d')) ∨
    (∃ r d', withCcx W c m d = (r, d') ∧ d'.t.regs = c.regs ∧ peek d'.t.mem c.pc = c.text
        ∧ (∀ a, ¬ (c.pc ≤ a ∧ a < c.pc + 8) → d'.t.mem a = (m d).2.t.mem a)
        ∧ d'.t.pages = (m d).2.t.pages ∧ d'.t.entered = (m d).2.t.entered ∧ d'.t.wild = (m d).2.t.wild) := by
  unfold withCcx
  rcases hm : m d with ⟨r, d1⟩
  have key : ∀ (r : Res α), r ≠ .panic →
      (∃ d', (match setregsOp W c.regs d1 with
              | (.ok _, d2) => (match pokeOp W c.pc c.text d2 with
                  | (.ok _, d3) => (r, d3)
                  | (_, d3) => (.panic, d3))
              | (_, d2) => (.panic, d2)) = (.panic, d')) ∨
      (∃ d', (match setregsOp W c.regs d1 with
              | (.ok _, d2) => (match pokeOp W c.pc c.text d2 with
                  | (.ok _, d3) => (r, d3)
                  | (_, d3) => (.panic, d3))
              | (_, d2) => (.panic, d2)) = (r, d')
          ∧ d'.t.regs = c.regs ∧ peek d'.t.mem c.pc = c.text
          ∧ (∀ a, ¬ (c.pc ≤ a ∧ a < c.pc + 8) → d'.t.mem a = d1.t.mem a)
          ∧ d'.t.pages = d1.t.pages ∧ d'.t.entered = d1.t.entered ∧ d'.t.wild = d1.t.wild) := by
    intro r _
    rcases setregsOp_cases W c.regs d1 with ⟨d2, e2⟩ | ⟨d2, e2, t2⟩
    · exact Or.inl ⟨d2, by rw [e2]⟩
    · rcases pokeOp_cases W c.pc c.text d2 with ⟨d3, e3⟩ | ⟨d3, e3, t3⟩
      · exact Or.inl ⟨d3, by rw [e2]; simp only []; rw [e3]⟩
      · refine Or.inr ⟨d3, by rw [e2]; simp only []; rw [e3], ?_⟩
        rw [t3, t2]
        refine ⟨rfl, peek_poke_same _ _ _ ht, ?_, rfl, rfl, rfl⟩
        intro a ha; exact poke_other _ _ _ _ ha
  cases r with
  | panic => exact Or.inl ⟨d1, rfl⟩
  | ok a =>
    rcases key (.ok a) (by simp) with ⟨d', e⟩ | ⟨d', e, rest⟩
    · exact Or.inl ⟨d', e⟩
    · exact Or.inr ⟨_, d', e, rest⟩
  | err e0 =>
    rcases key (.err e0) (by simp) with ⟨d', e⟩ | ⟨d', e, rest⟩
    · exact Or.inl ⟨d', e⟩
    · exact Or.inr ⟨_, d', e, rest⟩

/-- non-vacuity: a body that fails at once, no injected fault: not the panic branch -/
example : ∃ r d', withCcx (noFaults 0 id) ⟨100, fun _ => 7, 5⟩ (fail .mmap : M Unit) { t := { regs := fun _ => 0, mem := fun _ => 0 } } = (r, d')
    ∧ d'.t.regs = (fun _ => 7) := by
  refine ⟨_, _, rfl, ?_⟩
  rfl

/-! ### the complete successful call -/

/-- what is assumed of the called function: it neither injects calls itself, nor unmaps the trampoline page, nor runs wild
(its effect on registers and on memory is ARBITRARY) -/
structure CalleeFrame (W : World) : Prop where
  pages : ∀ t, (W.callee t).pages = t.pages
  entered : ∀ t, (W.callee t).entered = t.entered
  wild : ∀ t, (W.callee t).wild = t.wild

/-- what is assumed of the stop and of the kernel: no ptrace request fails, memory is made of bytes, the thread is stopped
at `pc`, the kernel grants the mmap and the fresh page is zero-filled address space that was not in use -/
structure GoodStop (W : World) (d : Dbg) (pc : Addr) : Prop where
  noFail : NoFail W
  bytes : Bytes d.t.mem
  atPc : d.t.regs Rip = pc
  page : W.mmapRes < W64 - 4095
  freshZero : ∀ a, inPage W.mmapRes a = true → d.t.mem a = 0

/-- the code the callee executes (`W.reach`) is, at the callee's first instruction, the original code (`W.orig`): in
particular the callee does not pass through the stop pc, where the debugger's `jmp *%rax` patch is still in place
(`C16_callee_runs_original_code_counterexample`) -/
def CleanCode (W : World) (pc fnAddr : Nat) (args : List Nat) (d : Dbg) : Prop :=
  runsPatched W (preEntryT W pc fnAddr args d.t) = false

/-- `call f a1..an` enters f EXACTLY ONCE (the entry log grows by one entry, whose target is f), with argument i in the
i-th System V register, and the CPU never executes anything but the trampoline and f -/
theorem C16_called_once_with_args (W : World) (d : Dbg) (pc fnAddr : Nat) (args : List Nat)
    (hs : GoodStop W d pc) (hc : CalleeFrame W) (hclean : CleanCode W pc fnAddr args d) (hlen : args.length ≤ 6) :
    (callFnRaw W pc fnAddr args d).1 = .ok () ∧
    ∃ regsAtEntry, (callFnRaw W pc fnAddr args d).2.t.entered = d.t.entered ++ [(fnAddr, regsAtEntry)]
      ∧ regsAtEntry.take args.length = args
      ∧ (callFnRaw W pc fnAddr args d).2.t.wild = d.t.wild := by
  obtain ⟨h1, _, h3⟩ := callFnRaw_ok hs.noFail pc fnAddr args d hs.bytes hs.atPc hs.page hc.pages hclean
  refine ⟨h1, argRegs.map (callRegs W fnAddr args d.t), ?_, ?_, ?_⟩
  · rw [h3]; exact finalT_entered W pc fnAddr args d.t hc.entered
  · have : argRegs.map (callRegs W fnAddr args d.t) = argRegs.map (prepare d.t.regs args) := by
      apply List.map_congr_left
      intro j hj
      simp [argRegs] at hj
      rcases hj with rfl | rfl | rfl | rfl | rfl | rfl <;> simp [callRegs, RegFile.set, Rax, Rip]
    rw [this]; exact C16_args_in_sysv_registers d.t.regs args hlen
  · rw [h3]; exact finalT_wild W pc fnAddr args d.t hc.wild

/-- after a successful call: every register is what it was, the trampoline page is unmapped again (the set of injected
pages is what it was and the page reads as fresh), the breakpoint table is untouched, the code word at pc is what it was,
and every other byte is exactly what the callee left (`entryT` = the thread at the callee's first instruction). -/
theorem C16_state_restored (W : World) (d : Dbg) (pc fnAddr : Nat) (args : List Nat)
    (hs : GoodStop W d pc) (hc : CalleeFrame W) (hclean : CleanCode W pc fnAddr args d) :
    (callFnRaw W pc fnAddr args d).1 = .ok ()
    ∧ (callFnRaw W pc fnAddr args d).2.t.regs = d.t.regs
    ∧ (callFnRaw W pc fnAddr args d).2.t.pages = d.t.pages
    ∧ (callFnRaw W pc fnAddr args d).2.bps = d.bps
    ∧ (callFnRaw W pc fnAddr args d).2.t.wild = d.t.wild
    ∧ (∀ a, pc ≤ a ∧ a < pc + 8 → (callFnRaw W pc fnAddr args d).2.t.mem a = d.t.mem a)
    ∧ (∀ a, inPage W.mmapRes a = true → (callFnRaw W pc fnAddr args d).2.t.mem a = d.t.mem a)
    ∧ (∀ a, ¬ (pc ≤ a ∧ a < pc + 8) → inPage W.mmapRes a = false →
         (callFnRaw W pc fnAddr args d).2.t.mem a = (W.callee (entryT W pc fnAddr args d.t)).mem a) := by
  obtain ⟨h1, h2, h3⟩ := callFnRaw_ok hs.noFail pc fnAddr args d hs.bytes hs.atPc hs.page hc.pages hclean
  refine ⟨h1, ?_, ?_, h2, ?_, ?_, ?_, ?_⟩
  · rw [h3]; rfl
  · rw [h3]; exact finalT_pages W pc fnAddr args d.t hc.pages
  · rw [h3]; exact finalT_wild W pc fnAddr args d.t hc.wild
  · intro a ha; rw [h3, finalT_mem W pc fnAddr args d.t hs.bytes a]; simp [ha]
  · intro a ha; rw [h3, finalT_mem W pc fnAddr args d.t hs.bytes a]
    by_cases hw : pc ≤ a ∧ a < pc + 8
    · simp [hw]
    · simp [hw, ha, hs.freshZero a ha]
  · intro a hw hp; rw [h3, finalT_mem W pc fnAddr args d.t hs.bytes a]; simp [hw, hp]

/-- memory at the callee's first instruction: the image, except the patched word at pc, the trampoline page and the
return address pushed right below the stack pointer -/
theorem C16_memory_at_entry (W : World) (pc fnAddr : Nat) (args : List Nat) (t0 : Tracee) (a : Nat)
    (hw : ¬ (pc ≤ a ∧ a < pc + 8)) (hp : inPage W.mmapRes a = false)
    (hslot : ¬ (t0.regs Rsp - 8 ≤ a ∧ a < t0.regs Rsp - 8 + 8)) :
    (entryT W pc fnAddr args t0).mem a = t0.mem a := by
  have hrsp : (((prepare t0.regs args).set Rax fnAddr).set Rip W.mmapRes) Rsp = t0.regs Rsp := by
    have := C16_args_touch_only_sysv_registers t0.regs args Rsp (by decide)
    simp [RegFile.set, Rsp, Rax, Rip] at *; exact this
  have hpg : ¬ (W.mmapRes ≤ a ∧ a < W.mmapRes + 8) := by
    intro ⟨h1, h2⟩
    have hp' := hp
    unfold inPage PAGE_SIZE at hp'
    simp at hp'
    have := hp' h1
    omega
  simp only [entryT, preEntryT, atEntry, preCall, postJump, preJump, postMmap, preMmap, ccxOf, hrsp]
  rw [poke_other _ _ _ _ hslot, poke_other _ _ _ _ hpg, poke_other _ _ _ _ hw]
  simp only [hp]
  exact poke_other _ _ _ _ hw

/-- THE PROPERTY for code and data: a byte that the callee does not write, outside the 8 bytes right below the stack
pointer, is after the call what it was before — in particular every byte of code -/
theorem C16_text_restored (W : World) (d : Dbg) (pc fnAddr : Nat) (args : List Nat)
    (hs : GoodStop W d pc) (hc : CalleeFrame W) (hclean : CleanCode W pc fnAddr args d) (a : Nat)
    (hcallee : ∀ t, (W.callee t).mem a = t.mem a)
    (hslot : ¬ (d.t.regs Rsp - 8 ≤ a ∧ a < d.t.regs Rsp - 8 + 8)) :
    (callFnRaw W pc fnAddr args d).2.t.mem a = d.t.mem a := by
  obtain ⟨_, _, _, _, _, m1, m2, m3⟩ := C16_state_restored W d pc fnAddr args hs hc hclean
  by_cases hw : pc ≤ a ∧ a < pc + 8
  · exact m1 a hw
  · by_cases hp : inPage W.mmapRes a = true
    · exact m2 a hp
    · have hp' : inPage W.mmapRes a = false := by simpa using hp
      rw [m3 a hw hp', hcallee]
      exact C16_memory_at_entry W pc fnAddr args d.t a hw hp' hslot

/-! ### witnesses -/
/-- a stopped thread: rip = 100, rsp = 1000, all memory zero -/
def wRegs : RegFile := fun i => if i = Rip then 100 else if i = Rsp then 1000 else 0
def wDbg : Dbg := { t := { regs := wRegs, mem := fun _ => 0 } }

theorem wGood : GoodStop (noFaults 8192 id) wDbg 100 :=
  ⟨fun _ _ => rfl, fun _ => by simp [wDbg], rfl, by decide, fun _ _ => rfl⟩
theorem wFrame : CalleeFrame (noFaults 8192 id) := ⟨fun _ => rfl, fun _ => rfl, fun _ => rfl⟩

/-- non-vacuity of `C16_called_once_with_args` / `C16_state_restored`: the hypotheses are satisfiable, the run is the full one -/
example : (callFnRaw (noFaults 8192 id) 100 500 [7, 9] wDbg).2.t.entered.length = 1 := by
  obtain ⟨_, r, h, _⟩ := C16_called_once_with_args _ _ 100 500 [7, 9] wGood wFrame rfl (by decide)
  rw [h]; rfl

/-- the full statement about memory: a call of a function that writes NOTHING leaves every byte as it was -/
def C16_stack_untouched_full : Prop :=
  ∀ (W : World) (d : Dbg) (pc fnAddr : Nat) (args : List Nat), GoodStop W d pc → CalleeFrame W → CleanCode W pc fnAddr args d →
    (∀ t, (W.callee t).mem = t.mem) → ∀ a, (callFnRaw W pc fnAddr args d).2.t.mem a = d.t.mem a

/-- FALSE of the code: the trampoline's `call` pushes its return address at rsp-8 — inside the red zone a leaf function
may keep live data in (and the callee's frame grows below it): byte 992 = rsp-8 holds 0x02 (low byte of page+2) afterwards -/
theorem C16_stack_untouched_counterexample : ¬ C16_stack_untouched_full := by
  intro h
  have h1 := h (noFaults 8192 id) wDbg 100 500 [] wGood wFrame rfl (fun _ => rfl) 992
  obtain ⟨_, _, _, _, _, _, _, m3⟩ := C16_state_restored (noFaults 8192 id) wDbg 100 500 [] wGood wFrame rfl
  rw [m3 992 (by omega) (by decide)] at h1
  revert h1
  decide

/-- the failure-point clause for the address space: from EVERY failure point, if the debugger does not panic, the set of
injected pages is what it was -/
def C16_no_leak_full : Prop :=
  ∀ (W : World) (d : Dbg) (pc fnAddr : Nat) (args : List Nat),
    Bytes d.t.mem → d.t.regs Rip = pc → W.mmapRes < W64 - 4095 → CalleeFrame W →
    (callFnRaw W pc fnAddr args d).1 ≠ .panic → (callFnRaw W pc fnAddr args d).2.t.pages = d.t.pages

/-- it holds when no request fails … -/
theorem C16_no_leak_partial (W : World) (d : Dbg) (pc fnAddr : Nat) (args : List Nat)
    (hs : GoodStop W d pc) (hc : CalleeFrame W) (hclean : CleanCode W pc fnAddr args d) :
    (callFnRaw W pc fnAddr args d).2.t.pages = d.t.pages :=
  (C16_state_restored W d pc fnAddr args hs hc hclean).2.2.1

/-- … and is FALSE of the code when the GETREGS after the mmap step fails: the call reports an error, registers and
code are restored (`C16_restore_from_any_failure`), the page stays mapped -/
def leakWorld : World := { fails := fun k i => k == .getregs && i == 1, mmapRes := 8192, callee := id }
theorem C16_no_leak_counterexample : ¬ C16_no_leak_full := by
  intro h
  have := h leakWorld wDbg 100 500 [] (fun _ => by simp [wDbg]) rfl (by decide) ⟨fun _ => rfl, fun _ => rfl, fun _ => rfl⟩
  revert this
  decide

/-- breakpoints around the call: from every failure point, if `call` does not panic, every breakpoint that was enabled is
enabled again -/
def C16_breakpoints_reenabled_full : Prop :=
  ∀ (W : World) (d : Dbg) (pc : Nat) (order : List Addr) (lits : List Lit),
    (callCmd W none lits pc order order d).1 ≠ .panic →
    (callCmd W none lits pc order order d).2.bps.all (·.enabled) = true

/-- FALSE of the code: the POKE of the second `disable` fails, `with_disabled_brkpts` returns early and the first
breakpoint stays disabled -/
def bpWorld : World := { fails := fun k i => k == .poke && i == 1, mmapRes := 8192, callee := id }
def bpDbg : Dbg := { t := { regs := wRegs, mem := fun a => if a = 100 ∨ a = 200 then 0xCC else 0 },
                     bps := [{ addr := 100, saved := 0x55 }, { addr := 200, saved := 0x48 }] }
theorem C16_breakpoints_reenabled_counterexample : ¬ C16_breakpoints_reenabled_full := by
  intro h
  have := h bpWorld bpDbg 100 [100, 200] [] (by decide)
  revert this
  decide

/-- the full statement about the code the callee runs on: at the callee's first instruction every byte of code is the
original one -/
def C16_callee_runs_original_code_full : Prop :=
  ∀ (W : World) (pc fnAddr : Nat) (args : List Nat) (t0 : Tracee) (a : Nat),
    inPage W.mmapRes a = false → ¬ (t0.regs Rsp - 8 ≤ a ∧ a < t0.regs Rsp - 8 + 8) →
    (entryT W pc fnAddr args t0).mem a = t0.mem a

/-- FALSE of the code: the `jmp *%rax` patch is still at the stop pc while the callee runs (the text is only restored
after the call); a callee that passes through the stop location — `call f` while stopped inside f, or inside anything
f calls — executes `jmp *%rax` instead of the program's instruction -/
theorem C16_callee_runs_original_code_counterexample : ¬ C16_callee_runs_original_code_full := by
  intro h
  have := h (noFaults 8192 id) 100 500 [] wDbg.t 100 (by decide) (by decide)
  revert this
  decide

/-- and then the debugger (built with debug assertions) panics in the middle of the call, state not restored: the model's
`contOp` on a world whose callee passes through the stop pc -/
def reentrantWorld : World := { fails := fun _ _ => false, mmapRes := 8192, callee := id, reach := [100], orig := fun _ => 0 }
theorem C16_reentrant_call_witness :
    (callFnRaw reentrantWorld 100 100 [] wDbg).1 = .panic ∧ (callFnRaw reentrantWorld 100 100 [] wDbg).2.t.pages = [8192] := by
  decide

end BsVerif.Call
