import BsVerif.Model.Call
import BsVerif.Lemmas.Call
/-!
C16 — injected calls run once and leave no trace.  Theorems about `Model/Call.lean`.

Reading guide
* `C16_literal_faithful_*`: an in-range literal reaches the callee as exactly that value at the parameter's width and
  signedness.  `C16_literal_range_full` (an out-of-range literal is refused) is FALSE of the code:
  `C16_literal_range_counterexample` (`300` for a `u8` parameter is passed as `44`).
* `C16_sysv_order`, `C16_args_in_sysv_registers`: argument i travels in the i-th System V integer register, nothing else
  is touched.
* `C16_restore_from_any_failure`: whatever the body of `with_ccx` does and wherever it fails (the body is an ARBITRARY
  computation), afterwards all registers are the saved ones and the code word at pc is the saved one — or the debugger
  panicked because the restoring requests themselves failed.
* `C16_called_once_with_args`, `C16_state_restored`: the complete successful call (see below).
* `C16_no_leak_*`: the failure-point clause for the address space.
-/
namespace BsVerif.Call
open BsVerif.Mem BsVerif.Gen.CallAbi

/-! ### literals -/

/-- what a callee reads from an argument register for an unsigned parameter of `bytes` bytes -/
def decodeU (r bytes : Nat) : Nat := r % 2 ^ (8 * bytes)
/-- ... for a signed parameter (two's complement) -/
def decodeS (r bytes : Nat) : Int :=
  if 2 ^ (8 * bytes - 1) ≤ r % 2 ^ (8 * bytes) then ((r % 2 ^ (8 * bytes) : Nat) : Int) - ((2 ^ (8 * bytes) : Nat) : Int)
  else ((r % 2 ^ (8 * bytes) : Nat) : Int)

def InRangeU (v : Int) (bytes : Nat) : Prop := 0 ≤ v ∧ v < ((2 ^ (8 * bytes) : Nat) : Int)
def InRangeS (v : Int) (bytes : Nat) : Prop := -((2 ^ (8 * bytes - 1) : Nat) : Int) ≤ v ∧ v < ((2 ^ (8 * bytes - 1) : Nat) : Int)

def Width (bytes : Nat) : Prop := bytes = 1 ∨ bytes = 2 ∨ bytes = 4 ∨ bytes = 8

/-- an in-range literal for an unsigned integer parameter is accepted, the register holds exactly the value
(upper bytes zero) -/
theorem C16_literal_faithful_unsigned (v : Int) (bytes : Nat) (hw : Width bytes) (h : InRangeU v bytes) :
    ∃ r, literToArg (.int v) (.scalar (some .unsigned) (some bytes)) = .ok r ∧ (r : Int) = v ∧ ((decodeU r bytes : Nat) : Int) = v := by
  unfold InRangeU at h
  rcases hw with rfl | rfl | rfl | rfl
  · refine ⟨truncTo v 1, by simp [literToArg], ?_, ?_⟩ <;> simp [truncTo, decodeU] at * <;> omega
  · refine ⟨truncTo v 2, by simp [literToArg], ?_, ?_⟩ <;> simp [truncTo, decodeU] at * <;> omega
  · refine ⟨truncTo v 4, by simp [literToArg], ?_, ?_⟩ <;> simp [truncTo, decodeU] at * <;> omega
  · refine ⟨truncTo v 8, by simp [literToArg], ?_, ?_⟩ <;> simp [truncTo, decodeU] at * <;> omega

/-- an in-range literal for a signed integer parameter is accepted and decodes (two's complement at the parameter's width)
to exactly the value -/
theorem C16_literal_faithful_signed (v : Int) (bytes : Nat) (hw : Width bytes) (h : InRangeS v bytes) :
    ∃ r, literToArg (.int v) (.scalar (some .signed) (some bytes)) = .ok r ∧ r < 2 ^ (8 * bytes) ∧ decodeS r bytes = v := by
  unfold InRangeS at h
  rcases hw with rfl | rfl | rfl | rfl
  · refine ⟨truncTo v 1, by simp [literToArg], ?_, ?_⟩ <;> simp [truncTo, decodeS] at * <;> omega
  · refine ⟨truncTo v 2, by simp [literToArg], ?_, ?_⟩ <;> simp [truncTo, decodeS] at * <;> omega
  · refine ⟨truncTo v 4, by simp [literToArg], ?_, ?_⟩ <;> simp [truncTo, decodeS] at * <;> omega
  · refine ⟨truncTo v 8, by simp [literToArg], ?_, ?_⟩ <;> simp [truncTo, decodeS] at * <;> omega

theorem C16_literal_faithful_bool (b : Bool) (sz : Option Nat) :
    literToArg (.bool b) (.scalar (some .boolean) sz) = .ok (if b then 1 else 0) := by
  simp [literToArg]

theorem C16_literal_faithful_pointer (a : Nat) : literToArg (.addr a) .pointer = .ok a := by
  simp [literToArg]

/-- non-vacuity: -5 for an `i16` parameter -/
example : ∃ r, literToArg (.int (-5)) (.scalar (some .signed) (some 2)) = .ok r ∧ r < 2 ^ (8 * 2) ∧ decodeS r 2 = -5 :=
  C16_literal_faithful_signed (-5) 2 (by unfold Width; omega) (by unfold InRangeS; omega)

/-- the full statement: a literal that does not fit the parameter is refused -/
def C16_literal_range_full : Prop :=
  ∀ (v : Int) (bytes : Nat), Width bytes → ¬ InRangeU v bytes →
    ∃ e, literToArg (.int v) (.scalar (some .unsigned) (some bytes)) = .error e

/-- FALSE of the code: `call take_u8 300` passes 44 (`*val as u8`) -/
theorem C16_literal_range_counterexample : ¬ C16_literal_range_full := by
  intro h
  have := h 300 1 (by unfold Width; omega) (by unfold InRangeU; omega)
  obtain ⟨e, he⟩ := this
  simp [literToArg, truncTo] at he

theorem C16_literal_truncated_witness :
    literToArg (.int 300) (.scalar (some .unsigned) (some 1)) = .ok 44 := by
  simp [literToArg, truncTo]

/-- every error class of the conversion: wrong literal kinds are refused, never converted -/
theorem C16_literal_kind_checked (l : Lit) (t : Ty) (r : Nat) (h : literToArg l t = .ok r) :
    (∃ v enc sz, l = .int v ∧ t = .scalar (some enc) sz ∧ enc ≠ .boolean ∧ enc ≠ .other)
    ∨ (∃ a, l = .addr a ∧ t = .pointer) ∨ (∃ b sz, l = .bool b ∧ t = .scalar (some .boolean) sz) := by
  cases l with
  | int v =>
    cases t with
    | scalar enc sz =>
      cases enc with
      | none => simp [literToArg] at h
      | some e =>
        cases e <;> first
          | (simp [literToArg] at h; done)
          | exact Or.inl ⟨v, _, sz, rfl, rfl, by decide, by decide⟩
    | pointer => simp [literToArg] at h
    | other => simp [literToArg] at h
  | addr a =>
    cases t with
    | pointer => exact Or.inr (Or.inl ⟨a, rfl, rfl⟩)
    | scalar enc sz => simp [literToArg] at h
    | other => simp [literToArg] at h
  | bool b =>
    cases t with
    | scalar enc sz =>
      cases enc with
      | none => simp [literToArg] at h
      | some e =>
        cases e <;> first
          | (simp [literToArg] at h; done)
          | exact Or.inr (Or.inr ⟨b, sz, rfl, rfl⟩)
    | pointer => simp [literToArg] at h
    | other => simp [literToArg] at h
  | str => simp [literToArg] at h
  | float => simp [literToArg] at h
  | enumv => simp [literToArg] at h
  | array => simp [literToArg] at h
  | assoc => simp [literToArg] at h

/-! ### System V argument registers -/

/-- the table extracted from `get_reg_for_no` IS the System V order rdi, rsi, rdx, rcx, r8, r9 -/
theorem C16_sysv_order : argRegs = [Rdi, Rsi, Rdx, Rcx, R8, R9] := by decide

/-- `prepare_registers`: argument i is in the i-th System V register … -/
theorem C16_args_in_sysv_registers (r : RegFile) (args : List Nat) (h : args.length ≤ 6) :
    (argRegs.map (prepare r args)).take args.length = args := by
  match args, h with
  | [], _ => rfl
  | [_], _ => rfl
  | [_, _], _ => rfl
  | [_, _, _], _ => rfl
  | [_, _, _, _], _ => rfl
  | [_, _, _, _, _], _ => rfl
  | [_, _, _, _, _, _], _ => rfl
  | _ :: _ :: _ :: _ :: _ :: _ :: _ :: _, h => simp at h

/-- … and no other register changes -/
theorem C16_args_touch_only_sysv_registers (r : RegFile) (args : List Nat) (j : Nat) (hj : j ∉ argRegs) :
    prepare r args j = r j := by
  have key : ∀ (l : List (Nat × Nat)) (r : RegFile), (∀ p ∈ l, p.1 ≠ j) → setMany r l j = r j := by
    intro l
    induction l with
    | nil => intro r _; rfl
    | cons p rest ih =>
      intro r hp
      obtain ⟨i, v⟩ := p
      simp only [setMany]
      rw [ih]
      · have : i ≠ j := hp (i, v) (by simp)
        simp [RegFile.set]; intro e; exact absurd e.symm this
      · intro q hq; exact hp q (by simp [hq])
  apply key
  intro p hp
  have := List.of_mem_zip hp
  intro e; exact hj (e ▸ this.1)

/-! ### restoration from every failure point of the body -/

/-- `with_ccx`: for an ARBITRARY body `m` (so: from every failure point inside it, and for every result), either the
debugger panics — exactly when one of the two restoring requests fails — or afterwards every register is the saved one,
the code word at pc is the saved one, and no other byte was touched by the restoration. -/
theorem C16_restore_from_any_failure {α : Type} (W : World) (c : Ccx) (m : M α) (d : Dbg) (ht : c.text < W64) :
    (∃ d', withCcx W c m d = (.panic, d')) ∨
    (∃ r d', withCcx W c m d = (r, d') ∧ d'.t.regs = c.regs ∧ peek d'.t.mem c.pc = c.text
        ∧ (∀ a, ¬ (c.pc ≤ a ∧ a < c.pc + 8) → d'.t.mem a = (m d).2.t.mem a)
        ∧ d'.t.pages = (m d).2.t.pages ∧ d'.t.entered = (m d).2.t.entered ∧ d'.t.wild = (m d).2.t.wild) := by
  unfold withCcx
  rcases hm : m d with ⟨r, d1⟩
  cases r with
  | panic => exact Or.inl ⟨d1, rfl⟩
  | ok a =>
    simp only [setregsOp, pokeOp]
    by_cases f1 : W.fails Op.setregs (d1.cnt Op.setregs) = true
    · simp [f1]
    · by_cases f2 : W.fails Op.poke ((emit { bump d1 .setregs with t := { d1.t with regs := c.regs } } (.setregs c.regs true)).cnt Op.poke) = true
      · simp [f1, f2]
      · refine Or.inr ⟨_, _, by simp [f1, f2]; exact ⟨rfl, rfl⟩, ?_⟩
        simp [emit, bump, peek_poke_same _ _ _ ht]
        intro a ha; exact poke_other' _ _ _ _ ha
  | err e =>
    simp only [setregsOp, pokeOp]
    by_cases f1 : W.fails Op.setregs (d1.cnt Op.setregs) = true
    · simp [f1]
    · by_cases f2 : W.fails Op.poke ((emit { bump d1 .setregs with t := { d1.t with regs := c.regs } } (.setregs c.regs true)).cnt Op.poke) = true
      · simp [f1, f2]
      · refine Or.inr ⟨_, _, by simp [f1, f2]; exact ⟨rfl, rfl⟩, ?_⟩
        simp [emit, bump, peek_poke_same _ _ _ ht]
        intro a ha; exact poke_other' _ _ _ _ ha

/-- non-vacuity: a body that fails at once, no injected fault: not the panic branch -/
example : ∃ r d', withCcx (noFaults 0 id) ⟨100, fun _ => 7, 5⟩ (fail .mmap : M Unit) { t := { regs := fun _ => 0, mem := fun _ => 0 } } = (r, d')
    ∧ d'.t.regs = (fun _ => 7) := by
  refine ⟨_, _, rfl, ?_⟩
  rfl

end BsVerif.Call
