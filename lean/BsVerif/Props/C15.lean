import BsVerif.Lemmas.MemIO
import BsVerif.Lemmas.MemIOAux
/-!
# C15 — memory and register access is exact

Property theorems only.  Model: `BsVerif/Model/MemIO.lean` (mirror of `read_memory_by_pid`, DAP
`write_bytes`, `RegisterMap`, the breakpoint masking of the disassembler, `parse_set_value`); helper
lemmas: `BsVerif/Lemmas/MemIO.lean`.  Memory is `Nat → Option Byte` (`none` = unmapped); every theorem
quantifies over ALL memories, addresses, lengths and data.
-/
namespace BsVerif.MemIO
open BsVerif.Gen.Regs

/-! ## Reads -/

/-- **Exact characterisation of `read_memory_by_pid`, no assumption on the mappings.**  The read returns
the bytes `mem[a, a+n)` or fails; it succeeds iff the requested bytes are mapped and — only for a read
shorter than one word — one of the two words `[a, a+8)`, `[a+n-8, a+n)` is mapped (`TailOk`). -/
theorem C15_read_spec (m : Mem) (a n : Nat) :
    (readMemory m a n = bytesAt m a n ∨ readMemory m a n = none) ∧
    ((readMemory m a n).isSome = true ↔ MappedRange m a n ∧ TailOk m a n) :=
  read_spec m a n

/-- **C15_read_exact.**  When the read succeeds it returns exactly `n` bytes and they are the bytes the
process holds at `a, a+1, …, a+n-1`. -/
theorem C15_read_exact (m : Mem) (a n : Nat) (bs : List Byte) (h : readMemory m a n = some bs) :
    bs.length = n ∧ ∀ i, i < n → m (a + i) = bs[i]? :=
  read_exact m a n bs h

/-- **The exact success condition: the requested bytes are mapped** (page-granular mappings, as the
kernel's are). -/
theorem C15_read_success_iff (m : Mem) (a n : Nat) (hp : PageGranular m) :
    (readMemory m a n).isSome = true ↔ MappedRange m a n :=
  read_success_iff m a n hp

/-- **C15_read_total** (full strength; false before the repair of the tail word): a read of a mapped
range succeeds and returns exactly its bytes. -/
theorem C15_read_total (m : Mem) (a n : Nat) (hp : PageGranular m) (h : MappedRange m a n) :
    ∃ bs, readMemory m a n = some bs ∧ bs.length = n ∧ ∀ i, i < n → m (a + i) = bs[i]? :=
  read_total m a n hp h

/-- from one word on (and for whole words) not even page granularity is needed: every word that is
fetched lies inside `[a, a+n)`. -/
theorem C15_read_total_long (m : Mem) (a n : Nat) (h8 : 8 ≤ n ∨ n % 8 = 0) (h : MappedRange m a n) :
    (readMemory m a n).isSome = true :=
  read_total_long m a n h8 h

/-- the witness of the repaired defect `read-tail-of-mapping-eio` (memory `onePageL`: exactly one page
`[4096, 8192)` mapped; read `a = 8189`, `n = 3`, the last three bytes of the mapping — the single word
peek at 8189 ran 5 bytes past the page) now succeeds.  Replayed on the real code by `corpus/C15`. -/
theorem C15_read_witness : PageGranular onePageL ∧ MappedRange onePageL 8189 3 ∧
    (readMemory onePageL 8189 3).isSome = true :=
  ⟨onePageL_granular, onePageL_mapped_tail,
    (read_success_iff onePageL 8189 3 onePageL_granular).2 onePageL_mapped_tail⟩

/-! ## Writes -/

/-- `store` is the specification of a write: inside `[a, a+n)` the new bytes, outside the old memory. -/
theorem C15_store_spec (m : Mem) (a : Nat) (bs : List Byte) (x : Nat) :
    (a ≤ x ∧ x < a + bs.length → store m a bs x = bs[x - a]?) ∧
    (¬ (a ≤ x ∧ x < a + bs.length) → store m a bs x = m x) :=
  store_spec m a bs x

/-- **C15_write_exact.**  After a successful DAP `write_bytes` (writeMemory / setVariable /
setExpression) the memory is the old memory with `[a, a+n) := bytes` and nothing else changed — any
alignment, any length, across word and page boundaries. -/
theorem C15_write_exact (m : Mem) (a : Nat) (bs : List Byte) (m' : Mem)
    (h : writeBytesDap m a bs = .ok m') : m' = store m a bs :=
  write_exact m a bs m' h

/-- no slice bound / `usize` underflow of `write_bytes` is reachable. -/
theorem C15_write_no_panic (m : Mem) (a : Nat) (bs : List Byte) : writeBytesDap m a bs ≠ .panic :=
  write_no_panic m a bs

/-- exact success condition as implemented: every aligned word that meets `[a, a+n)` is mapped. -/
theorem C15_write_success_iff_words (m : Mem) (a : Nat) (bs : List Byte) :
    (∃ m', writeBytesDap m a bs = .ok m') ↔
      (bs = [] ∨ MappedRange m (a / 8 * 8) ((a + bs.length + 7) / 8 * 8 - a / 8 * 8)) :=
  write_success_iff_words m a bs

/-- with page-granular mappings that is exactly "the written range is mapped" (full strength). -/
theorem C15_write_success_iff (m : Mem) (a : Nat) (bs : List Byte) (hp : PageGranular m) :
    (∃ m', writeBytesDap m a bs = .ok m') ↔ MappedRange m a bs.length :=
  write_success_iff m a bs hp

/-- a failing write has written a proper prefix of the data and nothing else: in particular nothing
outside `[a, a+n)` has changed. -/
theorem C15_write_fail_confined (m : Mem) (a : Nat) (bs : List Byte) (m' : Mem)
    (h : writeBytesDap m a bs = .err m') : ∃ k, k < bs.length ∧ m' = store m a (bs.take k) :=
  write_fail_confined m a bs m' h

/-- `Debugger::write_memory` (one `PTRACE_POKEDATA`, any alignment): when `[a, a+8)` is mapped it succeeds
and changes exactly `[a, a+8)` to the little-endian bytes of the value.  Otherwise it fails; the kernel has
then already written the leading bytes that lie before the first unmapped byte (a word straddling into an
unmapped page) — still nothing outside `[a, a+8)`. -/
theorem C15_poke_exact (m : Mem) (a w : Nat) :
    (MappedRange m a 8 → pokeData m a w = .ok (store m a (wordBytes 8 w))) ∧
    (¬ MappedRange m a 8 → ∃ k, k < 8 ∧ (∀ i, i < k → (m (a + i)).isSome = true) ∧ (m (a + k)).isSome = false ∧
        pokeData m a w = .err (store m a ((wordBytes 8 w).take k))) :=
  poke_exact m a w

/-- a write followed by a read of the same range returns the written bytes. -/
theorem C15_write_then_read (m : Mem) (a : Nat) (bs : List Byte) (m' : Mem) (hp : PageGranular m)
    (h : writeBytesDap m a bs = .ok m') : readMemory m' a bs.length = some bs :=
  write_then_read m a bs m' hp h

/-! ## Registers (tables extracted from `register.rs` on every run) -/

/-- **C15_reg_roundtrip.**  For every register of the extracted table: `value (update m r v) r = v`
and every other register keeps its value. -/
theorem C15_reg_roundtrip (m : RegFile) (r : Nat) (hr : r < numRegs) (v : Nat) :
    RegisterMap.value (RegisterMap.update m r v) r = v ∧
    ∀ r', r' < numRegs → r' ≠ r →
      RegisterMap.value (RegisterMap.update m r v) r' = RegisterMap.value m r' :=
  reg_roundtrip m r hr v

/-- `set_register_value` (GETREGS, convert, update, convert back, SETREGS) changes exactly the kernel
field that carries the register's name — what the program sees — and `get_register_value` reads it back. -/
theorem C15_reg_write_visible (k : RegFile) (r : Nat) (hr : r < numRegs) (v : Nat) :
    ∃ kf, kernelFieldOf r = some kf ∧
      (∀ g, g < kernelFields.length → setRegisterValue k r v g = if g = kf then v else k g) ∧
      getRegisterValue (setRegisterValue k r v) r = v :=
  reg_write_visible k r hr v

/-! ## Disassembly -/

/-- **C15_disasm_masks_patches.**  If the text read from the process agrees with the original
instructions everywhere except at breakpoint addresses and every breakpoint inside the function carries
the original byte as `saved`, the masked text is the original text — wherever else breakpoints sit (the
end address included): the disassembler sees no patch. -/
theorem C15_disasm_masks_patches (start stop : Nat) (orig text : List Byte) (bps : List Bp)
    (hlen : orig.length = stop - start) (htl : text.length = orig.length)
    (hsaved : ∀ bp ∈ bps, start ≤ bp.addr → bp.addr < stop → orig[bp.addr - start]? = some bp.saved)
    (hagree : ∀ i, i < orig.length → (∀ bp ∈ bps, bp.addr ≠ start + i) → text[i]? = orig[i]?) :
    maskPatches start stop text bps = .ok orig :=
  disasm_masks_patches start stop orig text bps hlen htl hsaved hagree

/-- **C15_disasm_total** (full strength; false before the repair of the inclusive filter
`brkpt.addr <= fn_end`): masking never faults, whatever the breakpoints are, and keeps the length. -/
theorem C15_disasm_total (start stop : Nat) (text : List Byte) (bps : List Bp)
    (htl : text.length = stop - start) :
    ∃ t, maskPatches start stop text bps = .ok t ∧ t.length = text.length :=
  disasm_total start stop text bps htl

/-- the witness of the repaired defect `disasm-breakpoint-at-function-end-panics` (it indexed one past the
text): a breakpoint exactly at the end address is ignored.  Replayed on the real code by `corpus/C15`. -/
theorem C15_disasm_witness : maskPatches 0 1 [0x90] [⟨1, 0⟩] = .ok [0x90] :=
  disasm_end_bp_ignored

/-! ## setVariable / setExpression scalars -/

/-- a representable integer survives `parse_set_value` + a later decode of the variable, and the write
has exactly the variable's size. -/
theorem C15_setvar_int_roundtrip (k : IntKind) (s : List Char) (i : Int)
    (hp : parseInt k.signed (trim s) = some i) (hr : k.inRange i) :
    ∃ bs, parseSetInt k s = some bs ∧ bs.length = k.bytes ∧ decodeInt k bs = i :=
  setvar_int_roundtrip k s i hp hr

/-- **C15_setvar_range** (full strength; false before the repair of the `as` casts): a value that does
not fit the variable is refused. -/
theorem C15_setvar_range (k : IntKind) (s : List Char) (i : Int)
    (hp : parseInt k.signed (trim s) = some i) (hr : ¬ k.inRange i) : parseSetInt k s = none :=
  setvar_range k s i hp hr

/-- so: whatever `parse_set_value` accepts for an integer variable is read back as the value written. -/
theorem C15_setvar_accepted_exact (k : IntKind) (s : List Char) (bs : List Byte)
    (h : parseSetInt k s = some bs) :
    ∃ i, parseInt k.signed (trim s) = some i ∧ k.inRange i ∧ bs.length = k.bytes ∧ decodeInt k bs = i :=
  setvar_accepted k s bs h

/-- the witness of the repaired defect `setvalue-out-of-range-truncated`: `300` into a `u8` stored 44,
now it is refused.  Replayed on the real code by `corpus/C15`. -/
theorem C15_setvar_witness : parseInt IntKind.u8.signed (trim "300".toList) = some 300 ∧
    ¬ IntKind.u8.inRange 300 ∧ parseSetInt .u8 "300".toList = none :=
  setvar_u8_300

/-! ## Sanity tests (evaluated, *not* proofs) and non-vacuity -/

def twoPages : Mem := fun x => if 4096 ≤ x ∧ x < 12288 then some (UInt8.ofNat (x % 251)) else none

#guard readMemory twoPages 4100 3 == some [UInt8.ofNat (4100 % 251), UInt8.ofNat (4101 % 251), UInt8.ofNat (4102 % 251)]
#guard readMemory twoPages 12285 3 == some ([12285, 12286, 12287].map fun x => UInt8.ofNat (x % 251))  -- last 3 bytes of the mapping (failed before the repair)
#guard readMemory twoPages 12277 11 == some ((List.range 11).map fun i => UInt8.ofNat ((12277 + i) % 251))
#guard readMemory twoPages 4096 3 == some ([4096, 4097, 4098].map fun x => UInt8.ofNat (x % 251))    -- first bytes of the mapping
#guard readMemory twoPages 12285 4 == none
#guard readMemory twoPages 12280 8 == some ((List.range 8).map fun i => UInt8.ofNat ((12280 + i) % 251))
#guard (match writeBytesDap twoPages 8189 [1, 2, 3, 4, 5, 6] with
        | .ok m' => readMemory m' 8184 16 == some ([8184, 8185, 8186, 8187, 8188].map (fun x => UInt8.ofNat (x % 251)) ++ [1, 2, 3, 4, 5, 6] ++ [8195, 8196, 8197, 8198, 8199].map (fun x => UInt8.ofNat (x % 251)))
        | _ => false)
#guard (match writeBytesDap twoPages 12285 [1, 2, 3] with | .ok _ => true | _ => false)   -- write of the tail works
#guard (match writeBytesDap twoPages 12285 [1, 2, 3, 4] with | .err _ => true | _ => false)
#guard parseSetInt .u8 "300".toList == none
#guard parseSetInt .u8 "255".toList == some [255]
#guard parseSetInt .i8 "-128".toList == some [128]
#guard parseSetInt .i8 "128".toList == none
#guard parseSetInt .u128 "340282366920938463463374607431768211455".toList == some (List.replicate 16 255)
#guard parseSetInt .i8 "-1".toList == some [255]
#guard parseSetInt .u8 "-1".toList == none
#guard parseSetInt .i16 " 0x7fff ".toList == some [255, 127]
#guard (match maskPatches 100 104 [0xCC, 2, 0xCC, 4] [⟨100, 1⟩, ⟨102, 3⟩, ⟨300, 9⟩] with | .ok t => t == [1, 2, 3, 4] | _ => false)
#guard (match maskPatches 100 104 [1, 2, 3, 4] [⟨104, 9⟩] with | .ok t => t == [1, 2, 3, 4] | _ => false)   -- breakpoint at the end address: ignored
#guard getRegisterValue (setRegisterValue (fun _ => 7) 16 99) 16 == 99

end BsVerif.MemIO
