import BsVerif.Lemmas.Scope
import BsVerif.Gen.Dwregs
/-!
# C19 — only what is in scope is shown, and it belongs to the selected frame

Theorems about `Model/Scope.lean` (the model is tied to the code by the correspondence run of `./check C19`).
Everything is quantified over ALL DIE trees, pcs, names, location lists, register contents and call stacks.
-/
namespace BsVerif.Scope
open BsVerif.Gen

/-! ## 1. `var locals`: exactly the variables whose nearest enclosing block contains the pc -/

/-- specification: the nearest enclosing `lexical_block`/`subprogram` of a DIE with ancestor path `p` (innermost first) -/
def nearestScope (p : Path) : Option Info := p.find? fun i => i.tag = Tag.block ∨ i.tag = Tag.subprogram

/-- specification: `e` is a variable DIE below `f` whose nearest enclosing block (if any) has a range `[lo, hi)` containing pc -/
def InScope (f : Die) (pc : Nat) (e : Entry) : Prop :=
  e ∈ descP [] f ∧ e.2.info.tag = Tag.variable ∧
    ∀ i, nearestScope e.1 = some i → ∃ r ∈ i.ranges, r.lo ≤ pc ∧ pc < r.hi

theorem nearestScope_eq (p : Path) : nearestScope p = p.find? Info.isScope := by
  unfold nearestScope
  congr 1; funext i
  by_cases h : i.tag = Tag.block ∨ i.tag = Tag.subprogram
  · simp [h, (isScope_iff i).mpr h]
  · have : i.isScope = false := by
      cases hh : i.isScope
      · rfl
      · exact absurd ((isScope_iff i).mp hh) h
    simp [h, this]

theorem validAt_iff (p : Path) (pc : Nat) :
    validAt p pc = true ↔ ∀ i, nearestScope p = some i → ∃ r ∈ i.ranges, r.lo ≤ pc ∧ pc < r.hi := by
  unfold validAt walkUp
  rw [nearestScope_eq]
  cases h : p.find? Info.isScope with
  | none => simp
  | some i => simp [inRanges_iff]

theorem isValidVar_iff (f : Die) (pc : Nat) (e : Entry) : (e ∈ bfs f ∧ isValidVar pc e = true) ↔ InScope f pc e := by
  unfold InScope isValidVar
  rw [mem_bfs, Bool.and_eq_true, validAt_iff]
  simp

/-- **C19_locals_in_scope.** For every function DIE tree, pc and DIE: `local_variables(pc)` lists it iff it is a
    `DW_TAG_variable` in the function's subtree whose nearest enclosing lexical block / subprogram has a range
    containing pc (variables of sibling blocks, of blocks not yet entered or already left are exactly the ones excluded). -/
theorem C19_locals_in_scope (f : Die) (pc : Nat) (e : Entry) : e ∈ localVariables f pc ↔ InScope f pc e := by
  unfold localVariables
  rw [List.mem_filter, isValidVar_iff]

/-- a variable whose nearest enclosing block does not contain the pc is never listed -/
theorem C19_locals_excludes_other_blocks (f : Die) (pc : Nat) (e : Entry) (b : Info)
    (hb : nearestScope e.1 = some b) (hout : ∀ r ∈ b.ranges, ¬ (r.lo ≤ pc ∧ pc < r.hi)) : e ∉ localVariables f pc := by
  rw [C19_locals_in_scope]
  rintro ⟨_, _, h⟩
  obtain ⟨r, hr, hin⟩ := h b hb
  exact hout r hr hin

/-- `arg all` = the formal parameters that are direct children of the function DIE, in order, whatever the pc -/
theorem C19_args_are_direct_parameters (f : Die) (i : Info) :
    i ∈ parameters f ↔ (∃ d ∈ f.children, d.info = i) ∧ i.tag = Tag.param := by
  simp [parameters, List.mem_filter]

/-! ## 2. A name resolves to the INNERMOST live binding -/

theorem isCandidate_iff (f : Die) (pc n : Nat) (e : Entry) :
    (e ∈ bfs f ∧ isCandidate pc n e = true) ↔ (InScope f pc e ∧ e.2.info.name = some n) := by
  rw [← isValidVar_iff]
  unfold isCandidate isValidVar
  simp only [Bool.and_eq_true, beq_iff_eq]
  constructor
  · rintro ⟨h, ht, hn, hv⟩; exact ⟨⟨h, ht, hv⟩, hn⟩
  · rintro ⟨⟨h, ht, hv⟩, hn⟩; exact ⟨h, ht, hn, hv⟩

/-- the candidates are exactly the live bindings of the name -/
theorem mem_candidates (f : Die) (pc n : Nat) (e : Entry) :
    e ∈ candidates f pc n ↔ (InScope f pc e ∧ e.2.info.name = some n) := by
  unfold candidates
  rw [List.mem_filter, isCandidate_iff]

/-- `var <name>`: what is found is in scope and carries the name -/
theorem C19_lookup_sound (f : Die) (pc n : Nat) (v : Entry) (h : localVariable f pc n = some v) :
    InScope f pc v ∧ v.2.info.name = some n := by
  unfold localVariable at h
  exact (mem_candidates f pc n v).mp (List.mem_of_getLast? h)

/-- `var <name>` finds nothing iff no binding of the name is in scope -/
theorem C19_lookup_complete (f : Die) (pc n : Nat) :
    localVariable f pc n = none ↔ ∀ e, InScope f pc e → e.2.info.name ≠ some n := by
  unfold localVariable
  rw [List.getLast?_eq_none_iff]
  constructor
  · intro h e he hn
    have hm := (mem_candidates f pc n e).mpr ⟨he, hn⟩
    rw [h] at hm
    cases hm
  · intro h
    apply List.eq_nil_iff_forall_not_mem.mpr
    intro e he
    have hm := (mem_candidates f pc n e).mp he
    exact h e hm.1 hm.2

/-- **C19_shadow_innermost.** For every function DIE tree, pc and name: the binding `var <name>` shows is in scope,
    carries the name, and NO live binding of the name is nested deeper — a shadowed name resolves to its innermost
    live binding (the traversal is breadth-first, hence depth-sorted, and the last match is kept). -/
theorem C19_shadow_innermost (f : Die) (pc n : Nat) (v : Entry) (h : localVariable f pc n = some v) :
    (InScope f pc v ∧ v.2.info.name = some n) ∧
    ∀ w, InScope f pc w → w.2.info.name = some n → w.1.length ≤ v.1.length := by
  refine ⟨C19_lookup_sound f pc n v h, ?_⟩
  unfold localVariable at h
  intro w hw hn
  exact getLast_deepest (depthSorted_filter _ (bfs_depthSorted f)) h w ((mem_candidates f pc n w).mpr ⟨hw, hn⟩)

/- History: before the repair (`fix: a shadowed variable name resolved to the outer binding`) `local_variable` returned
   the FIRST match of the breadth-first walk, i.e. a live binding of MINIMAL depth; on `shadowWitness` below, pc 0x30,
   the name `x` resolved to the outer binding 0x21 instead of 0x31.  The witness is replayed on the real debugger on
   every run (corpus/C19/witnesses.req, oracle key shadowed-name-resolves-to-an-outer-binding). -/

/-- witness: `fn f() { let x = 1; { let x = 2; <pc 0x30> } }` as rustc lays it out -/
def shadowWitness : Die :=
  .node { id := 0x10, tag := .subprogram, ranges := [⟨0x00, 0x80⟩] } [
    .node { id := 0x20, tag := .block, ranges := [⟨0x08, 0x78⟩] } [
      .node { id := 0x21, tag := .variable, name := some 0x78 } [],          -- outer `x`
      .node { id := 0x30, tag := .block, ranges := [⟨0x20, 0x50⟩] } [
        .node { id := 0x31, tag := .variable, name := some 0x78 } [] ] ] ]   -- inner `x`

def outerX : Entry :=
  ([{ id := 0x20, tag := .block, ranges := [⟨0x08, 0x78⟩] }, { id := 0x10, tag := .subprogram, ranges := [⟨0x00, 0x80⟩] }],
   .node { id := 0x21, tag := .variable, name := some 0x78 } [])
def innerX : Entry :=
  ([{ id := 0x30, tag := .block, ranges := [⟨0x20, 0x50⟩] }, { id := 0x20, tag := .block, ranges := [⟨0x08, 0x78⟩] },
    { id := 0x10, tag := .subprogram, ranges := [⟨0x00, 0x80⟩] }],
   .node { id := 0x31, tag := .variable, name := some 0x78 } [])

theorem shadowWitness_lookup : localVariable shadowWitness 0x30 0x78 = some innerX := by
  simp [localVariable, candidates, bfs, shadowWitness, Die.size, sizeList, bfsAux, isCandidate, validAt, walkUp, Info.isScope,
    Die.info, inRanges, Range.contains, innerX]

theorem shadowWitness_lookup_outer : localVariable shadowWitness 0x10 0x78 = some outerX := by
  simp [localVariable, candidates, bfs, shadowWitness, Die.size, sizeList, bfsAux, isCandidate, validAt, walkUp, Info.isScope,
    Die.info, inRanges, Range.contains, outerX]

theorem innerX_inScope : InScope shadowWitness 0x30 innerX := by
  refine ⟨?_, rfl, ?_⟩
  · simp [shadowWitness, descP, descPL, innerX]
  · intro i hi
    simp [nearestScope, innerX] at hi
    subst hi
    exact ⟨⟨0x20, 0x50⟩, by simp, by decide, by decide⟩

/-! ## 2b. Outer frames: the scope is taken INSIDE the call instruction -/

/-- The property speaks of "the current location of the selected frame"; for an outer frame that is its call
    instruction, which occupies `[ra - len, ra)` where `ra` is the return address the unwinder reports as the frame's pc.
    Environment (the compiler's): scope ranges are made of whole instructions — no range of a scope of `f` begins or ends
    strictly inside the instruction `[lo, hi)`. -/
def WholeInstr (f : Die) (lo hi : Nat) : Prop :=
  ∀ e ∈ descP [] f, ∀ i, nearestScope e.1 = some i → ∀ r ∈ i.ranges, (r.lo ≤ lo ∨ hi ≤ r.lo) ∧ (r.hi ≤ lo ∨ hi ≤ r.hi)

/-- frame 0 is looked up at its pc -/
theorem C19_frame0_scope (f : Die) (pc : Nat) : localVariables f (lookupPc 0 pc) = localVariables f pc := rfl

/-- **C19_outer_frame_scope.** For every function DIE tree, every outer frame `k+1` with return address `ra` and every
    address `a` of its call instruction `[ra - len, ra)` (any length): the variables listed in the frame are exactly
    those in scope at `a` — whether or not the return address is the first address of another block or the address
    right after the block's last instruction. -/
theorem C19_outer_frame_scope (f : Die) (k ra len a : Nat)
    (ha : ra - len ≤ a ∧ a < ra) (hw : WholeInstr f (ra - len) ra) (e : Entry) :
    e ∈ localVariables f (lookupPc (k + 1) ra) ↔ e ∈ localVariables f a := by
  have hl : lookupPc (k + 1) ra = ra - 1 := by simp [lookupPc]
  rw [hl, C19_locals_in_scope, C19_locals_in_scope]
  unfold InScope
  constructor
  · rintro ⟨hm, ht, hs⟩
    refine ⟨hm, ht, ?_⟩
    intro i hi
    obtain ⟨r, hr, h1, h2⟩ := hs i hi
    have := hw e hm i hi r hr
    exact ⟨r, hr, by omega, by omega⟩
  · rintro ⟨hm, ht, hs⟩
    refine ⟨hm, ht, ?_⟩
    intro i hi
    obtain ⟨r, hr, h1, h2⟩ := hs i hi
    have := hw e hm i hi r hr
    exact ⟨r, hr, by omega, by omega⟩

/-- … and the name lookup in an outer frame is the lookup at its call instruction (same hypothesis) -/
theorem C19_outer_frame_lookup_scope (f : Die) (k ra len a n : Nat)
    (ha : ra - len ≤ a ∧ a < ra) (hw : WholeInstr f (ra - len) ra) (v : Entry)
    (h : localVariable f (lookupPc (k + 1) ra) n = some v) :
    (InScope f a v ∧ v.2.info.name = some n) ∧ ∀ w, InScope f a w → w.2.info.name = some n → w.1.length ≤ v.1.length := by
  have key : ∀ e, InScope f (lookupPc (k + 1) ra) e ↔ InScope f a e := by
    intro e
    rw [← C19_locals_in_scope, ← C19_locals_in_scope]
    exact C19_outer_frame_scope f k ra len a ha hw e
  obtain ⟨⟨h1, h2⟩, h3⟩ := C19_shadow_innermost f _ n v h
  exact ⟨⟨(key v).mp h1, h2⟩, fun w hw hn => h3 w ((key w).mpr hw) hn⟩

/-- witness of the repaired defect: `{ let x = 2; callee(x) }` with the call (5 bytes) as the block's last instruction
    (block `[0x20, 0x50)`, return address 0x50): in the caller's frame the inner `x` IS listed.  History: before the repair
    (`fix: locals of an outer frame were looked up at the return address`) the scope was taken at 0x50 itself and the
    inner `x` was missing; replayed on the real debugger on every run (corpus/C19/witnesses.req, oracle key
    outer-frame-scope-taken-at-the-return-address-misses-a-live-local). -/
theorem outerFrameWitness : innerX ∈ localVariables shadowWitness (lookupPc 1 0x50) ∧ innerX ∉ localVariables shadowWitness 0x50 := by
  constructor
  · rw [C19_locals_in_scope]
    refine ⟨innerX_inScope.1, rfl, ?_⟩
    intro i hi
    simp [nearestScope, innerX] at hi
    subst hi
    exact ⟨⟨0x20, 0x50⟩, by simp, by decide, by decide⟩
  · intro h2
    rw [C19_locals_in_scope] at h2
    obtain ⟨r, hr, h3, h4⟩ := h2.2.2 ⟨0x30, .block, none, [⟨0x20, 0x50⟩]⟩ (by simp [nearestScope, innerX])
    simp at hr
    subst hr
    simp at h4

/-! ## 3. Location lists -/

/-- the entry used is an entry of the list, its half-open range contains the pc, and no EARLIER entry's does -/
theorem C19_loclist_first_hit (es : List LocEntry) (pc : Nat) (e : LocEntry) (h : selectEntry es pc = some e) :
    (e.lo ≤ pc ∧ pc < e.hi) ∧ ∃ before after, es = before ++ e :: after ∧ ∀ a ∈ before, ¬ (a.lo ≤ pc ∧ pc < a.hi) := by
  unfold selectEntry at h
  obtain ⟨h1, as, bs, hl, hn⟩ := List.find?_eq_some_iff_append.mp h
  refine ⟨by simpa [LocEntry.hit] using h1, as, bs, hl, ?_⟩
  intro a ha
  have := hn a ha
  simp [LocEntry.hit] at this
  omega

/-- **C19_loclist_entry.** For every location list (sorted or not, overlapping or not) and every pc: the code selects
    exactly the entry DWARF prescribes (section 2.6.2: the first entry whose half-open range `[lo, hi)` contains the
    pc), so the entry used is one whose range contains the pc … -/
theorem C19_loclist_entry (es : List LocEntry) (pc : Nat) :
    selectEntry es pc = selectSpec es pc ∧
    ∀ e, selectEntry es pc = some e → e.lo ≤ pc ∧ pc < e.hi := by
  refine ⟨rfl, ?_⟩
  intro e he
  exact (C19_loclist_first_hit es pc e he).1

/-- … and where no entry covers the pc (DWARF: the object has no location there) none is used -/
theorem C19_loclist_none (es : List LocEntry) (pc : Nat) :
    selectEntry es pc = none ↔ ∀ e ∈ es, ¬ (e.lo ≤ pc ∧ pc < e.hi) := by
  unfold selectEntry
  rw [List.find?_eq_none]
  constructor
  · intro h e he; have := h e he; simpa [LocEntry.hit] using this
  · intro h e he; have := h e he; simpa [LocEntry.hit] using this

/-- in particular an entry is never used at its (exclusive) end address on its own account -/
theorem C19_loclist_not_at_end (es : List LocEntry) (pc : Nat) (e : LocEntry) (h : selectEntry es pc = some e) : e.hi ≠ pc := by
  have := (C19_loclist_entry es pc).2 e h
  omega

/-- the location list of `acc` in `c19_scopes_o1::blocks` (rustc 1.89, opt-level 1) -/
def accLoclist : List LocEntry := [⟨0xba00, 0xba15, .const 7⟩, ⟨0xba15, 0xba2f, .bregVal 14 7⟩]

/-- the boundary pc 0xba15 (end of the first entry = begin of the second): the entry that covers the pc (`r14 + 7`) is
    used.  History: before the repair (`fix: location list entry was used at its exclusive end address`) the test was
    `begin <= pc && end >= pc` and the expired first entry (constant 7) was used here; replayed on the real debugger on
    every run (corpus/C19/witnesses.req, oracle key location-list-entry-used-at-its-exclusive-end-address). -/
theorem accLoclist_boundary : selectEntry accLoclist 0xba15 = some ⟨0xba15, 0xba2f, .bregVal 14 7⟩ := by decide

theorem accLoclist_past_end : selectEntry accLoclist 0xba2f = none := by decide

/-! ## 4. DWARF <-> machine register numbering (tables re-extracted from register.rs on every run) -/

/-- System V x86-64 psABI (figure 3.36): DWARF number ↦ index of the `RegisterMap` field holding that register
    (`RegisterMap` fields in declaration order: rax rbx rcx rdx rdi rsi rbp rsp r8..r15 rip eflags cs orig_rax
    fs_base gs_base fs gs ss ds es — the order itself is tied by C15's tables) -/
def abiTable : List (Nat × Nat) :=
  [(0, 0), (1, 3), (2, 2), (3, 1), (4, 5), (5, 4), (6, 6), (7, 7), (8, 8), (9, 9), (10, 10), (11, 11), (12, 12), (13, 13),
   (14, 14), (15, 15), (16, 16), (49, 17), (50, 26), (51, 18), (52, 24), (53, 25), (54, 22), (55, 23), (58, 20), (59, 21)]

/-- the labelled map: which `RegisterMap` field each DWARF number reads, per the CURRENT source -/
def labelledMap : List (Option Nat) := dwarfMapFrom Dwregs.dwarfMapInit Dwregs.dwarfMapInserts (List.range Dwregs.numRegs)

theorem labelledMap_matches_abi :
    (List.range 200).all (fun n => dwarfMapValue labelledMap n == (abiTable.find? (·.1 == n)).map (·.2)) = true := by
  decide +kernel

theorem labelledMap_length : labelledMap.length ≤ 200 := by decide +kernel

theorem abiTable_small : ∀ p ∈ abiTable, p.1 < 200 := by decide

/-- **C19_regmap_reads_abi_register.** For EVERY register file and EVERY DWARF register number, the DWARF-indexed map
    the evaluator builds (`DwarfRegisterMap::from`, a sequence of shifting `insert`s) yields exactly the machine
    register the psABI assigns to that number — and nothing for numbers the psABI does not assign. -/
theorem C19_regmap_reads_abi_register (fields : List Nat) (n : Nat) :
    dwarfMapValue (dwarfMapFrom Dwregs.dwarfMapInit Dwregs.dwarfMapInserts fields) n =
      (abiTable.find? (·.1 == n)).bind fun p => fields[p.2]? := by
  rw [dwarfMapFrom_natural _ _ fields Dwregs.numRegs (by decide)]
  show dwarfMapValue (labelledMap.map _) n = _
  by_cases hn : n < 200
  · have h := List.all_eq_true.mp labelledMap_matches_abi n (List.mem_range.mpr hn)
    have h' : dwarfMapValue labelledMap n = (abiTable.find? (·.1 == n)).map (·.2) := by simpa using h
    unfold dwarfMapValue at h' ⊢
    rw [List.getElem?_map, join_map_bind, h']
    cases abiTable.find? (·.1 == n) <;> rfl
  · have h1 : (labelledMap.map fun o => o.bind fun i => fields[i]?)[n]? = none := by
      rw [List.getElem?_eq_none]; simp; have := labelledMap_length; omega
    have h2 : abiTable.find? (·.1 == n) = none := by
      rw [List.find?_eq_none]; intro p hp; have := abiTable_small p hp; simp; omega
    simp [dwarfMapValue, h1, h2]

/-- **C19_regmap_bijection.** The two hand-written tables of register.rs are mutually inverse and agree with the psABI:
    `Register::dwarf_register` followed by `From<gimli::Register>` is the identity on every register that has a DWARF
    number (rip = 16 included); every arm of `From<gimli::Register>` has a non-negative pattern (so it is reachable: the
    scrutinee is `value.0 as i32` of a `u16`) and `dwarf_register` maps its register back to that number; and the numbers
    are those of psABI figure 3.36.  (`decide` over the tables re-extracted from the source on every run.)
    History: before the repair the arm meant for rip matched `-1` and `Register::from(gimli::Register(16))` panicked. -/
theorem C19_regmap_bijection :
    (∀ p ∈ Dwregs.toDwarfTable, fromDwarf Dwregs.fromDwarfArms p.2 = some p.1) ∧
    (∀ a ∈ Dwregs.fromDwarfArms, 0 ≤ a.1 ∧ toDwarf Dwregs.toDwarfTable a.2 = some a.1.toNat) ∧
    (∀ p ∈ Dwregs.toDwarfTable, (abiTable.find? (·.1 == p.2)).map (·.2) = some p.1) := by
  decide +kernel

theorem fromDwarfArms_small : ∀ a ∈ Dwregs.fromDwarfArms, a.1 < 64 := by decide
theorem toDwarfTable_small : ∀ p ∈ Dwregs.toDwarfTable, p.2 < 64 := by decide

/-- numbers the tables do not know still take the `panic!` arm of `From<gimli::Register>` (modelled as `none`): exactly
    the numbers `dwarf_register` never produces -/
theorem C19_regmap_unknown_numbers (n : Nat) :
    fromDwarf Dwregs.fromDwarfArms n = none ↔ ∀ p ∈ Dwregs.toDwarfTable, p.2 ≠ n := by
  by_cases hn : n < 64
  · have key : (List.range 64).all (fun n =>
        (fromDwarf Dwregs.fromDwarfArms n).isNone == Dwregs.toDwarfTable.all (fun p => p.2 != n)) = true := by decide +kernel
    have := List.all_eq_true.mp key n (List.mem_range.mpr hn)
    simp only [beq_iff_eq] at this
    rw [← Option.isNone_iff_eq_none, this, List.all_eq_true]
    simp
  · constructor
    · intro _ p hp; have := toDwarfTable_small p hp; omega
    · intro _
      unfold fromDwarf
      rw [Option.map_eq_none_iff, List.find?_eq_none]
      intro a ha
      have := fromDwarfArms_small a ha
      simp; omega

/-! ## 5. Values belong to the selected frame -/

/-- a register-resident variable (`DW_OP_reg<n>`) in frame 0 shows the machine register the psABI assigns to `n` -/
theorem C19_register_resident_value (fields : List Nat) (cfas : List Nat) (fb n : Nat) :
    evalLoc (frameRegs (dwarfMapFrom Dwregs.dwarfMapInit Dwregs.dwarfMapInserts fields) cfas 0) fb (.reg n) =
      match (abiTable.find? (·.1 == n)).bind fun p => fields[p.2]? with
      | some v => .val v
      | none => .unknownReg n := by
  simp only [frameRegs, evalLoc]
  rw [C19_regmap_reads_abi_register]
  rfl

/-- **C19_frame_values.** In frame `k+1` a stack variable (`DW_OP_fbreg off`, frame base = rsp) is read at
    `CFA of frame k + off`: relative to the selected activation's own stack pointer, whatever the thread's registers are. -/
theorem C19_frame_values (regs0 : List (Option Nat)) (cfas : List Nat) (k : Nat) (off : Int) (c : Nat)
    (hc : cfas[k]? = some c) :
    evalLoc (frameRegs regs0 cfas (k + 1)) 7 (.fbreg off) = .addr (addOff c off) := by
  simp [frameRegs, evalLoc, dwarfMapValue, hc]

/-- … hence the same variable read in two different activations (recursion) is read at two different addresses,
    each inside its own activation's frame `[cfa_k, cfa_k + size)` -/
theorem C19_frame_values_distinct (regs0 : List (Option Nat)) (cfas : List Nat) (j k : Nat) (off : Nat) (cj ck : Nat)
    (hj : cfas[j]? = some cj) (hk : cfas[k]? = some ck) (hne : cj ≠ ck) (hjw : cj + off < 2 ^ 64) (hkw : ck + off < 2 ^ 64) :
    evalLoc (frameRegs regs0 cfas (j + 1)) 7 (.fbreg off) ≠ evalLoc (frameRegs regs0 cfas (k + 1)) 7 (.fbreg off) ∧
    evalLoc (frameRegs regs0 cfas (k + 1)) 7 (.fbreg off) = .addr (ck + off) := by
  rw [C19_frame_values regs0 cfas j off cj hj, C19_frame_values regs0 cfas k off ck hk]
  have e1 : addOff cj off = cj + off := by unfold addOff; omega
  have e2 : addOff ck off = ck + off := by unfold addOff; omega
  rw [e1, e2]
  refine ⟨?_, rfl⟩
  intro h
  injection h with h
  omega

/-! ## sanity tests and non-vacuity -/

-- the traversal is breadth first: outer x (0x21) before inner x (0x31)
#guard (bfs shadowWitness).map (·.2.info.id) == [0x20, 0x21, 0x30, 0x31]
#guard (localVariables shadowWitness 0x30).map (·.2.info.id) == [0x21, 0x31]
#guard (localVariables shadowWitness 0x10).map (·.2.info.id) == [0x21]       -- inner block not entered
#guard (localVariables shadowWitness 0x04).map (·.2.info.id) == []           -- before the outer block
#guard (localVariables shadowWitness (lookupPc 1 0x50)).map (·.2.info.id) == [0x21, 0x31]   -- outer frame returning to the block's end
#guard (localVariables shadowWitness (lookupPc 0 0x50)).map (·.2.info.id) == [0x21]
#guard (localVariable shadowWitness 0x10 0x78).map (·.2.info.id) == some 0x21
#guard (localVariable shadowWitness 0x30 0x78).map (·.2.info.id) == some 0x31   -- the inner x shadows the outer one
#guard (localVariable shadowWitness 0x60 0x78).map (·.2.info.id) == some 0x21   -- inner block left again
#guard (localVariable shadowWitness 0x04 0x78).map (·.2.info.id) == none
#guard (candidates shadowWitness 0x30 0x78).map (·.2.info.id) == [0x21, 0x31]
#guard dwarfMapValue labelledMap 5 == some 4       -- DWARF 5 = rdi = field 4
#guard dwarfMapValue labelledMap 16 == some 16
#guard dwarfMapValue labelledMap 17 == none
#guard fromDwarf Dwregs.fromDwarfArms 16 == some 16
#guard fromDwarf Dwregs.fromDwarfArms 17 == none
#guard fromDwarf Dwregs.fromDwarfArms 5 == some 4

-- non-vacuity: hypotheses are satisfiable with non-trivial data
example : InScope shadowWitness 0x30 innerX := innerX_inScope
example : innerX ∈ localVariables shadowWitness 0x30 := by
  rw [C19_locals_in_scope]
  exact (C19_lookup_sound shadowWitness 0x30 0x78 innerX shadowWitness_lookup).1
example : localVariable shadowWitness 0x10 0x78 = some outerX := shadowWitness_lookup_outer
-- the shadowing case is covered by the theorem: two live bindings, the deeper one is shown
example : outerX.1.length < innerX.1.length ∧ localVariable shadowWitness 0x30 0x78 = some innerX :=
  ⟨by decide, shadowWitness_lookup⟩
-- the hypothesis of C19_outer_frame_scope is satisfiable at a block edge: the 5-byte call `[0x4b, 0x50)` ending the inner block
example : WholeInstr shadowWitness (0x50 - 5) 0x50 := by
  intro e he i hi r hr
  simp [shadowWitness, descP, descPL] at he
  rcases he with rfl | rfl | rfl | rfl <;> simp [nearestScope] at hi <;> subst hi <;> simp at hr <;> subst hr <;> decide
example : selectEntry accLoclist 0xba10 = some ⟨0xba00, 0xba15, .const 7⟩ := by decide
example : (frameRegs [] [0x7000, 0x7040] 2).regs[7]? = some (some 0x7040) := by decide
example : evalLoc (frameRegs [] [0x7000, 0x7040] 1) 7 (.fbreg 8) ≠ evalLoc (frameRegs [] [0x7000, 0x7040] 2) 7 (.fbreg 8) :=
  (C19_frame_values_distinct [] [0x7000, 0x7040] 0 1 8 0x7000 0x7040 rfl rfl (by decide) (by decide) (by decide)).1

end BsVerif.Scope
