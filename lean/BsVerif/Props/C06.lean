import BsVerif.Model.Value
import BsVerif.Lemmas.ValueBTree
/-!
# C06 — values shown are the values the program holds

Theorems about the executable model `BsVerif.Value` (tied to the real decoder on every run by `./check C06`).
"What the program holds" is stated independently of the decoder: little-endian two's-complement words for scalars,
`(head + i) % cap` for the i-th element of a ring buffer, "bucket j is full iff its control byte has the top bit
clear" for a hashbrown table, consecutive `el`-byte blocks for a contiguous buffer.
-/
namespace BsVerif.Value

/-! ## Scalars: every width, every value -/

/-- the `w` little-endian bytes of `n` (what the CPU stores) -/
def leBytes : Nat → Nat → Bytes
  | 0, _ => []
  | w + 1, n => n % 256 :: leBytes w (n / 256)

theorem leBytes_length (w n : Nat) : (leBytes w n).length = w := by
  induction w generalizing n with
  | zero => rfl
  | succ w ih => simp [leBytes, ih]

theorem take_leBytes (w n : Nat) : List.take w (leBytes w n) = leBytes w n :=
  List.take_of_length_le (by simp [leBytes_length])

theorem leNat_leBytes (w n : Nat) : leNat (leBytes w n) = n % 256 ^ w := by
  induction w generalizing n with
  | zero => simp [leBytes, leNat, Nat.mod_one]
  | succ w ih =>
    simp only [leBytes, leNat, ih]
    rw [Nat.pow_succ, Nat.mul_comm (256 ^ w) 256, Nat.mod_mul]

/-- two's complement image of an integer in a `w`-byte word -/
def twos (w : Nat) (i : Int) : Nat := (i % ((256 ^ w : Nat) : Int)).toNat

/-- **C06_scalar_unsigned**: an unsigned integer of ANY width `w` (1, 2, 4, 8, 16, …) and ANY value that fits is decoded
    from its little-endian bytes to exactly that value. -/
theorem C06_scalar_unsigned (w n : Nat) (h : n < 256 ^ w) : leNat (leBytes w n) = n := by
  rw [leNat_leBytes, Nat.mod_eq_of_lt h]

theorem pow256 (w : Nat) (hw : 0 < w) : 256 ^ w = 2 * 2 ^ (8 * w - 1) := by
  have : (256 : Nat) = 2 ^ 8 := by decide
  rw [this, ← Nat.pow_mul]
  have : 8 * w = (8 * w - 1) + 1 := by omega
  rw [this, Nat.pow_succ]
  simp; omega

/-- **C06_scalar_signed**: a signed integer of ANY width and ANY value in `[-2^(8w-1), 2^(8w-1))` is decoded from the
    little-endian bytes of its two's complement to exactly that value (sign included: i16 is not read as u16). -/
theorem C06_scalar_signed (w : Nat) (hw : 0 < w) (i : Int)
    (lo : -((2 ^ (8 * w - 1) : Nat) : Int) ≤ i) (hi : i < ((2 ^ (8 * w - 1) : Nat) : Int)) :
    toSigned w (leNat (leBytes w (twos w i))) = i := by
  have hp := pow256 w hw
  generalize hM : 2 ^ (8 * w - 1) = M at *
  have hM0 : 0 < M := by rw [← hM]; exact Nat.two_pow_pos _
  have hlt : twos w i < 256 ^ w := by
    unfold twos
    have : (i % ((256 ^ w : Nat) : Int)) < ((256 ^ w : Nat) : Int) := Int.emod_lt_of_pos _ (by rw [hp]; omega)
    have h0 : 0 ≤ (i % ((256 ^ w : Nat) : Int)) := Int.emod_nonneg _ (by rw [hp]; omega)
    omega
  rw [C06_scalar_unsigned w _ hlt]
  unfold toSigned twos
  have hpw : (2 : Nat) ^ (8 * w) = 2 * M := by
    have : (256 : Nat) = 2 ^ 8 := by decide
    rw [← hp, this, ← Nat.pow_mul]
  rw [hM, hpw, hp]
  by_cases hneg : 0 ≤ i
  · have : i % ((2 * M : Nat) : Int) = i := Int.emod_eq_of_lt hneg (by omega)
    rw [this]
    split <;> omega
  · have h1 : i % ((2 * M : Nat) : Int) = (i + ((2 * M : Nat) : Int)) % ((2 * M : Nat) : Int) := by
      rw [Int.add_emod_right]
    have h2 : (i + ((2 * M : Nat) : Int)) % ((2 * M : Nat) : Int) = i + ((2 * M : Nat) : Int) :=
      Int.emod_eq_of_lt (by omega) (by omega)
    rw [h1, h2]
    split <;> omega

example : toSigned 2 (leNat (leBytes 2 (twos 2 (-2)))) = -2 := by decide
example : leNat [0xfe, 0xff] = 65534 ∧ toSigned 2 65534 = -2 := by decide

/-- the model's scalar view on exactly these bytes: signed integers (sizes of `parse_scalar`'s table) -/
theorem C06_scalar_model_signed (sz : Nat) (k : IK) (name : Option String) (a : Option Nat) (i : Int)
    (hk : intKind true sz name = some k) (hsz : 0 < sz)
    (lo : -((2 ^ (8 * sz - 1) : Nat) : Int) ≤ i) (hi : i < ((2 ^ (8 * sz - 1) : Nat) : Int)) :
    scalarValue name (some sz) (some 5) (some ⟨leBytes sz (twos sz i), a⟩) = some (.num k i) := by
  have hz : sz ≠ 0 := by omega
  simp [scalarValue, hk, hz, leBytes_length, take_leBytes, C06_scalar_signed sz hsz i lo hi]

/-- … and unsigned integers -/
theorem C06_scalar_model_unsigned (sz : Nat) (k : IK) (name : Option String) (a : Option Nat) (n : Nat)
    (hk : intKind false sz name = some k) (hsz : 0 < sz) (h : n < 256 ^ sz) :
    scalarValue name (some sz) (some 7) (some ⟨leBytes sz n, a⟩) = some (.num k n) := by
  have hz : sz ≠ 0 := by omega
  simp [scalarValue, hk, hz, leBytes_length, take_leBytes, C06_scalar_unsigned sz n h]

/-- floats are shown as their bit patterns, bool and char from their bytes -/
theorem C06_scalar_model_float (name : Option String) (a : Option Nat) (bits : Nat) (h : bits < 256 ^ 8) :
    scalarValue name (some 8) (some 4) (some ⟨leBytes 8 bits, a⟩) = some (.f64 bits) := by
  simp [scalarValue, leBytes_length, take_leBytes, C06_scalar_unsigned 8 bits h]

theorem C06_scalar_model_f32 (name : Option String) (a : Option Nat) (bits : Nat) (h : bits < 256 ^ 4) :
    scalarValue name (some 4) (some 4) (some ⟨leBytes 4 bits, a⟩) = some (.f32 bits) := by
  simp [scalarValue, leBytes_length, take_leBytes, C06_scalar_unsigned 4 bits h]

theorem C06_scalar_model_char (name : Option String) (a : Option Nat) (c : Nat) (hv : validChar c = true) :
    scalarValue name (some 4) (some 16) (some ⟨leBytes 4 c, a⟩) = some (.chr c) := by
  have h : c < 256 ^ 4 := by
    simp only [validChar, Bool.or_eq_true, Bool.and_eq_true, decide_eq_true_eq] at hv
    have : (256 : Nat) ^ 4 = 4294967296 := by decide
    omega
  simp [scalarValue, leBytes_length, take_leBytes, C06_scalar_unsigned 4 c h, hv]

theorem C06_scalar_model_bool (name : Option String) (a : Option Nat) (b : Bool) :
    scalarValue name (some 1) (some 2) (some ⟨[if b then 1 else 0], a⟩) = some (.bool b) := by
  cases b <;> simp [scalarValue, leNat]

/-! ## Contiguous buffers (`Vec`, arrays, slices, strings): the i-th chunk is the i-th element's bytes -/

/-- **C06_vec**: a buffer that is the concatenation of `n` element images of `el` bytes each is cut into exactly
    those images, in order — for every element size > 0, every length, every content. -/
theorem C06_vec (el : Nat) (blocks : List Bytes) (h : ∀ b ∈ blocks, b.length = el) :
    chunks el blocks.length blocks.flatten = blocks := by
  induction blocks with
  | nil => rfl
  | cons b rest ih =>
    have hb : b.length = el := h b (by simp)
    have hr : ∀ x ∈ rest, x.length = el := fun x hx => h x (by simp [hx])
    simp only [List.length_cons, List.flatten_cons, chunks]
    rw [List.take_left' hb, List.drop_left' hb, ih hr]

example : chunks 2 3 [1, 2, 3, 4, 5, 6] = [[1, 2], [3, 4], [5, 6]] := by decide

/-- zero-sized elements: `len` empty images -/
theorem C06_vec_zst (n : Nat) (bs : Bytes) : chunks 0 n bs = List.replicate n [] := by
  induction n generalizing bs with
  | zero => rfl
  | succ n ih => simp [chunks, ih, List.replicate_succ]

/-! ## VecDeque: the ring split -/

theorem ring_mod (cap head i : Nat) (hi : i < cap) :
    (head + i) % cap = if head % cap + i < cap then head % cap + i else head % cap + i - cap := by
  have hc : 0 < cap := by omega
  have hlt : head % cap < cap := Nat.mod_lt _ hc
  rw [Nat.add_mod, Nat.mod_eq_of_lt hi]
  split
  · next h => exact Nat.mod_eq_of_lt h
  · next h =>
    rw [Nat.mod_eq_sub_mod (by omega)]
    exact Nat.mod_eq_of_lt (by omega)

/-- the ring split of `parse_vec_dequeue_inner` on an unclamped header: logical element `i` is read from physical
    slot `(head + i) % cap` — for every capacity, every head (also `head ≥ cap`), every length up to the capacity -/
theorem ringIdx_spec (cap head len : Nat) (hc : 0 < cap) (hl : len ≤ cap) :
    ringIdx cap head len = (List.range len).map (fun i => (head + i) % cap) := by
  have hlt : head % cap < cap := Nat.mod_lt _ hc
  have hne : cap ≠ 0 := by omega
  apply List.ext_getElem
  · unfold ringIdx; simp only [hne, if_false]; split <;> simp <;> omega
  · intro n h1 h2
    have hn : n < len := by simpa using h2
    have hnc : n < cap := by omega
    simp only [List.getElem_map, List.getElem_range]
    rw [ring_mod cap head n hnc]
    unfold ringIdx
    simp only [hne, if_false]
    split
    · next hge => simp only [List.getElem_map, List.getElem_range]; split <;> omega
    · next hlt2 =>
      rw [List.getElem_append]
      split
      · next hn2 => simp only [List.getElem_map, List.getElem_range]; simp at hn2; split <;> omega
      · next hn2 => simp only [List.getElem_range]; simp at hn2 ⊢; split <;> omega

/-- the two slot ranges `specialize` reads (head part at its slot, wrapped part at slot 0), chained, are `ringIdx` -/
theorem ringIdx_ranges (cap head len : Nat) :
    ringIdx cap head len =
      (List.range (ringRanges cap head len).2.1).map ((ringRanges cap head len).1 + ·) ++
        List.range (ringRanges cap head len).2.2 := by
  unfold ringIdx ringRanges
  simp only
  generalize (if cap = 0 then 0 else head % cap) = ws
  by_cases h : cap - ws ≥ len <;> simp [h]

/-- both ranges lie inside the buffer and together hold `len` slots -/
theorem ringRanges_bounds (cap head len : Nat) (hc : 0 < cap) (hl : len ≤ cap) :
    (ringRanges cap head len).1 + (ringRanges cap head len).2.1 ≤ cap ∧ (ringRanges cap head len).2.2 ≤ cap ∧
      (ringRanges cap head len).2.1 + (ringRanges cap head len).2.2 = len := by
  have hlt : head % cap < cap := Nat.mod_lt _ hc
  have hne : cap ≠ 0 := by omega
  unfold ringRanges
  simp only [hne, if_false]
  split <;> simp <;> omega

/-- **C06_vecdeque_ring** (full strength; repaired by 26a941a): for EVERY capacity — also above CAP_GUARD —, every head and
    every length up to the capacity the slots shown are the slots of the logical sequence (element `i` from slot
    `(head + i) % cap`), cut after the first LEN_GUARD elements (the documented guard: a truncation, never other slots). -/
theorem C06_vecdeque_ring (cap head len : Nat) (hc : 0 < cap) (hl : len ≤ cap) :
    dequeIdx cap head len = (List.range (min len LEN_GUARD.toNat)).map (fun i => (head + i) % cap) := by
  have hlg : LEN_GUARD = 10000 := rfl
  unfold dequeIdx guardLen
  rw [hlg]
  split
  · next h =>
    have e : min len (10000 : Int).toNat = 10000 := by
      have : (10000 : Int).toNat = 10000 := rfl
      rw [this]; omega
    rw [e]
    exact ringIdx_spec cap head 10000 hc (by omega)
  · next h =>
    have e : min len (10000 : Int).toNat = len := by
      have : (10000 : Int).toNat = 10000 := rfl
      rw [this]; omega
    rw [e, Int.toNat_natCast]
    exact ringIdx_spec cap head len hc hl

/-- a deque no longer than the guard is shown whole, whatever its capacity -/
theorem C06_vecdeque_ring_untruncated (cap head len : Nat) (hc : 0 < cap) (hl : len ≤ cap) (hg : (len : Int) ≤ LEN_GUARD) :
    dequeIdx cap head len = (List.range len).map (fun i => (head + i) % cap) := by
  rw [C06_vecdeque_ring cap head len hc hl]
  have hlg : LEN_GUARD = 10000 := rfl
  rw [hlg] at hg ⊢
  have : (10000 : Int).toNat = 10000 := rfl
  rw [this, Nat.min_eq_left (by omega)]

/-- the witness of the repaired defect (capacity 16000 > CAP_GUARD, head 11990, 10 elements: the code as found read slots
    1990…1999): slots 11990…11999.  Replayed on the real code: corpus/C06/bigdeque.req, oracle key
    `vecdeque-capacity-above-guard-wrong-elements`. -/
example : dequeIdx 16000 11990 10 = [11990, 11991, 11992, 11993, 11994, 11995, 11996, 11997, 11998, 11999] := by decide
example : dequeIdx 8 6 5 = [6, 7, 0, 1, 2] := by decide
example : ringRanges 8 6 5 = (6, 2, 3) := by decide

/-- the source no longer clamps the capacity before `head % cap` (re-read from the source every run) -/
theorem C06_vecdeque_clamp_order_tie : Gen.ValGuards.dequeClampBeforeMod = false := by decide

/-! ## hashbrown: the control-byte scan yields exactly the full buckets, each once, in index order -/

section hb
variable (ctrl : Nat → Nat)

/-- the 16 control bytes the decoder loads for group `g` of a table whose control bytes are `ctrl 0, ctrl 1, …` -/
def groupAt (g : Nat) : Bytes := (List.range 16).map fun i => ctrl (16 * g + i)

/-- a bucket is full iff the top bit of its control byte is clear (hashbrown: EMPTY = 0xFF, DELETED = 0x80) -/
def isFull (j : Nat) : Bool := ctrl j < 128

theorem group_scan (g : Nat) :
    (groupFull (groupAt ctrl g)).map (16 * g + ·) = (List.range' (16 * g) 16).filter (isFull ctrl) := by
  have h1 : groupFull (groupAt ctrl g) = (List.range 16).filter (fun i => isFull ctrl (16 * g + i)) := by
    unfold groupFull
    apply List.filter_congr
    intro i hi
    have hi' : i < 16 := by simpa using hi
    simp [groupAt, isFull, List.getD, hi']
  rw [h1, List.range'_eq_map_range, List.filter_map]
  rfl

theorem scan_from (buckets : Nat) (fuel g : Nat) (hg : 16 * g < buckets) (hf : (buckets + 15) / 16 ≤ fuel + g) :
    hbScanFrom (groupAt ctrl) buckets fuel g =
      (List.range' (16 * g) (16 * ((buckets + 15) / 16 - g))).filter (isFull ctrl) := by
  induction fuel generalizing g with
  | zero => omega
  | succ fuel ih =>
    unfold hbScanFrom
    rw [group_scan]
    split
    · next hge =>
      have : (buckets + 15) / 16 - g = 1 := by omega
      rw [this]; simp
    · next hlt =>
      have hlt' : 16 * (g + 1) < buckets := by omega
      rw [ih (g + 1) hlt' (by omega), ← List.filter_append]
      congr 1
      have : 16 * ((buckets + 15) / 16 - g) = 16 + 16 * ((buckets + 15) / 16 - (g + 1)) := by omega
      rw [this, ← List.range'_append_1]
      congr 2

/-- **C06_hashbrown_iter**: for every table size (any number of 16-byte groups, also tables smaller than a group) and
    every control-byte content that satisfies hashbrown's tail invariant (the control bytes between `buckets` and the end of
    the last loaded group are EMPTY/DELETED), the bucket iterator yields exactly the full buckets `j < buckets`, each once,
    in index order: none missing, none invented, none twice. -/
theorem C06_hashbrown_iter (buckets : Nat) (hb : 0 < buckets)
    (tail : ∀ j, buckets ≤ j → j < 16 * ((buckets + 15) / 16) → ctrl j ≥ 128) :
    hbScan (groupAt ctrl) buckets = (List.range buckets).filter (isFull ctrl) := by
  unfold hbScan
  rw [scan_from ctrl buckets (buckets / 16 + 1) 0 (by omega) (by omega)]
  simp only [Nat.mul_zero, Nat.sub_zero]
  have hsplit : 16 * ((buckets + 15) / 16) = buckets + (16 * ((buckets + 15) / 16) - buckets) := by omega
  rw [hsplit, ← List.range'_append_1, List.filter_append]
  have htail : (List.range' (0 + buckets) (16 * ((buckets + 15) / 16) - buckets)).filter (isFull ctrl) = [] := by
    rw [List.filter_eq_nil_iff]
    intro j hj
    rw [List.mem_range'_1] at hj
    have := tail j (by omega) (by omega)
    simp [isFull]; omega
  rw [htail, List.append_nil, List.range_eq_range']

/-- each full bucket exactly once -/
theorem C06_hashbrown_iter_nodup (buckets : Nat) (hb : 0 < buckets)
    (tail : ∀ j, buckets ≤ j → j < 16 * ((buckets + 15) / 16) → ctrl j ≥ 128) :
    (hbScan (groupAt ctrl) buckets).Nodup := by
  rw [C06_hashbrown_iter ctrl buckets hb tail]
  exact List.Nodup.sublist List.filter_sublist List.nodup_range

/-- membership form: bucket `j` is shown iff it exists and is full -/
theorem C06_hashbrown_iter_mem (buckets : Nat) (hb : 0 < buckets)
    (tail : ∀ j, buckets ≤ j → j < 16 * ((buckets + 15) / 16) → ctrl j ≥ 128) (j : Nat) :
    j ∈ hbScan (groupAt ctrl) buckets ↔ j < buckets ∧ ctrl j < 128 := by
  rw [C06_hashbrown_iter ctrl buckets hb tail]
  simp [isFull]

end hb

/-- non-vacuity: a 4-bucket table (smaller than a group) with one tombstone: ctrl = [h, DELETED, h, EMPTY, EMPTY…] -/
example : hbScan (groupAt fun j => if j = 0 then 0x11 else if j = 1 then 0x80 else if j = 2 then 0x7f else 0xff) 4 = [0, 2] := by
  decide
/-- … and a 32-bucket table: the second group is scanned too -/
example : hbScan (groupAt fun j => if j = 3 ∨ j = 17 ∨ j = 31 then 5 else 0xff) 32 = [3, 17, 31] := by decide

/-- bucket `i` lives `(i + 1) * size` bytes below the control bytes (`BucketReflection::next_n` + `location`) -/
theorem C06_hashbrown_bucket_location (ctrlAddr size i : Nat) (h : (i + 1) * size ≤ ctrlAddr) :
    ctrlAddr - (i + 1) * size + size = ctrlAddr - i * size := by
  have : (i + 1) * size = i * size + size := by rw [Nat.add_mul]; simp
  omega

/-! ## Enums: which variant is shown -/

theorem wrapI64_id (v : Int) (lo : -(2 ^ 63 : Int) ≤ v) (hi : v < 2 ^ 63) : wrapI64 v = v := by
  unfold wrapI64 toSigned
  have e64 : ((2 ^ 64 : Nat) : Int) = 18446744073709551616 := by decide
  have e63 : (2 : Int) ^ 63 = 9223372036854775808 := by decide
  rw [e64]
  rw [e63] at lo hi
  by_cases hneg : 0 ≤ v
  · have : v % 18446744073709551616 = v := Int.emod_eq_of_lt hneg (by omega)
    rw [this]; split <;> omega
  · have h1 : v % 18446744073709551616 = (v + 18446744073709551616) % 18446744073709551616 := by
      rw [Int.add_emod_right]
    have h2 : (v + 18446744073709551616) % 18446744073709551616 = v + 18446744073709551616 :=
      Int.emod_eq_of_lt (by omega) (by omega)
    rw [h1, h2]; split <;> omega

/-- integer kinds of at most 64 bits -/
def NotWide (k : IK) : Prop := k ≠ .i128 ∧ k ≠ .u128
instance (k : IK) : Decidable (NotWide k) := by unfold NotWide; exact inferInstance

theorem pow256_le (w : Nat) (hw : w ≤ 8) : 256 ^ w ≤ 2 ^ 64 := by
  have : (2 : Nat) ^ 64 = 256 ^ 8 := by decide
  rw [this]; exact Nat.pow_le_pow_right (by decide) hw

theorem constMask_id (w t : Nat) (hw : 0 < w) (hw8 : w ≤ 8) (ht : t < 256 ^ w) : t % 2 ^ constMaskBits w = t := by
  apply Nat.mod_eq_of_lt
  unfold constMaskBits
  split
  · have : (2 : Nat) ^ (8 * w) = 256 ^ w := by
      have : (256 : Nat) = 2 ^ 8 := by decide
      rw [this, ← Nat.pow_mul]
    rw [this]; exact ht
  · exact Nat.lt_of_lt_of_le ht (pow256_le w hw8)

/-- **C06_enum_discr_key** (full strength; repaired by b7942d3): the key under which the type parser files a variant of an
    enum with an UNSIGNED tag equals the discriminant number the decoder reads from memory (`try_as_number` of the tag) — for
    every tag width up to 8 bytes and EVERY value, top bit set or not (`#[repr(u8)] … B = 255`: key 255, memory 255;
    a u64 tag ≥ 2^63: both sides the same negative i64). -/
theorem C06_enum_discr_key (w t : Nat) (k : IK) (hw : 0 < w) (hw8 : w ≤ 8) (ht : t < 256 ^ w) (hk : NotWide k) :
    some (discrKey w t) = (Scalar.num k (t : Int)).asNumber := by
  unfold NotWide at hk
  simp [discrKey, intConstData, Scalar.asNumber, hk.1, hk.2, constMask_id w t hw hw8 ht]

/-- … and for tags narrower than 8 bytes the key IS the unsigned value -/
theorem C06_enum_discr_key_value (w t : Nat) (hw : 0 < w) (hw7 : w ≤ 7) (ht : t < 256 ^ w) : discrKey w t = (t : Int) := by
  have h56 : 256 ^ w ≤ 256 ^ 7 := Nat.pow_le_pow_right (by decide) hw7
  have e : (256 : Nat) ^ 7 = 72057594037927936 := by decide
  have e63 : (2 : Int) ^ 63 = 9223372036854775808 := by decide
  simp only [discrKey, intConstData, constMask_id w t hw (by omega) ht]
  exact wrapI64_id _ (by omega) (by rw [e63]; omega)

/-- the witness of the repaired defect: `B = 255` of a `repr(u8)` enum was filed under -1 -/
example : discrKey 1 255 = 255 := by decide
/-- a constant of a SIGNED tag keeps gimli's sign extension: `-1i8` in `DW_FORM_data1` -/
example : intConstData none 1 255 = -1 := by decide

/-- **C06_cenum_const_key** (full strength; repaired by b7942d3): every enumerator constant of a C-like enum with an unsigned
    underlying type gets a key, and it is the number `try_as_number` makes of the value in memory — also above i64::MAX
    (`#[repr(u64)] … Q = 9223372036854775808`). -/
theorem C06_cenum_const_key (raw : Nat) (k : IK) (h : raw < 2 ^ 64) (hk : NotWide k) :
    constKey raw = (Scalar.num k (raw : Int)).asNumber := by
  unfold NotWide at hk
  have hm : raw % 2 ^ constMaskBits 8 = raw := Nat.mod_eq_of_lt (by simpa [constMaskBits] using h)
  simp [constKey, intConstUdata, Scalar.asNumber, hk.1, hk.2, hm]

theorem C06_cenum_const_key_value (raw : Nat) (h : raw < 2 ^ 63) : constKey raw = some (raw : Int) := by
  have hm : raw % 2 ^ constMaskBits 8 = raw := Nat.mod_eq_of_lt (by simp [constMaskBits]; omega)
  have e63 : (2 : Int) ^ 63 = 9223372036854775808 := by decide
  simp only [constKey, intConstUdata, hm]
  rw [wrapI64_id _ (by omega) (by rw [e63]; omega)]

/-- the witness of the repaired defect: the enumerator 2^63 was dropped; now it is filed under the i64 with the same bits, which is
    what the u64 read from memory becomes -/
example : constKey 9223372036854775808 = some (-9223372036854775808) := by decide
example : (Scalar.num .u64 9223372036854775808).asNumber = some (-9223372036854775808) := by decide

/-- **C06_enum_select** (full strength; repaired by e8d5673): every integer discriminant the decoder can read — 128-bit tags
    included — selects by its numeric value. -/
theorem C06_enum_select (k : IK) (v : Int) (lo : -(2 ^ 63 : Int) ≤ v) (hi : v < 2 ^ 63) :
    (Scalar.num k v).asNumber = some v := by
  have e63 : (2 : Int) ^ 63 = 9223372036854775808 := by decide
  have lo' : (-9223372036854775808 : Int) ≤ v := by rw [e63] at lo; omega
  have hi' : v < 9223372036854775808 := by rw [e63] at hi; omega
  have h64 : v < 18446744073709551616 := by omega
  simp only [Scalar.asNumber]
  by_cases h1 : k = .i128
  · subst h1; simp [lo', hi']
  · by_cases h2 : k = .u128
    · subst h2; simp [h64, wrapI64_id v lo hi]
    · simp [h1, h2, wrapI64_id v lo hi]

/-- the 16-byte block constant of a 128-bit tag (`DW_AT_discr_value` of `Option<u128>`) is filed under the same number the
    decoder reads from the tag in memory -/
theorem C06_enum_wide_key (t : Nat) (h : t < 2 ^ 64) :
    wideConst true (leBytes 16 t) = (Scalar.num .u128 (t : Int)).asNumber := by
  have h16 : t < 256 ^ 16 := Nat.lt_of_lt_of_le h (by decide)
  have hl : (leBytes 16 t).length = 16 := leBytes_length 16 t
  have hne : (leBytes 16 t).isEmpty = false := by
    cases hq : leBytes 16 t with
    | nil => rw [hq] at hl; simp at hl
    | cons _ _ => rfl
  have hi : (t : Int) < 18446744073709551616 := by omega
  simp [wideConst, hl, hne, C06_scalar_unsigned 16 t h16, h, Scalar.asNumber, hi]

/-- `Option<u128>`: `None` = block 0, `Some` = block 1; memory tag 1 selects key 1 -/
example : wideConst true (leBytes 16 1) = some 1 ∧ (Scalar.num .u128 1).asNumber = some 1 := by decide

/-- **C06_enum_single_variant** (repaired by 7066f0e): an enum without discriminant member that has one variant shows it,
    whatever is (not) read as discriminant -/
theorem C06_enum_single_variant (e : Option Int × Member) (dv : Option Int) : chooseVariant none [e] dv = some e.2 := by
  simp [chooseVariant]

/-- with a discriminant member the variant is selected by the number read from memory -/
theorem C06_enum_by_discriminant (m : Member) (enums : List (Option Int × Member)) (v : Int) :
    chooseVariant (some m) enums (some v) = selectVariant enums v := by
  simp [chooseVariant]

/-- **C06_enum_no_foreign_variant**: whatever the table, the variant shown for number `v` is keyed `v` or is the default
    (niche) variant — never a variant keyed with a different number -/
theorem C06_enum_no_foreign_variant (enums : List (Option Int × Member)) (v : Int) (m : Member)
    (h : selectVariant enums v = some m) : ∃ e ∈ enums, e.2 = m ∧ (e.1 = some v ∨ e.1 = none) := by
  unfold selectVariant at h
  split at h
  · next e he =>
    have hm := List.mem_of_find?_eq_some he
    have hp := List.find?_some he
    refine ⟨e, hm, by simpa using h, Or.inl ?_⟩
    simpa using hp
  · next he =>
    rw [Option.map_eq_some_iff] at h
    obtain ⟨e, hd, hm2⟩ := h
    have hm := List.mem_of_find?_eq_some hd
    have hp := List.find?_some hd
    refine ⟨e, hm, hm2, Or.inr ?_⟩
    simpa using hp

/-- a keyed variant wins over the default one (explicit tag present ⇒ that variant) -/
theorem C06_enum_keyed_variant_shown (enums : List (Option Int × Member)) (v : Int) (e : Option Int × Member)
    (h : enums.find? (·.1 == some v) = some e) : selectVariant enums v = some e.2 := by
  simp [selectVariant, h]

/-! ## Structures and arrays: every member / element is decoded from exactly its own bytes -/

@[simp] theorem sliceBytes_exact (pre img post : Bytes) :
    sliceBytes (pre ++ (img ++ post)) pre.length img.length = some img := by
  unfold sliceBytes
  have : pre.length + img.length ≤ (pre ++ (img ++ post)).length := by simp <;> omega
  simp only [this, if_true]
  rw [List.drop_left, List.take_left]

/-- **C06_struct_member_exact**: for every type graph, every structure layout and every member at a constant offset, the
    bytes handed to the member's decoder are exactly the member's image inside the parent's image (and its address is
    the parent's address plus the offset) — whatever surrounds it. -/
theorem C06_struct_member_exact (c : Ctx) (m : Member) (ty : Nat) (pre img post : Bytes) (a : Option Nat)
    (hty : m.ty = some ty) (hloc : m.loc = some (some (pre.length : Int))) (hsz : c.size ty = some img.length) :
    memberData c m ⟨pre ++ (img ++ post), a⟩ = some ⟨img, a.map (· + pre.length)⟩ := by
  have hnn : ¬ ((pre.length : Int) < 0) := by omega
  simp [memberData, hty, hloc, hsz, hnn, sliceBytes_exact]

/-- … and so the member shown is the decoder's result on exactly those bytes, under the member's own name -/
theorem C06_struct_member_value (c : Ctx) (rec : Rec) (m : Member) (ty : Nat) (pre img post : Bytes) (a : Option Nat)
    (hty : m.ty = some ty) (hloc : m.loc = some (some (pre.length : Int))) (hsz : c.size ty = some img.length) :
    parseMember c rec m (some ⟨pre ++ (img ++ post), a⟩) =
      (rec (some ⟨img, a.map (· + pre.length)⟩) ty).map fun v => (m.name, v) := by
  simp [parseMember, hty, C06_struct_member_exact c m ty pre img post a hty hloc hsz]

theorem parseItems_getElem (rec : Rec) (el elSize : Nat) (base : Option Nat) (f : Option Data → Val)
    (hrec : ∀ d, rec d el = some (f d)) (blocks : List Bytes) (i : Nat) :
    (parseItems rec el elSize base i blocks).length = blocks.length ∧
    ∀ j (hj : j < blocks.length), (parseItems rec el elSize base i blocks)[j]? =
      some (f (some ⟨blocks[j], base.map (· + (i + j) * elSize)⟩)) := by
  induction blocks generalizing i with
  | nil => simp [parseItems]
  | cons b rest ih =>
    simp only [parseItems, hrec]
    refine ⟨by simp [(ih (i + 1)).1], ?_⟩
    intro j hj
    cases j with
    | zero => simp
    | succ j =>
      have hj' : j < rest.length := by simpa using hj
      simp only [List.getElem?_cons_succ, List.getElem_cons_succ]
      rw [(ih (i + 1)).2 j hj']
      have : i + 1 + j = i + (j + 1) := by omega
      rw [this]

/-- **C06_array_elements_exact**: a buffer that is the concatenation of `n` element images is shown as exactly `n` items,
    item `j` being the element decoder's result on exactly the j-th image at address `base + j * el` — in order, none
    missing, none duplicated, for every element size and every `n` (arrays, `Vec`, slices share this path). -/
theorem C06_array_elements_exact (rec : Rec) (el : Nat) (base : Option Nat) (f : Option Data → Val)
    (hrec : ∀ d, rec d el = some (f d)) (elSize : Nat) (blocks : List Bytes) (h : ∀ b ∈ blocks, b.length = elSize) :
    let items := parseItems rec el elSize base 0 (chunks elSize blocks.length blocks.flatten)
    items.length = blocks.length ∧
    ∀ j (hj : j < blocks.length), items[j]? = some (f (some ⟨blocks[j], base.map (· + (0 + j) * elSize)⟩)) := by
  rw [C06_vec elSize blocks h]
  exact parseItems_getElem rec el elSize base f hrec blocks 0

/-! ## BTreeMap / BTreeSet: the walk is the in-order traversal -/

/-- **C06_btree_inorder**: for every type-graph markup, every memory and every well-formed B-tree image of ANY height
    (up to 62; a real tree of height 62 has more than 6^62 entries) rooted at `p` — `TreeOK`: each node's `len`, `parent`,
    `parent_idx` and edges are consistent, keys/vals arrays hold `len` entries — `first_leaf_edge` reaches the first leaf
    and `KVIterator` yields exactly the in-order sequence of (key image, value image) pairs (child 0, entry 0, child 1,
    …, child len; recursively), nothing missing, duplicated or invented, and then stops.  (Lemmas/ValueBTree.lean) -/
theorem C06_btree_inorder (c : Ctx) (lm : LeafMarkup) (im : InternalMarkup) (ks vs H p : Nat) (hH : H ≤ 62)
    (ht : TreeOK c lm im ks vs H p none 0) (hfuel : (inorder c lm im ks vs H p).length < btFuel) :
    descend c lm im 64 (nodeAt c lm im H p) = some (firstLeaf c lm im H p) ∧
    btCollect c lm im ks vs btFuel (firstLeaf c lm im H p) 0 = some (inorder c lm im ks vs H p) :=
  btree_walk_inorder c lm im ks vs H p hH ht hfuel

/-- a root that is a leaf (maps of ≤ 11 entries): entries `idx…len-1` in order -/
theorem C06_btree_leaf_walk (c : Ctx) (lm : LeafMarkup) (im : InternalMarkup) (ks vs : Nat) (n : Node)
    (h0 : n.height = 0) (hp : n.leaf.parent = none)
    (hk : ks * n.leaf.len ≤ n.leaf.keys.length) (hv : vs * n.leaf.len ≤ n.leaf.vals.length)
    (hlen : n.leaf.len < btFuel) :
    btCollect c lm im ks vs btFuel n 0 =
      some ((List.range n.leaf.len).map fun j => (n.leaf.kd ks (0 + j), n.leaf.vd vs (0 + j))) :=
  btCollect_leaf c lm im ks vs n h0 hp hk hv n.leaf.len 0 btFuel (by omega) (by omega)

/-! non-vacuity of `TreeOK` (and a test of the walk) -/

/-- a one-leaf tree image at address 1000: parent = null, parent_idx = 0, len = 2, keys [7, 9], values [70, 90] -/
def exG : Graph := fun i => if i = 10 then some (.scalar none [] (some 8) (some 7)) else if i = 11 then some (.scalar none [] (some 2) (some 7))
  else if i = 12 then some (.scalar none [] (some 2) (some 7)) else none
def exMem : Nat → Nat → Option Bytes := fun a n =>
  if a = 1000 ∧ n = 16 then some [0, 0, 0, 0, 0, 0, 0, 0, 0, 0, 2, 0, 7, 9, 70, 90] else none
def exC : Ctx := ⟨exG, exMem, 89⟩
def exLm : LeafMarkup := ⟨⟨some (some 0), none, some 10⟩, ⟨some (some 8), none, some 11⟩, ⟨some (some 10), none, some 11⟩,
  ⟨some (some 12), none, some 12⟩, ⟨some (some 14), none, some 12⟩, 16⟩
def exIm : InternalMarkup := ⟨⟨some (some 0), none, some 10⟩, ⟨some (some 0), none, some 10⟩, 16⟩

example : TreeOK exC exLm exIm 1 1 0 1000 none 0 := ⟨_, rfl, rfl, rfl, rfl, ⟨by decide, by decide⟩⟩
example : (inorder exC exLm exIm 1 1 0 1000).map (fun kv => (kv.1.bytes, kv.2.bytes)) = [([7], [70]), ([9], [90])] := by decide

/-! ## Collections show exactly their elements -/

/-- **C06_collections_exact (VecDeque)**: the slots shown are pairwise distinct and as many as the length (up to the
    guard): no element missing, none shown twice — for every capacity -/
theorem C06_collections_exact_deque (cap head len : Nat) (hc : 0 < cap) (hl : len ≤ cap) :
    (dequeIdx cap head len).length = min len LEN_GUARD.toNat ∧ (dequeIdx cap head len).Nodup := by
  rw [C06_vecdeque_ring cap head len hc hl]
  refine ⟨by simp, ?_⟩
  rw [List.Nodup, List.pairwise_iff_getElem]
  intro i j hi hj hij
  have hj' : j < min len LEN_GUARD.toNat := by simpa using hj
  have hjl : j < len := by omega
  have hi' : i < len := by omega
  simp only [List.getElem_map, List.getElem_range]
  intro heq
  rw [ring_mod cap head i (by omega), ring_mod cap head j (by omega)] at heq
  have := Nat.mod_lt head hc
  split at heq <;> split at heq <;> omega

end BsVerif.Value
