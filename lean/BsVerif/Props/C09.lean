import BsVerif.Lemmas.Tracer
/-!
# C09 — all-stop and exactly-once reporting for every thread interleaving

Theorems about the tracer machine of `Model/Tracer.lean` (an acceptor of the stream of kernel calls with their
answers).  "For every stream" below means: for EVERY list of calls and answers, well-formed or not, admitted by a
real kernel or not — the machine's bookkeeping does not depend on the kernel behaving.  Statements that need the
kernel's rules say so and name them.
-/
namespace BsVerif.Tracer

/-! ## Bookkeeping of the thread table -/

/-- The three operations of `TraceeCtl` keep thread ids unique, thread numbers unique and below the global counter —
for every table, thread id and status. -/
theorem C09_table_ops_wf (T : Table) (h : WF T) (t : Tid) (st : Status) :
    WF (T.add t) ∧ WF (T.remove t) ∧ WF (T.setSt t st) :=
  ⟨wf_add t h, wf_remove t h, wf_setSt t st h⟩

/-- `C09_bookkeeping` (uniqueness part): after ANY stream of kernel calls and answers, from any control state, the
thread table has unique thread ids and unique thread numbers, all below `NEXT_TRACEE_NUM`. -/
theorem C09_bookkeeping_wf (s : St) (es : List Ev) (h : WF s.tbl) : WF (run s es).tbl :=
  (run_reach s es).wf h

/-- … and the table after any stream is obtained from the initial one by `add` / `remove` / `set status` only
(no other manipulation exists in any branch, including the panic and error branches). -/
theorem C09_bookkeeping_ops_only (s : St) (es : List Ev) : Reach s.tbl (run s es).tbl := run_reach s es

example : WF { rows := [⟨0, 1, .stop⟩, ⟨7, 2, .running⟩], next := 3 } := by
  refine ⟨?_, ?_⟩
  · simp
  · intro r hr; simp at hr; rcases hr with rfl | rfl <;> simp

end BsVerif.Tracer
