import BsVerif.Lemmas.TracerInv
/-!
# C09 — all-stop and exactly-once reporting for every thread interleaving

Theorems about the tracer machine of `Model/Tracer.lean` (an acceptor of the stream of kernel calls with their
answers; it mirrors `resume`, `group_stop_interrupt`, `apply_new_status`, `single_step`, `TraceeCtl` and
`step_over_breakpoint`).  "For every stream" below means: for EVERY list of calls and answers, well-formed or not,
admitted by a real kernel or not — none of these statements depends on the kernel behaving.
What the statements do NOT say: that a thread the tracer marks stopped is stopped in the kernel (that is the
kernel's ptrace contract: a reported stop lasts until the tracer resumes the thread; it is sampled by the oracle
through /proc on every run, not proved).
-/
namespace BsVerif.Tracer

/-! ## Bookkeeping of the thread table -/

/-- The three operations of `TraceeCtl` keep thread ids unique, thread numbers unique and below the global counter —
for every table, thread id and status. -/
theorem C09_table_ops_wf (T : Table) (h : WF T) (t : Tid) (st : Status) :
    WF (T.add t) ∧ WF (T.remove t) ∧ WF (T.setSt t st) :=
  ⟨wf_add t h, wf_remove t h, wf_setSt t st h⟩

/-- `C09_bookkeeping` (uniqueness part): after ANY stream of kernel calls and answers, from any control state, the
thread table has unique thread ids and unique thread numbers, all below `NEXT_TRACEE_NUM`. -/
theorem C09_bookkeeping_wf (s : St) (es : List Ev) (h : WF s.tbl) : WF (run s es).tbl :=
  (run_reach s es).wf h

/-- … and the table after any stream is obtained from the initial one by `add` / `remove` / `set status` only
(no other manipulation exists in any branch, including the panic and error branches). -/
theorem C09_bookkeeping_ops_only (s : St) (es : List Ev) : Reach s.tbl (run s es).tbl := run_reach s es

example : WF { rows := [⟨0, 1, .stop⟩, ⟨7, 2, .running⟩], next := 3 } := by
  refine ⟨?_, ?_⟩
  · simp
  · intro r hr; simp at hr; rcases hr with rfl | rfl <;> simp

/-! ## All-stop, tracer side -/

/-- Only `cont_stopped(_ex)` resumes: for every control state and every call with every answer — unless the call is a
successful `PTRACE_CONT` accepted inside `cont_stopped(_ex)` at the head of the `resume` loop — the set of threads the
tracer marks running does not grow.  In particular nothing inside the group stop, inside `apply_new_status`
(clone / exit / signal / breakpoint events), inside `single_step` or at the prompt marks a thread running. -/
theorem C09_only_cont_stopped_marks_running (s : St) (e : Ev) (h : ¬ isResumeCont s e) :
    ∀ t, t ∈ runningIds (step s e).tbl → t ∈ runningIds s.tbl :=
  (step_mreach s e h).running_subset

/-- At the prompt the tracer issues no call: any call observed there is rejected and the table is untouched
("stays stopped until the user resumes", tracer side). -/
theorem C09_prompt_is_quiescent (s : St) (e : Ev) (h : s.aw = .idle) :
    (step s e).tbl = s.tbl ∧ ∃ w, (step s e).aw = .dead w := by
  simp [step, h, die]

/-- Coverage argument of `group_stop_interrupt`, for every table: (1) at the start of a round every thread marked
running is on the snapshot; (2) coverage survives every operation that does not resume (all of the group stop's and
`apply_new_status`'s, by `C09_only_cont_stopped_marks_running`); (3) interrupting `t` moves it from the list to
"current"; (4) ESRCH marks it stopped and drops it; (5) finishing the current tracee (`if !is_stopped {set_stop}`) drops
it; (6) when the round finds no running tracee left on its list, NO thread is marked running. -/
theorem C09_group_stop_coverage :
    (∀ T : Table, Cov T T.keys) ∧
    (∀ (A B : Table) (acc : List Tid), MReach A B → Cov A acc → Cov B acc) ∧
    (∀ (T : Table) (todo : List Tid) (t : Tid), Cov T todo → Cov T (t :: todo.erase t)) ∧
    (∀ (T : Table) (todo : List Tid) (t : Tid), Cov T todo → Cov (T.setSt t .stop) (todo.erase t)) ∧
    (∀ (T : Table) (todo : List Tid) (cur : Tid), Cov T (cur :: todo) → Cov (T.finish cur) todo) ∧
    (∀ (s : St) (todo : List Tid), Cov s.tbl todo → gsCands s todo = [] → runningIds s.tbl = []) :=
  ⟨cov_keys, fun _ _ _ h c => cov_mreach h c, fun _ _ t c => cov_intr_ok t c, fun _ _ t c => cov_setStop_erase t c,
   fun _ _ cur c => cov_finish cur c, cov_cands_empty⟩

/-- The second round of the group stop is a no-op whenever the first left nobody marked running: a complete pass
over ANY list issues no call, opens the latch and returns (so "2 rounds → 1" is behaviour-preserving in the model). -/
theorem C09_second_round_noop (s : St) (g : Gs) (h : runningIds s.tbl = []) : pick1 s g = gsEnd s g := by
  have hc : gsCands s g.todo = [] := by
    apply List.filter_eq_nil_iff.mpr
    intro t _ hr
    have := isRunning_iff.mp hr
    rw [h] at this
    exact absurd this List.not_mem_nil
  simp [pick1, hc]

/-- … and the first round always leaves nobody marked running: when it finds no running tracee left on its list the
table has none at all (so the second round never interrupts anybody). -/
theorem C09_first_round_complete (s : St) (g : Gs) (hc : Cov s.tbl g.todo) (h : gsCands s g.todo = []) :
    runningIds s.tbl = [] := cov_cands_empty s g.todo hc h

/-- a debugging session: `continue` commands, each followed by the calls observed until the next prompt -/
def session (s : St) (cmds : List (List Ev)) : St := cmds.foldl (fun s es => run (cmdContinue s) es) s

theorem C09_inv_run {s : St} (es : List Ev) (h : Inv s) : Inv (run s es) := by
  induction es generalizing s with
  | nil => exact h
  | cons e es ih => exact ih (inv_step e h)

theorem C09_inv_session {s : St} (cmds : List (List Ev)) (h : Inv s) : Inv (session s cmds) := by
  induction cmds generalizing s with
  | nil => exact h
  | cons es cmds ih => exact ih (C09_inv_run es (inv_cmdContinue h))

/-- `C09_all_stop`, tracer side, for EVERY session and EVERY stream of kernel answers: start at a prompt where no
thread is marked running and no group stop is in progress; issue any number of `continue` commands, the kernel
answering whatever it likes; whenever the machine is back at the prompt with anything but "the process exited"
(a breakpoint stop or a signal stop), NO thread of the table is marked running — the group stop has visited every
thread, including the ones created while it was in progress, for every order of the snapshot. -/
theorem C09_all_marked_stopped (s : St) (cmds : List (List Ev))
    (h0 : s.aw = .idle) (h1 : s.gs = none) (h2 : runningIds s.tbl = []) :
    (session s cmds).aw = .idle → (∀ c, (session s cmds).last ≠ some (.exit c)) →
      runningIds (session s cmds).tbl = [] := by
  have hI : Inv s := ⟨covOK_of_none h1, by intro g h; simp [h1] at h, by intro g h; simp [h1] at h,
    fun _ _ => h2, by intro a r h; simp [h0] at h⟩
  exact (C09_inv_session cmds hI).prompt

/-- … and while a group stop is in progress every thread marked running is still on its list (the invariant the
statement above is proved with), in every reachable state. -/
theorem C09_group_stop_covers (s : St) (cmds : List (List Ev)) (es : List Ev)
    (h0 : s.aw = .idle) (h1 : s.gs = none) (h2 : runningIds s.tbl = []) (g : Gs)
    (hg : (run (cmdContinue (session s cmds)) es).gs = some g) :
    ∀ t ∈ runningIds (run (cmdContinue (session s cmds)) es).tbl, t ∈ accG g := by
  have hI : Inv s := ⟨covOK_of_none h1, by intro g h; simp [h1] at h, by intro g h; simp [h1] at h,
    fun _ _ => h2, by intro a r h; simp [h0] at h⟩
  exact (C09_inv_run es (inv_cmdContinue (C09_inv_session cmds hI))).cov g hg

-- non-vacuity: a two-thread session in which the second thread is absorbed by the group stop (test, not a theorem)
#guard
  let s0 : St := { tbl := { rows := [⟨0, 1, .stop⟩, ⟨1, 2, .stop⟩], next := 3 }, bps := [(100, 72)], fpc := none }
  let s1 := session s0 [[.cont 0 0 .ok, .cont 1 0 .ok, .wait none (.sig 0 5), .siginfo 0 128 101 .ok,
    .setpc 0 100 101 .ok, .intr 1 .ok, .wait (some 1) (.sig 1 5), .siginfo 1 128 101 .ok, .setpc 1 100 101 .ok]]
  s1.aw == .idle && s1.last == some (.bp 0 100) && s1.tbl.allStopped

/-! ## Exactly once: the pc rewind and the lifted breakpoint -/

/-- Every accepted program-counter rewrite is the rewind of a breakpoint trap by exactly one byte onto an enabled
user breakpoint whose INT3 is in place (not the one currently lifted by step-over): the thread will trap there again
when resumed — whether the hit is reported (it arrived through `resume`'s `waitpid(-1)`) or absorbed by a group stop. -/
theorem C09_rewind_exact (s : St) (t new old : Nat) (r : Ans)
    (h : ∀ w, (step s (.setpc t new old r)).aw ≠ .dead w) :
    new + 1 = old ∧ hasBp s new = true ∧ s.lifted ≠ some new ∧ r = .ok := by
  unfold step at h
  split at h <;> simp_all [die]
  all_goals (split at h <;> simp_all [die])
  all_goals (split at h <;> simp_all [die])
  all_goals (split at h <;> simp_all [die])
  all_goals (split at h <;> simp_all [die])

/-- After any accepted rewind the thread that trapped is marked stopped — whether its hit is reported now, later, or
was absorbed by the group stop of another thread's event. -/
theorem C09_rewound_thread_marked_stopped (s : St) (t new old : Nat) (r : Ans) (haw : s.aw = .setpc t old)
    (h : ∀ w, (step s (.setpc t new old r)).aw ≠ .dead w) :
    t ∉ runningIds (step s (.setpc t new old r)).tbl := by
  have hr := C09_rewind_exact s t new old r h
  have h1 : step s (.setpc t new old r) = groupStop { s with tbl := s.tbl.setSt t .stop } (some t) (.brk t new) := by
    simp [step, haw, hr.1, hr.2.1, hr.2.2.1, hr.2.2.2]
  rw [h1]
  intro hm
  exact not_running_after_setStop s.tbl t ((groupStop_mreach _ _ _).running_subset t hm)

/-- A breakpoint hit that arrives through `resume`'s `waitpid(-1)` (no group stop in progress) is the one this
`continue` reports: after its rewind the machine is either back at the prompt reporting exactly this thread and
address, or inside the group stop that will return exactly this thread and address. -/
theorem C09_resume_hit_is_reported (s : St) (t new old : Nat) (haw : s.aw = .setpc t old) (hg : s.gs = none)
    (ho : s.outer = .resume) (h : ∀ w, (step s (.setpc t new old .ok)).aw ≠ .dead w) :
    let s' := step s (.setpc t new old .ok)
    (s'.aw = .idle ∧ s'.last = some (.bp t new)) ∨ (∃ g, s'.gs = some g ∧ g.ret = .brk t new) := by
  have hr := C09_rewind_exact s t new old .ok h
  have h1 : step s (.setpc t new old .ok) = groupStop { s with tbl := s.tbl.setSt t .stop } (some t) (.brk t new) := by
    simp [step, haw, hr.1, hr.2.1, hr.2.2.1]
  simp only [h1]
  simp only [groupStop, hg, pick, pick1, gsEnd, deliverOuter, ho, toPrompt]
  repeat' split
  all_goals simp

/-- A breakpoint hit that arrives while a group stop is in progress (the stop of another thread's event) is absorbed:
it does not change what the command will report — the group stop keeps its return value, or the command returns
that value. -/
theorem C09_concurrent_hit_is_absorbed (s : St) (t new old : Nat) (g : Gs) (haw : s.aw = .setpc t old)
    (hg : s.gs = some g) (hc : g.cur = some t) (ho : s.outer = .resume)
    (hq : ∀ t' sg, g.ret = .sig t' sg → isQuiet sg = false)   -- group stops are only started for non-quiet signals
    (h : ∀ w, (step s (.setpc t new old .ok)).aw ≠ .dead w) :
    let s' := step s (.setpc t new old .ok)
    (s'.aw = .idle ∧ s'.last = some g.ret.reason) ∨ (∃ g', s'.gs = some g' ∧ g'.ret = g.ret) := by
  have hr := C09_rewind_exact s t new old .ok h
  have h1 : step s (.setpc t new old .ok) = groupStop { s with tbl := s.tbl.setSt t .stop } (some t) (.brk t new) := by
    simp [step, haw, hr.1, hr.2.1, hr.2.2.1]
  simp only [h1]
  simp only [groupStop, hg, ret, hc, deliverGs, pick, pick1, gsEnd, deliverOuter, ho, toPrompt, GRet.reason]
  repeat' split
  all_goals simp_all [GRet.reason]
  all_goals (rename_i hs _ _; simp [hq _ _ hs] at *)

/-! ## Exactly once beyond `continue`-only histories: FALSE of the unchanged code -/

/-- Full statement: a hit of a USER breakpoint is never swallowed, whatever other breakpoints are active. -/
def C09_every_user_hit_reported_full : Prop :=
  ∀ (kinds : List BpKind) (owner : Bool), absorbsSilently kinds .user owner = false

/-- the named hypothesis: no temporary breakpoint is active (true of `continue`-only histories) -/
def noTemporaries (kinds : List BpKind) : Bool := kinds.all (fun k => k != .temporary && k != .temporaryAsync)

/-- Proved part: without temporary breakpoints (no step / next / finish in flight) every user-breakpoint hit goes
through the reporting path — the path the theorems above are about. -/
theorem C09_every_user_hit_reported_partial (kinds : List BpKind) (owner : Bool) (h : noTemporaries kinds = true) :
    absorbsSilently kinds .user owner = false := by
  have hn : kinds.any (fun k => k == .temporary || k == .temporaryAsync) = false := by
    apply Bool.eq_false_iff.mpr
    intro hany
    obtain ⟨k, hk, hk2⟩ := List.any_eq_true.mp hany
    have := List.all_eq_true.mp h k hk
    cases k <;> simp_all
  simp [absorbsSilently, hn]

/-- Counterexample (replayed on the real debugger: key `arrival-during-step-of-another-thread-not-reported`,
corpus/C09/next-absorbs-hits-of-other-threads.req): while one thread executes `next` (a temporary breakpoint is
planted and all threads are resumed) the hit of ANOTHER thread at a user breakpoint is stepped over silently. -/
theorem C09_every_user_hit_reported_counterexample : ¬ C09_every_user_hit_reported_full := by
  intro h
  have := h [.user, .temporary] false
  simp [absorbsSilently] at this

/-! ## Non-vacuity (tests, not theorems): concrete states that meet the hypotheses above -/

/-- three threads; thread 0 sits on the breakpoint at 100 after the last report -/
def demo0 : St :=
  { tbl := { rows := [⟨0, 1, .stop⟩, ⟨1, 2, .stop⟩, ⟨2, 3, .stop⟩], next := 4 }, bps := [(100, 72), (200, 85)],
    fpc := some 100, last := some (.bp 0 100) }

/-- step over the breakpoint, continue everybody, thread 1 traps at 200 through `waitpid(-1)` -/
def demoTrap : List Ev :=
  [.poke 100 72, .sstep 0 0 .ok, .wait (some 0) (.sig 0 5), .siginfo 0 1 104 .ok, .poke 100 204,
   .cont 2 0 .ok, .cont 0 0 .ok, .cont 1 0 .ok, .wait none (.sig 1 5), .siginfo 1 128 201 .ok]

-- hypotheses of C09_rewind_exact / C09_resume_hit_is_reported: an accepted rewind outside a group stop
#guard (run (cmdContinue demo0) demoTrap).aw == .setpc 1 201
#guard (run (cmdContinue demo0) demoTrap).gs == none
#guard (step (run (cmdContinue demo0) demoTrap) (.setpc 1 200 201 .ok)).aw == .intr
#guard ((step (run (cmdContinue demo0) demoTrap) (.setpc 1 200 201 .ok)).gs.map (·.ret)) == some (.brk 1 200)
-- a wrong rewind (two bytes) and a rewind to a non-breakpoint are refused
#guard (step (run (cmdContinue demo0) demoTrap) (.setpc 1 199 201 .ok)).aw == .dead "reject:setpc"
-- hypotheses of C09_concurrent_hit_is_absorbed: thread 2 is interrupted and turns out to have trapped at 100;
-- thread 0 exits while the group stop is in progress; the command reports thread 1 at 200, nobody marked running
def demoAbsorb : List Ev :=
  demoTrap ++ [.setpc 1 200 201 .ok, .intr 2 .ok, .wait (some 2) (.sig 2 5), .siginfo 2 128 101 .ok]
#guard (run (cmdContinue demo0) demoAbsorb).aw == .setpc 2 101
#guard ((run (cmdContinue demo0) demoAbsorb).gs.map (·.cur)) == some (some 2)
def demoEnd : List Ev :=
  demoAbsorb ++ [.setpc 2 100 101 .ok, .intr 0 .ok, .wait (some 0) (.evexit 0), .cont 0 0 .ok]
#guard (run (cmdContinue demo0) demoEnd).aw == .idle
#guard (run (cmdContinue demo0) demoEnd).last == some (.bp 1 200)
#guard (run (cmdContinue demo0) demoEnd).tbl.allStopped
#guard (run (cmdContinue demo0) demoEnd).tbl.keys == [1, 2]
-- a thread created during the group stop (clone event of the interrupted thread) is added stopped
def demoClone : List Ev :=
  demoTrap ++ [.setpc 1 200 201 .ok, .intr 2 .ok, .wait (some 2) (.clone 2), .evmsg 2 3 .ok, .wait (some 3) (.evstop 3 19),
    .intr 0 .ok, .wait (some 0) (.evstop 0 19)]
#guard (run (cmdContinue demo0) demoClone).aw == .idle
#guard (run (cmdContinue demo0) demoClone).tbl.keys == [0, 1, 2, 3]
#guard (run (cmdContinue demo0) demoClone).tbl.allStopped
-- omitting a PTRACE_CONT, or interrupting a stopped tracee, is rejected
#guard (run (cmdContinue demo0) [.poke 100 72, .sstep 0 0 .ok, .wait (some 0) (.sig 0 5), .siginfo 0 1 104 .ok,
   .poke 100 204, .cont 2 0 .ok, .cont 0 0 .ok, .wait none (.sig 1 5)]).aw == .dead "reject:wait-before-all-continued"

end BsVerif.Tracer
