import BsVerif.Lemmas.Lines
import BsVerif.Lemmas.LinesClosest
/-!
# C04 — address ↔ source answers agree with the line table and the function ranges

Property theorems only.  Model: `BsVerif/Model/Lines.lean` (mirror of `BsUnit::find_place_by_pc`,
`find_exact_place_by_pc`, `DebugInformation::{find_unit_by_pc, find_function_by_pc, find_closest_place,
find_places_in_line_range}`, `prolog_end_place`).  The tables the theorems quantify over are the rows /
ranges *as the implementation stores them*; the correspondence run ships exactly those to the model and
checks them against llvm-dwarfdump's decoding.
-/
namespace BsVerif.Lines

/-! ## binary search (`core::slice::binary_search_by`, toolchain 1.89), for ALL sorted key functions -/

/-- **C04_binary_search_found.** On every sorted slice, `Ok(i)` means: `i` is in range, its key is the
target, and every later key is greater — i.e. `i` is the *last* of the equal keys. -/
theorem C04_binary_search_found (key : Nat → Nat) (len t i : Nat) (hs : SortedKey key len)
    (h : binarySearch key len t = .found i) :
    i < len ∧ key i = t ∧ ∀ j, i < j → j < len → t < key j :=
  binarySearch_found hs h

/-- **C04_binary_search_not_found.** On every sorted slice, `Err(i)` means: the target does not occur,
all keys before `i` are smaller and all keys from `i` on are greater (`i` is the insertion point). -/
theorem C04_binary_search_not_found (key : Nat → Nat) (len t i : Nat) (hs : SortedKey key len)
    (h : binarySearch key len t = .notFound i) :
    i ≤ len ∧ (∀ j, j < i → key j < t) ∧ (∀ j, i ≤ j → j < len → t < key j) ∧ (∀ j, j < len → key j ≠ t) := by
  have := binarySearch_notFound hs h
  refine ⟨this.1, this.2.1, this.2.2, ?_⟩
  intro j hj he
  by_cases hji : j < i
  · have := this.2.1 j hji; omega
  · have := this.2.2 j (by omega) hj; omega

/-! ## pc → row -/

/-- **C04_pc_to_row_last.** Rows sorted by address, first row at or below `pc`: `find_place_by_pc` returns the
row at the GREATEST index whose address is ≤ pc (so, among rows of equal address, the last stored one). -/
theorem C04_pc_to_row_last (rows : Array Row) (pc : Nat) (hs : RowsSorted rows) (r0 : Row)
    (h0 : rows[0]? = some r0) (hle : r0.addr ≤ pc) :
    ∃ p r, findPlaceByPc rows pc = some (p, r) ∧ rows[p]? = some r ∧ r.addr ≤ pc ∧
      ∀ (j : Nat) (r' : Row), p < j → rows[j]? = some r' → pc < r'.addr := by
  have hne : 0 < rows.size := lt_of_getElem? h0
  have sp := pcPos_spec rows pc hs hne (by rw [keyOf_some h0]; exact hle)
  obtain ⟨r, hr⟩ := getElem?_of_lt rows sp.1
  refine ⟨pcPos rows pc, r, by simp [findPlaceByPc, placeAt, hr], hr, ?_, ?_⟩
  · have := sp.2.1; rwa [keyOf_some hr] at this
  · intro j r' hj hr'
    have := sp.2.2 j hj (lt_of_getElem? hr')
    rwa [keyOf_some hr'] at this

/-- what the line table says about `pc`: `r` is a row that is not an end_sequence row, whose address is the
greatest address ≤ pc of the table (pc lies inside the sequence `r` belongs to). -/
def IsPcRow (rows : Array Row) (pc : Nat) (r : Row) : Prop :=
  (∃ i : Nat, rows[i]? = some r) ∧ r.es = false ∧ r.addr ≤ pc ∧ ∀ (j : Nat) (r' : Row), rows[j]? = some r' → r'.addr ≤ pc → r'.addr ≤ r.addr

/-- no end_sequence row shares its address with a row that is not one (decidable: a Bool) -/
def noSharedEndSeqB (rows : Array Row) : Bool :=
  rows.all fun r => rows.all fun r' => !(r.es && !r'.es && r.addr == r'.addr)
def NoSharedEndSeq (rows : Array Row) : Prop := noSharedEndSeqB rows = true
instance (rows : Array Row) : Decidable (NoSharedEndSeq rows) := by unfold NoSharedEndSeq; infer_instance

/-- among rows of equal address, end_sequence rows are stored BEFORE the others
(what the parser's sort by `(address, !end_sequence)` establishes: `storeRows_endSeqFirst`) -/
def EndSeqFirstOnTies (rows : Array Row) : Prop :=
  ∀ (i j : Nat) (ri rj : Row), rows[i]? = some ri → rows[j]? = some rj → ri.addr = rj.addr → ri.es = true → rj.es = false → i < j

theorem noShared_index {rows : Array Row} (h : NoSharedEndSeq rows) {i j : Nat} {ri rj : Row}
    (hi : rows[i]? = some ri) (hj : rows[j]? = some rj) (hes : ri.es = true) (hne : rj.es = false) :
    ri.addr ≠ rj.addr := by
  unfold NoSharedEndSeq noSharedEndSeqB at h
  rw [Array.all_eq_true] at h
  have hi' := lt_of_getElem? hi
  have hj' := lt_of_getElem? hj
  have h1 := h i hi'
  rw [Array.all_eq_true] at h1
  have h2 := h1 j hj'
  have ei : rows[i] = ri := by simpa [hi'] using hi
  have ej : rows[j] = rj := by simpa [hj'] using hj
  rw [ei, ej] at h2
  intro he
  simp [hes, hne, he] at h2

/-- **C04_pc_to_row_stored.** On every table sorted by address in which end_sequence rows come first among rows of
equal address — the two facts the parser's sort establishes — the lookup returns a non-end row of greatest
address ≤ pc whenever the table has one. -/
theorem C04_pc_to_row_stored (rows : Array Row) (pc : Nat) (hs : RowsSorted rows)
    (ht : EndSeqFirstOnTies rows) (hex : ∃ r, IsPcRow rows pc r) :
    ∃ p r, findPlaceByPc rows pc = some (p, r) ∧ IsPcRow rows pc r := by
  obtain ⟨w, ⟨iw, hiw⟩, hwes, hwle, hwmax⟩ := hex
  have hne : 0 < rows.size := by have := lt_of_getElem? hiw; omega
  obtain ⟨r0, h0⟩ := getElem?_of_lt rows hne
  have h0le : r0.addr ≤ pc := by
    have : keyOf rows (·.addr) 0 ≤ keyOf rows (·.addr) iw := hs 0 iw (by omega) (lt_of_getElem? hiw)
    rw [keyOf_some h0, keyOf_some hiw] at this; omega
  obtain ⟨p, r, hf, hp, hrle, hafter⟩ := C04_pc_to_row_last rows pc hs r0 h0 h0le
  refine ⟨p, r, hf, ⟨p, hp⟩, ?_, hrle, ?_⟩
  · -- r has the greatest address ≤ pc, hence the address of w; w is not an end row; ties put end rows first
    have hwr : w.addr ≤ r.addr := by
      by_cases hlt : iw ≤ p
      · have := hs iw p hlt (lt_of_getElem? hp); rwa [keyOf_some hiw, keyOf_some hp] at this
      · have := hafter iw w (by omega) hiw; omega
    have hrw : r.addr ≤ w.addr := hwmax p r hp hrle
    cases hres : r.es with
    | false => rfl
    | true =>
      have hpi : p < iw := ht p iw r w hp hiw (by omega) hres hwes
      have := hafter iw w hpi hiw; omega
  · intro j r' hj hle
    by_cases hlt : j ≤ p
    · have := hs j p hlt (lt_of_getElem? hp); rwa [keyOf_some hj, keyOf_some hp] at this
    · have := hafter j r' (by omega) hj; omega

/-! the parser's sort (`storeRows`: stable merge sort by `(address, !end_sequence)`) establishes both facts, for
EVERY line program -/

theorem rowLe_trans (a b c : Row) (h1 : rowLe a b = true) (h2 : rowLe b c = true) : rowLe a c = true := by
  unfold rowLe at *
  simp only [Bool.or_eq_true, decide_eq_true_eq, Bool.and_eq_true, beq_iff_eq, Bool.not_eq_true'] at *
  rcases h1 with h1 | ⟨h1, h1'⟩ <;> rcases h2 with h2 | ⟨h2, h2'⟩
  · exact Or.inl (by omega)
  · exact Or.inl (by omega)
  · exact Or.inl (by omega)
  · refine Or.inr ⟨by omega, ?_⟩
    rcases h1' with h | h
    · exact Or.inl h
    · rcases h2' with h' | h'
      · rw [h] at h'; cases h'
      · exact Or.inr h'

theorem rowLe_total (a b : Row) : (rowLe a b || rowLe b a) = true := by
  unfold rowLe
  simp only [Bool.or_eq_true, decide_eq_true_eq, Bool.and_eq_true, beq_iff_eq, Bool.not_eq_true']
  by_cases h1 : a.addr < b.addr
  · exact Or.inl (Or.inl h1)
  · by_cases h2 : b.addr < a.addr
    · exact Or.inr (Or.inl h2)
    · have he : a.addr = b.addr := by omega
      cases ha : a.es
      · exact Or.inr (Or.inr ⟨he.symm, Or.inr rfl⟩)
      · exact Or.inl (Or.inr ⟨he, Or.inl rfl⟩)

theorem storeRows_pairwise (prog : List Row) {i j : Nat} {ri rj : Row} (hij : i < j)
    (hi : (storeRows prog)[i]? = some ri) (hj : (storeRows prog)[j]? = some rj) : rowLe ri rj = true := by
  have hp := List.pairwise_mergeSort rowLe_trans rowLe_total prog
  rw [List.pairwise_iff_getElem] at hp
  unfold storeRows at hi hj
  have hjl : j < (prog.mergeSort rowLe).length := by
    have := lt_of_getElem? hj; simpa using this
  have hil : i < (prog.mergeSort rowLe).length := by omega
  have h := hp i j hil hjl hij
  have ei : (prog.mergeSort rowLe)[i] = ri := by
    have : (prog.mergeSort rowLe)[i]? = some ri := by simpa using hi
    simpa [List.getElem?_eq_getElem hil] using this
  have ej : (prog.mergeSort rowLe)[j] = rj := by
    have : (prog.mergeSort rowLe)[j]? = some rj := by simpa using hj
    simpa [List.getElem?_eq_getElem hjl] using this
  rw [ei, ej] at h
  exact h

theorem storeRows_sorted (prog : List Row) : RowsSorted (storeRows prog) := by
  intro i j hij hj
  by_cases he : i = j
  · subst he; exact Nat.le_refl _
  · obtain ⟨rj, hrj⟩ := getElem?_of_lt (storeRows prog) hj
    obtain ⟨ri, hri⟩ := getElem?_of_lt (storeRows prog) (show i < (storeRows prog).size by omega)
    have h := storeRows_pairwise prog (by omega) hri hrj
    rw [keyOf_some hri, keyOf_some hrj]
    unfold rowLe at h
    simp only [Bool.or_eq_true, decide_eq_true_eq, Bool.and_eq_true, beq_iff_eq] at h
    rcases h with h | ⟨h, _⟩ <;> omega

theorem storeRows_endSeqFirst (prog : List Row) : EndSeqFirstOnTies (storeRows prog) := by
  intro i j ri rj hi hj haddr hes hnes
  by_cases hlt : i < j
  · exact hlt
  · exfalso
    have hne : i ≠ j := by
      intro he; subst he; rw [hi] at hj; injection hj with hj; subst hj; rw [hes] at hnes; cases hnes
    have h := storeRows_pairwise prog (show j < i by omega) hj hi
    unfold rowLe at h
    simp only [Bool.or_eq_true, decide_eq_true_eq, Bool.and_eq_true, beq_iff_eq, Bool.not_eq_true'] at h
    rcases h with h | ⟨_, h | h⟩
    · omega
    · rw [hnes] at h; cases h
    · rw [hes] at h; cases h

/-- the stored rows are the rows of the line program (a permutation: nothing lost, nothing invented) -/
theorem storeRows_perm (prog : List Row) : (storeRows prog).toList.Perm prog := by
  unfold storeRows; simpa using List.mergeSort_perm prog rowLe

/-- **C04_pc_to_row** (full strength; was false before the repair of the parser's sort, when the end_sequence row of the
previous sequence could be stored after the first row of the next function and was returned for its address).
For EVERY line program and every pc: if the rows as the parser stores them have a non-end row of greatest address ≤ pc,
`find_place_by_pc` returns such a row — never an end_sequence row. -/
theorem C04_pc_to_row (prog : List Row) (pc : Nat) (hex : ∃ r, IsPcRow (storeRows prog) pc r) :
    ∃ p r, findPlaceByPc (storeRows prog) pc = some (p, r) ∧ IsPcRow (storeRows prog) pc r :=
  C04_pc_to_row_stored _ pc (storeRows_sorted prog) (storeRows_endSeqFirst prog) hex

/-- the witness of the repaired defect: function A = rows at 0x10 (line 5) with its end_sequence row at 0x20; the next
function's first row (line 9) is also at 0x20 and comes BEFORE the end_sequence row in the line program (the order the
unstable sort used to leave).  Sanity tests, evaluated: the stored order puts the end_sequence row first and the
lookup answers line 9. -/
def cexProg : List Row := [
  { addr := 0x10, file := 1, line := 5, col := 1, stmt := true, pe := false, eb := false, es := false },
  { addr := 0x20, file := 1, line := 9, col := 1, stmt := true, pe := true,  eb := false, es := false },
  { addr := 0x20, file := 1, line := 5, col := 1, stmt := true, pe := false, eb := false, es := true  }]
#guard ((storeRows cexProg).map (·.line)) == #[5, 5, 9]
#guard (findPlaceByPc (storeRows cexProg) 0x20).map (·.2.line) == some 9
#guard (findPlaceByPc cexProg.toArray 0x20).map (·.2.line) == some 5      -- the order before the repair: line 5
#guard (match findExactPlaceByPc (storeRows cexProg) 0x20 false with | .ok (some (_, r)) => r.line | _ => 0) == 9

/-! ## pc → unit -/

theorem anyBelow_iff (ranges : Array Rng) (pc : Nat) : ∀ n,
    anyBelow ranges pc n = true ↔ ∃ (k : Nat) (r : Rng), k < n ∧ ranges[k]? = some r ∧ r.contains pc = true := by
  intro n
  induction n with
  | zero => simp [anyBelow]
  | succ n ih =>
    unfold anyBelow
    cases hr : ranges[n]? with
    | none =>
      simp only [ih]
      constructor
      · rintro ⟨k, r, hk, h1, h2⟩; exact ⟨k, r, by omega, h1, h2⟩
      · rintro ⟨k, r, hk, h1, h2⟩
        have : k ≠ n := by intro he; subst he; rw [hr] at h1; cases h1
        exact ⟨k, r, by omega, h1, h2⟩
    | some r0 =>
      simp only [Bool.or_eq_true, ih]
      constructor
      · rintro (h | ⟨k, r, hk, h1, h2⟩)
        · exact ⟨n, r0, by omega, hr, h⟩
        · exact ⟨k, r, by omega, h1, h2⟩
      · rintro ⟨k, r, hk, h1, h2⟩
        by_cases he : k = n
        · subst he; rw [hr] at h1; injection h1 with h1; subst h1; exact Or.inl h2
        · exact Or.inr ⟨k, r, by omega, h1, h2⟩

/-- **C04_pc_to_unit.** Unit ranges sorted by `begin`: the unit accepts `pc` iff one of its ranges contains `pc`
or begins exactly at `pc` (the latter also for an empty range: the `Ok(_) => true` arm). -/
theorem C04_pc_to_unit (ranges : Array Rng) (pc : Nat) (hs : SortedKey (keyOf ranges (·.lo)) ranges.size) :
    unitContains ranges pc = true ↔
      ∃ (k : Nat) (r : Rng), ranges[k]? = some r ∧ (r.contains pc = true ∨ r.lo = pc) := by
  unfold unitContains
  cases hbs : binarySearch (keyOf ranges (·.lo)) ranges.size pc with
  | found p =>
    have := binarySearch_found hs hbs
    obtain ⟨r, hr⟩ := getElem?_of_lt ranges this.1
    simp only [true_iff]
    exact ⟨p, r, hr, Or.inr (by have h2 := this.2.1; rwa [keyOf_some hr] at h2)⟩
  | notFound p =>
    have nf := C04_binary_search_not_found _ _ _ _ hs hbs
    simp only [anyBelow_iff]
    constructor
    · rintro ⟨k, r, _, h1, h2⟩; exact ⟨k, r, h1, Or.inl h2⟩
    · rintro ⟨k, r, h1, h2⟩
      have hk := lt_of_getElem? h1
      have hne := nf.2.2.2 k hk
      rw [keyOf_some h1] at hne
      rcases h2 with h2 | h2
      · refine ⟨k, r, ?_, h1, h2⟩
        by_cases hkp : k < p
        · exact hkp
        · have := nf.2.2.1 k (by omega) hk
          rw [keyOf_some h1] at this
          simp [Rng.contains] at h2; omega
      · exact absurd h2 hne

/-! ## pc → function -/

def FnRange.holds (hasInfo : Nat → Bool) (pc : Nat) (dr : FnRange) : Prop :=
  hasInfo dr.die = true ∧ dr.lo ≤ pc ∧ pc < dr.hi

theorem fnScan_some (fr : Array FnRange) (hasInfo : Nat → Bool) (pc : Nat) : ∀ n dr,
    fnScan fr hasInfo pc n = some dr →
      ∃ k : Nat, k < n ∧ fr[k]? = some dr ∧ dr.holds hasInfo pc ∧
        ∀ (k' : Nat) (dr' : FnRange), k < k' → k' < n → fr[k']? = some dr' → ¬ dr'.holds hasInfo pc := by
  intro n
  induction n with
  | zero => intro dr h; simp [fnScan] at h
  | succ n ih =>
    intro dr h
    unfold fnScan at h
    cases hr : fr[n]? with
    | none =>
      rw [hr] at h; simp only [] at h
      obtain ⟨k, hk, h1, h2, h3⟩ := ih dr h
      refine ⟨k, by omega, h1, h2, ?_⟩
      intro k' dr' hkk hk' hd
      by_cases he : k' = n
      · subst he; rw [hr] at hd; cases hd
      · exact h3 k' dr' hkk (by omega) hd
    | some d0 =>
      rw [hr] at h; simp only [] at h
      by_cases hc : (hasInfo d0.die && decide (d0.lo ≤ pc) && decide (pc < d0.hi)) = true
      · rw [if_pos hc] at h
        injection h with h; subst h
        simp only [Bool.and_eq_true, decide_eq_true_eq] at hc
        exact ⟨n, by omega, hr, ⟨hc.1.1, hc.1.2, hc.2⟩, by intro k' dr' h1 h2; omega⟩
      · rw [if_neg hc] at h
        obtain ⟨k, hk, h1, h2, h3⟩ := ih dr h
        refine ⟨k, by omega, h1, h2, ?_⟩
        intro k' dr' hkk hk' hd
        by_cases he : k' = n
        · subst he; rw [hr] at hd; injection hd with hd; subst hd
          intro hh; apply hc
          simp only [Bool.and_eq_true, decide_eq_true_eq]
          exact ⟨⟨hh.1, hh.2.1⟩, hh.2.2⟩
        · exact h3 k' dr' hkk (by omega) hd

theorem fnScan_none (fr : Array FnRange) (hasInfo : Nat → Bool) (pc : Nat) : ∀ n,
    fnScan fr hasInfo pc n = none →
      ∀ (k : Nat) (dr : FnRange), k < n → fr[k]? = some dr → ¬ dr.holds hasInfo pc := by
  intro n
  induction n with
  | zero => intro _ k dr hk; omega
  | succ n ih =>
    intro h k dr hk hd
    unfold fnScan at h
    cases hr : fr[n]? with
    | none =>
      rw [hr] at h; simp only [] at h
      by_cases he : k = n
      · subst he; rw [hr] at hd; cases hd
      · exact ih h k dr (by omega) hd
    | some d0 =>
      rw [hr] at h; simp only [] at h
      by_cases hc : (hasInfo d0.die && decide (d0.lo ≤ pc) && decide (pc < d0.hi)) = true
      · rw [if_pos hc] at h; cases h
      · rw [if_neg hc] at h
        by_cases he : k = n
        · subst he; rw [hr] at hd; injection hd with hd; subst hd
          intro hh; apply hc
          simp only [Bool.and_eq_true, decide_eq_true_eq]
          exact ⟨⟨hh.1, hh.2.1⟩, hh.2.2⟩
        · exact ih h k dr (by omega) hd

theorem skipEqual_ge (fr : Array FnRange) (pc : Nat) : ∀ fuel idx, idx ≤ skipEqual fr pc fuel idx := by
  intro fuel
  induction fuel with
  | zero => intro idx; simp [skipEqual]
  | succ fuel ih =>
    intro idx
    unfold skipEqual
    cases fr[idx]? with
    | none => simp
    | some dr =>
      simp only []
      by_cases h : dr.lo = pc
      · rw [if_pos h]; have := ih (idx + 1); omega
      · rw [if_neg h]; omega

/-- every range stored at or after `fnFindPos` begins after `pc` -/
theorem fnFindPos_after (fr : Array FnRange) (pc : Nat) (hs : SortedKey (keyOf fr (·.lo)) fr.size) :
    ∀ (k : Nat) (dr : FnRange), fnFindPos fr pc ≤ k → fr[k]? = some dr → pc < dr.lo := by
  intro k dr hk hd
  unfold fnFindPos at hk
  cases hbs : binarySearch (keyOf fr (·.lo)) fr.size pc with
  | found p =>
    rw [hbs] at hk; dsimp only at hk
    have := (binarySearch_found hs hbs).2.2 k (by have := skipEqual_ge fr pc (fr.size - (p + 1)) (p + 1); omega) (lt_of_getElem? hd)
    rwa [keyOf_some hd] at this
  | notFound p =>
    rw [hbs] at hk; dsimp only at hk
    have := (binarySearch_notFound hs hbs).2.2 k hk (lt_of_getElem? hd)
    rwa [keyOf_some hd] at this

/-- **C04_pc_to_function.** Function DIE ranges sorted by `begin`: the function found for `pc` is a stored range of an
indexed function that contains `pc`, and no stored range containing `pc` begins later (for properly nested or
disjoint ranges: the innermost one); if nothing is found, no stored range of an indexed function contains `pc`. -/
theorem C04_pc_to_function (u : CUnit) (pc : Nat) (hs : SortedKey (keyOf u.fnRanges (·.lo)) u.fnRanges.size) :
    (∀ dr, findFunctionInUnit u pc = some dr →
        (∃ k : Nat, u.fnRanges[k]? = some dr) ∧ dr.holds u.hasInfo pc ∧
        ∀ (k' : Nat) (dr' : FnRange), u.fnRanges[k']? = some dr' → dr'.holds u.hasInfo pc → dr'.lo ≤ dr.lo) ∧
    (findFunctionInUnit u pc = none →
        ∀ (k : Nat) (dr : FnRange), u.fnRanges[k]? = some dr → ¬ dr.holds u.hasInfo pc) := by
  constructor
  · intro dr h
    obtain ⟨k, hk, h1, h2, h3⟩ := fnScan_some _ _ _ _ _ h
    refine ⟨⟨k, h1⟩, h2, ?_⟩
    intro k' dr' hd' hh'
    by_cases hle : k' ≤ k
    · have := hs k' k hle (lt_of_getElem? h1)
      rwa [keyOf_some hd', keyOf_some h1] at this
    · by_cases hlt : k' < fnFindPos u.fnRanges pc
      · exact absurd hh' (h3 k' dr' (by omega) hlt hd')
      · have := fnFindPos_after u.fnRanges pc hs k' dr' (by omega) hd'
        have := hh'.2.1; omega
  · intro h k dr hd hh
    by_cases hlt : k < fnFindPos u.fnRanges pc
    · exact fnScan_none _ _ _ _ h k dr hlt hd hh
    · have := fnFindPos_after u.fnRanges pc hs k dr (by omega) hd
      have := hh.2.1; omega

/-! ## function → breakpoint address (`prolog_end_place`) -/

/-- what `prolog_end_place` accepts as the end of the prologue: a prologue_end row that does not end a sequence,
inside the function's ranges -/
def IsFnPE (ranges : List Rng) (r : Row) : Bool := r.pe && !r.es && inFnRanges ranges r.addr

/-- the walk returns a stored row at or after the start that is a prologue_end row of the function below its end,
and no row between the start and it is one. -/
theorem peWalkIn_some (rows : Array Row) (ranges : List Rng) (endA : Nat) : ∀ fuel i j rj,
    peWalkIn rows ranges endA fuel i = some (j, rj) →
    rows[j]? = some rj ∧ i ≤ j ∧ IsFnPE ranges rj = true ∧ rj.addr < endA ∧
    ∀ (k : Nat) (rk : Row), i ≤ k → k < j → rows[k]? = some rk → IsFnPE ranges rk = false := by
  intro fuel
  induction fuel with
  | zero => intro i j rj h; simp [peWalkIn] at h
  | succ fuel ih =>
    intro i j rj h
    unfold peWalkIn at h
    cases hr : rows[i]? with
    | none => simp [hr] at h
    | some r =>
      simp only [hr] at h
      by_cases hlt : r.addr < endA
      · simp only [hlt, if_true] at h
        by_cases hq : (r.pe && !r.es && inFnRanges ranges r.addr) = true
        · simp only [hq, if_true] at h
          injection h with h; injection h with h1 h2; subst h1; subst h2
          exact ⟨hr, Nat.le_refl _, hq, hlt, by intro k rk h1 h2; omega⟩
        · simp only [hq] at h
          have := ih (i + 1) j rj h
          refine ⟨this.1, by omega, this.2.2.1, this.2.2.2.1, ?_⟩
          intro k rk hik hkj hrk
          by_cases he : k = i
          · subst he; rw [hr] at hrk; injection hrk with hrk; subst hrk
            simpa [IsFnPE] using hq
          · exact this.2.2.2.2 k rk (by omega) hkj hrk
      · simp [hlt] at h

/-- the place of a function breakpoint is EITHER the first prologue_end row of the function at or after the row found
for its low_pc (stored order, below the function's end) OR, when there is none, that start row itself. -/
theorem C04_fn_to_addr_cases (units : Array CUnit) (ranges : List Rng) (u j : Nat) (r : Row)
    (h : prologEndPlace units ranges = some (u, j, r)) :
    ∃ (lo i : Nat) (r0 : Row) (un : CUnit), lowPc ranges = some lo ∧ findPlaceFromPc units lo = some (u, i, r0) ∧
      units[u]? = some un ∧
      ((j = i ∧ r = r0) ∨
       (un.rows[j]? = some r ∧ i ≤ j ∧ IsFnPE ranges r = true ∧
        ∀ (k : Nat) (rk : Row), i ≤ k → k < j → un.rows[k]? = some rk → IsFnPE ranges rk = false)) := by
  unfold prologEndPlace at h
  cases hlo : lowPc ranges with
  | none => simp [hlo] at h
  | some lo =>
    cases hend : endPc ranges with
    | none => simp [hlo, hend] at h
    | some endA =>
      simp only [hlo, hend] at h
      cases hp : findPlaceFromPc units lo with
      | none => simp [hp] at h
      | some p =>
        obtain ⟨u', i, r0⟩ := p
        simp only [hp] at h
        cases hun : units[u']? with
        | none => simp [hun] at h
        | some un =>
          simp only [hun] at h
          cases hw : peWalkIn un.rows ranges endA (un.rows.size - i) i with
          | none =>
            simp only [hw] at h
            injection h with h; injection h with h1 h; injection h with h2 h3
            subst h1; subst h2; subst h3
            exact ⟨lo, _, _, un, rfl, hp, hun, Or.inl ⟨rfl, rfl⟩⟩
          | some q =>
            obtain ⟨j', r'⟩ := q
            simp only [hw] at h
            injection h with h; injection h with h1 h; injection h with h2 h3
            subst h1; subst h2; subst h3
            have sp := peWalkIn_some un.rows ranges endA _ i j' r' hw
            exact ⟨lo, _, _, un, rfl, hp, hun, Or.inr ⟨sp.1, sp.2.1, sp.2.2.1, sp.2.2.2.2⟩⟩

/-- **C04_fn_to_addr** (full strength; was false before the repair of `prolog_end_place`, which walked to the first
prologue_end row of the UNIT, or to its last row).  For every table and every function whose low_pc lookup lands
inside the function (its line program has a row for its first instruction), the place of the function breakpoint is
a row inside the function's ranges. -/
theorem C04_fn_to_addr (units : Array CUnit) (ranges : List Rng) (u j : Nat) (r : Row)
    (h : prologEndPlace units ranges = some (u, j, r))
    (hstart : ∀ lo i r0, lowPc ranges = some lo → findPlaceFromPc units lo = some (u, i, r0) →
      ranges.any (·.contains r0.addr) = true) :
    ranges.any (·.contains r.addr) = true := by
  obtain ⟨lo, i, r0, un, hlo, hp, _, hc⟩ := C04_fn_to_addr_cases units ranges u j r h
  rcases hc with ⟨_, rfl⟩ | ⟨_, _, hpe, _⟩
  · exact hstart lo i r hlo hp
  · simp only [IsFnPE, inFnRanges, Bool.and_eq_true] at hpe
    exact hpe.2

/-- **C04_fn_to_addr_first_pe.** If a prologue_end row of the function exists at index `j` at or after the low_pc row,
below the function's end, with no such row before it, the breakpoint is exactly that row. -/
theorem C04_fn_to_addr_first_pe (units : Array CUnit) (ranges : List Rng) (lo endA u i : Nat) (r : Row) (un : CUnit)
    (hlo : lowPc ranges = some lo) (hend : endPc ranges = some endA)
    (hplace : findPlaceFromPc units lo = some (u, i, r)) (hun : units[u]? = some un)
    (j : Nat) (rj : Row) (hij : i ≤ j) (hj : un.rows[j]? = some rj) (hpe : IsFnPE ranges rj = true)
    (hbelow : ∀ (k : Nat) (rk : Row), i ≤ k → k ≤ j → un.rows[k]? = some rk → rk.addr < endA)
    (hbefore : ∀ (k : Nat) (rk : Row), i ≤ k → k < j → un.rows[k]? = some rk → IsFnPE ranges rk = false) :
    prologEndPlace units ranges = some (u, j, rj) := by
  have key : ∀ fuel i', i ≤ i' → i' ≤ j → j < i' + fuel →
      peWalkIn un.rows ranges endA fuel i' = some (j, rj) := by
    intro fuel
    induction fuel with
    | zero => intro i' _ h2 h3; omega
    | succ fuel ih =>
      intro i' h1 h2 h3
      unfold peWalkIn
      by_cases he : i' = j
      · subst he
        have hl := hbelow i' rj h1 (Nat.le_refl _) hj
        simp only [IsFnPE] at hpe
        simp [hj, hl, hpe]
      · have hi's : i' < un.rows.size := by have := lt_of_getElem? hj; omega
        obtain ⟨rk, hrk⟩ := getElem?_of_lt un.rows hi's
        have hl := hbelow i' rk h1 (by omega) hrk
        have hn := hbefore i' rk h1 (by omega) hrk
        simp only [IsFnPE] at hn
        simp only [hrk, hl, if_true, hn, Bool.false_eq_true, if_false]
        exact ih (i' + 1) (by omega) (by omega) (by omega)
  have hjs := lt_of_getElem? hj
  unfold prologEndPlace
  simp only [hlo, hend, hplace, hun]
  rw [key (un.rows.size - i) i (Nat.le_refl _) hij (by omega)]

/-- the witness of the repaired defect (shape of a `gcc -g -O0` object): two functions [0x10,0x20) and [0x20,0x30) in one
sequence, no prologue_end row anywhere, end_sequence row at 0x30.  Before the repair BOTH functions got the
end_sequence address 0x30, which is inside neither. -/
def cexUnit : CUnit := {
  ranges := #[⟨0x10, 0x30⟩],
  files := #[0, 0],
  rows := #[
    { addr := 0x10, file := 1, line := 3, col := 1, stmt := true, pe := false, eb := false, es := false },
    { addr := 0x14, file := 1, line := 4, col := 5, stmt := true, pe := false, eb := false, es := false },
    { addr := 0x20, file := 1, line := 8, col := 1, stmt := true, pe := false, eb := false, es := false },
    { addr := 0x24, file := 1, line := 9, col := 5, stmt := true, pe := false, eb := false, es := false },
    { addr := 0x30, file := 1, line := 9, col := 5, stmt := true, pe := false, eb := false, es := true }],
  fnRanges := #[⟨0x10, 0x20, 100⟩, ⟨0x20, 0x30, 200⟩],
  fns := #[{ die := 100, name := some 0, ranges := [⟨0x10, 0x20⟩] }, { die := 200, name := some 1, ranges := [⟨0x20, 0x30⟩] }] }

/-- each function of the witness now gets its own first row (kernel-checked evaluation) -/
theorem C04_fn_to_addr_witness :
    (prologEndPlace #[cexUnit] [⟨0x10, 0x20⟩]).map (·.2.2.addr) = some 0x10 ∧
    (prologEndPlace #[cexUnit] [⟨0x20, 0x30⟩]).map (·.2.2.addr) = some 0x20 := by decide

/-! ## file:line → breakpoint places (`find_closest_place`) -/

/-- a place `(unit, row index, row)` is an is_stmt row of `path:l`: stored in that unit, its file index denotes `path` -/
def IsStmtRowOf (units : Array CUnit) (path l : Nat) (p : Nat × Nat × Row) : Prop :=
  ∃ (un : CUnit) (f : Nat), units[p.1]? = some un ∧ un.files[f]? = some path ∧ un.rows[p.2.1]? = some p.2.2 ∧
    p.2.2.file = f ∧ p.2.2.stmt = true ∧ p.2.2.line = l

theorem closestPass_isStmtRow (units : Array CUnit) (path needle : Nat) (seen : List Key) :
    ∀ p ∈ (closestPass units needle (filesOf units path) seen []).2, IsStmtRowOf units path needle p := by
  intro p hp
  rcases closestPass_sound units needle _ _ _ p hp with h | ⟨fl, un, h1, h2, h3⟩
  · cases h
  · obtain ⟨un', f, hu, hf, hfl⟩ := filesOf_mem units path p.1 fl h1
    rw [h2] at hu; injection hu with hu; subst hu
    obtain ⟨g1, ⟨t, g2⟩, g3, g4⟩ := h3
    subst hfl
    obtain ⟨r, hr, hrf⟩ := fileLines_mem un.rows f t p.2.1 g2
    simp only [] at g1
    rw [g1] at hr; injection hr with hr
    exact ⟨un, f, h2, hf, g1, by rw [hr]; exact hrf, g3, g4⟩

/-- NO unit has an is_stmt row of `path:l` (the quantifier ranges over ALL units, file indices and rows) -/
def NoStmtRowOf (units : Array CUnit) (path l : Nat) : Prop := ∀ q : Nat × Nat × Row, ¬ IsStmtRowOf units path l q

/-- an is_stmt row of `path:line` in ANY unit makes the pass for `line` select something: the `line + 1` pass
is then never run, whatever the other units contain. -/
theorem closestPass_ne_of_stmtRow (units : Array CUnit) (path line : Nat) (q : Nat × Nat × Row)
    (hq : IsStmtRowOf units path line q) : (closestPass units line (filesOf units path) [] []).2 ≠ [] := by
  obtain ⟨un, f, hu, hf, hrow, hfile, hstmt, hline⟩ := hq
  obtain ⟨t, ht⟩ := fileLines_complete un.rows f q.2.1 q.2.2 hrow hfile
  have hne : (fileLines un.rows f).isEmpty = false := by
    have := lt_of_getElem? ht
    cases h : (fileLines un.rows f).isEmpty with
    | false => rfl
    | true => rw [Array.isEmpty_iff_size_eq_zero] at h; omega
  have hmem := filesOf_complete units path q.1 f un hu hf hne
  intro hnil
  have h0 := closestPass_nil units line _ hnil q.1 _ un hmem hu
  exact suitablePlaces_complete un.rows _ line (fileLines_valid un.rows f) t q.2.1 q.2.2 ht hrow hstmt hline h0

/-- **C04_line_to_addrs_sound.** Over the WHOLE list of units: every place `find_closest_place(path, line)` returns is an
is_stmt row of `line` in that file — or of `line + 1`, and then only when NO unit has an is_stmt row of `line`
(the fallback is one global decision, not one per compilation unit). -/
theorem C04_line_to_addrs_sound (units : Array CUnit) (path line : Nat) :
    ∀ p ∈ findClosestPlace units path line,
      IsStmtRowOf units path line p ∨ (IsStmtRowOf units path (line + 1) p ∧ NoStmtRowOf units path line) := by
  intro p hp
  unfold findClosestPlace at hp
  simp only [] at hp
  cases hres : (closestPass units line (filesOf units path) [] []) with
  | mk seen res =>
    rw [hres] at hp
    simp only [] at hp
    cases res with
    | cons a rest =>
      simp only [List.isEmpty_cons, Bool.not_false, if_true] at hp
      left
      apply closestPass_isStmtRow units path line []
      rw [hres]; exact hp
    | nil =>
      simp only [List.isEmpty_nil, Bool.not_true, Bool.false_eq_true, if_false] at hp
      right
      refine ⟨closestPass_isStmtRow units path (line + 1) seen p hp, ?_⟩
      intro q hq
      have := closestPass_ne_of_stmtRow units path line q hq
      rw [hres] at this
      exact this rfl

/-- **C04_line_to_addrs_line_wins.** If ANY unit has an is_stmt row of `line`, the answer is non-empty and consists of
is_stmt rows of `line` only — no unit contributes a row of `line + 1`, not even a unit that has no row of `line`. -/
theorem C04_line_to_addrs_line_wins (units : Array CUnit) (path line : Nat) (q : Nat × Nat × Row)
    (hq : IsStmtRowOf units path line q) :
    findClosestPlace units path line ≠ [] ∧ ∀ p ∈ findClosestPlace units path line, IsStmtRowOf units path line p := by
  have hne := closestPass_ne_of_stmtRow units path line q hq
  constructor
  · unfold findClosestPlace
    simp only []
    cases hres : (closestPass units line (filesOf units path) [] []) with
    | mk seen res =>
      rw [hres] at hne
      cases res with
      | nil => exact absurd rfl hne
      | cons a rest => simp
  · intro p hp
    rcases C04_line_to_addrs_sound units path line p hp with h | ⟨_, h⟩
    · exact h
    · exact absurd hq (h q)

/-- **C04_line_to_addrs_fallback.** If NO unit has an is_stmt row of `line` but some unit has one of `line + 1`, the answer
is non-empty and consists of is_stmt rows of `line + 1` only. -/
theorem C04_line_to_addrs_fallback (units : Array CUnit) (path line : Nat) (hno : NoStmtRowOf units path line)
    (q : Nat × Nat × Row) (hq : IsStmtRowOf units path (line + 1) q) :
    findClosestPlace units path line ≠ [] ∧ ∀ p ∈ findClosestPlace units path line, IsStmtRowOf units path (line + 1) p := by
  constructor
  · unfold findClosestPlace
    simp only []
    cases hres : (closestPass units line (filesOf units path) [] []) with
    | mk seen res =>
      cases res with
      | cons a rest => simp
      | nil =>
        simp only [List.isEmpty_nil, Bool.not_true, Bool.false_eq_true, if_false]
        have hs := closestPass_seen_of_nil units line (filesOf units path) [] (by rw [hres])
        rw [hres] at hs; simp only [] at hs
        subst hs
        exact closestPass_ne_of_stmtRow units path (line + 1) q hq
  · intro p hp
    rcases C04_line_to_addrs_sound units path line p hp with h | ⟨h, _⟩
    · exact absurd h (hno p)
    · exact h

/-- two units share file 7: unit 0 (an instantiation of a generic) has the row of line 7, unit 1 (the library's own
unit) has no row of line 7 but a row of line 8 (the next function). -/
def twoUnits : Array CUnit := #[
  { ranges := #[⟨0x10, 0x20⟩], files := #[7],
    rows := #[{ addr := 0x10, file := 0, line := 7, col := 1, stmt := true, pe := true, eb := false, es := false },
              { addr := 0x20, file := 0, line := 7, col := 1, stmt := true, pe := false, eb := false, es := true }],
    fnRanges := #[⟨0x10, 0x20, 100⟩], fns := #[{ die := 100, name := some 0, ranges := [⟨0x10, 0x20⟩] }] },
  { ranges := #[⟨0x40, 0x50⟩], files := #[7],
    rows := #[{ addr := 0x40, file := 0, line := 8, col := 1, stmt := true, pe := true, eb := false, es := false },
              { addr := 0x50, file := 0, line := 9, col := 1, stmt := true, pe := false, eb := false, es := true }],
    fnRanges := #[⟨0x40, 0x50, 200⟩], fns := #[{ die := 200, name := some 1, ranges := [⟨0x40, 0x50⟩] }] }]

/-- non-vacuity of both disjuncts on a file split across two units: `break file:7` = the row of line 7 of unit 0 only
(unit 1's row of line 8 is NOT added although unit 1 has no row of line 7); `break file:6` = nothing of line 6 anywhere,
so the row of line 7; `break file:8` = unit 1's row. -/
example : findClosestPlace twoUnits 7 7 = [(0, 0, twoUnits[0].rows[0])] := by decide
example : findClosestPlace twoUnits 7 6 = [(0, 0, twoUnits[0].rows[0])] := by decide
example : findClosestPlace twoUnits 7 8 = [(1, 0, twoUnits[1].rows[0])] := by decide
example : IsStmtRowOf twoUnits 7 7 (0, 0, twoUnits[0].rows[0]) := ⟨twoUnits[0], 0, rfl, rfl, rfl, rfl, rfl, rfl⟩
example : IsStmtRowOf twoUnits 7 8 (1, 0, twoUnits[1].rows[0]) ∧ ¬ NoStmtRowOf twoUnits 7 7 :=
  ⟨⟨twoUnits[1], 0, rfl, rfl, rfl, rfl, rfl, rfl⟩, fun h => h (0, 0, twoUnits[0].rows[0]) ⟨twoUnits[0], 0, rfl, rfl, rfl, rfl, rfl, rfl⟩⟩

/-- completeness at full strength: every function that has an is_stmt row of the line (in the file) gets a place. -/
def C04_line_to_addrs_complete_full : Prop :=
  ∀ (units : Array CUnit) (path line u i : Nat) (un : CUnit) (r : Row) (f : Nat),
    units[u]? = some un → un.files[f]? = some path → un.rows[i]? = some r → r.file = f → r.line = line →
    r.stmt = true → r.es = false →
    ∃ p ∈ findClosestPlace units path line, keyAt units p.2.2.addr = keyAt units r.addr

/-- the witness: one generic function instantiated twice; the row of line 35 is plain in the first instance
and carries prologue_end in the second (as rustc 1.89 emits for `fn ident<T>(x: T) -> T { let y = x; y }`). -/
def cexLineUnit : CUnit := {
  ranges := #[⟨0x10, 0x30⟩],
  files := #[7, 7],
  rows := #[
    { addr := 0x10, file := 1, line := 34, col := 5, stmt := true, pe := true,  eb := false, es := false },
    { addr := 0x18, file := 1, line := 35, col := 2, stmt := true, pe := false, eb := false, es := false },
    { addr := 0x19, file := 1, line := 35, col := 2, stmt := true, pe := false, eb := false, es := true },
    { addr := 0x1c, file := 1, line := 33, col := 1, stmt := true, pe := false, eb := false, es := false },
    { addr := 0x20, file := 1, line := 35, col := 2, stmt := true, pe := true,  eb := false, es := false },
    { addr := 0x21, file := 1, line := 35, col := 2, stmt := true, pe := false, eb := false, es := true }],
  fnRanges := #[⟨0x10, 0x19, 100⟩, ⟨0x1c, 0x21, 200⟩],
  fns := #[{ die := 100, name := some 0, ranges := [⟨0x10, 0x19⟩] }, { die := 200, name := some 1, ranges := [⟨0x1c, 0x21⟩] }] }

/-- **C04_line_to_addrs_counterexample.** On the unchanged code completeness is false: `break file:35` yields one
place (0x18, first instance); the second instance, whose row of line 35 is a prologue_end row, gets none. -/
theorem C04_line_to_addrs_counterexample : ¬ C04_line_to_addrs_complete_full := by
  intro h
  have hres : findClosestPlace #[cexLineUnit] 7 35 = [(0, 1, cexLineUnit.rows[1])] := by decide
  obtain ⟨p, hp, hk⟩ := h #[cexLineUnit] 7 35 0 4 cexLineUnit cexLineUnit.rows[4] 1 rfl (by decide) (by decide) (by decide) (by decide) (by decide) (by decide)
  rw [hres] at hp
  simp only [List.mem_singleton] at hp
  subst hp
  revert hk; decide

/-- a witness found by the correspondence run on std code (`core/src/fmt/mod.rs:820` in a stock binary): two functions whose
only row of line 35 is a prologue_end row with the SAME column and flags, adjacent in the file's row list. -/
def cexPeUnit : CUnit := {
  ranges := #[⟨0x10, 0x20⟩],
  files := #[7, 7],
  rows := #[
    { addr := 0x10, file := 1, line := 35, col := 2, stmt := true, pe := true,  eb := false, es := false },
    { addr := 0x18, file := 1, line := 35, col := 2, stmt := true, pe := true,  eb := false, es := false },
    { addr := 0x20, file := 1, line := 35, col := 2, stmt := true, pe := false, eb := false, es := true }],
  fnRanges := #[⟨0x10, 0x18, 100⟩, ⟨0x18, 0x20, 200⟩],
  fns := #[{ die := 100, name := some 0, ranges := [⟨0x10, 0x18⟩] }, { die := 200, name := some 1, ranges := [⟨0x18, 0x20⟩] }] }

/-- **C04_line_to_addrs_pe_lookahead_witness** (the repaired defect `line-breakpoint-skips-prologue-end-row-followed-by-another`).
The look-ahead "prefer a prologue_end sibling" used to start from a row that IS a prologue_end row, jumped to the next one and
never came back: `break file:35` yielded only 0x18 and the first function, whose row is identical, got none.  The starting row
is now tested first: both functions get their place (kernel-checked evaluation of the model). -/
theorem C04_line_to_addrs_pe_lookahead_witness :
    findClosestPlace #[cexPeUnit] 7 35 = [(0, 0, cexPeUnit.rows[0]), (0, 1, cexPeUnit.rows[1])] := by decide

/-! ## file line range → breakpoint-capable places (`find_places_in_line_range`) -/

/-- **C04_file_range_places_sound** (was false before the repair: end_sequence rows were listed).  Every place listed for
a file line range is a stored row of that file in some unit that is an is_stmt row, does NOT end a sequence, and whose
line lies in the (ordered) range. -/
theorem C04_file_range_places_sound (units : Array CUnit) (path a b : Nat) (p : Nat × Nat × Row)
    (hp : p ∈ findPlacesInLineRange units path a b) :
    p.2.2.stmt = true ∧ p.2.2.es = false ∧ min a b ≤ p.2.2.line ∧ p.2.2.line ≤ max a b ∧
    ∃ un, units[p.1]? = some un ∧ un.rows[p.2.1]? = some p.2.2 := by
  unfold findPlacesInLineRange at hp
  -- the fold only keeps candidates
  have hsub : ∀ (cands : List (Nat × Nat × Row)) (acc : List (Nat × Nat × Nat) × List (Nat × Nat × Row)) (q : Nat × Nat × Row),
      q ∈ (cands.foldl (fun (acc : List (Nat × Nat × Nat) × List (Nat × Nat × Row)) (p : Nat × Nat × Row) =>
        let key := (p.2.2.addr, p.2.2.line, p.2.2.col)
        if acc.1.contains key then acc else (key :: acc.1, acc.2 ++ [p])) acc).2 → q ∈ acc.2 ∨ q ∈ cands := by
    intro cands
    induction cands with
    | nil => intro acc q h; exact Or.inl h
    | cons c cs ih =>
      intro acc q h
      rw [List.foldl_cons] at h
      rcases ih _ q h with h1 | h1
      · by_cases hc : acc.1.contains (c.2.2.addr, c.2.2.line, c.2.2.col) = true
        · simp only [hc, if_true] at h1; exact Or.inl h1
        · simp only [hc] at h1
          rcases List.mem_append.mp h1 with h2 | h2
          · exact Or.inl h2
          · exact Or.inr (by simp at h2; simp [h2])
      · exact Or.inr (List.mem_cons_of_mem _ h1)
  have hlo : (if a ≤ b then a else b) = min a b := by split <;> omega
  have hhi : (if a ≤ b then b else a) = max a b := by split <;> omega
  rcases hsub _ _ p hp with h | h
  · cases h
  · simp only [hlo, hhi] at h
    obtain ⟨⟨u, fl⟩, _, hq⟩ := List.mem_flatMap.mp h
    simp only at hq
    cases hun : units[u]? with
    | none => simp [hun] at hq
    | some un =>
      simp only [hun] at hq
      obtain ⟨i, _, hi⟩ := List.mem_filterMap.mp hq
      cases hr : un.rows[i]? with
      | none => simp [hr] at hi
      | some r =>
        simp only [hr] at hi
        by_cases hc : (r.stmt && !r.es && decide (min a b ≤ r.line) && decide (r.line ≤ max a b)) = true
        · simp only [hc, if_true] at hi
          injection hi with hi; subst hi
          simp only [Bool.and_eq_true, Bool.not_eq_true', decide_eq_true_eq] at hc
          obtain ⟨⟨⟨h1, h2⟩, h3⟩, h4⟩ := hc
          exact ⟨h1, h2, h3, h4, un, hun, hr⟩
        · simp only [hc] at hi
          cases hi

end BsVerif.Lines
