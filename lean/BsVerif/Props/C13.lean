import BsVerif.Lemmas.DapBp
/-!
# C13 — DAP breakpoint requests replace, and their options are honoured whenever set

Property theorems only. Model: `BsVerif/Model/DapBp.lean` (adapter records over the debugger's registry with
`Address` identity). The trace `τ`, the resolutions of lines/functions (`locs`), the histories are universally quantified.

Reading guide. "installed" = `s.reg.en` (enabled INT3 breakpoints of the running process). "latest set of a kind" =
the records the adapter holds for that kind (`src k`, `fn`, `insn`), whose `addrs` are what the last request stored.
The unchanged code violates the full statements (records keyed `Global` while stops are reported `Relocated`; only the
first location of a line is recorded): those are kept as `def …_full`, with `…_partial` and `…_counterexample`.
-/
namespace BsVerif.DapBp

/-! ## 1. Options: what a consulted record decides (all ids, hit counts, environments) -/

/-- **a conditional breakpoint stops only when its condition holds**: whenever the record is consulted and its
condition evaluates to false, the decision is `skip`, whatever the other options and the hit count. -/
theorem C13_condition_false_never_stops (id : Nat) (o : Opts) (hits env : Nat)
    (h : evalCond o.cond env = .ff) : (decideRec id o hits env).1 = .skip := by
  unfold decideRec; simp [h]

/-- **hitCondition N stops on the N-th hit and only then** (no condition, no log message), for every form the parser
maps to `exact n` (`N`, `=N`, `==N`). -/
theorem C13_hitcondition_exact (id n hits env : Nat) :
    (decideRec id { cond := .none, hit := some (.exact n), log := none } hits env).1 = .stop ↔ hits = n := by
  unfold decideRec evalCond
  by_cases h : hits = n <;> simp [HitCond.matches, h]

/-- **a logpoint logs and never stops**: with a log message the decision is never `stop` unless the condition
itself cannot be evaluated; and when condition and hit condition pass, the message is emitted. -/
theorem C13_logpoint_never_stops (id : Nat) (o : Opts) (k hits env : Nat)
    (hl : o.log = some k) (hc : evalCond o.cond env ≠ .err) : (decideRec id o hits env).1 = .skip := by
  unfold decideRec
  cases hcv : evalCond o.cond env with
  | err => exact absurd hcv hc
  | ff => simp
  | tt =>
    simp only [hl]
    cases hh : o.hit with
    | none => simp
    | some h =>
      cases h <;> simp <;> split <;> simp

theorem C13_logpoint_logs (id : Nat) (o : Opts) (k hits env : Nat)
    (hl : o.log = some k) (hc : evalCond o.cond env = .tt)
    (hh : ∀ h, o.hit = some h → h.matches hits = true) : Outp.log k ∈ (decideRec id o hits env).2 := by
  unfold decideRec
  simp only [hc, hl]
  cases hhit : o.hit with
  | none => simp
  | some h =>
    have := hh h hhit
    cases h <;> simp_all

/-- the three comparison forms mean what they say, for all operands and hit counts -/
theorem C13_hitcondition_matches (n h : Nat) :
    ((HitCond.exact n).matches h = true ↔ h = n) ∧ ((HitCond.ge n).matches h = true ↔ n ≤ h) ∧
    ((HitCond.gt n).matches h = true ↔ n < h) ∧ ((HitCond.lt n).matches h = true ↔ h < n) ∧
    ((HitCond.le n).matches h = true ↔ h ≤ n) := by
  simp [HitCond.matches]

/-- **`N` ≡ `=N` ≡ `==N`**, `>=`, `>`, `<`, `<=` select their operator, for EVERY operand text `body`
(the operand goes through the same `parseNum`); `body` must not itself start with an operator character,
which is what makes the code's prefix tests unambiguous. -/
def noOp : List Char → Bool
  | c :: _ => c != '=' && c != '<' && c != '>'
  | [] => true

theorem C13_hitcondition_parse_forms (body : List Char) (h : noOp body = true) :
    parseOp ('=' :: '=' :: body) = parseOp body ∧ parseOp ('=' :: body) = parseOp body ∧
    parseOp body = mk .exact body ∧
    parseOp ('>' :: '=' :: body) = mk .ge body ∧ parseOp ('>' :: body) = mk .gt body ∧
    parseOp ('<' :: '=' :: body) = mk .le body ∧ parseOp ('<' :: body) = mk .lt body := by
  cases body with
  | nil => simp [parseOp]
  | cons c cs =>
    simp only [noOp, Bool.and_eq_true, bne_iff_ne, ne_eq] at h
    obtain ⟨⟨h1, h2⟩, h3⟩ := h
    have e1 : parseOp (c :: cs) = mk .exact (c :: cs) := by
      unfold parseOp; split <;> simp_all
    refine ⟨?_, ?_, e1, ?_, ?_, ?_, ?_⟩
    · rw [e1]; simp [parseOp]
    · rw [e1]; unfold parseOp; split <;> simp_all
    · simp [parseOp]
    · unfold parseOp; split <;> simp_all
    · simp [parseOp]
    · unfold parseOp; split <;> simp_all

/-- an operand that is not a number never silently becomes a number: the result is `invalid`, which always passes
(the code warns on every hit and stops) -/
theorem C13_hitcondition_invalid_passes (f : Nat → HitCond) (body : List Char) (hits : Nat)
    (h : parseNum body = none) : (mk f body).matches hits = true := by
  simp [mk, h, HitCond.matches]

/-! ## 2. Stops happen only at installed locations, at the first one that is not skipped -/

/-- for every installed set, records and rest of the execution: if the filtered run stops, it stops at an installed
address, at an event of the execution, after consuming exactly the events before it -/
theorem C13_stops_only_at_installed (en : List Nat) (rs : Recs) (evs : List Ev)
    (rs' : Recs) (o : List Outp) (n a : Nat) (h : runFiltered en rs evs = (rs', o, n, some a)) :
    a ∈ en ∧ 0 < n ∧ n ≤ evs.length ∧ ∃ env, evs[n - 1]? = some (a, env) := by
  induction evs generalizing rs rs' o n with
  | nil => simp [runFiltered] at h
  | cons e rest ih =>
    obtain ⟨pc, env⟩ := e
    unfold runFiltered at h
    by_cases hm : pc ∈ en
    · simp only [hm, if_true] at h
      rcases hd : decide rs pc env with ⟨rs1, d, o1⟩
      rw [hd] at h
      cases d with
      | stop =>
        dsimp only at h
        simp only [Prod.mk.injEq, Option.some.injEq] at h
        obtain ⟨-, -, rfl, rfl⟩ := h
        exact ⟨hm, by omega, by simp, env, by simp⟩
      | skip =>
        dsimp only at h
        rcases hr : runFiltered en rs1 rest with ⟨rs2, o2, n2, r2⟩
        rw [hr] at h
        simp only [Prod.mk.injEq] at h
        obtain ⟨-, -, rfl, rfl⟩ := h
        obtain ⟨h1, h2, h3, env', h4⟩ := ih rs1 rs2 o2 n2 hr
        refine ⟨h1, by omega, by simp; omega, env', ?_⟩
        have : n2 + 1 - 1 = (n2 - 1) + 1 := by omega
        rw [this]; simpa using h4
    · simp only [hm, if_false] at h
      rcases hr : runFiltered en rs rest with ⟨rs2, o2, n2, r2⟩
      rw [hr] at h
      simp only [Prod.mk.injEq] at h
      obtain ⟨-, -, rfl, rfl⟩ := h
      obtain ⟨h1, h2, h3, env', h4⟩ := ih rs rs2 o2 n2 hr
      refine ⟨h1, by omega, by simp; omega, env', ?_⟩
      have : n2 + 1 - 1 = (n2 - 1) + 1 := by omega
      rw [this]; simpa using h4

/-- nothing installed ⇒ the program is never stopped (runs to its exit), whatever records the adapter holds -/
theorem C13_nothing_installed_never_stops (rs : Recs) (evs : List Ev) :
    (runFiltered [] rs evs).2.2.2 = none ∧ (runFiltered [] rs evs).2.1 = [] := by
  induction evs generalizing rs with
  | nil => simp [runFiltered]
  | cons e rest ih =>
    obtain ⟨pc, env⟩ := e
    unfold runFiltered
    simp
    exact ih rs

/-! ## 3. Replace, while the process runs -/

def recAddrs (recs : List Rec) : List Addr := recs.flatMap (·.addrs)

/-- the locations installed by a request are exactly the requested ones (running process) -/
theorem mem_setMany_en (fo : Bool) (r : Reg) (id : Nat) (bs : List BpReq) (x : Nat) :
    x ∈ (setMany fo true r id bs).1.en ↔ x ∈ r.en ∨ ∃ b ∈ bs, x ∈ b.locs := by
  unfold setMany
  suffices H : ∀ (acc : Reg × Nat × List Rec × List (Nat × Bool)),
      x ∈ (bs.foldl (setOne fo true) acc).1.en ↔ x ∈ acc.1.en ∨ ∃ b ∈ bs, x ∈ b.locs from H _
  induction bs with
  | nil => intro acc; simp
  | cons b rest ih =>
    intro acc
    rw [List.foldl_cons, ih]
    obtain ⟨r0, id0, recs0, fl0⟩ := acc
    have key : x ∈ (setOne fo true (r0, id0, recs0, fl0) b).1.en ↔ x ∈ r0.en ∨ x ∈ b.locs := by
      unfold setOne
      cases hb : b.locs with
      | nil => simp
      | cons l ls =>
        simp only [addLocs, if_true]
        rw [mem_foldl_ins (fun a => a)]
        simp
    rw [key]
    simp only [List.mem_cons, exists_eq_or_imp]
    constructor
    · rintro ((h | h) | h)
      · exact Or.inl h
      · exact Or.inr (Or.inl h)
      · exact Or.inr (Or.inr h)
    · rintro (h | h | h)
      · exact Or.inl (Or.inl h)
      · exact Or.inl (Or.inr h)
      · exact Or.inr h

theorem setMany_dis (fo : Bool) (r : Reg) (id : Nat) (bs : List BpReq) :
    (setMany fo true r id bs).1.dis = r.dis := by
  unfold setMany
  suffices H : ∀ (acc : Reg × Nat × List Rec × List (Nat × Bool)),
      (bs.foldl (setOne fo true) acc).1.dis = acc.1.dis from H _
  induction bs with
  | nil => intro acc; rfl
  | cons b rest ih =>
    intro acc
    rw [List.foldl_cons, ih]
    obtain ⟨r0, id0, recs0, fl0⟩ := acc
    unfold setOne
    cases hb : b.locs <;> simp [addLocs]

/-- **C13_replace (one request, running process).** For EVERY state of a running process (no templates pending)
and EVERY setFunctionBreakpoints request, afterwards the installed set is: what was installed before, minus the
locations recorded for the previous function breakpoints, plus ALL locations of the new request. -/
theorem C13_replace_functions_running (s : St) (bs : List BpReq)
    (hrun : s.phase = .running) (hdis : s.reg.dis = []) (x : Nat) :
    x ∈ (setFns s bs).1.reg.en ↔
      (x ∈ s.reg.en ∧ Addr.rel x ∉ recAddrs s.fn) ∨ ∃ b ∈ bs, x ∈ b.locs := by
  have hr : s.running = true := by simp [St.running, hrun]
  unfold setFns
  simp only [hr]
  rw [mem_setMany_en, mem_removeRecs_en _ _ hdis]
  simp [recAddrs, List.mem_flatMap]

/-- the same for setBreakpoints of source `k` (the records hold only first locations, but every location is installed) -/
theorem C13_replace_lines_running (s : St) (k : Nat) (bs : List BpReq)
    (hrun : s.phase = .running) (hdis : s.reg.dis = []) (x : Nat) :
    x ∈ (setLines s k bs).1.reg.en ↔
      (x ∈ s.reg.en ∧ Addr.rel x ∉ recAddrs (alookup k s.src)) ∨ ∃ b ∈ bs, x ∈ b.locs := by
  have hr : s.running = true := by simp [St.running, hrun]
  unfold setLines
  simp only [hr]
  rw [mem_setMany_en, mem_removeRecs_en _ _ hdis]
  simp [recAddrs, List.mem_flatMap]

/-- and the process keeps having no pending templates -/
theorem C13_running_no_templates (s : St) (bs : List BpReq) (k : Nat)
    (hrun : s.phase = .running) (hdis : s.reg.dis = []) :
    (setFns s bs).1.reg.dis = [] ∧ (setLines s k bs).1.reg.dis = [] := by
  have hr : s.running = true := by simp [St.running, hrun]
  constructor
  · unfold setFns; simp only [hr]; rw [setMany_dis]; exact removeRecs_dis_nil _ _ hdis
  · unfold setLines; simp only [hr]; rw [setMany_dis]; exact removeRecs_dis_nil _ _ hdis

/-! ## 4. `verified` -/

/-- flags of a request: one per breakpoint, in order, `verified` iff the breakpoint resolved to a location -/
theorem setMany_flags (fo run : Bool) (r : Reg) (id : Nat) (bs : List BpReq) :
    ((setMany fo run r id bs).2.2.2).map (·.2) = bs.map (fun b => !b.locs.isEmpty) := by
  unfold setMany
  suffices H : ∀ (acc : Reg × Nat × List Rec × List (Nat × Bool)),
      ((bs.foldl (setOne fo run) acc).2.2.2).map (·.2) = acc.2.2.2.map (·.2) ++ bs.map (fun b => !b.locs.isEmpty) by
    simpa using H (r, id, [], [])
  induction bs with
  | nil => intro acc; simp
  | cons b rest ih =>
    intro acc
    rw [List.foldl_cons, ih]
    obtain ⟨r0, id0, recs0, fl0⟩ := acc
    unfold setOne
    cases hb : b.locs <;> simp [hb]

/-- **C13_verified_iff_installed (running process, lines and functions).** Every flag of the response is `true`
exactly when the breakpoint has a location, and then ALL its locations are installed after the request. -/
theorem C13_verified_iff_installed_running (s : St) (bs : List BpReq) (hrun : s.phase = .running) :
    ((setFns s bs).2.map (·.2) = bs.map (fun b => !b.locs.isEmpty)) ∧
    (∀ b ∈ bs, ∀ x ∈ b.locs, x ∈ (setFns s bs).1.reg.en) := by
  have hr : s.running = true := by simp [St.running, hrun]
  constructor
  · unfold setFns; simp only; exact setMany_flags _ _ _ _ _
  · intro b hb x hx
    unfold setFns
    simp only [hr]
    rw [mem_setMany_en]
    exact Or.inr ⟨b, hb, hx⟩

/-- the full statement: in EVERY phase, a `verified: true` instruction breakpoint is installed once the process runs -/
def C13_verified_iff_installed_full : Prop :=
  ∀ (τ : List Ev) (bs : List InsnReq),
    let s1 := (setInsns (init τ) bs).1
    let flags := (setInsns (init τ) bs).2
    let s2 := (confDone s1).1
    s2.phase = .running → ∀ p ∈ bs.zip flags, p.2.2 = true → p.1.addr ∈ s2.reg.en

/-- it is false of the code: an instruction reference without a source place is accepted unchecked before the start
(`verified: true`) and silently dropped when breakpoints are enabled -/
theorem C13_verified_iff_installed_counterexample : ¬ C13_verified_iff_installed_full := by
  intro h
  have := h [(0x100, 0)] [{ addr := 0x100, valid := true, opts := {} }, { addr := 0x10, valid := false, opts := {} }]
    (by decide) ({ addr := 0x10, valid := false, opts := {} }, (2, true)) (by decide) rfl
  revert this
  decide

/-! ## 5. Options are honoured whenever the breakpoint was created -/

/-- every installed location is known to the adapter under the key stops are looked up by -/
def Consistent (s : St) : Prop :=
  ∀ a ∈ s.reg.en, Addr.rel a ∈ recAddrs (s.src.flatMap (·.2)) ++ recAddrs s.fn ++ recAddrs s.insn

/-- full statement: after any history, whenever the process runs, every installed location has its record
(so that its options are consulted at every stop) -/
def C13_options_time_invariant_full : Prop :=
  ∀ (τ : List Ev) (h : List Cmd), (execAll (init τ) h).phase = .running → Consistent (execAll (init τ) h)

/-- FALSE of the unchanged code: a line breakpoint requested before `configurationDone` is recorded under its
`Global` address; the process reports `Relocated` addresses. Witness: one event, one breakpoint with `condition: false`. -/
theorem C13_options_time_invariant_counterexample : ¬ C13_options_time_invariant_full := by
  intro h
  have := h [(0x10, 0), (0x20, 0)]
    [.setB 0 [{ locs := [0x10], opts := { cond := .lit false } }], .confDone]
    (by decide) 0x10 (by decide)
  revert this
  decide

/-- … and the consequence, on the same witness: the program STOPS at a breakpoint whose condition is `false`
(set before start), while the same request made after the start never stops there. -/
theorem C13_condition_false_before_start_stops :
    (exec (execAll (init [(0x10, 0), (0x20, 0)])
        [.setB 0 [{ locs := [0x10], opts := { cond := .lit false } }]]) .confDone).2
      = .run [] (.stop 0x10) := by decide

theorem C13_condition_false_after_start_skips :
    (exec (execAll (init [(0x20, 0), (0x10, 0), (0x20, 0)])
        [.setI [{ addr := 0x20, valid := true, opts := {} }], .confDone,
         .setB 0 [{ locs := [0x10], opts := { cond := .lit false } }]]) .cont).2
      = .run [] (.stop 0x20) := by decide

/-- when the record IS found, `should_skip_breakpoint` is exactly the record's decision on the incremented hit count:
lookup by the relocated stop address, in the order sources → functions → instructions. -/
theorem C13_found_record_decides (rs rs' : Recs) (x : Rec) (a env : Nat)
    (h : recordHit rs (.rel a) = some (rs', x)) :
    decide rs a env = (rs', (decideRec x.id x.opts x.hits env).1, (decideRec x.id x.opts x.hits env).2) := by
  unfold decide; simp [h]

/-- the record found is one that holds the stop address, with its hit count incremented by exactly one -/
theorem hitIn_spec (a : Addr) (recs recs' : List Rec) (x : Rec) (h : hitIn a recs = some (recs', x)) :
    ∃ r ∈ recs, a ∈ r.addrs ∧ x = { r with hits := r.hits + 1 } := by
  induction recs generalizing recs' x with
  | nil => simp [hitIn] at h
  | cons r rest ih =>
    unfold hitIn at h
    by_cases hm : a ∈ r.addrs
    · simp only [hm, if_true, Option.some.injEq, Prod.mk.injEq] at h
      exact ⟨r, by simp, hm, h.2.symm⟩
    · simp only [hm, if_false] at h
      cases hr : hitIn a rest with
      | none => simp [hr] at h
      | some p =>
        obtain ⟨rs1, y⟩ := p
        simp only [hr, Option.some.injEq, Prod.mk.injEq] at h
        obtain ⟨r', hr', ha, hx⟩ := ih rs1 y hr
        exact ⟨r', by simp [hr'], ha, by rw [← h.2]; exact hx⟩

/-- a record list that holds the address always yields a record (no silent miss) -/
theorem hitIn_complete (a : Addr) (recs : List Rec) (h : a ∈ recAddrs recs) : (hitIn a recs).isSome = true := by
  induction recs with
  | nil => simp [recAddrs] at h
  | cons r rest ih =>
    unfold hitIn
    by_cases hm : a ∈ r.addrs
    · simp [hm]
    · simp only [hm, if_false]
      have : a ∈ recAddrs rest := by
        simp only [recAddrs, List.flatMap_cons, List.mem_append] at h
        rcases h with h | h
        · exact absurd h hm
        · exact h
      have := ih this
      cases hr : hitIn a rest with
      | none => simp [hr] at this
      | some p => simp

/-! ## 6. Replace across the start: the full statement and its failure -/

/-- full statement: after any history, while the process runs, the installed set is exactly the union of the
locations held by the latest records of each kind -/
def C13_replace_full : Prop :=
  ∀ (τ : List Ev) (h : List Cmd), let s := execAll (init τ) h
    s.phase = .running → ∀ a, a ∈ s.reg.en ↔
      (Addr.rel a ∈ recAddrs (s.src.flatMap (·.2)) ++ recAddrs s.fn ++ recAddrs s.insn)

/-- FALSE of the unchanged code. Witness: line A requested before the start, replaced after the start by line B:
A stays installed (the adapter asks to remove `Global A`, the registry holds `Relocated A`). -/
theorem C13_replace_counterexample : ¬ C13_replace_full := by
  intro h
  have := (h [(0x10, 0), (0x20, 0), (0x10, 0)]
    [.setB 0 [{ locs := [0x10], opts := {} }], .confDone, .setB 0 [{ locs := [0x20], opts := {} }]]
    (by decide) 0x10).mp (by decide)
  revert this
  decide

/-- the same history: the next `continue` stops at A although the latest set is {B} only after B was passed -/
theorem C13_replace_stale_stop :
    (execAll (init [(0x10, 0), (0x20, 0), (0x10, 0)])
      [.setB 0 [{ locs := [0x10], opts := {} }], .confDone, .setB 0 [{ locs := [0x20], opts := {} }]]).reg.en
      = [0x10, 0x20] := by decide

/-- only the first of several locations is recorded: the second instantiation stays installed after an empty request -/
theorem C13_replace_multi_location_counterexample :
    (execAll (init [(0x5, 0), (0x10, 0), (0x11, 0)])
      [.setI [{ addr := 0x5, valid := true, opts := {} }], .confDone,
       .setB 0 [{ locs := [0x10, 0x11], opts := {} }], .setB 0 []]).reg.en = [0x5, 0x11] := by decide

/-! ## 7. Start, restart, and every history -/

theorem mem_enableAll_en (r : Reg) (x : Nat) :
    x ∈ r.enableAll.en ↔ x ∈ r.en ∨ Addr.glob x ∈ r.dis ∨ Addr.rel x ∈ r.dis := by
  unfold Reg.enableAll
  simp only
  generalize r.en = en
  induction r.dis generalizing en with
  | nil => simp
  | cons a as ih =>
    rw [List.foldl_cons, ih]
    cases a with
    | glob y =>
      simp only [mem_ins, List.mem_cons, Addr.glob.injEq, reduceCtorEq, false_or]
      constructor
      · rintro ((rfl | h) | h | h)
        · exact Or.inr (Or.inl (Or.inl rfl))
        · exact Or.inl h
        · exact Or.inr (Or.inl (Or.inr h))
        · exact Or.inr (Or.inr h)
      · rintro (h | (rfl | h) | h)
        · exact Or.inl (Or.inr h)
        · exact Or.inl (Or.inl rfl)
        · exact Or.inr (Or.inl h)
        · exact Or.inr (Or.inr h)
    | rel y =>
      simp only [mem_ins, List.mem_cons, Addr.rel.injEq, reduceCtorEq, false_or]
      constructor
      · rintro ((rfl | h) | h | h)
        · exact Or.inr (Or.inr (Or.inl rfl))
        · exact Or.inl h
        · exact Or.inr (Or.inl h)
        · exact Or.inr (Or.inr (Or.inr h))
      · rintro (h | h | (rfl | h))
        · exact Or.inl (Or.inr h)
        · exact Or.inr (Or.inl h)
        · exact Or.inl (Or.inl rfl)
        · exact Or.inr (Or.inr h)
    | junk y =>
      simp only [List.mem_cons, reduceCtorEq, false_or]

theorem mem_disableAll_dis (r : Reg) (a : Addr) :
    a ∈ r.disableAll.dis ↔ a ∈ r.dis ∨ ∃ x ∈ r.en, a = Addr.glob x := by
  unfold Reg.disableAll
  simp only
  exact mem_foldl_ins (fun x => Addr.glob x) r.en r.dis a

/-- **restart keeps the installed set**: for every registry of a running process (no pending templates),
disabling everything and enabling the templates again (`restart_debugee`) installs exactly the same addresses. -/
theorem C13_restart_keeps_installed (r : Reg) (h : r.dis = []) (x : Nat) :
    x ∈ r.disableAll.enableAll.en ↔ x ∈ r.en := by
  rw [mem_enableAll_en, mem_disableAll_dis, mem_disableAll_dis]
  simp [h, Reg.disableAll]

/-- **the start installs exactly the templates**: `glob a` (line / function requests made before the start) and
`rel a` (instruction requests) both become an INT3 at `a`; a relocated address without a place (`junk`) does not. -/
theorem C13_start_installs_templates (r : Reg) (h : r.en = []) (x : Nat) :
    x ∈ r.enableAll.en ↔ Addr.glob x ∈ r.dis ∨ Addr.rel x ∈ r.dis := by
  rw [mem_enableAll_en]; simp [h]

/-- system level: whatever the state, `continue` stops only while the process runs and only at an installed address -/
theorem C13_cont_stops_at_installed (s : St) (a : Nat) (h : (cont s).2.2 = .stop a) :
    s.phase = .running ∧ a ∈ s.reg.en := by
  unfold cont at h
  cases hp : s.phase <;> simp only [hp] at h <;> try (simp at h)
  refine ⟨rfl, ?_⟩
  unfold goFiltered at h
  rcases hr : runFiltered s.reg.en s.recs (List.drop s.pos s.τ) with ⟨rs, o, n, r⟩
  simp only [hr] at h
  cases r with
  | none => simp at h
  | some a' =>
    simp only [Outcome.stop.injEq] at h
    subst h
    exact (C13_stops_only_at_installed _ _ _ _ _ _ _ hr).1

/-! ### an invariant of ALL histories: a running process has no pending templates -/

theorem setInsnOne_running_dis (acc : Reg × Nat × List Rec × List (Nat × Bool)) (b : InsnReq) :
    (setInsnOne true acc b).1.dis = acc.1.dis := by
  obtain ⟨r, id, recs, fl⟩ := acc
  unfold setInsnOne
  simp only [if_true]
  split <;> rfl

theorem setInsns_running_dis (r : Reg) (id : Nat) (bs : List InsnReq) (recs : List Rec) (fl : List (Nat × Bool)) :
    (bs.foldl (setInsnOne true) (r, id, recs, fl)).1.dis = r.dis := by
  suffices H : ∀ acc : Reg × Nat × List Rec × List (Nat × Bool),
      (bs.foldl (setInsnOne true) acc).1.dis = acc.1.dis from H _
  induction bs with
  | nil => intro acc; rfl
  | cons b rest ih => intro acc; rw [List.foldl_cons, ih, setInsnOne_running_dis]

def NoTemplates (s : St) : Prop := s.phase = .running → s.reg.dis = []

theorem enableAll_dis (r : Reg) : r.enableAll.dis = [] := rfl

theorem goFiltered_noTemplates (s : St) (h : NoTemplates s) : NoTemplates (goFiltered s).1 := by
  unfold goFiltered
  rcases hr : runFiltered s.reg.en s.recs (List.drop s.pos s.τ) with ⟨rs, o, n, r⟩
  cases r with
  | none => intro hp; simp [St.withRecs] at hp
  | some a => intro hp; simp only [St.withRecs] at hp ⊢; exact h hp

theorem start_noTemplates (s : St) : NoTemplates (start s).1 := by
  unfold start
  apply goFiltered_noTemplates
  intro _; rfl

theorem exec_noTemplates (s : St) (c : Cmd) (h : NoTemplates s) : NoTemplates (exec s c).1 := by
  cases c with
  | setB k bs =>
    intro hp
    have hp' : s.phase = .running := by simpa [exec, setLines] using hp
    exact (C13_running_no_templates s bs k hp' (h hp')).2
  | setF bs =>
    intro hp
    have hp' : s.phase = .running := by simpa [exec, setFns] using hp
    exact (C13_running_no_templates s bs 0 hp' (h hp')).1
  | setI bs =>
    intro hp
    have hp' : s.phase = .running := by simpa [exec, setInsns] using hp
    have hr : s.running = true := by simp [St.running, hp']
    simp only [exec, setInsns, hr]
    rw [setInsns_running_dis]
    exact removeRecs_dis_nil _ _ (h hp')
  | setD bs =>
    intro hp
    have hp' : s.phase = .running := by simpa [exec, setData] using hp
    simpa [exec, setData] using h hp'
  | confDone =>
    simp only [exec, confDone]
    cases hph : s.phase with
    | unloaded => simpa using start_noTemplates s
    | running => simpa [hph] using h
    | exited => simpa [hph] using h
  | cont =>
    simp only [exec, cont]
    cases hph : s.phase with
    | unloaded => simpa [hph] using h
    | running => simpa using goFiltered_noTemplates s h
    | exited => simpa [hph] using h
  | restart =>
    simp only [exec, restart]
    cases hph : s.phase with
    | unloaded => simpa using start_noTemplates s
    | running =>
      simp only []
      split
      · intro _; rfl
      · intro hp; simp at hp
    | exited =>
      simp only []
      split
      · intro _; rfl
      · intro hp; simp at hp

/-- **for every trace and every history of requests**, whenever the process runs the registry holds no pending
template — the hypothesis of the per-request replace theorems is met in every reachable running state. -/
theorem C13_running_no_templates_all_histories (τ : List Ev) (h : List Cmd) : NoTemplates (execAll (init τ) h) := by
  unfold execAll
  suffices H : ∀ s, NoTemplates s → NoTemplates (h.foldl (fun s c => (exec s c).1) s) from
    H _ (by intro hp; simp [init] at hp)
  induction h with
  | nil => intro s hs; exact hs
  | cons c cs ih => intro s hs; exact ih _ (exec_noTemplates s c hs)

/-- **C13_replace, every history**: after ANY history, a setFunctionBreakpoints request made while the process runs
leaves installed exactly: what was installed, minus the addresses recorded for the previous function breakpoints,
plus all locations of the new request (same for setBreakpoints of a source). -/
theorem C13_replace_after_any_history (τ : List Ev) (h : List Cmd) (bs : List BpReq) (k x : Nat)
    (hrun : (execAll (init τ) h).phase = .running) :
    let s := execAll (init τ) h
    (x ∈ (setFns s bs).1.reg.en ↔ (x ∈ s.reg.en ∧ Addr.rel x ∉ recAddrs s.fn) ∨ ∃ b ∈ bs, x ∈ b.locs) ∧
    (x ∈ (setLines s k bs).1.reg.en ↔
      (x ∈ s.reg.en ∧ Addr.rel x ∉ recAddrs (alookup k s.src)) ∨ ∃ b ∈ bs, x ∈ b.locs) := by
  have hd := C13_running_no_templates_all_histories τ h hrun
  exact ⟨C13_replace_functions_running _ bs hrun hd x, C13_replace_lines_running _ k bs hrun hd x⟩

/-! ## non-vacuity / sanity (tests, not theorems) -/

example : noOp "12".toList = true := by decide
example : NoTemplates (execAll (init [(5, 0)]) [.setI [{ addr := 5, valid := true, opts := {} }], .confDone]) ∧
    (execAll (init [(5, 0)]) [.setI [{ addr := 5, valid := true, opts := {} }], .confDone]).phase = .running := by
  constructor
  · exact C13_running_no_templates_all_histories _ _
  · decide
example : ∃ r : Reg, r.dis = [] ∧ r.en ≠ [] ∧ r.disableAll.dis ≠ [] := ⟨{ dis := [], en := [7] }, rfl, by decide, by decide⟩
example : (decideRec 1 { cond := .lit false, hit := some (.exact 1), log := some 3 } 1 0).1 = .skip := by decide
example : ∃ s : St, s.phase = .running ∧ s.reg.dis = [] ∧ s.reg.en ≠ [] :=
  ⟨execAll (init [(5, 0)]) [.setI [{ addr := 5, valid := true, opts := {} }], .confDone], by decide, by decide, by decide⟩
example : runFiltered [7] { src := [], fn := [], insn := [] } [(3, 0), (7, 0)] = ({ src := [], fn := [], insn := [] }, [], 2, some 7) := by decide
#guard parseHit ">= 3".toList == .ge 3
#guard parseHit " 4 ".toList == .exact 4
#guard parseHit "==2".toList == .exact 2
#guard parseHit "%2".toList == .invalid
#guard parseHit "18446744073709551616".toList == .invalid
#guard parseHit "+2".toList == .exact 2

end BsVerif.DapBp
