import BsVerif.Lemmas.Reloc
import BsVerif.Model.RelocSession
/-!
# C18 — code is found wherever it is loaded

Property theorems about the model of `DwarfRegistry` / `GlobalAddress` / `RelocatedAddress` / `reload_plan` /
`refresh_deferred` (`Model/Reloc.lean`), for ALL mapping tables, registries, addresses, link maps and load histories.

Environment (what the kernel and ld.so do, checked against /proc/<pid>/maps + readelf on every run):
an object whose first PT_LOAD has page-aligned `p_vaddr = vaddr0` and that is loaded with bias `bias` has its lowest map
line at `bias + vaddr0`; the byte the file places at virtual address `g` is at runtime address `bias + g`.

Where the unchanged code violates the property the full statement is kept as a `def … _full : Prop`, the part that holds
is proved under a named hypothesis (`_partial`) and the negation is proved on a concrete witness (`_counterexample`);
the witnesses are replayed on the real debugger by the harness (corpus/C18, known_findings.txt).
-/
namespace BsVerif.Reloc

/-! ## relocation -/

/-- environment: object `o` (first PT_LOAD at `vaddr0`) is loaded with bias `bias` -/
def LoadedAt (maps : List MapE) (o vaddr0 bias : Nat) : Prop := minLo (mapsOf maps o) = some (bias + vaddr0)

instance (maps : List MapE) (o vaddr0 bias : Nat) : Decidable (LoadedAt maps o vaddr0 bias) := by
  unfold LoadedAt; infer_instance

/-- What the code computes, for every registry, mapping table, object and address: `global + lowest map start`. -/
theorem C18_relocate_exact (r : Registry) (maps : List MapE) (o vaddr0 bias g : Nat) (ho : o ∈ r.files)
    (hl : LoadedAt maps o vaddr0 bias) :
    (r.updateMappings false maps).relocate g o = some (g + (bias + vaddr0)) := by
  unfold Registry.relocate
  rw [offsetOfObj_updateMappings]
  have : o ∈ selected r false := by simpa [selected] using ho
  unfold LoadedAt at hl
  simp [this, hl]

/-- FULL STATEMENT (false of the unchanged code): the relocated address is the runtime address of the ELF address. -/
def C18_relocate_correct_full : Prop :=
  ∀ (r : Registry) (maps : List MapE) (o vaddr0 bias g : Nat), o ∈ r.files → LoadedAt maps o vaddr0 bias →
    (r.updateMappings false maps).relocate g o = some (bias + g)

/-- It holds for every object linked at address 0 (PIE executables, shared libraries). -/
theorem C18_relocate_correct_partial (r : Registry) (maps : List MapE) (o vaddr0 bias g : Nat) (ho : o ∈ r.files)
    (hl : LoadedAt maps o vaddr0 bias) (hz : vaddr0 = 0) :
    (r.updateMappings false maps).relocate g o = some (bias + g) := by
  rw [C18_relocate_exact r maps o vaddr0 bias g ho hl, hz]
  congr 1; omega

/-- the maps of `progs/c18_nopie` (ET_EXEC linked at 0x400000): the entry point 0x407900 is "relocated" to 0x807900 -/
def nopieMaps : List MapE := [⟨0, 0x400000, 0x402000⟩, ⟨0, 0x402000, 0x443000⟩, ⟨0, 0x443000, 0x451000⟩, ⟨0, 0x451000, 0x456000⟩]

theorem C18_relocate_correct_counterexample : ¬ C18_relocate_correct_full := by
  intro h
  have := h { program := 0, files := [0] } nopieMaps 0 0x400000 0 0x407900 (by simp) (by decide)
  revert this
  decide

/-- the same at the first stop (`update_mappings(only_main)`): the entry breakpoint of a non-PIE executable -/
theorem C18_entry_relocation (r : Registry) (maps : List MapE) (vaddr0 bias entry : Nat) (hp : r.program ∈ r.files)
    (hl : LoadedAt maps r.program vaddr0 bias) :
    (r.updateMappings true maps).relocate entry r.program = some (entry + (bias + vaddr0)) := by
  unfold Registry.relocate
  rw [offsetOfObj_updateMappings]
  have : r.program ∈ selected r true := by simp [selected, hp]
  simp [this]
  unfold LoadedAt at hl
  simp [hl]

/-! ## Relocated → Global → Relocated -/

/-- `into_global` never underflows and `relocate ∘ into_global` is the identity wherever `into_global` answers
(every registry produced by `update_mappings`, every mapping table, every address). -/
theorem C18_roundtrip (r : Registry) (b : Bool) (maps : List MapE) (a g : Nat)
    (h : (r.updateMappings b maps).intoGlobal a = some g) :
    ∃ x, findRange (r.updateMappings b maps).ranges a = some x ∧ x.lo ≤ a ∧ g = a - x.lo ∧
         (r.updateMappings b maps).relocate g x.obj = some a := by
  unfold Registry.intoGlobal Registry.offsetOfAddr at h
  cases hf : findRange (r.updateMappings b maps).ranges a with
  | none => simp [hf] at h
  | some x =>
    have hs := findRange_sound hf
    have hc := ranges_consistent hs.1
    simp only [hf, Option.bind_some, hc, Option.map_some] at h
    injection h with h
    refine ⟨x, rfl, hs.2.1, h.symm, ?_⟩
    unfold Registry.relocate
    rw [hc]
    simp only [Option.map_some]
    congr 1
    omega

/-- `into_global ∘ relocate` is the identity for addresses that land inside the object's mapped extent,
when the ranges of different objects do not overlap. -/
theorem C18_roundtrip_global (r : Registry) (b : Bool) (maps : List MapE) (x : Range) (g : Nat)
    (hsep : Sep (r.updateMappings b maps).ranges) (hx : x ∈ (r.updateMappings b maps).ranges) (hin : g + x.lo < x.hi) :
    (r.updateMappings b maps).relocate g x.obj = some (g + x.lo) ∧
    (r.updateMappings b maps).intoGlobal (g + x.lo) = some g := by
  have hc := ranges_consistent hx
  have hf := findRange_complete hsep hx (a := g + x.lo) (by omega) hin
  refine ⟨by unfold Registry.relocate; rw [hc]; rfl, ?_⟩
  unfold Registry.intoGlobal Registry.offsetOfAddr
  simp only [hf, Option.bind_some, hc, Option.map_some]
  congr 1
  omega

/-! ## `find_range` -/

/-- every address inside a mapped extent is attributed to its object (any number of objects, any layout without overlap) -/
theorem C18_find_range (rs : List Range) (hs : Sep rs) (r : Range) (a : Nat) (hr : r ∈ rs) (h1 : r.lo ≤ a) (h2 : a < r.hi) :
    findRange rs a = some r := findRange_complete hs hr h1 h2

/-- whatever `find_range` answers is a stored range that contains the address — END INCLUSIVE -/
theorem C18_find_range_sound (rs : List Range) (a : Nat) (r : Range) (h : findRange rs a = some r) :
    r ∈ rs ∧ r.lo ≤ a ∧ a ≤ r.hi := findRange_sound h

/-- FULL STATEMENT (false): the answer is the object whose half-open extent `[lo, hi)` contains the address. -/
def C18_find_range_full : Prop :=
  ∀ (rs : List Range) (a : Nat) (r : Range), Sep rs → (findRange rs a = some r ↔ r ∈ rs ∧ r.lo ≤ a ∧ a < r.hi)

/-- true for every address that is not the end address of a stored range -/
theorem C18_find_range_partial (rs : List Range) (a : Nat) (r : Range) (hs : Sep rs) (hne : ∀ x ∈ rs, a ≠ x.hi) :
    findRange rs a = some r ↔ r ∈ rs ∧ r.lo ≤ a ∧ a < r.hi := by
  constructor
  · intro h
    have hs' := findRange_sound h
    have hn := hne r hs'.1
    exact ⟨hs'.1, hs'.2.1, by omega⟩
  · rintro ⟨h1, h2, h3⟩
    exact findRange_complete hs h1 h2 h3

/-- the first address AFTER a mapping (`to` itself) is attributed to the object (`addr <= range.to`) -/
theorem C18_find_range_counterexample : ¬ C18_find_range_full := by
  intro h
  have := ((h [⟨1, 0x1000, 0x2000⟩] 0x2000 ⟨1, 0x1000, 0x2000⟩ (by constructor <;> simp)).mp (by decide)).2.2
  simp at this

/-- an address inside the mapped extent of a registered object gets that object's offset -/
theorem C18_offset_of_mapped_address (r : Registry) (b : Bool) (maps : List MapE) (x : Range) (a : Nat)
    (hsep : Sep (r.updateMappings b maps).ranges) (hx : x ∈ (r.updateMappings b maps).ranges)
    (h1 : x.lo ≤ a) (h2 : a < x.hi) :
    (r.updateMappings b maps).offsetOfAddr a = minLo (mapsOf maps x.obj) := by
  have hf := findRange_complete hsep hx h1 h2
  have ⟨_, hr⟩ := mem_ranges_updateMappings hx
  unfold Registry.offsetOfAddr
  simp only [hf, Option.bind_some, ranges_consistent hx]
  exact (regionOf_some hr).2.symm

/-! ## reload plan -/

/-- after executing the plan the registry holds exactly: what it had and the loader still lists (the program is never
dropped), plus what the loader lists, was missing and could be parsed — for every registry, link map and parser. -/
theorem C18_reload_plan (r : Registry) (target : List Nat) (parse : Nat → Bool) (x : Nat) :
    x ∈ (r.applyPlan target parse).files ↔
      (x ∈ r.files ∧ (x ∈ target ∨ x = r.program)) ∨ (x ∈ target ∧ x ∉ r.files ∧ parse x = true) := by
  unfold Registry.applyPlan reloadPlan
  simp only [mem_foldl_addFile, List.mem_filter, List.contains_eq_mem, Bool.not_eq_eq_eq_not, Bool.not_true,
    decide_eq_false_iff_not, Bool.and_eq_true, bne_iff_ne, ne_eq, Bool.not_eq_true', decide_eq_true_eq, not_and, Decidable.not_not]
  constructor
  · rintro (⟨h1, h2⟩ | ⟨⟨h1, h2⟩, h3⟩)
    · left
      refine ⟨h1, ?_⟩
      by_cases ht : x ∈ target
      · exact Or.inl ht
      · exact Or.inr (h2 h1 ht)
    · right; exact ⟨h1, h2, h3⟩
  · rintro (⟨h1, h2⟩ | ⟨h1, h2, h3⟩)
    · left
      refine ⟨h1, fun _ hnt => ?_⟩
      rcases h2 with h2 | h2
      · exact absurd h2 hnt
      · exact h2
    · right; exact ⟨⟨h1, h2⟩, h3⟩

/-- the key set stays a set -/
theorem C18_reload_plan_nodup (r : Registry) (target : List Nat) (parse : Nat → Bool) (h : r.files.Nodup) :
    (r.applyPlan target parse).files.Nodup := by
  unfold Registry.applyPlan
  exact nodup_foldl_addFile _ _ (h.filter _)

/-! ## `sharedlib info` -/

theorem find_ranges_updateMappings (r : Registry) (b : Bool) (maps : List MapE) (f : Nat) (hf : f ∈ selected r b) :
    (r.updateMappings b maps).ranges.find? (fun x => x.obj == f) = regionOf maps f := by
  cases hfd : (r.updateMappings b maps).ranges.find? (fun x => x.obj == f) with
  | some y =>
    have hy := List.find?_some hfd
    have hm := List.mem_of_find?_eq_some hfd
    have ⟨_, hr⟩ := mem_ranges_updateMappings hm
    have : y.obj = f := by simpa using hy
    rw [this] at hr
    exact hr.symm
  | none =>
    cases hr : regionOf maps f with
    | none => rfl
    | some x =>
      exfalso
      have hx : x ∈ (r.updateMappings b maps).ranges := by
        unfold Registry.updateMappings
        simp only [mem_sortByLo, List.mem_filterMap]
        exact ⟨f, by unfold selected at hf; exact hf, hr⟩
      have := List.find?_eq_none.mp hfd x hx
      simp [(regionOf_some hr).1] at this

/-- After any load event the list names exactly the registered files, and every entry carries the real extent of the
object in the mapping table — lowest start … end of the highest map line — or no range iff the object is not mapped. -/
theorem C18_sharedlib_list (r : Registry) (lm : List Nat) (parse : Nat → Bool) (maps : List MapE) :
    (∀ f, (∃ e, (f, e) ∈ (r.onLoadEvent lm parse maps).dump) ↔ f ∈ (r.applyPlan lm parse).files) ∧
    (∀ f e, (f, e) ∈ (r.onLoadEvent lm parse maps).dump → e = (regionOf maps f).map (fun x => (x.lo, x.hi))) ∧
    (∀ f, (regionOf maps f).isSome ↔ mapsOf maps f ≠ []) := by
  refine ⟨?_, ?_, fun f => regionOf_isSome_iff⟩
  · intro f
    unfold Registry.dump Registry.onLoadEvent
    simp only [List.mem_map, Prod.mk.injEq]
    constructor
    · rintro ⟨e, f', hf', h1, _⟩
      subst h1
      simpa [Registry.updateMappings] using hf'
    · intro hf
      exact ⟨_, f, by simpa [Registry.updateMappings] using hf, rfl, rfl⟩
  · intro f e h
    unfold Registry.dump at h
    simp only [List.mem_map, Prod.mk.injEq] at h
    obtain ⟨f', hf', h1, h2⟩ := h
    subst h1
    rw [← h2]
    unfold Registry.onLoadEvent at hf' ⊢
    have hsel : f' ∈ selected (r.applyPlan lm parse) false := by
      simpa [selected, Registry.updateMappings] using hf'
    rw [find_ranges_updateMappings _ _ _ _ hsel]

/-! ## deferred breakpoints -/

/-- a deferred request stays exactly as long as no load event lets it succeed (any history, any attempt outcomes) -/
theorem C18_deferred_retained (es : List (Nat → List Nat × Bool)) (s : BpState) (q : Nat) :
    q ∈ (refreshAll es s).deferred ↔ q ∈ s.deferred ∧ ∀ e ∈ es, (e q).2 = false := by
  induction es generalizing s with
  | nil => simp [refreshAll]
  | cons e es ih =>
    rw [refreshAll, ih]
    simp only [refresh, List.mem_filter, Bool.not_eq_eq_eq_not, Bool.not_true, List.mem_cons, forall_eq_or_imp]
    constructor
    · rintro ⟨⟨h1, h2⟩, h3⟩; exact ⟨h1, h2, h3⟩
    · rintro ⟨h1, h2, h3⟩; exact ⟨⟨h1, h2⟩, h3⟩

/-- the deferred list never grows and keeps its order: nothing is re-added, nothing is duplicated -/
theorem C18_deferred_never_duplicated (es : List (Nat → List Nat × Bool)) (s : BpState) :
    (refreshAll es s).deferred.Sublist s.deferred := by
  induction es generalizing s with
  | nil => simp [refreshAll]
  | cons e es ih =>
    rw [refreshAll]
    exact (ih (refresh e s)).trans (by simp [refresh])

/-- installed breakpoints are never lost by a load event, and the address set stays duplicate free -/
theorem C18_active_monotone (es : List (Nat → List Nat × Bool)) (s : BpState) (a : Nat) (h : a ∈ s.active) :
    a ∈ (refreshAll es s).active := by
  induction es generalizing s with
  | nil => simpa [refreshAll] using h
  | cons e es ih =>
    rw [refreshAll]
    apply ih
    simp only [refresh]
    exact (mem_refresh_active_aux e a _ _).mpr (Or.inl h)

theorem C18_active_nodup (es : List (Nat → List Nat × Bool)) (s : BpState) (h : s.active.Nodup) :
    (refreshAll es s).active.Nodup := by
  induction es generalizing s with
  | nil => simpa [refreshAll] using h
  | cons e es ih =>
    rw [refreshAll]
    apply ih
    simp only [refresh]
    exact nodup_refresh_active_aux e _ _ h

/-- A deferred request becomes active at the FIRST load event at which it resolves: for every history
`pre ++ e :: post` in which the request fails at every event of `pre` and succeeds at `e`, it is still deferred after
`pre`, every address installed by `e` is active after `e` and stays active to the end, and the request is gone for good. -/
theorem C18_deferred_activates (pre post : List (Nat → List Nat × Bool)) (e : Nat → List Nat × Bool) (s : BpState) (q : Nat)
    (hq : q ∈ s.deferred) (hpre : ∀ e' ∈ pre, (e' q).2 = false) (he : (e q).2 = true) :
    q ∈ (refreshAll pre s).deferred ∧
    (∀ a ∈ (e q).1, a ∈ (refreshAll (pre ++ [e]) s).active ∧ a ∈ (refreshAll (pre ++ e :: post) s).active) ∧
    q ∉ (refreshAll (pre ++ e :: post) s).deferred := by
  have hsplit : ∀ (l1 l2 : List (Nat → List Nat × Bool)) (t : BpState), refreshAll (l1 ++ l2) t = refreshAll l2 (refreshAll l1 t) := by
    intro l1
    induction l1 with
    | nil => intro l2 t; rfl
    | cons x xs ih => intro l2 t; simp [refreshAll, ih]
  have h1 : q ∈ (refreshAll pre s).deferred := (C18_deferred_retained pre s q).mpr ⟨hq, hpre⟩
  refine ⟨h1, ?_, ?_⟩
  · intro a ha
    have hact : a ∈ (refreshAll (pre ++ [e]) s).active := by
      rw [hsplit]
      simp only [refreshAll, refresh]
      exact (mem_refresh_active_aux e a _ _).mpr (Or.inr ⟨q, h1, ha⟩)
    refine ⟨hact, ?_⟩
    have : pre ++ e :: post = (pre ++ [e]) ++ post := by simp
    rw [this, hsplit]
    exact C18_active_monotone post _ a hact
  · intro hc
    have := ((C18_deferred_retained (pre ++ e :: post) s q).mp hc).2 e (by simp)
    rw [he] at this
    cases this

/-! ## tests (not theorems) and non-vacuity -/

/-- a PIE executable at 0x555555554000 and a library at 0x7ffff7d61000, as observed on the test machine -/
def pieMaps : List MapE :=
  [⟨0, 0x555555554000, 0x55555555a000⟩, ⟨0, 0x55555555a000, 0x55555559b000⟩, ⟨0, 0x5555555ad000, 0x5555555ae000⟩,
   ⟨1, 0x7ffff7d61000, 0x7ffff7d66000⟩, ⟨1, 0x7ffff7d66000, 0x7ffff7da1000⟩, ⟨1, 0x7ffff7db0000, 0x7ffff7db1000⟩]
def pieReg : Registry := ({ program := 0, files := [0, 1] } : Registry).updateMappings false pieMaps

#guard pieReg.relocate 0xa468 1 == some 0x7ffff7d6b468
#guard pieReg.intoGlobal 0x7ffff7d6b468 == some 0xa468
#guard pieReg.objOfAddr 0x55555555fb81 == some 0
#guard pieReg.dump == [(0, some (0x555555554000, 0x5555555ae000)), (1, some (0x7ffff7d61000, 0x7ffff7db1000))]
#guard (pieReg.onLoadEvent [2, 99] (fun o => o != 99) pieMaps).files == [0, 2]
#guard findRange pieReg.ranges 0x7ffff7db1000 == some ⟨1, 0x7ffff7d61000, 0x7ffff7db1000⟩   -- the inclusive end
#guard (refreshAll [fun _ => ([], false), fun q => if q == 7 then ([100, 200], true) else ([], false)] { deferred := [7, 8] })
        == { active := [100, 200], deferred := [8] }

example : LoadedAt pieMaps 1 0 0x7ffff7d61000 := by decide
example : LoadedAt nopieMaps 0 0x400000 0 := by decide
example : Sep pieReg.ranges := by
  constructor
  · decide
  · decide
example : ∃ g, pieReg.intoGlobal 0x55555555fb81 = some g := ⟨0xbb81, by decide⟩
example : (0 : Nat) ∈ (({ program := 0, files := [0, 1] } : Registry).applyPlan [2] (fun _ => true)).files := by decide
example : ∃ (pre : List (Nat → List Nat × Bool)) (e : Nat → List Nat × Bool) (s : BpState) (q : Nat),
    q ∈ s.deferred ∧ (∀ e' ∈ pre, (e' q).2 = false) ∧ (e q).2 = true ∧ (e q).1 ≠ [] :=
  ⟨[fun _ => ([], false)], fun _ => ([5], true), { deferred := [3] }, 3, by simp, by simp, rfl, by simp⟩

end BsVerif.Reloc
