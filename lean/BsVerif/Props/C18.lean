import BsVerif.Lemmas.Reloc
import BsVerif.Lemmas.RelocSession
/-!
# C18 — code is found wherever it is loaded

Property theorems about the model of `DwarfRegistry` / `GlobalAddress` / `RelocatedAddress` / `reload_plan` /
`refresh_deferred` (`Model/Reloc.lean`), for ALL mapping tables, registries, addresses, link maps and load histories.

Environment (what the kernel and ld.so do, checked against /proc/<pid>/maps + readelf on every run):
an object whose first PT_LOAD has page-aligned `p_vaddr = vaddr0` and that is loaded with bias `bias` has its lowest map
line at `bias + vaddr0`; the byte the file places at virtual address `g` is at runtime address `bias + g`.

Where the unchanged code violates the property the full statement is kept as a `def … _full : Prop`, the part that holds
is proved under a named hypothesis (`_partial`) and the negation is proved on a concrete witness (`_counterexample`);
the witnesses are replayed on the real debugger by the harness (corpus/C18, known_findings.txt).
-/
namespace BsVerif.Reloc

/-! ## relocation -/

/-- environment: object `o` (first PT_LOAD at `vaddr0`) is loaded with bias `bias` -/
def LoadedAt (maps : List MapE) (o vaddr0 bias : Nat) : Prop := minLo (mapsOf maps o) = some (bias + vaddr0)

instance (maps : List MapE) (o vaddr0 bias : Nat) : Decidable (LoadedAt maps o vaddr0 bias) := by
  unfold LoadedAt; infer_instance

/-- What the code computes, for every registry, mapping table, object and address: `global + lowest map start`. -/
theorem C18_relocate_exact (r : Registry) (maps : List MapE) (o vaddr0 bias g : Nat) (ho : o ∈ r.files)
    (hl : LoadedAt maps o vaddr0 bias) :
    (r.updateMappings false maps).relocate g o = some (g + (bias + vaddr0)) := by
  unfold Registry.relocate
  rw [offsetOfObj_updateMappings]
  have : o ∈ selected r false := by simpa [selected] using ho
  unfold LoadedAt at hl
  simp [this, hl]

/-- FULL STATEMENT (false of the unchanged code): the relocated address is the runtime address of the ELF address. -/
def C18_relocate_correct_full : Prop :=
  ∀ (r : Registry) (maps : List MapE) (o vaddr0 bias g : Nat), o ∈ r.files → LoadedAt maps o vaddr0 bias →
    (r.updateMappings false maps).relocate g o = some (bias + g)

/-- It holds for every object linked at address 0 (PIE executables, shared libraries). -/
theorem C18_relocate_correct_partial (r : Registry) (maps : List MapE) (o vaddr0 bias g : Nat) (ho : o ∈ r.files)
    (hl : LoadedAt maps o vaddr0 bias) (hz : vaddr0 = 0) :
    (r.updateMappings false maps).relocate g o = some (bias + g) := by
  rw [C18_relocate_exact r maps o vaddr0 bias g ho hl, hz]
  congr 1; omega

/-- the maps of `progs/c18_nopie` (ET_EXEC linked at 0x400000): the entry point 0x407900 is "relocated" to 0x807900 -/
def nopieMaps : List MapE := [⟨0, 0x400000, 0x402000⟩, ⟨0, 0x402000, 0x443000⟩, ⟨0, 0x443000, 0x451000⟩, ⟨0, 0x451000, 0x456000⟩]

theorem C18_relocate_correct_counterexample : ¬ C18_relocate_correct_full := by
  intro h
  have := h { program := 0, files := [0] } nopieMaps 0 0x400000 0 0x407900 (by simp) (by decide)
  revert this
  decide

/-- the same at the first stop (`update_mappings(only_main)`): the entry breakpoint of a non-PIE executable -/
theorem C18_entry_relocation (r : Registry) (maps : List MapE) (vaddr0 bias entry : Nat) (hp : r.program ∈ r.files)
    (hl : LoadedAt maps r.program vaddr0 bias) :
    (r.updateMappings true maps).relocate entry r.program = some (entry + (bias + vaddr0)) := by
  unfold Registry.relocate
  rw [offsetOfObj_updateMappings]
  have : r.program ∈ selected r true := by simp [selected, hp]
  simp [this]
  unfold LoadedAt at hl
  simp [hl]

/-! ## Relocated → Global → Relocated -/

/-- `into_global` never underflows and `relocate ∘ into_global` is the identity wherever `into_global` answers
(every registry produced by `update_mappings`, every mapping table, every address). -/
theorem C18_roundtrip (r : Registry) (b : Bool) (maps : List MapE) (a g : Nat)
    (h : (r.updateMappings b maps).intoGlobal a = some g) :
    ∃ x, findRange (r.updateMappings b maps).ranges a = some x ∧ x.lo ≤ a ∧ g = a - x.lo ∧
         (r.updateMappings b maps).relocate g x.obj = some a := by
  unfold Registry.intoGlobal Registry.offsetOfAddr at h
  cases hf : findRange (r.updateMappings b maps).ranges a with
  | none => simp [hf] at h
  | some x =>
    have hs := findRange_sound hf
    have hc := ranges_consistent hs.1
    simp only [hf, Option.bind_some, hc, Option.map_some] at h
    injection h with h
    refine ⟨x, rfl, hs.2.1, h.symm, ?_⟩
    unfold Registry.relocate
    rw [hc]
    simp only [Option.map_some]
    congr 1
    omega

/-- `into_global ∘ relocate` is the identity for addresses that land inside the object's mapped extent,
when the ranges of different objects do not overlap. -/
theorem C18_roundtrip_global (r : Registry) (b : Bool) (maps : List MapE) (x : Range) (g : Nat)
    (hsep : Sep (r.updateMappings b maps).ranges) (hx : x ∈ (r.updateMappings b maps).ranges) (hin : g + x.lo < x.hi) :
    (r.updateMappings b maps).relocate g x.obj = some (g + x.lo) ∧
    (r.updateMappings b maps).intoGlobal (g + x.lo) = some g := by
  have hc := ranges_consistent hx
  have hf := findRange_complete hsep hx (a := g + x.lo) (by omega) hin
  refine ⟨by unfold Registry.relocate; rw [hc]; rfl, ?_⟩
  unfold Registry.intoGlobal Registry.offsetOfAddr
  simp only [hf, Option.bind_some, hc, Option.map_some]
  congr 1
  omega

/-! ## `find_range` -/

/-- every address inside a mapped extent is attributed to its object (any number of objects, any layout without overlap) -/
theorem C18_find_range (rs : List Range) (hs : Sep rs) (r : Range) (a : Nat) (hr : r ∈ rs) (h1 : r.lo ≤ a) (h2 : a < r.hi) :
    findRange rs a = some r := findRange_complete hs hr h1 h2

/-- whatever `find_range` answers is a stored range that contains the address — END INCLUSIVE -/
theorem C18_find_range_sound (rs : List Range) (a : Nat) (r : Range) (h : findRange rs a = some r) :
    r ∈ rs ∧ r.lo ≤ a ∧ a ≤ r.hi := findRange_sound h

/-- FULL STATEMENT (false): the answer is the object whose half-open extent `[lo, hi)` contains the address. -/
def C18_find_range_full : Prop :=
  ∀ (rs : List Range) (a : Nat) (r : Range), Sep rs → (findRange rs a = some r ↔ r ∈ rs ∧ r.lo ≤ a ∧ a < r.hi)

/-- true for every address that is not the end address of a stored range -/
theorem C18_find_range_partial (rs : List Range) (a : Nat) (r : Range) (hs : Sep rs) (hne : ∀ x ∈ rs, a ≠ x.hi) :
    findRange rs a = some r ↔ r ∈ rs ∧ r.lo ≤ a ∧ a < r.hi := by
  constructor
  · intro h
    have hs' := findRange_sound h
    have hn := hne r hs'.1
    exact ⟨hs'.1, hs'.2.1, by omega⟩
  · rintro ⟨h1, h2, h3⟩
    exact findRange_complete hs h1 h2 h3

/-- the first address AFTER a mapping (`to` itself) is attributed to the object (`addr <= range.to`) -/
theorem C18_find_range_counterexample : ¬ C18_find_range_full := by
  intro h
  have := ((h [⟨1, 0x1000, 0x2000⟩] 0x2000 ⟨1, 0x1000, 0x2000⟩ (by constructor <;> simp)).mp (by decide)).2.2
  simp at this

/-- an address inside the mapped extent of a registered object gets that object's offset -/
theorem C18_offset_of_mapped_address (r : Registry) (b : Bool) (maps : List MapE) (x : Range) (a : Nat)
    (hsep : Sep (r.updateMappings b maps).ranges) (hx : x ∈ (r.updateMappings b maps).ranges)
    (h1 : x.lo ≤ a) (h2 : a < x.hi) :
    (r.updateMappings b maps).offsetOfAddr a = minLo (mapsOf maps x.obj) := by
  have hf := findRange_complete hsep hx h1 h2
  have ⟨_, hr⟩ := mem_ranges_updateMappings hx
  unfold Registry.offsetOfAddr
  simp only [hf, Option.bind_some, ranges_consistent hx]
  exact (regionOf_some hr).2.symm

/-! ## reload plan -/

/-- after executing the plan the registry holds exactly: what it had and the loader still lists (the program is never
dropped), plus what the loader lists, was missing and could be parsed — for every registry, link map and parser. -/
theorem C18_reload_plan (r : Registry) (target : List Nat) (parse : Nat → Bool) (x : Nat) :
    x ∈ (r.applyPlan target parse).files ↔
      (x ∈ r.files ∧ (x ∈ target ∨ x = r.program)) ∨ (x ∈ target ∧ x ∉ r.files ∧ parse x = true) := by
  unfold Registry.applyPlan reloadPlan
  simp only [mem_foldl_addFile, List.mem_filter, List.contains_eq_mem, Bool.not_eq_eq_eq_not, Bool.not_true,
    decide_eq_false_iff_not, Bool.and_eq_true, bne_iff_ne, ne_eq, Bool.not_eq_true', decide_eq_true_eq, not_and, Decidable.not_not]
  constructor
  · rintro (⟨h1, h2⟩ | ⟨⟨h1, h2⟩, h3⟩)
    · left
      refine ⟨h1, ?_⟩
      by_cases ht : x ∈ target
      · exact Or.inl ht
      · exact Or.inr (h2 h1 ht)
    · right; exact ⟨h1, h2, h3⟩
  · rintro (⟨h1, h2⟩ | ⟨h1, h2, h3⟩)
    · left
      refine ⟨h1, fun _ hnt => ?_⟩
      rcases h2 with h2 | h2
      · exact absurd h2 hnt
      · exact h2
    · right; exact ⟨⟨h1, h2⟩, h3⟩

/-- the key set stays a set -/
theorem C18_reload_plan_nodup (r : Registry) (target : List Nat) (parse : Nat → Bool) (h : r.files.Nodup) :
    (r.applyPlan target parse).files.Nodup := by
  unfold Registry.applyPlan
  exact nodup_foldl_addFile _ _ (h.filter _)

/-! ## `sharedlib info` -/

theorem find_ranges_updateMappings (r : Registry) (b : Bool) (maps : List MapE) (f : Nat) (hf : f ∈ selected r b) :
    (r.updateMappings b maps).ranges.find? (fun x => x.obj == f) = regionOf maps f := by
  cases hfd : (r.updateMappings b maps).ranges.find? (fun x => x.obj == f) with
  | some y =>
    have hy := List.find?_some hfd
    have hm := List.mem_of_find?_eq_some hfd
    have ⟨_, hr⟩ := mem_ranges_updateMappings hm
    have : y.obj = f := by simpa using hy
    rw [this] at hr
    exact hr.symm
  | none =>
    cases hr : regionOf maps f with
    | none => rfl
    | some x =>
      exfalso
      have hx : x ∈ (r.updateMappings b maps).ranges := by
        unfold Registry.updateMappings
        simp only [mem_sortByLo, List.mem_filterMap]
        exact ⟨f, by unfold selected at hf; exact hf, hr⟩
      have := List.find?_eq_none.mp hfd x hx
      simp [(regionOf_some hr).1] at this

/-- After any load event the list names exactly the registered files, and every entry carries the real extent of the
object in the mapping table — lowest start … end of the highest map line — or no range iff the object is not mapped. -/
theorem C18_sharedlib_list (r : Registry) (lm : List Nat) (parse : Nat → Bool) (maps : List MapE) :
    (∀ f, (∃ e, (f, e) ∈ (r.onLoadEvent lm parse maps).dump) ↔ f ∈ (r.applyPlan lm parse).files) ∧
    (∀ f e, (f, e) ∈ (r.onLoadEvent lm parse maps).dump → e = (regionOf maps f).map (fun x => (x.lo, x.hi))) ∧
    (∀ f, (regionOf maps f).isSome ↔ mapsOf maps f ≠ []) := by
  refine ⟨?_, ?_, fun f => regionOf_isSome_iff⟩
  · intro f
    unfold Registry.dump Registry.onLoadEvent
    simp only [List.mem_map, Prod.mk.injEq]
    constructor
    · rintro ⟨e, f', hf', h1, _⟩
      subst h1
      simpa [Registry.updateMappings] using hf'
    · intro hf
      exact ⟨_, f, by simpa [Registry.updateMappings] using hf, rfl, rfl⟩
  · intro f e h
    unfold Registry.dump at h
    simp only [List.mem_map, Prod.mk.injEq] at h
    obtain ⟨f', hf', h1, h2⟩ := h
    subst h1
    rw [← h2]
    unfold Registry.onLoadEvent at hf' ⊢
    have hsel : f' ∈ selected (r.applyPlan lm parse) false := by
      simpa [selected, Registry.updateMappings] using hf'
    rw [find_ranges_updateMappings _ _ _ _ hsel]

/-! ## deferred breakpoints -/

/-- a deferred request stays exactly as long as no load event lets it succeed (any history, any attempt outcomes) -/
theorem C18_deferred_retained (es : List (Nat → List Nat × Bool)) (s : BpState) (q : Nat) :
    q ∈ (refreshAll es s).deferred ↔ q ∈ s.deferred ∧ ∀ e ∈ es, (e q).2 = false := by
  induction es generalizing s with
  | nil => simp [refreshAll]
  | cons e es ih =>
    rw [refreshAll, ih]
    simp only [refresh, List.mem_filter, Bool.not_eq_eq_eq_not, Bool.not_true, List.mem_cons, forall_eq_or_imp]
    constructor
    · rintro ⟨⟨h1, h2⟩, h3⟩; exact ⟨h1, h2, h3⟩
    · rintro ⟨h1, h2, h3⟩; exact ⟨⟨h1, h2⟩, h3⟩

/-- the deferred list never grows and keeps its order: nothing is re-added, nothing is duplicated -/
theorem C18_deferred_never_duplicated (es : List (Nat → List Nat × Bool)) (s : BpState) :
    (refreshAll es s).deferred.Sublist s.deferred := by
  induction es generalizing s with
  | nil => simp [refreshAll]
  | cons e es ih =>
    rw [refreshAll]
    exact (ih (refresh e s)).trans (by simp [refresh])

/-- installed breakpoints are never lost by a load event, and the address set stays duplicate free -/
theorem C18_active_monotone (es : List (Nat → List Nat × Bool)) (s : BpState) (a : Nat) (h : a ∈ s.active) :
    a ∈ (refreshAll es s).active := by
  induction es generalizing s with
  | nil => simpa [refreshAll] using h
  | cons e es ih =>
    rw [refreshAll]
    apply ih
    simp only [refresh]
    exact (mem_refresh_active_aux e a _ _).mpr (Or.inl h)

theorem C18_active_nodup (es : List (Nat → List Nat × Bool)) (s : BpState) (h : s.active.Nodup) :
    (refreshAll es s).active.Nodup := by
  induction es generalizing s with
  | nil => simpa [refreshAll] using h
  | cons e es ih =>
    rw [refreshAll]
    apply ih
    simp only [refresh]
    exact nodup_refresh_active_aux e _ _ h

/-- A deferred request becomes active at the FIRST load event at which it resolves: for every history
`pre ++ e :: post` in which the request fails at every event of `pre` and succeeds at `e`, it is still deferred after
`pre`, every address installed by `e` is active after `e` and stays active to the end, and the request is gone for good. -/
theorem C18_deferred_activates (pre post : List (Nat → List Nat × Bool)) (e : Nat → List Nat × Bool) (s : BpState) (q : Nat)
    (hq : q ∈ s.deferred) (hpre : ∀ e' ∈ pre, (e' q).2 = false) (he : (e q).2 = true) :
    q ∈ (refreshAll pre s).deferred ∧
    (∀ a ∈ (e q).1, a ∈ (refreshAll (pre ++ [e]) s).active ∧ a ∈ (refreshAll (pre ++ e :: post) s).active) ∧
    q ∉ (refreshAll (pre ++ e :: post) s).deferred := by
  have hsplit : ∀ (l1 l2 : List (Nat → List Nat × Bool)) (t : BpState), refreshAll (l1 ++ l2) t = refreshAll l2 (refreshAll l1 t) := by
    intro l1
    induction l1 with
    | nil => intro l2 t; rfl
    | cons x xs ih => intro l2 t; simp [refreshAll, ih]
  have h1 : q ∈ (refreshAll pre s).deferred := (C18_deferred_retained pre s q).mpr ⟨hq, hpre⟩
  refine ⟨h1, ?_, ?_⟩
  · intro a ha
    have hact : a ∈ (refreshAll (pre ++ [e]) s).active := by
      rw [hsplit]
      simp only [refreshAll, refresh]
      exact (mem_refresh_active_aux e a _ _).mpr (Or.inr ⟨q, h1, ha⟩)
    refine ⟨hact, ?_⟩
    have : pre ++ e :: post = (pre ++ [e]) ++ post := by simp
    rw [this, hsplit]
    exact C18_active_monotone post _ a hact
  · intro hc
    have := ((C18_deferred_retained (pre ++ e :: post) s q).mp hc).2 e (by simp)
    rw [he] at this
    cases this

/-! ## the stored ranges are in address order whenever the mapping table is sane -/

/-- environment: the extents of different registered objects in the mapping table do not overlap and are not empty -/
def MapsDisjoint (maps : List MapE) (files : List Nat) : Prop :=
  files.Pairwise (fun f1 f2 => ∀ x1 ∈ regionOf maps f1, ∀ x2 ∈ regionOf maps f2, x1.hi ≤ x2.lo ∨ x2.hi ≤ x1.lo) ∧
  ∀ f ∈ files, ∀ x ∈ regionOf maps f, x.lo < x.hi

/-- the hypothesis of `C18_find_range` holds for what `update_mappings` stores whenever the kernel's table is sane -/
theorem C18_ranges_separated (r : Registry) (maps : List MapE) (h : MapsDisjoint maps r.files) :
    Sep (r.updateMappings false maps).ranges := by
  unfold Registry.updateMappings
  simp only [Bool.false_eq_true, if_false]
  apply sep_sortByLo
  refine ⟨List.pairwise_filterMap.mpr h.1, ?_⟩
  intro x hx
  obtain ⟨f, hf, hr⟩ := List.mem_filterMap.mp hx
  exact h.2 f hf x (by simpa using hr)

/-- END TO END: for every mapping table in which the registered objects do not overlap, every address inside the extent
of a registered object is attributed to that object, converts to `address − lowest start of the object` and back. -/
theorem C18_address_to_object (r : Registry) (maps : List MapE) (h : MapsDisjoint maps r.files) (f : Nat) (x : Range) (a : Nat)
    (hf : f ∈ r.files) (hr : regionOf maps f = some x) (h1 : x.lo ≤ a) (h2 : a < x.hi) :
    (r.updateMappings false maps).objOfAddr a = some f ∧
    (r.updateMappings false maps).intoGlobal a = some (a - x.lo) ∧
    (r.updateMappings false maps).relocate (a - x.lo) f = some a := by
  have hsep := C18_ranges_separated r maps h
  have hx : x ∈ (r.updateMappings false maps).ranges := by
    unfold Registry.updateMappings
    simp only [Bool.false_eq_true, if_false, mem_sortByLo, List.mem_filterMap]
    exact ⟨f, hf, hr⟩
  have hfr := findRange_complete hsep hx h1 h2
  have hobj : x.obj = f := (regionOf_some hr).1
  have hc := ranges_consistent hx
  have hfiles : (r.updateMappings false maps).files = r.files := rfl
  refine ⟨?_, ?_, ?_⟩
  · unfold Registry.objOfAddr
    simp [hfr, hfiles, hobj, hf]
  · unfold Registry.intoGlobal Registry.offsetOfAddr
    simp [hfr, hc]
  · unfold Registry.relocate
    rw [← hobj, hc]
    simp only [Option.map_some]
    congr 1
    omega

/-! ## `sharedlib info` = the mapped objects -/

/-- environment (r_debug protocol of ld.so at a consistent state): the link map names exactly the mapped objects other than
the program, and each of them can be parsed -/
def LinkMapIsMapped (lm : List Nat) (program : Nat) (maps : List MapE) (parse : Nat → Bool) : Prop :=
  (∀ f, f ∈ lm ↔ f ≠ program ∧ mapsOf maps f ≠ []) ∧ (∀ f ∈ lm, parse f = true)

/-- `sharedlib info` lists EXACTLY the mapped objects, each with its extent, after any load event at which the loader's
link map is consistent with the mapping table — whatever the registry held before (stale entries of unloaded libraries,
entries predicted by ldd that never got loaded, missing entries). -/
theorem C18_sharedlib_exactly_mapped (r : Registry) (lm : List Nat) (parse : Nat → Bool) (maps : List MapE)
    (hp : r.program ∈ r.files) (hpm : mapsOf maps r.program ≠ []) (hlm : LinkMapIsMapped lm r.program maps parse) (f : Nat) :
    ((∃ e, (f, e) ∈ (r.onLoadEvent lm parse maps).dump) ↔ mapsOf maps f ≠ []) ∧
    (∀ e, (f, e) ∈ (r.onLoadEvent lm parse maps).dump → ∃ x, regionOf maps f = some x ∧ e = some (x.lo, x.hi)) := by
  have hl := C18_sharedlib_list r lm parse maps
  have hfiles : f ∈ (r.applyPlan lm parse).files ↔ mapsOf maps f ≠ [] := by
    rw [C18_reload_plan]
    constructor
    · rintro (⟨_, h | h⟩ | ⟨h, _, _⟩)
      · exact ((hlm.1 f).mp h).2
      · rw [h]; exact hpm
      · exact ((hlm.1 f).mp h).2
    · intro hm
      by_cases hfp : f = r.program
      · left; exact ⟨hfp ▸ hp, Or.inr hfp⟩
      · have hin : f ∈ lm := (hlm.1 f).mpr ⟨hfp, hm⟩
        by_cases hff : f ∈ r.files
        · left; exact ⟨hff, Or.inl hin⟩
        · right; exact ⟨hin, hff, hlm.2 f hin⟩
  refine ⟨(hl.1 f).trans hfiles, ?_⟩
  intro e he
  have hm : mapsOf maps f ≠ [] := hfiles.mp ((hl.1 f).mp ⟨e, he⟩)
  have hs : (regionOf maps f).isSome := (hl.2.2 f).mpr hm
  obtain ⟨x, hx⟩ := Option.isSome_iff_exists.mp hs
  exact ⟨x, hx, by rw [hl.2.1 f e he, hx]; rfl⟩

example : LinkMapIsMapped [1] 0 [⟨0, 1, 2⟩, ⟨1, 3, 4⟩] (fun _ => true) := by
  refine ⟨fun f => ?_, fun _ _ => rfl⟩
  by_cases h0 : f = 0
  · subst h0; decide
  · by_cases h1 : f = 1
    · subst h1; decide
    · have h0' : ¬ 0 = f := fun h => h0 h.symm
      have h1' : ¬ 1 = f := fun h => h1 h.symm
      have e0 : (0 == f) = false := by simpa using h0'
      have e1 : (1 == f) = false := by simpa using h1'
      simp [mapsOf, List.filter, h0, h1, e0, e1]

/-! ## tests (not theorems) and non-vacuity -/

/-- a PIE executable at 0x555555554000 and a library at 0x7ffff7d61000, as observed on the test machine -/
def pieMaps : List MapE :=
  [⟨0, 0x555555554000, 0x55555555a000⟩, ⟨0, 0x55555555a000, 0x55555559b000⟩, ⟨0, 0x5555555ad000, 0x5555555ae000⟩,
   ⟨1, 0x7ffff7d61000, 0x7ffff7d66000⟩, ⟨1, 0x7ffff7d66000, 0x7ffff7da1000⟩, ⟨1, 0x7ffff7db0000, 0x7ffff7db1000⟩]
def pieReg : Registry := ({ program := 0, files := [0, 1] } : Registry).updateMappings false pieMaps

#guard pieReg.relocate 0xa468 1 == some 0x7ffff7d6b468
#guard pieReg.intoGlobal 0x7ffff7d6b468 == some 0xa468
#guard pieReg.objOfAddr 0x55555555fb81 == some 0
#guard pieReg.dump == [(0, some (0x555555554000, 0x5555555ae000)), (1, some (0x7ffff7d61000, 0x7ffff7db1000))]
#guard (pieReg.onLoadEvent [2, 99] (fun o => o != 99) pieMaps).files == [0, 2]
#guard findRange pieReg.ranges 0x7ffff7db1000 == some ⟨1, 0x7ffff7d61000, 0x7ffff7db1000⟩   -- the inclusive end
#guard (refreshAll [fun _ => ([], false), fun q => if q == 7 then ([100, 200], true) else ([], false)] { deferred := [7, 8] })
        == { active := [100, 200], deferred := [8] }

example : LoadedAt pieMaps 1 0 0x7ffff7d61000 := by decide
example : MapsDisjoint pieMaps [0, 1] := by
  constructor
  · decide
  · decide
example : LoadedAt nopieMaps 0 0x400000 0 := by decide
example : Sep pieReg.ranges := by
  constructor
  · decide
  · decide
example : ∃ g, pieReg.intoGlobal 0x55555555fb81 = some g := ⟨0xbb81, by decide⟩
example : (0 : Nat) ∈ (({ program := 0, files := [0, 1] } : Registry).applyPlan [2] (fun _ => true)).files := by decide
example : ∃ (pre : List (Nat → List Nat × Bool)) (e : Nat → List Nat × Bool) (s : BpState) (q : Nat),
    q ∈ s.deferred ∧ (∀ e' ∈ pre, (e' q).2 = false) ∧ (e q).2 = true ∧ (e q).1 ≠ [] :=
  ⟨[fun _ => ([], false)], fun _ => ([5], true), { deferred := [3] }, 3, by simp, by simp, rfl, by simp⟩

end BsVerif.Reloc

/-! # session level: breakpoint identity across load addresses (`Model/RelocSession.lean`) -/
namespace BsVerif.RelocS
open BsVerif.Reloc

/-- FULL STATEMENT (false of the unchanged code): whatever the program loads and unloads, every breakpoint the registry
lists as enabled has its INT3 in the process (so the function it guards cannot run without stopping). -/
def C18_breakpoints_stay_armed_full : Prop :=
  ∀ (s : St) (nm : List MapE) (ops : List Op), Armed s → Armed (runOps s nm ops).1

/-- it holds for every execution without `dlclose`: loads, `r_brk` events, deferred retries, executed places -/
theorem C18_breakpoints_stay_armed_partial (s : St) (nm : List MapE) (ops : List Op) (hn : noUnload ops = true)
    (h : Armed s) : Armed (runOps s nm ops).1 := runOps_armed ops s nm hn h

/-- a library holding a breakpoint is unloaded and loaded again at the same address -/
def reloadWitness : St :=
  { maps := [⟨0, 0x1000, 0x2000⟩, ⟨1, 0x5000, 0x6000⟩], active := [⟨0x5010, .user, some 1⟩], patched := [0x5010],
    refc := [(1, 1)], status := .inProgress, entered := true }

theorem C18_breakpoints_stay_armed_counterexample : ¬ C18_breakpoints_stay_armed_full := by
  intro h
  have := h reloadWitness [⟨1, 0x5000, 0x6000⟩] [.unload 1, .load 1] (by decide)
  revert this
  decide

/-- Global → Relocated at the entry point: an uninit breakpoint of a registered object lands at global + the object's offset -/
theorem C18_uninit_global_becomes_relocated (s : St) (g o : Nat) (k : Kind) (ho : s.reg.files.contains o = true) :
    s.tryInto ⟨.glob g, some o, k⟩ = (s.reg.relocate g o).map (fun a => ⟨a, k, some o⟩) := by
  have hm : o ∈ s.reg.files := by simpa using ho
  simp [St.tryInto, hm]

/-- address identity: a breakpoint requested by runtime address before the start is installed at exactly that address -/
theorem C18_uninit_relocated_keeps_address (s : St) (r : Registry) (b : Bool) (maps : List MapE) (a : Nat) (bp : ABp)
    (hreg : s.reg = r.updateMappings b maps) (h : s.tryInto ⟨.rel a, none, .user⟩ = some bp) : bp.addr = a := by
  unfold St.tryInto at h
  cases hg : s.reg.intoGlobal a with
  | none => simp [hg] at h
  | some g =>
    have hg' := hg
    rw [hreg] at hg'
    obtain ⟨x, hf, _, _, hrel⟩ := C18_roundtrip r b maps a g hg'
    rw [← hreg] at hf hrel
    simp only [hg, Option.map_some] at h
    have hobj : s.reg.objOfAddr a = if s.reg.files.contains x.obj then some x.obj else none := by
      unfold Registry.objOfAddr; rw [hf]; rfl
    by_cases hc : x.obj ∈ s.reg.files
    · simp [hobj, hc, hrel] at h
      rw [← h]
    · simp [hobj, hc] at h

example : Armed reloadWitness := by decide
example : noUnload [.load 1, .visit 1 3, .visit 0 0] = true := rfl

/-- FULL STATEMENT (false of the unchanged code): a request recorded while the program is not running is still recorded
after any further request. -/
def C18_uninit_requests_kept_full : Prop :=
  ∀ (s : St) (u1 u2 : UBp), u1 ≠ u2 → u1 ∈ ((s.addUninit u1).addUninit u2).uninit

/-- it holds when the two requests differ in their `Address` (the key of `disabled_breakpoints`) -/
theorem C18_uninit_requests_kept_partial (s : St) (u1 u2 : UBp) (h : u1.addr ≠ u2.addr) :
    u1 ∈ ((s.addUninit u1).addUninit u2).uninit := by
  unfold St.addUninit
  have hm : u1 ∈ s.uninit.filter (fun x => x.addr != u1.addr) ++ [u1] := by simp
  have : u1 ∈ (s.uninit.filter (fun x => x.addr != u1.addr) ++ [u1]).filter (fun x => x.addr != u2.addr) :=
    List.mem_filter.mpr ⟨hm, by simpa using h⟩
  exact List.mem_append.mpr (Or.inl this)

/-- `c18a_add` of libc18a.so and `c18b_mul` of libc18b.so both have their breakpoint place at ELF address 0xa468:
the second request replaces the first (the map is keyed by `Address::Global(0xa468)`, the object is not part of the key) -/
theorem C18_uninit_requests_kept_counterexample : ¬ C18_uninit_requests_kept_full := by
  intro h
  have := h {} ⟨.glob 0xa468, some 1, .user⟩ ⟨.glob 0xa468, some 2, .user⟩ (by decide)
  revert this
  decide

/-- and a request that is kept is converted at the entry point into a breakpoint at `global + offset of ITS object` -/
theorem C18_uninit_conversion_uses_own_object (s : St) (g o1 o2 : Nat) (a1 a2 : Nat)
    (h1 : s.reg.files.contains o1 = true) (h2 : s.reg.files.contains o2 = true)
    (r1 : s.reg.relocate g o1 = some a1) (r2 : s.reg.relocate g o2 = some a2) :
    (s.tryInto ⟨.glob g, some o1, .user⟩).map (·.addr) = some a1 ∧ (s.tryInto ⟨.glob g, some o2, .user⟩).map (·.addr) = some a2 := by
  have m1 : o1 ∈ s.reg.files := by simpa using h1
  have m2 : o2 ∈ s.reg.files := by simpa using h2
  simp [St.tryInto, m1, m2, r1, r2]

/-- TIE of the pure deferred-list theorems to the session model that the correspondence run exercises:
one `r_brk` round of the session model is one `refresh` with "succeeds now" as the attempt. -/
theorem C18_session_deferred_refines (s : St) :
    s.refreshDeferred.deferred = (refresh (fun q => ([], setFnOut s q == .active)) ⟨[], s.deferred⟩).deferred := by
  rw [refreshDeferred_deferred]
  simp only [refresh]
  congr 1

end BsVerif.RelocS
