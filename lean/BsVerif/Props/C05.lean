import BsVerif.Model.Unwind
/-!
C05 — the backtrace is the real call stack.

Ground truth = the real stack: a list of frames `(pc, cfa)`, innermost first (`pc` of frame k+1 = the return address of
the call in progress in frame k+1 that created frame k; `cfa` = the stack pointer before that call).
`Chain env regs frames` says that the CFI is *sound for this machine state*: evaluating, frame after frame, the row of
the frame's pc on the registers recovered so far yields the real CFA and the real return address of that frame, and the
chain ends at a frame whose row gives no return address, its own pc again (`RIP=undefined` in `_start`/`clone`), or at a
return address that has no unwind information.

Theorems quantify over every environment (CFI table, memory, object ranges), every register file and every stack.
-/
namespace BsVerif.Unwind
open BsVerif.Gen.Unwind

structure Frame where
  pc : Nat
  cfa : Nat
  deriving DecidableEq, Repr

/-- the last listed frame: no return address / its own pc again / a return address without unwind information -/
def Terminal (env : Env) (regs : Regs) (f : Frame) : Prop :=
  ∃ c, ctxNew env regs f.pc = .ok (some c) ∧ c.cfa = f.cfa ∧
    (c.retAddr = none ∨ c.retAddr = some f.pc ∨ ∃ p, c.retAddr = some p ∧ env.known p = true ∧ env.cfi p = none)

/-- the CFI is sound for the real stack `frames` when the innermost registers are `regs` -/
def Chain (env : Env) : Regs → List Frame → Prop
  | _, [] => False
  | regs, [f] => Terminal env regs f
  | regs, f :: g :: rest =>
    ∃ c, ctxNew env regs f.pc = .ok (some c) ∧ c.cfa = f.cfa ∧ c.retAddr = some g.pc ∧ env.known g.pc = true ∧
      Chain env (c.regs.upd rspDwarf c.cfa) (g :: rest)

def pcs (l : List Frame) : List Nat := l.map (·.pc)

theorem Chain_head {env : Env} {regs : Regs} {f : Frame} {rest : List Frame} (h : Chain env regs (f :: rest)) :
    ∃ c, ctxNew env regs f.pc = .ok (some c) ∧ c.cfa = f.cfa := by
  cases rest with
  | nil => obtain ⟨c, h1, h2, _⟩ := h; exact ⟨c, h1, h2⟩
  | cons g r => obtain ⟨c, h1, h2, _⟩ := h; exact ⟨c, h1, h2⟩

/-- the unwind loop on a sound chain whose remaining return addresses are new and pairwise distinct -/
theorem loop_spec (env : Env) : ∀ (rest : List Frame) (f : Frame) (regs : Regs) (c : Ctx) (fuel : Nat) (bt visited : List Nat),
    ctxNew env regs f.pc = .ok (some c) → Chain env regs (f :: rest) →
    f.pc ∈ visited → (∀ g ∈ rest, g.pc ∉ visited) → (pcs rest).Nodup →
    unwindLoop env fuel c bt visited = .ok (bt ++ (pcs rest).take fuel) := by
  intro rest
  induction rest with
  | nil =>
    intro f regs c fuel bt visited hc hch hv _ _
    obtain ⟨c', h1, _, h3⟩ := hch
    rw [hc] at h1; cases h1
    cases fuel with
    | zero => simp [unwindLoop, pcs]
    | succ n =>
      rcases h3 with h | h | ⟨p, hp, hk, hn⟩
      · simp [unwindLoop, h, pcs]
      · simp [unwindLoop, h, hv, pcs]
      · by_cases hvis : p ∈ visited
        · simp [unwindLoop, hp, hvis, pcs]
        · simp [unwindLoop, hp, hvis, hk, ctxNext, ctxNew, hn, pcs]
  | cons g rest ih =>
    intro f regs c fuel bt visited hc hch hv hnew hnd
    obtain ⟨c', h1, _, h3, hk, hrest⟩ := hch
    rw [hc] at h1; cases h1
    cases fuel with
    | zero => simp [unwindLoop, pcs]
    | succ n =>
      obtain ⟨cg, hcg, _⟩ := Chain_head hrest
      have hgv : g.pc ∉ visited := hnew g (by simp)
      have hnd' : g.pc ∉ pcs rest ∧ (pcs rest).Nodup := by simpa [pcs] using hnd
      have step : unwindLoop env (n + 1) c bt visited = unwindLoop env n cg (bt ++ [g.pc]) (g.pc :: visited) := by
        simp [unwindLoop, h3, hgv, hk, ctxNext, hcg]
      rw [step, ih g _ cg n _ _ hcg hrest (by simp) ?_ hnd'.2]
      · simp [pcs, List.take_succ_cons]
      · intro h hh hmem
        rcases List.mem_cons.mp hmem with e | e
        · exact hnd'.1 (by rw [← e]; exact List.mem_map_of_mem hh)
        · exact hnew h (by simp [hh]) e

/-- without the distinctness hypothesis the loop still lists only real frames, in order: a prefix of the call chain -/
theorem loop_prefix (env : Env) : ∀ (rest : List Frame) (f : Frame) (regs : Regs) (c : Ctx) (fuel : Nat) (bt visited : List Nat),
    ctxNew env regs f.pc = .ok (some c) → Chain env regs (f :: rest) → f.pc ∈ visited →
    ∃ n, unwindLoop env fuel c bt visited = .ok (bt ++ (pcs rest).take n) := by
  intro rest
  induction rest with
  | nil =>
    intro f regs c fuel bt visited hc hch hv
    obtain ⟨c', h1, _, h3⟩ := hch
    rw [hc] at h1; cases h1
    refine ⟨0, ?_⟩
    cases fuel with
    | zero => simp [unwindLoop]
    | succ n =>
      rcases h3 with h | h | ⟨p, hp, hk, hn⟩
      · simp [unwindLoop, h]
      · simp [unwindLoop, h, hv]
      · by_cases hvis : p ∈ visited
        · simp [unwindLoop, hp, hvis]
        · simp [unwindLoop, hp, hvis, hk, ctxNext, ctxNew, hn]
  | cons g rest ih =>
    intro f regs c fuel bt visited hc hch hv
    obtain ⟨c', h1, _, h3, hk, hrest⟩ := hch
    rw [hc] at h1; cases h1
    cases fuel with
    | zero => exact ⟨0, by simp [unwindLoop]⟩
    | succ n =>
      obtain ⟨cg, hcg, _⟩ := Chain_head hrest
      by_cases hgv : g.pc ∈ visited
      · exact ⟨0, by simp [unwindLoop, h3, hgv]⟩
      · have step : unwindLoop env (n + 1) c bt visited = unwindLoop env n cg (bt ++ [g.pc]) (g.pc :: visited) := by
          simp [unwindLoop, h3, hgv, hk, ctxNext, hcg]
        obtain ⟨m, hm⟩ := ih g _ cg n (bt ++ [g.pc]) (g.pc :: visited) hcg hrest (by simp)
        exact ⟨m + 1, by rw [step, hm]; simp [pcs, List.take_succ_cons]⟩


/-! ## The backtrace -/

/-- FULL statement of the backtrace clause: whenever the CFI is sound for the real stack, the backtrace is exactly the
real call chain, innermost first, up to the depth cap.  FALSE of the unchanged tree (`C05_backtrace_is_stack_counterexample`). -/
def C05_backtrace_is_stack_full : Prop :=
  ∀ (env : Env) (regs0 : Regs) (f0 : Frame) (rest : List Frame),
    Chain env regs0 (f0 :: rest) →
    unwind env regs0 f0.pc = .ok ((pcs (f0 :: rest)).take maxUnwindDepth)

/-- the named hypothesis under which the unchanged code meets the statement: no return address occurs twice in the
real chain (false as soon as a function is active twice with the same call site: recursion) -/
def DistinctReturnAddrs (frames : List Frame) : Prop := (pcs frames).Nodup

instance (frames : List Frame) : Decidable (DistinctReturnAddrs frames) := by
  unfold DistinctReturnAddrs; infer_instance

/-- for every environment, register file and stack of ANY depth: sound CFI + distinct return addresses ⇒ the
backtrace is exactly the real call chain, innermost first, cut only by `MAX_UNWIND_DEPTH` -/
theorem C05_backtrace_is_stack_partial (env : Env) (regs0 : Regs) (f0 : Frame) (rest : List Frame)
    (hch : Chain env regs0 (f0 :: rest)) (hd : DistinctReturnAddrs (f0 :: rest)) :
    unwind env regs0 f0.pc = .ok ((pcs (f0 :: rest)).take maxUnwindDepth) := by
  obtain ⟨c, hc, _⟩ := Chain_head hch
  have hnd : f0.pc ∉ pcs rest ∧ (pcs rest).Nodup := by simpa [DistinctReturnAddrs, pcs] using hd
  have hloop := loop_spec env rest f0 regs0 c (maxUnwindDepth - 1) [f0.pc] [f0.pc] hc hch (by simp)
    (by intro g hg hmem
        have : g.pc = f0.pc := by simpa using hmem
        exact hnd.1 (by rw [← this]; exact List.mem_map_of_mem hg))
    hnd.2
  have hm : maxUnwindDepth = (maxUnwindDepth - 1) + 1 := by decide
  unfold unwind
  rw [hc]; simp only []
  rw [hloop, hm]
  simp [pcs, List.take_succ_cons]

/-- with NO hypothesis on the return addresses the backtrace is still a prefix of the real call chain, starting with
the current pc: it never lists a frame that is not active, never reorders, never fails -/
theorem C05_backtrace_is_prefix (env : Env) (regs0 : Regs) (f0 : Frame) (rest : List Frame)
    (hch : Chain env regs0 (f0 :: rest)) :
    ∃ n, unwind env regs0 f0.pc = .ok (f0.pc :: (pcs rest).take n) := by
  obtain ⟨c, hc, _⟩ := Chain_head hch
  obtain ⟨n, hn⟩ := loop_prefix env rest f0 regs0 c (maxUnwindDepth - 1) [f0.pc] [f0.pc] hc hch (by simp)
  exact ⟨n, by unfold unwind; rw [hc]; simp only []; rw [hn]; simp⟩

/-- a stop at a pc without unwind information: the backtrace is the current pc alone -/
theorem C05_no_unwind_info (env : Env) (regs0 : Regs) (pc0 : Nat) (hk : env.known pc0 = true) (hn : env.cfi pc0 = none) :
    unwind env regs0 pc0 = .ok [pc0] := by
  simp [unwind, ctxNew, hk, hn]

theorem unwindLoop_length (env : Env) : ∀ (fuel : Nat) (c : Ctx) (bt visited : List Nat) (r : List Nat),
    unwindLoop env fuel c bt visited = .ok r → r.length ≤ bt.length + fuel := by
  intro fuel
  induction fuel with
  | zero => intro c bt visited r h; simp [unwindLoop] at h; subst h; simp
  | succ n ih =>
    intro c bt visited r h
    unfold unwindLoop at h
    split at h
    · cases h; omega
    · split at h
      · cases h; omega
      · split at h
        · cases h
        · split at h
          · cases h
          · cases h; omega
          · have := ih _ _ _ _ h; simp at this; omega

/-- for EVERY environment and register file (sound CFI or garbage): a backtrace never has more than
`MAX_UNWIND_DEPTH` frames -/
theorem C05_depth_bound (env : Env) (regs0 : Regs) (pc0 : Nat) (r : List Nat) (h : unwind env regs0 pc0 = .ok r) :
    r.length ≤ maxUnwindDepth := by
  unfold unwind at h
  split at h
  · cases h
  · cases h; simp [maxUnwindDepth]
  · have := unwindLoop_length env _ _ _ _ _ h
    have hm : maxUnwindDepth = (maxUnwindDepth - 1) + 1 := by decide
    simp at this; omega


/-- selecting frame k puts the exploration context on the k-th real frame (same hypotheses as the backtrace theorem) -/
theorem C05_frame_select_ip_partial (env : Env) (regs0 : Regs) (f0 : Frame) (rest : List Frame) (k ip : Nat)
    (hch : Chain env regs0 (f0 :: rest)) (hd : DistinctReturnAddrs (f0 :: rest))
    (hk : ((pcs (f0 :: rest)).take maxUnwindDepth)[k]? = some ip) :
    setFrame env regs0 f0.pc k = .ok ip := by
  simp [setFrame, C05_backtrace_is_stack_partial env regs0 f0 rest hch hd, hk]

/-! ## Frame selection: the registers handed to variable / argument / register reads of frame k -/

/-- the registers of activation k as the unwinder itself carries them from frame to frame
(`UnwindContext::next`: the registers recovered by frame k-1's row, with `rsp := CFA of frame k-1`) -/
def carried (env : Env) : Nat → Regs → Nat → Except Fault Regs
  | 0, regs, _ => .ok regs
  | k + 1, regs, pc =>
    match ctxNew env regs pc with
    | .ok (some c) =>
      match c.retAddr with
      | some ret => carried env k (c.regs.upd rspDwarf c.cfa) ret
      | none => .error .err
    | .ok none => .error .err
    | .error f => .error f

/-- FULL statement of the selection clause: reads in frame k use the registers of activation k.
FALSE of the unchanged tree (`C05_frame_select_counterexample`): `restore_registers_at_frame(k)` applies the row of frame k
once more, so every register that frame k's function saved (rbp, rbx, r12–r15, and the return-address column) is the one
of activation k+1. -/
def C05_frame_select_full : Prop :=
  ∀ (env : Env) (regs0 : Regs) (pc0 k : Nat) (r r' : Regs),
    carried env k regs0 pc0 = .ok r → restoreRegs env regs0 pc0 k = .ok r' → ∀ i, r' i = r i

/-- no CFI row assigns the stack pointer column (true of every row the harness has met) -/
def NoSpRule (env : Env) : Prop := ∀ pc row, env.cfi pc = some row → ∀ p ∈ row.rules, p.1 ≠ rspDwarf

theorem applyRules_other (env : Env) (snap : Regs) (cfa i : Nat) : ∀ (rules : List (Nat × Rule)) (next next' : Regs),
    applyRules env snap cfa rules next = .ok next' → (∀ p ∈ rules, p.1 ≠ i) → next' i = next i := by
  intro rules
  induction rules with
  | nil => intro next next' h _; simp [applyRules] at h; rw [← h]
  | cons p rest ih =>
    intro next next' h hne
    obtain ⟨reg, rule⟩ := p
    unfold applyRules at h
    split at h
    · cases h
    · exact ih _ _ h (fun q hq => hne q (by simp [hq]))
    · split at h
      · rw [ih _ _ h (fun q hq => hne q (by simp [hq]))]
        have : reg ≠ i := hne (reg, rule) (by simp)
        simp [Regs.upd, Ne.symm this]
      · cases h

theorem ctxNew_sp {env : Env} {regs : Regs} {pc : Nat} {c : Ctx} (h : ctxNew env regs pc = .ok (some c)) (hs : NoSpRule env) :
    c.regs rspDwarf = regs rspDwarf := by
  unfold ctxNew at h
  split at h
  · cases h
  · split at h
    · cases h
    · rename_i row hrow
      split at h
      · cases h
      · split at h
        · cases h
        · rename_i next hnext
          cases h
          exact applyRules_other env regs _ rspDwarf _ _ _ hnext (hs pc row hrow)

theorem restoreLoop_spec (env : Env) (hs : NoSpRule env) : ∀ (k : Nat) (f : Frame) (rest : List Frame) (regs : Regs) (c : Ctx),
    ctxNew env regs f.pc = .ok (some c) → Chain env regs (f :: rest) → k ≤ rest.length →
    ∃ ck, restoreLoop env k c = .ok ck ∧
      ck.regs rspDwarf = (if k = 0 then regs rspDwarf else ((f :: rest)[k - 1]?).map (·.cfa)) := by
  intro k
  induction k with
  | zero => intro f rest regs c hc _ _; exact ⟨c, by simp [restoreLoop], by simpa using ctxNew_sp hc hs⟩
  | succ k ih =>
    intro f rest regs c hc hch hk
    cases rest with
    | nil => simp at hk
    | cons g rest' =>
      obtain ⟨c', h1, hcfa, h3, hkn, hrest⟩ := hch
      rw [hc] at h1; cases h1
      obtain ⟨cg, hcg, _⟩ := Chain_head hrest
      obtain ⟨ck, hck, hsp⟩ := ih g rest' _ cg hcg hrest (by simpa using hk)
      refine ⟨ck, by simp [restoreLoop, h3, hkn, ctxNext, hcg, hck], ?_⟩
      rw [hsp]
      cases k with
      | zero => simp [Regs.upd, hcfa]
      | succ j => simp

/-- for every sound chain (recursion included — this path has no cycle guard) and every existing frame k+1:
`restore_registers_at_frame(k+1)` succeeds and its stack pointer is the CFA of frame k, i.e. the stack pointer of
activation k+1 right after the return into it -/
theorem C05_frame_select_sp (env : Env) (regs0 : Regs) (f0 : Frame) (rest : List Frame) (k : Nat)
    (hch : Chain env regs0 (f0 :: rest)) (hs : NoSpRule env) (hk : k + 1 ≤ rest.length) :
    ∃ r, restoreRegs env regs0 f0.pc (k + 1) = .ok r ∧ r rspDwarf = ((f0 :: rest)[k]?).map (·.cfa) := by
  obtain ⟨c, hc, _⟩ := Chain_head hch
  obtain ⟨ck, hck, hsp⟩ := restoreLoop_spec env hs (k + 1) f0 rest regs0 c hc hch hk
  refine ⟨regs0.updateFrom ck.regs, by simp [restoreRegs, hc, hck], ?_⟩
  simp at hsp
  cases hv : (f0 :: rest)[k]? with
  | none =>
    have : k < (f0 :: rest).length := by simp; omega
    simp at hv; omega
  | some fr => simp [Regs.updateFrom, hsp, hv]

/-- frame 0 is the thread as it is -/
theorem C05_frame_select_zero (env : Env) (regs0 : Regs) (pc0 : Nat) : restoreRegs env regs0 pc0 0 = .ok regs0 := by
  simp [restoreRegs]

/-- the return address `finish` uses is the pc of the caller's frame -/
theorem C05_return_address (env : Env) (regs0 : Regs) (f0 g : Frame) (rest : List Frame)
    (hch : Chain env regs0 (f0 :: g :: rest)) : returnAddress env regs0 f0.pc = .ok (some g.pc) := by
  obtain ⟨c, hc, _, h3, _⟩ := hch
  simp [returnAddress, hc, h3]

/-! ## frame_info -/

theorem ctxNew_cfa {env : Env} {regs : Regs} {pc : Nat} {c : Ctx} (h : ctxNew env regs pc = .ok (some c)) :
    ∃ row, env.cfi pc = some row ∧ evalCfa regs row = .ok c.cfa := by
  unfold ctxNew at h
  split at h
  · cases h
  · split at h
    · cases h
    · rename_i row hrow
      split at h
      · cases h
      · rename_i cfa hcfa
        split at h
        · cases h
        · cases h; exact ⟨row, hrow, hcfa⟩

/-- FULL statement of the frame_info clause: for the selected frame k of a sound chain the reported CFA is the real
CFA of frame k.  FALSE of the unchanged tree for k > 0 (`C05_frame_info_counterexample`): `get_cfa` evaluates the row of
frame k's pc on the registers of frame 0. -/
def C05_frame_info_full : Prop :=
  ∀ (env : Env) (regs0 : Regs) (frames : List Frame) (k : Nat) (fk f0 : Frame) (fi : FrameInfo),
    Chain env regs0 frames → DistinctReturnAddrs frames → frames[0]? = some f0 → frames[k]? = some fk →
    frameInfo env regs0 f0.pc fk.pc = .ok fi → fi.cfa = fk.cfa

/-- frame 0 of every sound chain (recursion included): number 0, the real CFA, the caller's pc as return address -/
theorem C05_frame_info_innermost (env : Env) (regs0 : Regs) (f0 g : Frame) (rest : List Frame)
    (hch : Chain env regs0 (f0 :: g :: rest)) (heh : env.cfiEh f0.pc = env.cfi f0.pc) (hne : g.pc ≠ f0.pc) :
    frameInfo env regs0 f0.pc f0.pc = .ok { num := 0, cfa := f0.cfa, ret := some g.pc } := by
  have hch' := hch
  obtain ⟨c, hc, hcfa, h3, hk, hrest⟩ := hch
  obtain ⟨row, hrow, hev⟩ := ctxNew_cfa hc
  obtain ⟨cg, hcg, _⟩ := Chain_head hrest
  obtain ⟨n, hn⟩ := loop_prefix env rest g _ cg (maxUnwindDepth - 1 - 1) [f0.pc, g.pc] [g.pc, f0.pc] hcg hrest (by simp)
  have hm : maxUnwindDepth - 1 = (maxUnwindDepth - 1 - 1) + 1 := by decide
  have hun : unwind env regs0 f0.pc = .ok ([f0.pc, g.pc] ++ (pcs rest).take n) := by
    unfold unwind
    rw [hc]; simp only []
    rw [hm]
    simp [unwindLoop, h3, hne, hk, ctxNext, hcg, hn]
  simp [frameInfo, getCfa, heh, hrow, hev, hun, indexOf?, hcfa]

/-! ## Concrete stacks: non-vacuity, and the witnesses of the two defects -/
namespace Ex

def rowFn : Row := { cfa := .regOff 7 16, rules := [(16, .offset (-8))], ra := 16 }
def rowFp : Row := { cfa := .regOff 6 16, rules := [(6, .offset (-16)), (16, .offset (-8))], ra := 16 }
def rowStart : Row := { cfa := .regOff 7 8, rules := [(16, .undefined)], ra := 16 }

def memOf (l : List (Nat × Nat)) (a : Nat) : Option Nat := (l.find? (fun p => p.1 == a)).map (·.2)
def regsAt (rsp rbp rip : Nat) : Regs := fun i => if i = 7 then some rsp else if i = 6 then some rbp else if i = 16 then some rip else none

def cfiSp (pc : Nat) : Option Row :=
  if 100 ≤ pc ∧ pc < 400 then some rowFn else if 500 ≤ pc ∧ pc < 600 then some rowStart else none
def cfiFp (pc : Nat) : Option Row :=
  if 100 ≤ pc ∧ pc < 400 then some rowFp else if 500 ≤ pc ∧ pc < 600 then some rowStart else none

/-- `f` (pcs 100..199) called from `main` (300..399) called from `_start` (500..599) -/
def envPlain : Env := { cfi := cfiSp, cfiEh := cfiSp, known := fun a => decide (a < 1000), mem := memOf [(1008, 350), (1024, 550)] }
def stackPlain : List Frame := [⟨120, 1016⟩, ⟨350, 1032⟩, ⟨550, 1040⟩]

/-- `f` recursing twice through the same call site (return address 150) -/
def envRec : Env := { cfi := cfiSp, cfiEh := cfiSp, known := fun a => decide (a < 1000), mem := memOf [(1008, 150), (1024, 150), (1040, 350), (1056, 550)] }
def stackRec : List Frame := [⟨120, 1016⟩, ⟨150, 1032⟩, ⟨150, 1048⟩, ⟨350, 1064⟩, ⟨550, 1072⟩]

/-- frame-pointer code: `f` (rbp 1100) called from `main` (rbp 1200) called from `_start` -/
def envFp : Env := { cfi := cfiFp, cfiEh := cfiFp, known := fun a => decide (a < 2000),
                     mem := memOf [(1100, 1200), (1108, 350), (1200, 1300), (1208, 550)] }

theorem chainPlain : Chain envPlain (regsAt 1000 0 120) stackPlain :=
  ⟨_, rfl, rfl, rfl, rfl, _, rfl, rfl, rfl, rfl, _, rfl, rfl, Or.inr (Or.inl rfl)⟩

theorem chainRec : Chain envRec (regsAt 1000 0 120) stackRec :=
  ⟨_, rfl, rfl, rfl, rfl, _, rfl, rfl, rfl, rfl, _, rfl, rfl, rfl, rfl, _, rfl, rfl, rfl, rfl, _, rfl, rfl, Or.inr (Or.inl rfl)⟩

end Ex

/-- non-vacuity of `C05_backtrace_is_stack_partial`: a sound chain with distinct return addresses exists, and the model
answers with all three frames -/
example : Chain Ex.envPlain (Ex.regsAt 1000 0 120) Ex.stackPlain ∧ DistinctReturnAddrs Ex.stackPlain ∧
    unwind Ex.envPlain (Ex.regsAt 1000 0 120) 120 = .ok [120, 350, 550] :=
  ⟨Ex.chainPlain, by decide, C05_backtrace_is_stack_partial _ _ ⟨120, 1016⟩ _ Ex.chainPlain (by decide)⟩

/-- the unchanged tree cuts the backtrace of a recursion at the second occurrence of a return address: the chain is
sound, the real stack has five frames, the backtrace has two -/
theorem C05_backtrace_is_stack_counterexample : ¬ C05_backtrace_is_stack_full := by
  intro h
  have h1 := h Ex.envRec (Ex.regsAt 1000 0 120) ⟨120, 1016⟩ _ Ex.chainRec
  have h2 : unwind Ex.envRec (Ex.regsAt 1000 0 120) 120 = .ok [120, 150] := rfl
  rw [h2] at h1
  have h3 := Except.ok.inj h1
  revert h3; decide

/-- non-vacuity of `C05_backtrace_is_prefix` on the recursive stack (prefix of length 2 of 5) -/
example : ∃ n, unwind Ex.envRec (Ex.regsAt 1000 0 120) 120 = .ok (120 :: (pcs (Ex.stackRec.drop 1)).take n) :=
  C05_backtrace_is_prefix _ _ ⟨120, 1016⟩ _ Ex.chainRec

/-- non-vacuity of `C05_frame_select_sp`: it holds in the recursion the backtrace cannot show -/
example : ∃ r, restoreRegs Ex.envRec (Ex.regsAt 1000 0 120) 120 3 = .ok r ∧ r rspDwarf = some 1048 := by
  have hs : NoSpRule Ex.envRec := by
    intro pc row h p hp
    simp [Ex.envRec, Ex.cfiSp] at h
    split at h
    · cases h; simp [Ex.rowFn] at hp; subst hp; decide
    · split at h
      · cases h; simp [Ex.rowStart] at hp; subst hp; decide
      · cases h
  simpa [Ex.stackRec] using C05_frame_select_sp Ex.envRec _ ⟨120, 1016⟩ _ 2 Ex.chainRec hs (by decide)

/-- `restore_registers_at_frame(1)` hands out the frame pointer (and return-address column) of activation 2 -/
theorem C05_frame_select_counterexample : ¬ C05_frame_select_full := by
  intro h
  have hc : ∃ r, carried Ex.envFp 1 (Ex.regsAt 1000 1100 120) 120 = .ok r ∧ r 6 = some 1200 := ⟨_, rfl, rfl⟩
  have hr : ∃ r', restoreRegs Ex.envFp (Ex.regsAt 1000 1100 120) 120 1 = .ok r' ∧ r' 6 = some 1300 := ⟨_, rfl, rfl⟩
  obtain ⟨r, h1, h2⟩ := hc
  obtain ⟨r', h3, h4⟩ := hr
  have := h _ _ _ _ _ _ h1 h3 6
  rw [h2, h4] at this
  cases this

/-- `frame_info` for frame 1 of the plain three-frame stack reports CFA 1016 (= rsp of frame 0 + 16); the real CFA of
frame 1 is 1032 -/
theorem C05_frame_info_counterexample : ¬ C05_frame_info_full := by
  intro h
  have hfi : frameInfo Ex.envPlain (Ex.regsAt 1000 0 120) 120 350 = .ok { num := 1, cfa := 1016, ret := some 550 } := rfl
  have := h Ex.envPlain _ Ex.stackPlain 1 ⟨350, 1032⟩ ⟨120, 1016⟩ _ Ex.chainPlain (by decide) rfl rfl hfi
  revert this; decide

/-- non-vacuity of `C05_frame_info_innermost`, on the recursive stack -/
example : frameInfo Ex.envRec (Ex.regsAt 1000 0 120) 120 120 = .ok { num := 0, cfa := 1016, ret := some 150 } :=
  C05_frame_info_innermost _ _ ⟨120, 1016⟩ ⟨150, 1032⟩ _ Ex.chainRec rfl (by decide)

/-- non-vacuity of `C05_frame_select_ip_partial` -/
example : setFrame Ex.envPlain (Ex.regsAt 1000 0 120) 120 2 = .ok 550 :=
  C05_frame_select_ip_partial _ _ ⟨120, 1016⟩ _ 2 550 Ex.chainPlain (by decide) (by decide)

end BsVerif.Unwind
