import BsVerif.Model.Unwind
/-!
C05 — the backtrace is the real call stack.

Ground truth = the real stack: a list of frames `(pc, cfa)`, innermost first (`pc` of frame k+1 = the return address of
the call in progress in frame k+1 that created frame k; `cfa` = the stack pointer before that call).
`Chain env regs frames` says that the CFI is *sound for this machine state*: evaluating, frame after frame, the row of
the frame's pc on the registers recovered so far yields the real CFA and the real return address of that frame, and the
chain ends at a frame whose row gives no return address (`RIP=undefined` in `_start`/`clone`), or at a return address
that has no unwind information.  The stack grows downwards: the CFA of a caller's frame is strictly greater than the
CFA of its callee's (part of `Chain`; a fact of the machine, a call pushes the return address).

Theorems quantify over every environment (CFI table, memory, object ranges), every register file and every stack.
-/
namespace BsVerif.Unwind
open BsVerif.Gen.Unwind

structure Frame where
  pc : Nat
  cfa : Nat
  deriving DecidableEq, Repr

/-- the last listed frame: no return address (the return-address column is `undefined`: `_start`, `clone`; or it has
no value) / a return address without unwind information -/
def Terminal (env : Env) (regs : Regs) (f : Frame) : Prop :=
  ∃ c, ctxNew env regs f.pc = .ok (some c) ∧ c.cfa = f.cfa ∧
    (c.retAddr = none ∨ ∃ p, c.retAddr = some p ∧ env.known p = true ∧ env.cfi p = none)

/-- the CFI is sound for the real stack `frames` when the innermost registers are `regs`; the stack grows downwards
(a call pushes the return address), so the CFA of the caller's frame is strictly greater -/
def Chain (env : Env) : Regs → List Frame → Prop
  | _, [] => False
  | regs, [f] => Terminal env regs f
  | regs, f :: g :: rest =>
    ∃ c, ctxNew env regs f.pc = .ok (some c) ∧ c.cfa = f.cfa ∧ c.retAddr = some g.pc ∧ env.known g.pc = true ∧
      f.cfa < g.cfa ∧ Chain env (c.regs.upd rspDwarf c.cfa) (g :: rest)

def pcs (l : List Frame) : List Nat := l.map (·.pc)

theorem Chain_head {env : Env} {regs : Regs} {f : Frame} {rest : List Frame} (h : Chain env regs (f :: rest)) :
    ∃ c, ctxNew env regs f.pc = .ok (some c) ∧ c.cfa = f.cfa := by
  cases rest with
  | nil => obtain ⟨c, h1, h2, _⟩ := h; exact ⟨c, h1, h2⟩
  | cons g r => obtain ⟨c, h1, h2, _⟩ := h; exact ⟨c, h1, h2⟩

/-- the unwind loop on a sound chain: every (ip, CFA) pair listed so far lies at or below the current frame, so no
frame of the rest of the chain is taken for a repetition — whatever its return address -/
theorem loop_spec (env : Env) : ∀ (rest : List Frame) (f : Frame) (regs : Regs) (c : Ctx) (fuel : Nat) (bt : List Nat)
    (visited : List (Nat × Nat)),
    ctxNew env regs f.pc = .ok (some c) → Chain env regs (f :: rest) → (∀ v ∈ visited, v.2 ≤ f.cfa) →
    unwindLoop env fuel c bt visited = .ok (bt ++ (pcs rest).take fuel) := by
  intro rest
  induction rest with
  | nil =>
    intro f regs c fuel bt visited hc hch _
    obtain ⟨c', h1, _, h3⟩ := hch
    rw [hc] at h1; cases h1
    cases fuel with
    | zero => simp [unwindLoop, pcs]
    | succ n =>
      rcases h3 with h | ⟨p, hp, hk, hn⟩
      · simp [unwindLoop, h, pcs]
      · simp [unwindLoop, hp, hk, ctxNext, ctxNew, hn, pcs]
  | cons g rest ih =>
    intro f regs c fuel bt visited hc hch hv
    obtain ⟨c', h1, hcfa, h3, hk, hlt, hrest⟩ := hch
    rw [hc] at h1; cases h1
    cases fuel with
    | zero => simp [unwindLoop, pcs]
    | succ n =>
      obtain ⟨cg, hcg, hgc⟩ := Chain_head hrest
      have hnv : (g.pc, cg.cfa) ∉ visited := by
        intro hmem
        have := hv _ hmem
        simp [hgc] at this; omega
      have step : unwindLoop env (n + 1) c bt visited = unwindLoop env n cg (bt ++ [g.pc]) ((g.pc, cg.cfa) :: visited) := by
        simp [unwindLoop, h3, hk, ctxNext, hcg, hnv]
      rw [step, ih g _ cg n _ _ hcg hrest ?_]
      · simp [pcs, List.take_succ_cons]
      · intro v hmem
        rcases List.mem_cons.mp hmem with e | e
        · rw [e]; simp [hgc]
        · have := hv v e; omega


/-! ## The backtrace -/

/-- for every environment, register file and stack of ANY depth, recursion included: whenever the CFI is sound for the
real stack, the backtrace is exactly the real call chain, innermost first, cut only by `MAX_UNWIND_DEPTH` -/
theorem C05_backtrace_is_stack (env : Env) (regs0 : Regs) (f0 : Frame) (rest : List Frame)
    (hch : Chain env regs0 (f0 :: rest)) :
    unwind env regs0 f0.pc = .ok ((pcs (f0 :: rest)).take maxUnwindDepth) := by
  obtain ⟨c, hc, hcfa⟩ := Chain_head hch
  have hloop := loop_spec env rest f0 regs0 c (maxUnwindDepth - 1) [f0.pc] [(f0.pc, c.cfa)] hc hch
    (by intro v hv; have : v = (f0.pc, c.cfa) := by simpa using hv
        rw [this]; simp [hcfa])
  have hm : maxUnwindDepth = (maxUnwindDepth - 1) + 1 := by decide
  unfold unwind
  rw [hc]; simp only []
  rw [hloop, hm]
  simp [pcs, List.take_succ_cons]

/-- a stop at a pc without unwind information: the backtrace is the current pc alone -/
theorem C05_no_unwind_info (env : Env) (regs0 : Regs) (pc0 : Nat) (hk : env.known pc0 = true) (hn : env.cfi pc0 = none) :
    unwind env regs0 pc0 = .ok [pc0] := by
  simp [unwind, ctxNew, hk, hn]

theorem unwindLoop_length (env : Env) : ∀ (fuel : Nat) (c : Ctx) (bt : List Nat) (visited : List (Nat × Nat)) (r : List Nat),
    unwindLoop env fuel c bt visited = .ok r → r.length ≤ bt.length + fuel := by
  intro fuel
  induction fuel with
  | zero => intro c bt visited r h; simp [unwindLoop] at h; subst h; simp
  | succ n ih =>
    intro c bt visited r h
    unfold unwindLoop at h
    split at h
    · cases h; omega
    · split at h
      · cases h
      · split at h
        · cases h
        · cases h; omega
        · split at h
          · cases h; omega
          · have := ih _ _ _ _ h; simp at this; omega

/-- for EVERY environment and register file (sound CFI or garbage): a backtrace never has more than
`MAX_UNWIND_DEPTH` frames -/
theorem C05_depth_bound (env : Env) (regs0 : Regs) (pc0 : Nat) (r : List Nat) (h : unwind env regs0 pc0 = .ok r) :
    r.length ≤ maxUnwindDepth := by
  unfold unwind at h
  split at h
  · cases h
  · cases h; simp [maxUnwindDepth]
  · have := unwindLoop_length env _ _ _ _ _ h
    have hm : maxUnwindDepth = (maxUnwindDepth - 1) + 1 := by decide
    simp at this; omega


/-- selecting frame k puts the exploration context on the k-th real frame, in a recursion too -/
theorem C05_frame_select_ip (env : Env) (regs0 : Regs) (f0 : Frame) (rest : List Frame) (k ip : Nat)
    (hch : Chain env regs0 (f0 :: rest))
    (hk : ((pcs (f0 :: rest)).take maxUnwindDepth)[k]? = some ip) :
    setFrame env regs0 f0.pc k = .ok ip := by
  simp [setFrame, C05_backtrace_is_stack env regs0 f0 rest hch, hk]

/-! ## Frame selection: the registers handed to variable / argument / register reads of frame k -/

/-- the registers of activation k as the unwinder itself carries them from frame to frame
(`UnwindContext::next`: the registers recovered by frame k-1's row, with `rsp := CFA of frame k-1`) -/
def carried (env : Env) : Nat → Regs → Nat → Except Fault Regs
  | 0, regs, _ => .ok regs
  | k + 1, regs, pc =>
    match ctxNew env regs pc with
    | .ok (some c) =>
      match c.retAddr with
      | some ret => carried env k (c.regs.upd rspDwarf c.cfa) ret
      | none => .error .err
    | .ok none => .error .err
    | .error f => .error f

theorem applyRules_isSome (env : Env) (snap : Regs) (cfa i : Nat) : ∀ (rules : List (Nat × Rule)) (next next' : Regs),
    applyRules env snap cfa rules next = .ok next' → (next i).isSome → (next' i).isSome := by
  intro rules
  induction rules with
  | nil => intro next next' h hs; simp [applyRules] at h; rw [← h]; exact hs
  | cons p rest ih =>
    intro next next' h hs
    obtain ⟨reg, rule⟩ := p
    unfold applyRules at h
    split at h
    · cases h
    · exact ih _ _ h hs
    · split at h
      · refine ih _ _ h ?_
        show (if i = reg then some _ else next i).isSome
        split <;> simp [hs]
      · cases h

/-- unwinding never forgets a register: what has a value keeps one (`next_registers` starts as a clone) -/
theorem ctxNew_isSome {env : Env} {regs : Regs} {pc : Nat} {c : Ctx} (i : Nat) (h : ctxNew env regs pc = .ok (some c))
    (hs : (regs i).isSome) : (c.regs i).isSome := by
  unfold ctxNew at h
  split at h
  · cases h
  · split at h
    · cases h
    · split at h
      · cases h
      · split at h
        · cases h
        · rename_i next hnext
          cases h
          exact applyRules_isSome env regs _ i _ _ _ hnext hs

theorem carried_isSome (env : Env) (i : Nat) : ∀ (k : Nat) (regs : Regs) (pc : Nat) (r : Regs),
    carried env k regs pc = .ok r → (regs i).isSome → (r i).isSome := by
  intro k
  induction k with
  | zero => intro regs pc r h hs; simp [carried] at h; rw [← h]; exact hs
  | succ k ih =>
    intro regs pc r h hs
    unfold carried at h
    split at h
    · rename_i c hc
      split at h
      · refine ih _ _ _ h ?_
        show (if i = rspDwarf then some _ else c.regs i).isSome
        split
        · simp
        · exact ctxNew_isSome i hc hs
      · cases h
    · cases h
    · cases h

/-- the loop of `restore_registers_at_frame` walks exactly the contexts the unwinder itself walks -/
theorem restoreLoop_carried (env : Env) : ∀ (j : Nat) (regs : Regs) (pc : Nat) (c ck : Ctx) (ret : Nat),
    ctxNew env regs pc = .ok (some c) → restoreLoop env j c = .ok ck → ck.retAddr = some ret →
    carried env (j + 1) regs pc = .ok ck.callerRegs := by
  intro j
  induction j with
  | zero =>
    intro regs pc c ck ret hc hl hr
    simp [restoreLoop] at hl; subst hl
    simp [carried, hc, hr, Ctx.callerRegs]
  | succ j ih =>
    intro regs pc c ck ret hc hl hr
    unfold restoreLoop at hl
    split at hl
    · cases hl
    · rename_i ret' hret'
      split at hl
      · cases hl
      · split at hl
        · cases hl
        · cases hl
        · rename_i c' hc'
          simp only [ctxNext] at hc'
          have := ih _ ret' c' ck ret hc' hl hr
          rw [carried, hc]; simp only [hret']; exact this

theorem updateFrom_carried (env : Env) (k : Nat) (regs0 : Regs) (pc0 : Nat) (r : Regs)
    (h : carried env k regs0 pc0 = .ok r) : regs0.updateFrom r = r := by
  funext i
  unfold Regs.updateFrom
  cases hri : r i with
  | some v => rfl
  | none =>
    cases h0 : regs0 i with
    | none => rfl
    | some v =>
      have := carried_isSome env i k regs0 pc0 r h (by simp [h0])
      simp [hri] at this

/-- the selection clause, for EVERY environment, register file and frame number (sound CFI or not): the registers that
`restore_registers_at_frame(k)` hands to the reads of frame k are the registers the unwinder carried into frame k — the
callee-saved registers, the return-address column and the stack pointer of activation k, not of its caller -/
theorem C05_frame_select (env : Env) (regs0 : Regs) (pc0 k : Nat) (r r' : Regs)
    (hc : carried env k regs0 pc0 = .ok r) (hr : restoreRegs env regs0 pc0 k = .ok r') : ∀ i, r' i = r i := by
  cases k with
  | zero =>
    simp [carried] at hc; simp [restoreRegs] at hr
    subst hc; subst hr; intro i; rfl
  | succ j =>
    unfold restoreRegs at hr
    simp only [Nat.succ_ne_zero, if_false, Nat.add_sub_cancel] at hr
    split at hr
    · cases hr
    · cases hr
    · rename_i c hc0
      split at hr
      · cases hr
      · rename_i ck hck
        split at hr
        · cases hr
        · rename_i ret hret
          have h1 := restoreLoop_carried env j regs0 pc0 c ck ret hc0 hck hret
          rw [hc] at h1
          have h2 : r = ck.callerRegs := Except.ok.inj h1
          have h3 := updateFrom_carried env (j + 1) regs0 pc0 r hc
          cases hr
          intro i; rw [← h2, h3]

/-- on a sound chain the carried registers of frame k exist and the CFI is sound for the rest of the stack from them -/
theorem carried_chain (env : Env) : ∀ (k : Nat) (f : Frame) (rest : List Frame) (regs : Regs),
    Chain env regs (f :: rest) → k ≤ rest.length →
    ∃ r, carried env k regs f.pc = .ok r ∧ Chain env r ((f :: rest).drop k) := by
  intro k
  induction k with
  | zero => intro f rest regs h _; exact ⟨regs, rfl, h⟩
  | succ k ih =>
    intro f rest regs h hk
    cases rest with
    | nil => simp at hk
    | cons g rest' =>
      obtain ⟨c, h1, _, h3, _, _, hrest⟩ := h
      obtain ⟨r, hr, hch⟩ := ih g rest' _ hrest (by simpa using hk)
      exact ⟨r, by simp [carried, h1, h3, hr], by simpa using hch⟩

theorem restoreLoop_chain (env : Env) : ∀ (k : Nat) (f : Frame) (rest : List Frame) (regs : Regs) (c : Ctx),
    ctxNew env regs f.pc = .ok (some c) → Chain env regs (f :: rest) → k + 1 ≤ rest.length →
    ∃ ck ret, restoreLoop env k c = .ok ck ∧ ck.retAddr = some ret ∧ ((f :: rest)[k]?).map (·.cfa) = some ck.cfa := by
  intro k
  induction k with
  | zero =>
    intro f rest regs c hc hch hk
    cases rest with
    | nil => simp at hk
    | cons g rest' =>
      obtain ⟨c', h1, hcfa, h3, _⟩ := hch
      rw [hc] at h1; cases h1
      exact ⟨c, g.pc, by simp [restoreLoop], h3, by simp [hcfa]⟩
  | succ k ih =>
    intro f rest regs c hc hch hk
    cases rest with
    | nil => simp at hk
    | cons g rest' =>
      obtain ⟨c', h1, _, h3, hkn, _, hrest⟩ := hch
      rw [hc] at h1; cases h1
      obtain ⟨cg, hcg, _⟩ := Chain_head hrest
      obtain ⟨ck, ret, hck, hret, hcfa⟩ := ih g rest' _ cg hcg hrest (by simpa using hk)
      exact ⟨ck, ret, by simp [restoreLoop, h3, hkn, ctxNext, hcg, hck], hret, by simpa using hcfa⟩

/-- for every sound chain (recursion included) and every existing frame k: `restore_registers_at_frame(k)` succeeds and
the CFI is sound for the stack from frame k on when started from the registers it hands out — in particular frame k's
own row evaluates on them to the real CFA and the real return address of frame k -/
theorem C05_frame_select_chain (env : Env) (regs0 : Regs) (f0 : Frame) (rest : List Frame) (k : Nat)
    (hch : Chain env regs0 (f0 :: rest)) (hk : k ≤ rest.length) :
    ∃ r, restoreRegs env regs0 f0.pc k = .ok r ∧ carried env k regs0 f0.pc = .ok r ∧ Chain env r ((f0 :: rest).drop k) := by
  cases k with
  | zero => exact ⟨regs0, by simp [restoreRegs], rfl, hch⟩
  | succ j =>
    obtain ⟨c, hc, _⟩ := Chain_head hch
    obtain ⟨ck, ret, hck, hret, _⟩ := restoreLoop_chain env j f0 rest regs0 c hc hch hk
    obtain ⟨r, hr, hchr⟩ := carried_chain env (j + 1) f0 rest regs0 hch hk
    have h1 := restoreLoop_carried env j regs0 f0.pc c ck ret hc hck hret
    rw [hr] at h1
    have h2 : r = ck.callerRegs := Except.ok.inj h1
    refine ⟨r, ?_, hr, hchr⟩
    simp [restoreRegs, hc, hck, hret, ← h2, updateFrom_carried env (j + 1) regs0 f0.pc r hr]

/-- … and their stack pointer is the CFA of frame k, i.e. the stack pointer of activation k+1 right after the return
into it -/
theorem C05_frame_select_sp (env : Env) (regs0 : Regs) (f0 : Frame) (rest : List Frame) (k : Nat)
    (hch : Chain env regs0 (f0 :: rest)) (hk : k + 1 ≤ rest.length) :
    ∃ r, restoreRegs env regs0 f0.pc (k + 1) = .ok r ∧ r rspDwarf = ((f0 :: rest)[k]?).map (·.cfa) := by
  obtain ⟨c, hc, _⟩ := Chain_head hch
  obtain ⟨ck, ret, hck, hret, hcfa⟩ := restoreLoop_chain env k f0 rest regs0 c hc hch hk
  refine ⟨regs0.updateFrom ck.callerRegs, by simp [restoreRegs, hc, hck, hret], ?_⟩
  rw [hcfa]; simp [Regs.updateFrom, Ctx.callerRegs, Regs.upd]

/-- frame 0 is the thread as it is -/
theorem C05_frame_select_zero (env : Env) (regs0 : Regs) (pc0 : Nat) : restoreRegs env regs0 pc0 0 = .ok regs0 := by
  simp [restoreRegs]

/-- the return address `finish` uses is the pc of the caller's frame -/
theorem C05_return_address (env : Env) (regs0 : Regs) (f0 g : Frame) (rest : List Frame)
    (hch : Chain env regs0 (f0 :: g :: rest)) : returnAddress env regs0 f0.pc = .ok (some g.pc) := by
  obtain ⟨c, hc, _, h3, _⟩ := hch
  simp [returnAddress, hc, h3]

/-! ## frame_info -/

theorem ctxNew_cfa {env : Env} {regs : Regs} {pc : Nat} {c : Ctx} (h : ctxNew env regs pc = .ok (some c)) :
    ∃ row, env.cfi pc = some row ∧ evalCfa regs row = .ok c.cfa := by
  unfold ctxNew at h
  split at h
  · cases h
  · split at h
    · cases h
    · rename_i row hrow
      split at h
      · cases h
      · rename_i cfa hcfa
        split at h
        · cases h
        · cases h; exact ⟨row, hrow, hcfa⟩

/-- the frame_info clause: for the selected frame k of a sound chain (recursion included) the answer describes frame k:
its number, its real CFA (the stack pointer before the call that created the frame), and the pc of its caller's frame as
return address (none for the last listed frame) -/
theorem C05_frame_info (env : Env) (regs0 : Regs) (frames : List Frame) (k : Nat) (fk f0 : Frame) (fi : FrameInfo)
    (hch : Chain env regs0 frames) (h0 : frames[0]? = some f0) (hk : frames[k]? = some fk)
    (hfi : frameInfo env regs0 f0.pc fk.pc k = .ok fi) :
    fi.cfa = fk.cfa ∧ fi.num = k ∧ fi.ret = ((pcs frames).take maxUnwindDepth)[k + 1]? := by
  cases frames with
  | nil => simp at h0
  | cons f rest =>
    have hf : f = f0 := by simpa using h0
    subst hf
    obtain ⟨hlen, hget⟩ := List.getElem?_eq_some_iff.mp hk
    have hdrop : (f :: rest).drop k = fk :: (f :: rest).drop (k + 1) := by
      rw [← hget]; exact List.drop_eq_getElem_cons hlen
    obtain ⟨r, hr, _, hchr⟩ := C05_frame_select_chain env regs0 f rest k hch (by simp at hlen; omega)
    rw [hdrop] at hchr
    obtain ⟨c, hc, hcfa⟩ := Chain_head hchr
    obtain ⟨row, hrow, hev⟩ := ctxNew_cfa hc
    have hun := C05_backtrace_is_stack env regs0 f rest hch
    unfold frameInfo getCfa at hfi
    rw [hr, hun] at hfi
    split at hfi
    · cases hfi
    · rename_i cfa hg
      split at hg
      · cases hg
      · rename_i row' hrow'
        have : row' = row := by
          have : env.cfi fk.pc = some row' := by simp [Env.cfi, hrow']
          rw [hrow] at this; exact (Option.some.inj this).symm
        subst this
        simp only [] at hg
        rw [hev] at hg
        cases hg
        simp only [] at hfi
        split at hfi
        · cases hfi
        · cases hfi; exact ⟨hcfa, rfl, rfl⟩

/-- frame 0 of every sound chain (recursion included): number 0, the real CFA, the caller's pc as return address -/
theorem C05_frame_info_innermost (env : Env) (regs0 : Regs) (f0 g : Frame) (rest : List Frame)
    (hch : Chain env regs0 (f0 :: g :: rest)) (heh : env.cfiEh f0.pc = env.cfi f0.pc) :
    frameInfo env regs0 f0.pc f0.pc 0 = .ok { num := 0, cfa := f0.cfa, ret := some g.pc } := by
  have hun := C05_backtrace_is_stack env regs0 f0 (g :: rest) hch
  obtain ⟨c, hc, hcfa, _⟩ := hch
  obtain ⟨row, hrow, hev⟩ := ctxNew_cfa hc
  have hm : maxUnwindDepth = (maxUnwindDepth - 2) + 2 := by decide
  rw [hm] at hun
  simp [frameInfo, getCfa, restoreRegs, heh, hrow, hev, hun, pcs, List.take_succ_cons, hcfa]

/-! ## Concrete stacks: non-vacuity, and the witnesses of the repaired defects -/
namespace Ex

def rowFn : Row := { cfa := .regOff 7 16, rules := [(16, .offset (-8))], ra := 16 }
def rowFp : Row := { cfa := .regOff 6 16, rules := [(6, .offset (-16)), (16, .offset (-8))], ra := 16 }
def rowStart : Row := { cfa := .regOff 7 8, rules := [(16, .undefined)], ra := 16 }

def memOf (l : List (Nat × Nat)) (a : Nat) : Option Nat := (l.find? (fun p => p.1 == a)).map (·.2)
def regsAt (rsp rbp rip : Nat) : Regs := fun i => if i = 7 then some rsp else if i = 6 then some rbp else if i = 16 then some rip else none

def cfiSp (pc : Nat) : Option Row :=
  if 100 ≤ pc ∧ pc < 400 then some rowFn else if 500 ≤ pc ∧ pc < 600 then some rowStart else none
def cfiFp (pc : Nat) : Option Row :=
  if 100 ≤ pc ∧ pc < 400 then some rowFp else if 500 ≤ pc ∧ pc < 600 then some rowStart else none

/-- `f` (pcs 100..199) called from `main` (300..399) called from `_start` (500..599) -/
def envPlain : Env := { cfiEh := cfiSp, cfiDf := fun _ => none, known := fun a => decide (a < 1000), mem := memOf [(1008, 350), (1024, 550)] }
def stackPlain : List Frame := [⟨120, 1016⟩, ⟨350, 1032⟩, ⟨550, 1040⟩]

/-- `f` recursing twice through the same call site (return address 150) -/
def envRec : Env := { cfiEh := cfiSp, cfiDf := fun _ => none, known := fun a => decide (a < 1000),
                      mem := memOf [(1008, 150), (1024, 150), (1040, 350), (1056, 550)] }
def stackRec : List Frame := [⟨120, 1016⟩, ⟨150, 1032⟩, ⟨150, 1048⟩, ⟨350, 1064⟩, ⟨550, 1072⟩]

/-- frame-pointer code: `f` (rbp 1100) called from `main` (rbp 1200) called from `_start` -/
def envFp : Env := { cfiEh := cfiFp, cfiDf := fun _ => none, known := fun a => decide (a < 2000),
                     mem := memOf [(1100, 1200), (1108, 350), (1200, 1300), (1208, 550)] }
def stackFp : List Frame := [⟨120, 1116⟩, ⟨350, 1216⟩, ⟨550, 1224⟩]

theorem chainPlain : Chain envPlain (regsAt 1000 0 120) stackPlain :=
  ⟨_, rfl, rfl, rfl, rfl, by decide, _, rfl, rfl, rfl, rfl, by decide, _, rfl, rfl, Or.inl rfl⟩

theorem chainRec : Chain envRec (regsAt 1000 0 120) stackRec :=
  ⟨_, rfl, rfl, rfl, rfl, by decide, _, rfl, rfl, rfl, rfl, by decide, _, rfl, rfl, rfl, rfl, by decide,
   _, rfl, rfl, rfl, rfl, by decide, _, rfl, rfl, Or.inl rfl⟩

theorem chainFp : Chain envFp (regsAt 1000 1100 120) stackFp :=
  ⟨_, rfl, rfl, rfl, rfl, by decide, _, rfl, rfl, rfl, rfl, by decide, _, rfl, rfl, Or.inl rfl⟩

end Ex

/-- non-vacuity of `C05_backtrace_is_stack`: a sound chain exists, and the model answers with all three frames -/
example : Chain Ex.envPlain (Ex.regsAt 1000 0 120) Ex.stackPlain ∧
    unwind Ex.envPlain (Ex.regsAt 1000 0 120) 120 = .ok [120, 350, 550] :=
  ⟨Ex.chainPlain, C05_backtrace_is_stack _ _ ⟨120, 1016⟩ _ Ex.chainPlain⟩

/-- the recursion through one call site (the witness of the repaired defect: the unwinder used to stop at the second
occurrence of return address 150 and list two frames): the backtrace has all five frames -/
example : unwind Ex.envRec (Ex.regsAt 1000 0 120) 120 = .ok [120, 150, 150, 350, 550] :=
  C05_backtrace_is_stack _ _ ⟨120, 1016⟩ _ Ex.chainRec

/-- non-vacuity of `C05_frame_select_sp`, in the recursion -/
example : ∃ r, restoreRegs Ex.envRec (Ex.regsAt 1000 0 120) 120 3 = .ok r ∧ r rspDwarf = some 1048 := by
  simpa [Ex.stackRec] using C05_frame_select_sp Ex.envRec _ ⟨120, 1016⟩ _ 2 Ex.chainRec (by decide)

/-- non-vacuity of `C05_frame_select` / `C05_frame_select_chain` on the frame-pointer stack (the witness of the repaired
defect: frame 1 used to get the frame pointer 1300 of activation 2): the registers of frame 1 carry ITS frame pointer -/
example : ∃ r, restoreRegs Ex.envFp (Ex.regsAt 1000 1100 120) 120 1 = .ok r ∧
    carried Ex.envFp 1 (Ex.regsAt 1000 1100 120) 120 = .ok r ∧ r 6 = some 1200 ∧ r 16 = some 350 ∧ r 7 = some 1116 := by
  obtain ⟨r, h1, h2, _⟩ := C05_frame_select_chain Ex.envFp _ ⟨120, 1116⟩ _ 1 Ex.chainFp (by decide)
  have h3 : carried Ex.envFp 1 (Ex.regsAt 1000 1100 120) 120 = .ok _ := rfl
  rw [h3] at h2
  have := Except.ok.inj h2
  subst this
  exact ⟨_, h1, h3, rfl, rfl, rfl⟩

/-- non-vacuity of `C05_frame_info` for an outer frame (the witness of the repaired defect: frame 1 of the plain stack
used to be reported with CFA 1016 = rsp of frame 0 + 16): the CFA of frame 1 is 1032 -/
example : frameInfo Ex.envPlain (Ex.regsAt 1000 0 120) 120 350 1 = .ok { num := 1, cfa := 1032, ret := some 550 } := rfl

example (fi : FrameInfo) (h : frameInfo Ex.envPlain (Ex.regsAt 1000 0 120) 120 350 1 = .ok fi) : fi.cfa = 1032 :=
  (C05_frame_info Ex.envPlain _ Ex.stackPlain 1 ⟨350, 1032⟩ ⟨120, 1016⟩ fi Ex.chainPlain rfl rfl h).1

/-- … and in the recursion frame 2 (same ip as frame 1) is reported as frame 2 with its own CFA and return address -/
example : frameInfo Ex.envRec (Ex.regsAt 1000 0 120) 120 150 2 = .ok { num := 2, cfa := 1048, ret := some 350 } := rfl

/-- non-vacuity of `C05_frame_info_innermost`, on the recursive stack -/
example : frameInfo Ex.envRec (Ex.regsAt 1000 0 120) 120 120 0 = .ok { num := 0, cfa := 1016, ret := some 150 } :=
  C05_frame_info_innermost _ _ ⟨120, 1016⟩ ⟨150, 1032⟩ _ Ex.chainRec rfl

/-- non-vacuity of `C05_frame_select_ip`: the third activation of the recursion can be selected -/
example : setFrame Ex.envRec (Ex.regsAt 1000 0 120) 120 2 = .ok 150 :=
  C05_frame_select_ip _ _ ⟨120, 1016⟩ _ 2 150 Ex.chainRec (by decide)

end BsVerif.Unwind
