import BsVerif.Lemmas.CmdNum
import BsVerif.Model.SliceBuf
/-!
# C08 — no input can crash, hang or corrupt the debugger

Property theorems only.  Models: `Model/CmdNum.lean` (console command parser incl. the DQE grammar, numeric
tokens), `Model/SliceBuf.lean` (slice / index arithmetic, decoder reads).  The property demands **no panic**.
On the unchanged tree that is false; for each area the full statement is a `def .._full : Prop`, refuted on a
concrete witness (`.._counterexample`, replayed on the real code by the harness), proved under an explicit
decidable hypothesis (`.._partial`) and proved outright for the repaired setting of the model (`Quirks.checked`).
-/
namespace BsVerif.CmdNum

/-! ## numeric conversions -/

/-- **C08_num_conv_exact.**  For every radix ≥ 1, width and digit string: the checked multiply-add loop of
`from_str` / `from_str_radix` returns `some v` exactly when the value of the digit string fits the type, and then
`v` *is* that value; otherwise it returns `none` (`PosOverflow`).  All digit strings, by induction. -/
theorem C08_num_conv_exact (r bits : Nat) (hr : 1 ≤ r) (ds : List Nat) (acc : Nat) (hacc : acc < 2 ^ bits) :
    parseDigits r bits ds acc =
      if digitsValue r ds acc < 2 ^ bits then some (digitsValue r ds acc) else none := by
  induction ds generalizing acc with
  | nil => simp [parseDigits, digitsValue, hacc]
  | cons d ds ih =>
    have hv : digitsValue r (d :: ds) acc = digitsValue r ds (acc * r + d) := rfl
    have hge := digitsValue_ge r hr ds (acc * r + d)
    rw [hv]
    simp only [parseDigits]
    by_cases h1 : acc * r < 2 ^ bits
    · by_cases h2 : acc * r + d < 2 ^ bits
      · simp only [h1, h2, if_true]; exact ih _ h2
      · have h3 : ¬ digitsValue r ds (acc * r + d) < 2 ^ bits := by omega
        simp [h1, h2, h3]
    · have h3 : ¬ digitsValue r ds (acc * r + d) < 2 ^ bits := by omega
      simp [h1, h3]

/-- decimal tokens: `ok v` iff the number is below `2^bits`, and `v` is the number -/
theorem C08_num_conv_exact_dec (bits : Nat) (tok : List Char) :
    parseDec bits tok = if digitsValue 10 (tok.map decVal) 0 < 2 ^ bits
      then some (digitsValue 10 (tok.map decVal) 0) else none :=
  C08_num_conv_exact 10 bits (by decide) _ 0 (Nat.pos_of_ne_zero (by simp))

/-- hex tokens (`usize::from_str_radix(s, 16)`) -/
theorem C08_num_conv_exact_hex (tok : List Char) :
    parseHex tok = if digitsValue 16 (tok.map hexVal) 0 < 2 ^ 64
      then some (digitsValue 16 (tok.map hexVal) 0) else none :=
  C08_num_conv_exact 16 64 (by decide) _ 0 (by decide)

/-- `-(val as i64)` overflows exactly for `val = 2^63`; otherwise it is the two's-complement negation -/
theorem C08_neg_exact (val : Nat) (_h : val < 2 ^ 64) :
    negAsI64 val = if val = 2 ^ 63 then none
      else some (if val < 2 ^ 63 then -(val : Int) else (2 ^ 64 : Int) - val) := by
  unfold negAsI64
  split
  · rfl
  · split <;> simp <;> omega

/-! ## the command-line parser -/

/-- full strength: no command line makes `Command::parse` panic -/
def C08_cmd_total_full (q : Quirks) : Prop := ∀ s : List Char, (parseLine q s).isPanic = false

theorem runNum_checked_no_panic (q : Quirks) (hq : q.checked = true) (n : NumTok) (s : List Char) :
    (runNum q n s).isPanic = false := by
  cases n <;> simp only [runNum, overflow, hq, ↓reduceIte] <;> (repeat' split) <;> rfl

/-- **repaired setting, every grammar, every fuel, every string**: with checked numeric tokens the PEG
interpreter never panics (the numeric leaves are the only source of panics). -/
theorem C08_run_total_repaired (q : Quirks) (hq : q.checked = true) (env : Nat → G) :
    ∀ (f : Nat) (g : G) (s : List Char), (run q env f g s).isPanic = false := by
  intro f
  induction f with
  | zero => intro g s; rfl
  | succ f ih =>
    intro g s
    cases g with
    | eps => rfl
    | eoi => simp only [run]; split <;> rfl
    | just k => simp only [run]; split <;> rfl
    | cls c => simp only [run]; split <;> (try split) <;> rfl
    | seq a b =>
      simp only [run]
      have ha := ih a s
      split
      · exact ih b _
      · exact ha
    | alt a b =>
      simp only [run]
      have ha := ih a s
      split
      · exact ih b s
      · exact ha
    | opt a =>
      simp only [run]
      have ha := ih a s
      split
      · rfl
      · exact ha
    | star a =>
      simp only [run]
      have ha := ih a s
      split
      · split
        · exact ih _ _
        · rfl
      · rfl
      · exact ha
    | num n => simp only [run]; exact runNum_checked_no_panic q hq n s
    | ref i => simp only [run]; exact ih _ s

/-- **C08_cmd_total_repaired.**  The full-strength statement holds for the repaired model (`try_map`). -/
theorem C08_cmd_total_repaired : C08_cmd_total_full repaired :=
  fun s => C08_run_total_repaired repaired rfl G.env _ _ s

/-- **C08_cmd_total_partial** (as found, any fuel): a line on which no numeric token is out of range
(`tokensInRange`, decidable, evaluated on the raw characters) never makes the parser panic. -/
theorem C08_run_total_partial (q : Quirks) (env : Nat → G) (henv : ∀ i, (env i).numsOk = true) :
    ∀ (f : Nat) (g : G) (s : List Char), g.numsOk = true → tokensInRange q s = true →
      (run q env f g s).isPanic = false := by
  intro f
  induction f with
  | zero => intro g s _ _; rfl
  | succ f ih =>
    intro g s hg hs
    cases g with
    | eps => rfl
    | eoi => simp only [run]; split <;> rfl
    | just k => simp only [run]; split <;> rfl
    | cls c => simp only [run]; split <;> (try split) <;> rfl
    | seq a b =>
      simp only [G.numsOk, Bool.and_eq_true] at hg
      simp only [run]
      have ha := ih a s hg.1 hs
      split
      · next r hr =>
        exact ih b r hg.2 (tokensInRange_of_suffix q r s (run_ok_suffix q env f a s r hr) hs)
      · exact ha
    | alt a b =>
      simp only [G.numsOk, Bool.and_eq_true] at hg
      simp only [run]
      have ha := ih a s hg.1 hs
      split
      · exact ih b s hg.2 hs
      · exact ha
    | opt a =>
      simp only [G.numsOk] at hg
      simp only [run]
      have ha := ih a s hg hs
      split
      · rfl
      · exact ha
    | star a =>
      have hg' : a.numsOk = true := by simpa [G.numsOk] using hg
      simp only [run]
      have ha := ih a s hg' hs
      split
      · next r hr =>
        split
        · exact ih (.star a) r hg (tokensInRange_of_suffix q r s (run_ok_suffix q env f a s r hr) hs)
        · rfl
      · rfl
      · exact ha
    | num n =>
      simp only [run]
      have hmem : n ∈ allNumToks := by simpa [G.numsOk] using hg
      have hall := tokensInRange_head q s hs
      rw [List.all_eq_true] at hall
      simpa using hall n hmem
    | ref i => simp only [run]; exact ih (env i) s (henv i) hs

theorem env_numsOk : ∀ i, (G.env i).numsOk = true := by
  intro i
  cases i with
  | zero => decide
  | succ n => simp only [G.env]; decide

theorem commandLine_numsOk : G.commandLine.numsOk = true := by decide

theorem C08_cmd_total_partial (s : List Char) (h : tokensInRange asFound s = true) :
    (parseLine asFound s).isPanic = false :=
  C08_run_total_partial asFound G.env env_numsOk _ _ s commandLine_numsOk h

/-- the witness `break remove 4294967296` -/
def witnessBreakRemove : List Char :=
  ['b','r','e','a','k',' ','r','e','m','o','v','e',' ','4','2','9','4','9','6','7','2','9','6']

/-- **C08_cmd_total_counterexample.**  As found, `break remove 4294967296` panics inside the parser
(`unwrapped()` on `PosOverflow` of the u32 conversion, parser/mod.rs:139). -/
theorem C08_cmd_total_counterexample : ¬ C08_cmd_total_full asFound := by
  intro h
  have := h witnessBreakRemove
  revert this
  decide +kernel

theorem C08_cmd_witness_site : parseLine asFound witnessBreakRemove = .panic .brkNumber := by decide +kernel

/-- after the repair the same line is accepted (it falls through to "breakpoint at function") -/
theorem C08_cmd_witness_repaired : parseLine repaired witnessBreakRemove = .ok [] := by decide +kernel

/-- non-vacuity of the partial theorem: a line with numbers that satisfies the range predicate -/
example : tokensInRange asFound ['b',' ','r',' ','4','2','9','4','9','6','7','2','9','5'] = true := by decide +kernel

/-- the model transcribes exactly the commands of the dispatch `choice` of the source, in its order, and the
source has as many numeric conversion sites as the model has `Site`s of each kind (tables regenerated from
/repo on every run: a new / renamed / re-ordered command or a new conversion site breaks this theorem) -/
theorem C08_cmd_table_tie :
    G.commands.map (·.1) = BsVerif.Gen.Cmds.dispatchOrder ∧ BsVerif.Gen.Cmds.numericSites = (8, 1, 1, 1) := by
  decide

/-! Sanity tests on strings (evaluated, *not* proofs). -/
#guard (parseLine asFound "break remove 7".toList).toString == "ok"
#guard (parseLine asFound "mem read 0x1ffffffffffffffff".toList).toString == "panic:hex"
#guard (parseLine asFound "var a[99999999999999999999]".toList).toString == "panic:tok"
#guard (parseLine asFound "var a[-9223372036854775808]".toList).toString == "panic:neg"
#guard (parseLine asFound "var a[1..99999999999999999999]".toList).toString == "panic:usize"
#guard (parseLine asFound "break remove 007".toList).toString == "err"
#guard (parseLine repaired "var a[1..99999999999999999999]".toList).toString == "err"
#guard tokensInRange asFound "thread switch 4294967296".toList == false

end BsVerif.CmdNum

namespace BsVerif.SliceBuf

/-! ## slice / index arithmetic -/

def C08_slice_total_full (q : Quirks) : Prop :=
  ∀ (items : List Nat) (left right : Option Nat), (arraySlice q items left right).isPanic = false

/-- the explicit range hypothesis: `left ≤ len` and `left ≤ right` -/
def sliceBoundsOk (len : Nat) (left right : Option Nat) : Bool :=
  left.getD 0 ≤ len && (match right with | some r => left.getD 0 ≤ r | none => true)

/-- **C08_slice_total_partial.**  Within `left ≤ len ∧ left ≤ right`, `ArrayValue::slice` does not panic
(any `right`, also far past the end). -/
theorem C08_slice_total_partial {α} (q : Quirks) (items : List α) (left right : Option Nat)
    (h : sliceBoundsOk items.length left right = true) : (arraySlice q items left right).isPanic = false := by
  simp only [sliceBoundsOk, Bool.and_eq_true, decide_eq_true_eq] at h
  unfold arraySlice
  simp only []
  rw [if_neg (by omega)]
  cases right with
  | none => rfl
  | some r =>
    simp only [decide_eq_true_eq] at h
    simp only []
    rw [if_neg (by omega)]
    split <;> rfl

/-- **C08_slice_total_counterexample.**  `arr[3..1]` on a 5-element array: "attempt to subtract with overflow"
(value/mod.rs:224); `arr[9..]`: `drain(..9)` past the end (value/mod.rs:220). -/
theorem C08_slice_total_counterexample : ¬ C08_slice_total_full asFound := by
  intro h
  have := h [10, 20, 30, 40, 50] (some 3) (some 1)
  revert this; decide

theorem C08_slice_witnesses :
    arraySlice asFound [10, 20, 30, 40, 50] (some 3) (some 1) = .panic .sub ∧
    arraySlice asFound [10, 20, 30, 40, 50] (some 9) none = .panic .drainLeft := by decide

/-- full strength for the repaired setting -/
theorem C08_slice_total_repaired : C08_slice_total_full repaired := by
  intro items left right
  unfold arraySlice fault
  simp only [repaired, ↓reduceIte]
  split
  · rfl
  · cases right with
    | none => rfl
    | some r => simp only []; split <;> (try split) <;> rfl

/-- **C08_slice_in_bounds.**  Whenever the slice returns, the result is the contiguous run of items starting at
index `left` — every element index it touches, `left + i` for `i < result.length`, is `< len` — and it is
`items[left .. min right len]`. -/
theorem C08_slice_in_bounds {α} (q : Quirks) (items res : List α) (left right : Option Nat)
    (h : arraySlice q items left right = .ok res) :
    left.getD 0 + res.length ≤ items.length ∧
    res = (items.drop (left.getD 0)).take res.length ∧
    res.length = (match right with | some r => min r items.length | none => items.length) - left.getD 0 := by
  unfold arraySlice fault at h
  simp only [] at h
  split at h
  · split at h <;> simp at h
  · next hl =>
    have hd : (items.drop (left.getD 0)).length = items.length - left.getD 0 := List.length_drop
    cases right with
    | none =>
      simp only [Out.ok.injEq] at h; subst h
      refine ⟨by omega, ?_, by simp only [hd]⟩
      rw [List.take_length]
    | some r =>
      simp only [] at h
      split at h
      · split at h <;> simp at h
      · split at h
        · next hlt =>
          simp only [Out.ok.injEq] at h; subst h
          have ht : ((items.drop (left.getD 0)).take (r - left.getD 0)).length = r - left.getD 0 := by
            rw [List.length_take]; omega
          refine ⟨by omega, ?_, by simp only [ht, Nat.min_def]; split <;> omega⟩
          rw [ht]
        · next hge =>
          simp only [Out.ok.injEq] at h; subst h
          refine ⟨by omega, ?_, by simp only [hd, Nat.min_def]; split <;> omega⟩
          rw [List.take_length]

/-- `Value::index`: the element taken exists -/
theorem C08_index_in_bounds (len : Nat) (idx : Int) (k : Nat) (h : arrayIndex len idx = some k) : k < len := by
  unfold arrayIndex at h
  simp only [] at h
  split at h
  · simp at h; omega
  · simp at h

/-! ## pointer slices -/

def C08_ptr_slice_total_full (q : Quirks) : Prop :=
  ∀ (allocMax ptr es : Nat) (left : Option Nat) (right : Nat), (ptrSlice q allocMax ptr es left right).isPanic = false

/-- range hypothesis of the pointer slice: non-zero element size, `left ≤ right`, the byte range
`[ptr + es*left, ptr + es*right)` fits the address space and the byte count can be allocated -/
def ptrBoundsOk (allocMax ptr es : Nat) (left : Option Nat) (right : Nat) : Bool :=
  0 < es && left.getD 0 ≤ right && ptr + es * right < 2 ^ 64 && es * (right - left.getD 0) ≤ allocMax && allocMax < 2 ^ 63

theorem C08_ptr_slice_total_partial (q : Quirks) (allocMax ptr es : Nat) (left : Option Nat) (right : Nat)
    (h : ptrBoundsOk allocMax ptr es left right = true) :
    ∃ rd, ptrSlice q allocMax ptr es left right = .ok rd ∧
      rd.cnt = es * rd.items ∧ ptr ≤ rd.base ∧ rd.base + rd.cnt = ptr + es * right := by
  simp only [ptrBoundsOk, Bool.and_eq_true, decide_eq_true_eq] at h
  obtain ⟨⟨⟨⟨h1, h2⟩, h3⟩, h4⟩, h5⟩ := h
  have hmono : es * left.getD 0 ≤ es * right := Nat.mul_le_mul_left es h2
  have hsplit : es * right = es * left.getD 0 + es * (right - left.getD 0) := by
    rw [← Nat.mul_add]; congr 1; omega
  refine ⟨{ base := ptr + es * left.getD 0, cnt := es * (right - left.getD 0), items := right - left.getD 0 }, ?_, rfl, by simp, by simp; omega⟩
  unfold ptrSlice
  simp only []
  rw [if_neg (by omega), if_neg (by omega), if_neg (by omega), if_neg (by omega), if_neg (by omega),
    if_neg (by omega), if_neg (by omega)]

/-- zero-sized elements (`&()`), reversed bounds, size / address overflow, capacity overflow, allocation failure -/
theorem C08_ptr_slice_total_counterexample : ¬ C08_ptr_slice_total_full asFound := by
  intro h
  have := h (2 ^ 47) (2 ^ 46) 0 (some 0) 2
  revert this; decide

theorem C08_ptr_slice_witnesses :
    ptrSlice asFound (2 ^ 47) (2 ^ 46) 0 (some 0) 2 = .panic .chunk0 ∧
    ptrSlice asFound (2 ^ 47) (2 ^ 46) 4 (some 3) 1 = .panic .sub ∧
    ptrSlice asFound (2 ^ 47) (2 ^ 46) 4 (some 0) (2 ^ 62) = .panic .mul ∧
    ptrSlice asFound (2 ^ 47) (2 ^ 46) 4 (some (2 ^ 62 - 1)) (2 ^ 62 - 1) = .panic .add ∧
    ptrSlice asFound (2 ^ 47) (2 ^ 46) 4 (some 0) (2 ^ 61) = .panic .cap ∧
    ptrSlice asFound (2 ^ 47) (2 ^ 46) 4 (some 0) (2 ^ 46) = .panic .allocAbort := by decide

theorem C08_ptr_slice_total_repaired : C08_ptr_slice_total_full repaired := by
  intro allocMax ptr es left right
  unfold ptrSlice fault
  simp only [repaired, ↓reduceIte]
  repeat' split
  all_goals rfl

/-! ## decoder reads stay inside the fetched bytes -/

/-- full strength: for every *size-consistent* request (the buffer holds exactly the type's `byte_size`
bytes, the members lie inside the structure's `byte_size`), every read is inside the buffer -/
def C08_decode_in_bounds_full : Prop :=
  (∀ (e : Enc) (size : Nat) (r : Read), scalarRead size e size = some r → r.inBounds = true) ∧
  (∀ (size : Nat) (ms : List Member), structWF size ms = true → ∀ m ∈ ms, (memberRead size m).inBounds = true)

/-- **C08_decode_in_bounds** (structures): for every layout whose members lie inside the structure's size and
every buffer at least that long, all member extractions (`from_raw_parts(base + off, size)`) are inside the
buffer, and each member's own buffer again has exactly the member's size (so the hypothesis `size ≤ buf`
is re-established for the recursive decode of the member). -/
theorem C08_decode_in_bounds (size buf : Nat) (ms : List Member) (hwf : structWF size ms = true) (hbuf : size ≤ buf) :
    ∀ m ∈ ms, (memberRead buf m).inBounds = true ∧ memberBufLen m = m.size := by
  intro m hm
  unfold structWF at hwf
  rw [List.all_eq_true] at hwf
  have h1 := hwf m hm
  simp only [Bool.and_eq_true, decide_eq_true_eq] at h1
  refine ⟨?_, rfl⟩
  simp only [memberRead, Read.inBounds, Bool.and_eq_true, decide_eq_true_eq]
  obtain ⟨h2, h3⟩ := h1
  have h4 : (size : Int) ≤ (buf : Int) := by exact_mod_cast hbuf
  exact ⟨decide_eq_true h2, decide_eq_true (by omega)⟩

/-- **C08_decode_in_bounds** (scalars) needs more than size-consistency: what the decoder reads for the
*encoding* must fit the declared size (`scalarWF`).  Under it, every scalar read is inside the buffer. -/
theorem C08_decode_in_bounds_scalar (e : Enc) (size buf : Nat) (hwf : scalarWF e size = true) (hbuf : size ≤ buf)
    (r : Read) (h : scalarRead buf e size = some r) : r.inBounds = true := by
  unfold scalarRead at h
  unfold scalarWF at hwf
  cases hw : scalarReadWidth e size with
  | none => rw [hw] at h; simp at h
  | some w =>
    rw [hw] at h hwf
    simp at h hwf
    subst h
    simp only [Read.inBounds, Bool.and_eq_true, decide_eq_true_eq]
    omega

/-- for the size-driven encodings (signed, unsigned, float) `scalarWF` holds for every size: these reads are
always inside a size-consistent buffer -/
theorem C08_decode_sized_encodings_ok (size : Nat) :
    scalarWF .signed size = true ∧ scalarWF .unsigned size = true ∧ scalarWF .float size = true := by
  refine ⟨?_, ?_, ?_⟩ <;> (unfold scalarWF scalarReadWidth; split <;> simp_all) <;> (split at * <;> simp_all)

/-- **C08_decode_in_bounds_counterexample.**  A size-consistent base type the code reads past: `DW_ATE_UTF`
with `byte_size = 2` (C/C++ `char16_t`): `scalar_from_bytes::<char>` reads 4 bytes of a 2-byte buffer. -/
theorem C08_decode_in_bounds_counterexample : ¬ C08_decode_in_bounds_full := by
  intro h
  have := h.1 .utf 2 { buf := 2, off := 0, need := 4 } rfl
  revert this; decide

/-! Sanity tests (evaluated, not proofs) -/
#guard arraySlice asFound [10, 20, 30, 40, 50] (some 1) (some 9) == .ok [20, 30, 40, 50]
#guard arraySlice asFound [10, 20, 30, 40, 50] (some 1) (some 3) == .ok [20, 30]
#guard arrayIndex 5 (-1) == none
#guard sliceBoundsOk 5 (some 1) (some 9)

end BsVerif.SliceBuf
