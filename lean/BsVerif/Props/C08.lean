import BsVerif.Lemmas.CmdNum
import BsVerif.Model.SliceBuf
/-!
# C08 — no input can crash, hang or corrupt the debugger

Property theorems only.  Models: `Model/CmdNum.lean` (console command parser incl. the DQE grammar, numeric
tokens), `Model/SliceBuf.lean` (slice / index arithmetic, decoder reads).  The property demands **no panic**.
For the command parser, the slices and the pointer slices the full-strength statements are theorems
(`C08_cmd_total`, `C08_slice_total`, `C08_ptr_slice_total`): the models are the code after the repairs recorded as
`fixed:` in known_findings.txt; the former witnesses stay in corpus/C08 and are replayed on the real code on every run.
For the decoder reads the full statement is still false (`C08_decode_in_bounds_counterexample`).
-/
namespace BsVerif.CmdNum

/-! ## numeric conversions -/

/-- **C08_num_conv_exact.**  For every radix ≥ 1, width and digit string: the checked multiply-add loop of
`from_str` / `from_str_radix` returns `some v` exactly when the value of the digit string fits the type, and then
`v` *is* that value; otherwise it returns `none` (`PosOverflow`).  All digit strings, by induction. -/
theorem C08_num_conv_exact (r bits : Nat) (hr : 1 ≤ r) (ds : List Nat) (acc : Nat) (hacc : acc < 2 ^ bits) :
    parseDigits r bits ds acc =
      if digitsValue r ds acc < 2 ^ bits then some (digitsValue r ds acc) else none := by
  induction ds generalizing acc with
  | nil => simp [parseDigits, digitsValue, hacc]
  | cons d ds ih =>
    have hv : digitsValue r (d :: ds) acc = digitsValue r ds (acc * r + d) := rfl
    have hge := digitsValue_ge r hr ds (acc * r + d)
    rw [hv]
    simp only [parseDigits]
    by_cases h1 : acc * r < 2 ^ bits
    · by_cases h2 : acc * r + d < 2 ^ bits
      · simp only [h1, h2, if_true]; exact ih _ h2
      · have h3 : ¬ digitsValue r ds (acc * r + d) < 2 ^ bits := by omega
        simp [h1, h2, h3]
    · have h3 : ¬ digitsValue r ds (acc * r + d) < 2 ^ bits := by omega
      simp [h1, h3]

/-- decimal tokens: `ok v` iff the number is below `2^bits`, and `v` is the number -/
theorem C08_num_conv_exact_dec (bits : Nat) (tok : List Char) :
    parseDec bits tok = if digitsValue 10 (tok.map decVal) 0 < 2 ^ bits
      then some (digitsValue 10 (tok.map decVal) 0) else none :=
  C08_num_conv_exact 10 bits (by decide) _ 0 (Nat.pos_of_ne_zero (by simp))

/-- hex tokens (`usize::from_str_radix(s, 16)`) -/
theorem C08_num_conv_exact_hex (tok : List Char) :
    parseHex tok = if digitsValue 16 (tok.map hexVal) 0 < 2 ^ 64
      then some (digitsValue 16 (tok.map hexVal) 0) else none :=
  C08_num_conv_exact 16 64 (by decide) _ 0 (by decide)

/-- the negation of a signed literal, `(val as i64).wrapping_neg()`, never faults, lies in the `i64` range and is the
mathematical negation `-val` for every literal that has one in `i64` (`val ≤ 2^63`, `-9223372036854775808` included);
beyond that it is the two's-complement wrap the code always had for such literals. -/
theorem C08_neg_exact (val : Nat) (h : val < 2 ^ 64) :
    -(2 ^ 63 : Int) ≤ wrappingNegAsI64 val ∧ wrappingNegAsI64 val < 2 ^ 63 ∧
    (val ≤ 2 ^ 63 → wrappingNegAsI64 val = -(val : Int)) ∧
    (wrappingNegAsI64 val + val) % 2 ^ 64 = 0 := by
  unfold wrappingNegAsI64
  split <;> refine ⟨by omega, by omega, by omega, by omega⟩

/-- where the old negation `-(val as i64)` was defined, the new one agrees with it -/
theorem C08_neg_agrees (val : Nat) (v : Int) (h : negAsI64 val = some v) : wrappingNegAsI64 val = v := by
  unfold negAsI64 at h
  unfold wrappingNegAsI64
  simp only [] at h
  split at h
  · simp at h
  · simp only [Option.some.injEq] at h
    subst h
    split <;> split <;> omega

/-! ## the command-line parser -/

/-- a numeric leaf never panics when the conversions are checked (the code as it is) -/
theorem runNum_checked_no_panic (q : Quirks) (hq : q.checked = true) (n : NumTok) (s : List Char) :
    (runNum q n s).isPanic = false := by
  cases n <;> simp only [runNum, overflow, hq, ↓reduceIte] <;> (repeat' split) <;> simp_all [Res.isPanic]

/-- **every grammar, every fuel, every string**: with checked numeric tokens the PEG interpreter never panics
(the numeric leaves are the only leaves that could). -/
theorem C08_run_total (q : Quirks) (hq : q.checked = true) (env : Nat → G) :
    ∀ (f : Nat) (g : G) (s : List Char), (run q env f g s).isPanic = false := by
  intro f
  induction f with
  | zero => intro g s; rfl
  | succ f ih =>
    intro g s
    cases g with
    | eps => rfl
    | eoi => simp only [run]; split <;> rfl
    | just k => simp only [run]; split <;> rfl
    | cls c => simp only [run]; split <;> (try split) <;> rfl
    | seq a b =>
      simp only [run]
      have ha := ih a s
      split
      · exact ih b _
      · exact ha
    | alt a b =>
      simp only [run]
      have ha := ih a s
      split
      · exact ih b s
      · exact ha
    | opt a =>
      simp only [run]
      have ha := ih a s
      split
      · rfl
      · exact ha
    | star a =>
      simp only [run]
      have ha := ih a s
      split
      · split
        · exact ih _ _
        · rfl
      · rfl
      · exact ha
    | num n => simp only [run]; exact runNum_checked_no_panic q hq n s
    | ref i => simp only [run]; exact ih _ s

/-- **C08_cmd_total.**  No command line makes `Command::parse` panic: every string is parsed to `ok` or `err`
(full strength, all strings; the model is the code after the repair of the numeric conversions). -/
theorem C08_cmd_total : ∀ s : List Char, (parseLine current s).isPanic = false :=
  fun s => C08_run_total current rfl G.env _ _ s

/-- the same for a bare data query expression (`expression::parser()`: DAP `evaluate`, watch expressions) -/
theorem C08_dqe_total : ∀ s : List Char, (parseDqe current s).isPanic = false :=
  fun s => C08_run_total current rfl G.env _ _ s

/-- the former witness `break remove 4294967296` (before the repair: a panic at `brkNumber`, the `unwrapped()` of the
u32 conversion) -/
def witnessBreakRemove : List Char :=
  ['b','r','e','a','k',' ','r','e','m','o','v','e',' ','4','2','9','4','9','6','7','2','9','6']

/-- the u32 alternative fails and the line falls through to "breakpoint at function" -/
theorem C08_cmd_witness : parseLine current witnessBreakRemove = .ok [] := by decide +kernel

/-- the model still expresses the regression: with the unchecked conversions the same line is a panic -/
theorem C08_cmd_witness_regression : parseLine asFound witnessBreakRemove = .panic .brkNumber := by decide +kernel

/-- the model transcribes exactly the commands of the dispatch `choice` of the source, in its order, and the
source has as many numeric conversion sites as the model has `Site`s of each kind and NO unchecked conversion
(`unwrapped()` / `unwrap()` on a number) (tables regenerated from /repo on every run: a new / renamed / re-ordered
command, a new conversion site or a conversion that can panic breaks this theorem) -/
theorem C08_cmd_table_tie :
    G.commands.map (·.1) = BsVerif.Gen.Cmds.dispatchOrder ∧ BsVerif.Gen.Cmds.numericSites = (8, 1, 1, 1) ∧
    BsVerif.Gen.Cmds.uncheckedSites = 0 := by
  decide

/-! Sanity tests on strings (evaluated, *not* proofs). -/
#guard (parseLine current "break remove 7".toList).toString == "ok"
#guard (parseLine current "mem read 0x1ffffffffffffffff".toList).toString == "err"
#guard (parseLine current "mem read 0xffffffffffffffff".toList).toString == "ok"
#guard (parseLine current "var a[99999999999999999999]".toList).toString == "err"
#guard (parseLine current "var a[-9223372036854775808]".toList).toString == "ok"
#guard (parseLine current "var a[1..99999999999999999999]".toList).toString == "err"
#guard (parseLine current "thread switch 4294967296".toList).toString == "err"
#guard (parseLine current "thread switch 4294967295".toList).toString == "ok"
#guard (parseLine current "break remove 007".toList).toString == "err"
-- the settings of the code before the repair, for the record
#guard (parseLine asFound "mem read 0x1ffffffffffffffff".toList).toString == "panic:hex"
#guard (parseLine asFound "var a[99999999999999999999]".toList).toString == "panic:tok"
#guard (parseLine asFound "var a[-9223372036854775808]".toList).toString == "panic:neg"
#guard (parseLine asFound "var a[1..99999999999999999999]".toList).toString == "panic:usize"

end BsVerif.CmdNum

namespace BsVerif.SliceBuf

/-! ## slice / index arithmetic -/

/-- the range test of the code: `left ≤ len` and `left ≤ right` -/
def sliceBoundsOk (len : Nat) (left right : Option Nat) : Bool :=
  left.getD 0 ≤ len && (match right with | some r => left.getD 0 ≤ r | none => true)

/-- **C08_slice_total.**  `ArrayValue::slice` (arrays, `Vec`, `VecDeque`) never panics, for every item vector and
every pair of bounds (full strength; the model is the code after the repair). -/
theorem C08_slice_total {α} (items : List α) (left right : Option Nat) :
    (arraySlice current items left right).isPanic = false := by
  unfold arraySlice fault
  simp only [current, ↓reduceIte]
  split
  · rfl
  · cases right with
    | none => rfl
    | some r => simp only []; split <;> (try split) <;> rfl

/-- it yields "no result" exactly for the ranges that do not fit: `left > len` or `right < left`
(any `right`, also far past the end, is accepted and clamped: `C08_slice_in_bounds`) -/
theorem C08_slice_none_iff {α} (items : List α) (left right : Option Nat) :
    arraySlice current items left right = .err ↔ sliceBoundsOk items.length left right = false := by
  unfold arraySlice fault sliceBoundsOk
  simp only [current, ↓reduceIte, Bool.and_eq_false_iff, decide_eq_false_iff_not]
  cases right with
  | none => simp only []; split <;> simp <;> omega
  | some r =>
    simp only []
    repeat' split
    all_goals simp
    all_goals omega

/-- the former witnesses (`arr[3..1]`: "attempt to subtract with overflow"; `arr[9..]`: `drain(..9)` past the end)
have no result now; with the unguarded code of before the repair the model still shows the two panics -/
theorem C08_slice_witnesses :
    arraySlice current [10, 20, 30, 40, 50] (some 3) (some 1) = .err ∧
    arraySlice current [10, 20, 30, 40, 50] (some 9) none = .err ∧
    arraySlice asFound [10, 20, 30, 40, 50] (some 3) (some 1) = .panic .sub ∧
    arraySlice asFound [10, 20, 30, 40, 50] (some 9) none = .panic .drainLeft := by decide

/-- **C08_slice_in_bounds.**  Whenever the slice returns, the result is the contiguous run of items starting at
index `left` — every element index it touches, `left + i` for `i < result.length`, is `< len` — and it is
`items[left .. min right len]`. -/
theorem C08_slice_in_bounds {α} (q : Quirks) (items res : List α) (left right : Option Nat)
    (h : arraySlice q items left right = .ok res) :
    left.getD 0 + res.length ≤ items.length ∧
    res = (items.drop (left.getD 0)).take res.length ∧
    res.length = (match right with | some r => min r items.length | none => items.length) - left.getD 0 := by
  unfold arraySlice fault at h
  simp only [] at h
  split at h
  · split at h <;> simp at h
  · next hl =>
    have hd : (items.drop (left.getD 0)).length = items.length - left.getD 0 := List.length_drop
    cases right with
    | none =>
      simp only [Out.ok.injEq] at h; subst h
      refine ⟨by omega, ?_, by simp only [hd]⟩
      rw [List.take_length]
    | some r =>
      simp only [] at h
      split at h
      · split at h <;> simp at h
      · split at h
        · next hlt =>
          simp only [Out.ok.injEq] at h; subst h
          have ht : ((items.drop (left.getD 0)).take (r - left.getD 0)).length = r - left.getD 0 := by
            rw [List.length_take]; omega
          refine ⟨by omega, ?_, by simp only [ht, Nat.min_def]; split <;> omega⟩
          rw [ht]
        · next hge =>
          simp only [Out.ok.injEq] at h; subst h
          refine ⟨by omega, ?_, by simp only [hd, Nat.min_def]; split <;> omega⟩
          rw [List.take_length]

/-- `Value::index`: the element taken exists -/
theorem C08_index_in_bounds (len : Nat) (idx : Int) (k : Nat) (h : arrayIndex len idx = some k) : k < len := by
  unfold arrayIndex at h
  simp only [] at h
  split at h
  · simp at h; omega
  · simp at h

/-! ## pointer slices -/

/-- **C08_ptr_slice_total.**  `PointerValue::slice` together with the buffer reservation of `read_memory_by_pid`
never panics and never aborts: for every pointer, element size (also 0), bounds and every limit of the allocator
(full strength; the model is the code after the repairs). -/
theorem C08_ptr_slice_total (allocMax ptr es : Nat) (left : Option Nat) (right : Nat) :
    (ptrSlice current allocMax ptr es left right).isPanic = false := by
  unfold ptrSlice fault
  simp only [current, ↓reduceIte]
  repeat' split
  all_goals rfl

/-- range hypothesis of the pointer slice: non-zero element size, `left ≤ right`, the byte range
`[ptr + es*left, ptr + es*right)` fits the address space and the byte count can be allocated -/
def ptrBoundsOk (allocMax ptr es : Nat) (left : Option Nat) (right : Nat) : Bool :=
  0 < es && left.getD 0 ≤ right && ptr + es * right < 2 ^ 64 && es * (right - left.getD 0) ≤ allocMax && allocMax < 2 ^ 63

/-- **C08_ptr_slice_in_bounds.**  Within the range hypothesis the slice asks the debuggee for exactly the bytes
`[ptr + es*left, ptr + es*right)`, cut into `right - left` items (either setting of the model). -/
theorem C08_ptr_slice_in_bounds (q : Quirks) (allocMax ptr es : Nat) (left : Option Nat) (right : Nat)
    (h : ptrBoundsOk allocMax ptr es left right = true) :
    ∃ rd, ptrSlice q allocMax ptr es left right = .ok rd ∧
      rd.cnt = es * rd.items ∧ ptr ≤ rd.base ∧ rd.base + rd.cnt = ptr + es * right := by
  simp only [ptrBoundsOk, Bool.and_eq_true, decide_eq_true_eq] at h
  obtain ⟨⟨⟨⟨h1, h2⟩, h3⟩, h4⟩, h5⟩ := h
  have hmono : es * left.getD 0 ≤ es * right := Nat.mul_le_mul_left es h2
  have hsplit : es * right = es * left.getD 0 + es * (right - left.getD 0) := by
    rw [← Nat.mul_add]; congr 1; omega
  refine ⟨{ base := ptr + es * left.getD 0, cnt := es * (right - left.getD 0), items := right - left.getD 0 }, ?_, rfl, by simp, by simp; omega⟩
  unfold ptrSlice
  simp only []
  rw [if_neg (by omega), if_neg (by omega), if_neg (by omega), if_neg (by omega), if_neg (by omega),
    if_neg (by omega), if_neg (by omega)]

/-- exactly which requests are passed on to the memory read: non-zero element size, `left ≤ right`, the START of the
byte range inside the address space, a byte count the allocator grants.  (The END of the range is not tested by the
code: a range running past 2^64 is passed on and the read fails in the kernel, an error.) -/
def ptrSliceFits (allocMax ptr es : Nat) (left : Option Nat) (right : Nat) : Bool :=
  0 < es && left.getD 0 ≤ right && ptr + es * left.getD 0 < 2 ^ 64 && es * (right - left.getD 0) ≤ allocMax

/-- every other request has no result (for an allocator limit below `isize::MAX`, as on every real system) -/
theorem C08_ptr_slice_none_iff (allocMax ptr es : Nat) (left : Option Nat) (right : Nat) (ha : allocMax < 2 ^ 63) :
    ptrSlice current allocMax ptr es left right = .err ↔ ptrSliceFits allocMax ptr es left right = false := by
  unfold ptrSlice fault ptrSliceFits
  simp only [current, ↓reduceIte, Bool.and_eq_false_iff, decide_eq_false_iff_not]
  repeat' split
  all_goals simp
  all_goals omega

/-- the former witnesses (zero-sized elements `&()`, reversed bounds, size / address overflow, capacity overflow,
allocation failure) have no result now; the setting of before the repairs still shows each fault -/
theorem C08_ptr_slice_witnesses :
    ptrSlice current (2 ^ 47) (2 ^ 46) 0 (some 0) 2 = .err ∧
    ptrSlice current (2 ^ 47) (2 ^ 46) 4 (some 3) 1 = .err ∧
    ptrSlice current (2 ^ 47) (2 ^ 46) 4 (some 0) (2 ^ 62) = .err ∧
    ptrSlice current (2 ^ 47) (2 ^ 46) 4 (some (2 ^ 62 - 1)) (2 ^ 62 - 1) = .err ∧
    ptrSlice current (2 ^ 47) (2 ^ 46) 4 (some 0) (2 ^ 61) = .err ∧
    ptrSlice current (2 ^ 47) (2 ^ 46) 4 (some 0) (2 ^ 46) = .err ∧
    ptrSlice asFound (2 ^ 47) (2 ^ 46) 0 (some 0) 2 = .panic .chunk0 ∧
    ptrSlice asFound (2 ^ 47) (2 ^ 46) 4 (some 3) 1 = .panic .sub ∧
    ptrSlice asFound (2 ^ 47) (2 ^ 46) 4 (some 0) (2 ^ 62) = .panic .mul ∧
    ptrSlice asFound (2 ^ 47) (2 ^ 46) 4 (some (2 ^ 62 - 1)) (2 ^ 62 - 1) = .panic .add ∧
    ptrSlice asFound (2 ^ 47) (2 ^ 46) 4 (some 0) (2 ^ 61) = .panic .cap ∧
    ptrSlice asFound (2 ^ 47) (2 ^ 46) 4 (some 0) (2 ^ 46) = .panic .allocAbort := by decide

/-! ## decoder reads stay inside the fetched bytes -/

/-- full strength: for every *size-consistent* request (the buffer holds exactly the type's `byte_size`
bytes, the members lie inside the structure's `byte_size`), every read is inside the buffer -/
def C08_decode_in_bounds_full : Prop :=
  (∀ (e : Enc) (size : Nat) (r : Read), scalarRead size e size = some r → r.inBounds = true) ∧
  (∀ (size : Nat) (ms : List Member), structWF size ms = true → ∀ m ∈ ms, (memberRead size m).inBounds = true)

/-- **C08_decode_in_bounds** (structures): for every layout whose members lie inside the structure's size and
every buffer at least that long, all member extractions (`from_raw_parts(base + off, size)`) are inside the
buffer, and each member's own buffer again has exactly the member's size (so the hypothesis `size ≤ buf`
is re-established for the recursive decode of the member). -/
theorem C08_decode_in_bounds (size buf : Nat) (ms : List Member) (hwf : structWF size ms = true) (hbuf : size ≤ buf) :
    ∀ m ∈ ms, (memberRead buf m).inBounds = true ∧ memberBufLen m = m.size := by
  intro m hm
  unfold structWF at hwf
  rw [List.all_eq_true] at hwf
  have h1 := hwf m hm
  simp only [Bool.and_eq_true, decide_eq_true_eq] at h1
  refine ⟨?_, rfl⟩
  simp only [memberRead, Read.inBounds, Bool.and_eq_true, decide_eq_true_eq]
  obtain ⟨h2, h3⟩ := h1
  have h4 : (size : Int) ≤ (buf : Int) := by exact_mod_cast hbuf
  exact ⟨decide_eq_true h2, decide_eq_true (by omega)⟩

/-- **C08_decode_in_bounds** (scalars) needs more than size-consistency: what the decoder reads for the
*encoding* must fit the declared size (`scalarWF`).  Under it, every scalar read is inside the buffer. -/
theorem C08_decode_in_bounds_scalar (e : Enc) (size buf : Nat) (hwf : scalarWF e size = true) (hbuf : size ≤ buf)
    (r : Read) (h : scalarRead buf e size = some r) : r.inBounds = true := by
  unfold scalarRead at h
  unfold scalarWF at hwf
  cases hw : scalarReadWidth e size with
  | none => rw [hw] at h; simp at h
  | some w =>
    rw [hw] at h hwf
    simp at h hwf
    subst h
    simp only [Read.inBounds, Bool.and_eq_true, decide_eq_true_eq]
    omega

/-- for the size-driven encodings (signed, unsigned, float) `scalarWF` holds for every size: these reads are
always inside a size-consistent buffer -/
theorem C08_decode_sized_encodings_ok (size : Nat) :
    scalarWF .signed size = true ∧ scalarWF .unsigned size = true ∧ scalarWF .float size = true := by
  refine ⟨?_, ?_, ?_⟩ <;> (unfold scalarWF scalarReadWidth; split <;> simp_all) <;> (split at * <;> simp_all)

/-- **C08_decode_in_bounds_counterexample.**  A size-consistent base type the code reads past: `DW_ATE_UTF`
with `byte_size = 2` (C/C++ `char16_t`): `scalar_from_bytes::<char>` reads 4 bytes of a 2-byte buffer. -/
theorem C08_decode_in_bounds_counterexample : ¬ C08_decode_in_bounds_full := by
  intro h
  have := h.1 .utf 2 { buf := 2, off := 0, need := 4 } rfl
  revert this; decide

/-! Sanity tests (evaluated, not proofs) -/
#guard arraySlice current [10, 20, 30, 40, 50] (some 1) (some 9) == .ok [20, 30, 40, 50]
#guard arraySlice current [10, 20, 30, 40, 50] (some 1) (some 3) == .ok [20, 30]
#guard arraySlice current [10, 20, 30, 40, 50] (some 5) none == .ok []
#guard arrayIndex 5 (-1) == none
#guard sliceBoundsOk 5 (some 1) (some 9)

end BsVerif.SliceBuf
