import BsVerif.Props.C01
/-!
# C02 — debugging never changes what the program computes, no patch left behind
(the part about the command alphabet of C01: `break`, `remove`, `start`, `continue`)

Same model, same specification (`Spec`, `PatchInv`) and same hypotheses as `Props/C01.lean`.
-/
namespace BsVerif.Bp
open BsVerif.Mem

private theorem inv_of_patchInv {orig s} (h : PatchInv orig s) (hs : s.status ≠ .exited) (hi : s.idx ≤ s.τ.length) :
    Inv orig s := ⟨h.text hs, h.saved, h.distinct, h.enabled, hi⟩

private theorem patchInv_of_inv {orig s} (h : Inv orig s) : PatchInv orig s :=
  ⟨fun _ => h.text, h.saved, h.nodup, h.allEn⟩

/-- **C02_step_over_executes_once.**  In any live state that satisfies the patch invariant and is stopped at a
registered breakpoint `b` (pc = `p`), `step_over_breakpoint` (disable → single step → enable) executes exactly the
one instruction at `p` — `idx` advances by exactly 1 and the execution log grows by exactly that instruction, so
nothing is skipped or executed twice — on its ORIGINAL byte,
and leaves the text, the registry lookups and the patch invariant as they were. -/
theorem C02_step_over_executes_once (orig : Code) (s : St) (p : Addr) (b : Bp)
    (ho : Bytes orig) (hinv : PatchInv orig s) (hs : s.status ≠ .exited)
    (hpc : pc s = some p) (hb : find? s.active p = some b) (hcc : orig p ≠ 0xCC) :
    (stepOverBreakpoint s).idx = s.idx + 1 ∧
    (stepOverBreakpoint s).execd = s.execd ++ [(s.idx, orig p)] ∧
    (bpDisable s b).1.code p = orig p ∧
    (stepOverBreakpoint s).code = s.code ∧
    (∀ a, find? (stepOverBreakpoint s).active a = find? s.active a) ∧
    PatchInv orig (stepOverBreakpoint s) ∧
    (stepOverBreakpoint s).status = s.status := by
  have hi : s.idx ≤ s.τ.length := Nat.le_of_lt (pc_some hpc).1
  have h := inv_of_patchInv hinv hs hi
  obtain ⟨g1, g2, g3, g4, _, g6, _, _⟩ := stepOver_at h ho p b hpc hb
  rw [if_neg (show ¬ orig p = INT3 from hcc)] at g4
  have ge := stepOver_at_execd h ho p b hpc hb
  rw [if_neg (show ¬ orig p = INT3 from hcc)] at ge
  refine ⟨g4, ge, ?_, g2, g3, patchInv_of_inv g1, g6⟩
  have hbm := find?_some hb
  have hsv : b.saved = orig p := by rw [h.saved b hbm.1, hbm.2]
  rw [bpDisable_code s b (h.bytes ho) (by rw [hsv]; exact ho _), hbm.2, hsv, set_apply]
  simp

/-- when the byte at `p` is not the original one, nothing is executed: the converse reading of the hypothesis
`orig p ≠ 0xCC` of the previous theorem (the debuggee's own `int3` is outside the model, DESIGN 2.1) -/
example : (0x90 : Nat) ≠ 0xCC := by decide

/-- **C02_text_at_prompt.**  After every command history (hypotheses of `C01_continue_projection`): before `start`
the text is the original text; at every prompt with a live debuggee the byte at an address is `0xCC` iff the
address is the entry address (the debugger's documented internal entry-point breakpoint) or a user breakpoint
currently set, and the original byte otherwise.  No other patch exists: nothing is left behind. -/
theorem C02_text_at_prompt (τ : List Addr) (entry : Addr) (orig : Code) (exitCode : Nat) (ops : List Op)
    (ho : Bytes orig) (hcc : ∀ a ∈ τ, orig a ≠ 0xCC) (hhead : τ.head? = some entry)
    (hb : NoBreakAtEntry entry ops) (hr : NoRemoveAtEntry entry ops) :
    ((execAll (init τ entry orig exitCode) ops).1.status = .unload →
      ∀ a, (execAll (init τ entry orig exitCode) ops).1.code a = orig a) ∧
    ((execAll (init τ entry orig exitCode) ops).1.status = .inProgress →
      ∀ a, (execAll (init τ entry orig exitCode) ops).1.code a
        = if a = entry ∨ a ∈ (Spec.run τ exitCode {} ops).1.B then 0xCC else orig a) := by
  obtain ⟨_, hsim⟩ := C01_simulation τ exitCode orig entry ho hcc hhead ops _ _
    (C01_sim_init τ exitCode orig entry) hb hr
  have hst := C01_sim_status hsim
  obtain ⟨_, _, hm⟩ := hsim
  constructor
  · intro hu a
    rw [hst] at hu; rw [hu] at hm
    rw [hm.1.code]
  · intro hp a
    rw [hst] at hp; rw [hp] at hm
    obtain ⟨hl, _⟩ := hm
    rw [hl.inv.text' a]
    have hk := hl.kinds a
    unfold kindAt at hk
    cases hf : find? (execAll (init τ entry orig exitCode) ops).1.active a with
    | none =>
      rw [hf] at hk
      by_cases he : a = entry
      · simp [he] at hk
      · by_cases hB : a ∈ (Spec.run τ exitCode {} ops).1.B
        · simp [he, hB] at hk
        · simp [he, hB]
    | some b =>
      rw [hf] at hk
      by_cases he : a = entry
      · simp [he, INT3]
      · by_cases hB : a ∈ (Spec.run τ exitCode {} ops).1.B
        · simp [hB, INT3]
        · simp [he, hB] at hk

/-- **C02_text_after_remove.**  Right after `remove a` (any history before it) the byte at `a` is the original one,
as long as the process exists. -/
theorem C02_text_after_remove (τ : List Addr) (entry : Addr) (orig : Code) (exitCode : Nat) (pre : List Op) (a : Addr)
    (ho : Bytes orig) (hcc : ∀ a ∈ τ, orig a ≠ 0xCC) (hhead : τ.head? = some entry)
    (hb : NoBreakAtEntry entry pre) (hr : NoRemoveAtEntry entry (pre ++ [.remove a]))
    (hs : (exec (execAll (init τ entry orig exitCode) pre).1 (.remove a)).1.status ≠ .exited) :
    (exec (execAll (init τ entry orig exitCode) pre).1 (.remove a)).1.code a = orig a := by
  have hr1 : NoRemoveAtEntry entry pre := fun o h => hr o (List.mem_append_left _ h)
  have hra : Op.remove a ≠ .remove entry := hr _ (List.mem_append_right _ (List.mem_singleton.mpr rfl))
  have hae : a ≠ entry := fun e => hra (e ▸ rfl)
  obtain ⟨_, s1⟩ := C01_simulation τ exitCode orig entry ho hcc hhead pre _ _ (C01_sim_init τ exitCode orig entry) hb hr1
  obtain ⟨_, s2⟩ := C01_simulation_step τ exitCode orig entry ho hcc hhead _ _ s1 (.remove a) (by simp) hra
  have hst := C01_sim_status s2
  obtain ⟨_, _, hm⟩ := s2
  have hnotB : a ∉ ((Spec.run τ exitCode {} pre).1.step τ exitCode (.remove a)).1.B ∨
      ((Spec.run τ exitCode {} pre).1.step τ exitCode (.remove a)).1.status = .exited := by
    cases hs' : (Spec.run τ exitCode {} pre).1.status <;> simp only [Spec.step, hs']
    · exact Or.inl (fun hm => by simpa using (List.mem_filter.mp hm).2)
    · exact Or.inl (fun hm => by simpa using (List.mem_filter.mp hm).2)
    · exact Or.inr trivial
  rcases hnotB with hnotB | hex
  · cases hs2 : ((Spec.run τ exitCode {} pre).1.step τ exitCode (.remove a)).1.status with
    | unload => rw [hs2] at hm; rw [hm.1.code]
    | inProgress =>
      rw [hs2] at hm
      obtain ⟨hl, _⟩ := hm
      rw [hl.inv.text' a]
      have hk := hl.kinds a
      rw [if_neg hae, if_neg hnotB] at hk
      unfold kindAt at hk
      cases hf : find? (exec (execAll (init τ entry orig exitCode) pre).1 (.remove a)).1.active a with
      | none => rfl
      | some b => rw [hf] at hk; cases hk
    | exited => rw [hst, hs2] at hs; exact absurd rfl hs
  · rw [hst, hex] at hs; exact absurd rfl hs

/-- **C02_native_equivalence** (for this command alphabet).  The model carries a ghost log `execd` (never read by
the model) to which `PTRACE_CONT` (`run`) and `PTRACE_SINGLESTEP` (`singleStep`) — the only ways the debuggee ever
executes anything — append every instruction they execute, as (trace position, byte found at its pc at that moment).
After EVERY command history (any trace, any entry address, no hypothesis on the commands) that log is exactly the
native run up to the current position: positions `0, 1, …, idx-1`, each exactly once, in order, each executed on its
ORIGINAL byte.  So what the debuggee has computed is what the same prefix of its native run computes; and the
position only moves forward and stays within the trace. -/
theorem C02_native_equivalence (τ : List Addr) (entry : Addr) (orig : Code) (exitCode : Nat) (ho : Bytes orig)
    (ops : List Op) :
    (execAll (init τ entry orig exitCode) ops).1.execd
      = (List.range (execAll (init τ entry orig exitCode) ops).1.idx).map (fun k => (k, orig (τ.getD k 0))) ∧
    (execAll (init τ entry orig exitCode) ops).1.idx ≤ τ.length ∧
    ∀ op : Op, (execAll (init τ entry orig exitCode) ops).1.idx
      ≤ (exec (execAll (init τ entry orig exitCode) ops).1 op).1.idx := by
  obtain ⟨g1, g2, _⟩ := execAll_ginv ho ops _ (init_ginv τ entry orig exitCode)
  have hl := execAll_log ho ops _ (init_ginv τ entry orig exitCode) (init_log τ entry orig exitCode)
  refine ⟨?_, ?_, fun op => (exec_ginv ho g1 op).2.2.2⟩
  · have := hl.eq
    rw [g2] at this
    exact this
  · have := g1.idxLe
    rw [g2] at this
    exact this

/-- **C02_resumes_on_original_bytes.**  The state-level facts behind the previous theorem: in every live state
satisfying the patch invariant, every instruction that `PTRACE_CONT` passes has its original byte, and the single step
of `step_over_breakpoint` happens on the original byte. -/
theorem C02_resumes_on_original_bytes (orig : Code) (ho : Bytes orig) :
    (∀ (s : St), PatchInv orig s → s.status ≠ .exited →
      ∀ k, s.idx ≤ k → k < (run s).idx → ∀ hk : k < s.τ.length, s.code s.τ[k] = orig s.τ[k]) ∧
    (∀ (s : St) (p : Addr) (b : Bp), PatchInv orig s → s.status ≠ .exited → pc s = some p →
      find? s.active p = some b → (bpDisable s b).1.code p = orig p) := by
  refine ⟨fun s hinv hs k h1 h2 hk => ?_, fun s p b hinv hs hpc hb => ?_⟩
  · have hne : (s.code s.τ[k] == INT3) = false :=
      firstFrom_min (fun a => s.code a == INT3) s.τ s.idx k h1 h2 hk
    have ht := hinv.text hs s.τ[k]
    split at ht
    · rw [ht] at hne; simp [INT3] at hne
    · exact ht
  · have hi : s.idx ≤ s.τ.length := Nat.le_of_lt (pc_some hpc).1
    have h := inv_of_patchInv hinv hs hi
    have hbm := find?_some hb
    have hsv : b.saved = orig p := by rw [h.saved b hbm.1, hbm.2]
    rw [bpDisable_code s b (h.bytes ho) (by rw [hsv]; exact ho _), hbm.2, hsv, set_apply]
    simp

/-! sanity test (not a proof): the log of a run with a loop and a removed breakpoint -/
#guard (execAll (init [0x1000, 0x1004, 0x1008, 0x1004, 0x1008, 0x100c] 0x1000 (fun a => a % 251) 7)
    [.brk 0x1004, .start, .cont, .remove 0x1004, .brk 0x1008, .cont]).1.execd
  == [(0, 0x1000 % 251), (1, 0x1004 % 251), (2, 0x1008 % 251), (3, 0x1004 % 251)]

/-! ## Histories with context-only commands (`frame k`, `backtrace`, reading locals)

The debugger with its exploration context (`Model/Context.lean`); see the corresponding section of `Props/C01.lean`. -/

/-- **C02_text_at_prompt_ctx.**  `C02_text_at_prompt` for histories with arbitrary interleavings of context-only
commands: at every prompt the text is the original text with an INT3 exactly at the entry address and at the user
breakpoints currently set — selecting frames and inspecting leaves no patch and removes none. -/
theorem C02_text_at_prompt_ctx (τ : List Addr) (entry : Addr) (orig : Code) (exitCode : Nat) (cops : List COp)
    (ho : Bytes orig) (hcc : ∀ a ∈ τ, orig a ≠ 0xCC) (hhead : τ.head? = some entry)
    (hb : NoBreakAtEntry entry (eraseCtx cops)) (hr : NoRemoveAtEntry entry (eraseCtx cops)) :
    ((execAllC (initC τ entry orig exitCode) cops).1.m.status = .unload →
      ∀ a, (execAllC (initC τ entry orig exitCode) cops).1.m.code a = orig a) ∧
    ((execAllC (initC τ entry orig exitCode) cops).1.m.status = .inProgress →
      ∀ a, (execAllC (initC τ entry orig exitCode) cops).1.m.code a
        = if a = entry ∨ a ∈ (Spec.run τ exitCode {} (eraseCtx cops)).1.B then 0xCC else orig a) := by
  obtain ⟨_, e⟩ := C01_ctx_ops_invisible τ entry orig exitCode cops
  obtain ⟨h1, h2⟩ := C02_text_at_prompt τ entry orig exitCode (eraseCtx cops) ho hcc hhead hb hr
  rw [e.status, e.code]
  exact ⟨h1, h2⟩

/-- **C02_native_equivalence_ctx.**  `C02_native_equivalence` for every history over the extended alphabet (no
hypothesis on the commands): the execution log is exactly the native run up to the current position, each instruction
once, in order, on its original byte; the position stays within the trace; and no command — context-only ones do not
move it at all — ever moves it backwards. -/
theorem C02_native_equivalence_ctx (τ : List Addr) (entry : Addr) (orig : Code) (exitCode : Nat) (ho : Bytes orig)
    (cops : List COp) :
    (execAllC (initC τ entry orig exitCode) cops).1.m.execd
      = (List.range (execAllC (initC τ entry orig exitCode) cops).1.m.idx).map (fun k => (k, orig (τ.getD k 0))) ∧
    (execAllC (initC τ entry orig exitCode) cops).1.m.idx ≤ τ.length ∧
    (∀ x : CtxOp, (execC (execAllC (initC τ entry orig exitCode) cops).1 (.ctx x)).1.m.idx
      = (execAllC (initC τ entry orig exitCode) cops).1.m.idx) ∧
    (∀ op : Op, (execAllC (initC τ entry orig exitCode) cops).1.m.idx
      ≤ (execC (execAllC (initC τ entry orig exitCode) cops).1 (.base op)).1.m.idx) := by
  obtain ⟨_, e⟩ := C01_ctx_ops_invisible τ entry orig exitCode cops
  obtain ⟨h1, h2, h3⟩ := C02_native_equivalence τ entry orig exitCode ho (eraseCtx cops)
  refine ⟨by rw [e.execd, e.idx]; exact h1, by rw [e.idx]; exact h2, fun x => ?_, fun op => ?_⟩
  · rw [execC_ctx_m]
  · rw [(execC_base_erase _ op).1, exec_pokeEq e op, e.idx]
    exact h3 op

/-- **C02_ctx_ops_invisible_steps.**  The same erasure for the step alphabet (`stepi`, `step`, `next`, `finish` with
any temporaries, on top of C01's commands): the step commands re-read the thread's real pc first (`ecx_restore_frame`)
and `single_step_instruction`, which does decide from the exploration context, only ever sees a context refreshed by
the previous step or stop.  For EVERY history over that alphabet, from every state: answers and machine state are
those of the history without the context-only commands — so every C02/C03 theorem about `execS` histories holds with
context-only commands interleaved. -/
theorem C02_ctx_ops_invisible_steps (c : CSt) (cops : List CSOp) :
    baseOutsS (execAllSC c cops).2 = (execAllS c.m (eraseCtxS cops)).2 ∧
    PokeEq (execAllSC c cops).1.m (execAllS c.m (eraseCtxS cops)).1 :=
  let h := execAllSC_erase cops c c.m (PokeEq.refl _)
  ⟨h.2, h.1⟩

/-- one step command from any state and any exploration context (e.g. a caller frame selected): same landing, same
machine state as without the context -/
theorem C02_step_ignores_selected_frame (m : St) (e : Ecx) (op : SOp) :
    (execSC { m := m, ecx := e } (.base op)).1.m = (execS m op).1 ∧
    (execSC { m := m, ecx := e } (.base op)).2 = .base (execS m op).2 := by
  obtain ⟨h1, h2⟩ := execSBaseC_erase { m := m, ecx := e } op
  exact ⟨h1, by rw [← h2]; rfl⟩

/-! sanity test (not a proof): `stepi` with the caller frame selected steps from the real pc, over the breakpoint -/
#guard (execAllSC (initC [0x1000, 0x1004, 0x2000, 0x2004, 0x1008] 0x1000 (fun _ => 0x90) 0)
    [.base (.base (.brk 0x2000)), .base (.base .start), .ctx (.frame 1 (some 0x1008)), .base (.stepn 1),
     .ctx (.backtrace true)]).1.m.idx == 3
#guard (execAllSC (initC [0x1000, 0x1004, 0x2000, 0x2004, 0x1008] 0x1000 (fun _ => 0x90) 0)
    [.base (.base (.brk 0x2000)), .base (.base .start), .ctx (.frame 1 (some 0x1008)), .base (.stepn 1)]).1.ecx
  == ⟨0x2004, 0⟩

end BsVerif.Bp
