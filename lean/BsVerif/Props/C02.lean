import BsVerif.Model.StepOps
/-! # C02 (theorems follow) -/
