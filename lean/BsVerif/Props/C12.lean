import BsVerif.Lemmas.Dap
import BsVerif.Lemmas.DapThreads
import BsVerif.Gen.DapDispatch
/-!
# C12 — the DAP adapter speaks the protocol for any request history

Property theorems only.  Models: `BsVerif/Model/Dap.lean` (writer model `Dap.Writer`, session model
`Dap`), helper lemmas: `BsVerif/Lemmas/Dap.lean`.

Models: every arm of `dispatch` (43 commands) with the cancellation bookkeeping (`canceled_request_ids`,
`canceled_progress_ids`, `consume_cancellation`), the thread-cache diff (`refresh_threads_with_events`) and
the progress ids.

The five clauses about responses, sequence numbers, lifecycle and silence are proved at full strength, for ALL
request histories / ALL schedules of the three writers.  Three of them were FALSE of the code as found (`continue`
answered twice, sequence numbers taken before the transport lock, `initialized` sent after `terminated`); the
defects are repaired in the repository (`known_findings.txt`: `fixed:` lines), the model mirrors the repaired code,
and the former counterexamples stay as replays in `corpus/C12/*.req` (and as `#guard` tests below) so that a
regression is a VIOLATION.  The thread-event clause is still FALSE of the code (relaunch after exit): its full
statement is a `def …_full : Prop`, with `…_partial` under a named hypothesis and a `…_counterexample`.
-/
namespace BsVerif.Dap

/-! ## 1. exactly one response per request, with its `request_seq` and `command` -/

/-- the answer `out` to request `r` contains exactly one response, and it carries `r`'s
`request_seq` and `command` -/
def OneResp (r : Req) (out : List Msg) : Prop := ∃ ok, resps out = [Msg.resp r.cmd ok r.seq]

theorem C12_one_response_step (s s' : Sess) (r : Req) (h : Hint) (out : List Msg)
    (hs : runStep s r h = some (s', out)) : OneResp r out := by
  unfold runStep at hs
  split at hs
  · obtain ⟨ok, hok⟩ := respondActs_fullPlan s r h
    injection hs with hs
    refine ⟨ok, ?_⟩
    have : resps (exec r s (fullPlan s r h)).2 = [Msg.resp r.cmd ok r.seq] := by rw [resps_exec, hok]; rfl
    rw [hs] at this; exact this
  · cases hs

/-- `P request answer` for every request of the history that got an answer (`none` = the session had
already ended) -/
def AllAnswers (P : Req → List Msg → Prop) : List (Req × Hint) → List (Option (List Msg)) → Prop
  | [], _ => True
  | _ :: _, [] => False
  | (r, _) :: rest, a :: as => (∀ out, a = some out → P r out) ∧ AllAnswers P rest as

theorem C12_one_response_from (hist : List (Req × Hint)) : ∀ s : Sess,
    AllAnswers OneResp hist (runHistory s hist) := by
  induction hist with
  | nil => intro s; trivial
  | cons rh rest ih =>
    intro s
    obtain ⟨r, h⟩ := rh
    unfold runHistory
    cases hs : runStep s r h with
    | none => exact ⟨(by intro out ho; cases ho), ih s⟩
    | some p =>
      obtain ⟨s', out⟩ := p
      refine ⟨?_, ih s'⟩
      intro out' ho
      cases ho
      exact C12_one_response_step s s' r h out hs

/-- FULL statement: every request of every history (all commands, all argument mutations, all debuggee
outcomes) that is answered at all gets exactly one response, carrying its `request_seq` and `command` -/
theorem C12_one_response (hist : List (Req × Hint)) :
    AllAnswers OneResp hist (runHistory {} hist) :=
  C12_one_response_from hist {}

/-- the former counterexample (`continue` before `launch` got a success AND an error response):
`corpus/C12/continue-before-launch.req` -/
def witnessContinueBeforeLaunch : List (Req × Hint) :=
  [({ seq := 1, cmd := .initialize, mutn := .valid }, {}), ({ seq := 2, cmd := .continue_, mutn := .valid }, {})]

/-! ### cancelled requests (`cancel {requestId}` ahead of the request, `consume_cancellation`) -/

/-- the commands whose handlers call `consume_cancellation` -/
def cancellable : Cmd → Bool
  | .stackTrace | .evaluate | .readMemory | .disassemble => true
  | _ => false

/-- an accepted `cancel {requestId: n}` (alone or together with a progress id) records `n` and is answered -/
theorem C12_cancel_records (s s' : Sess) (r : Req) (h : Hint) (out : List Msg) (hc : r.cmd = .cancel)
    (hm : r.mutn = .valid) (hp : r.param % 4 = 0 ∨ r.param % 4 = 3) (hs : runStep s r h = some (s', out)) :
    s'.cancelledReqs.contains (r.param / 4) = true ∧ resps out = [Msg.resp .cancel true r.seq] := by
  unfold runStep at hs
  split at hs
  · injection hs with hs
    have h1 : (exec r s (fullPlan s r h)).1 = s' := congrArg Prod.fst hs
    have h2 : (exec r s (fullPlan s r h)).2 = out := congrArg Prod.snd hs
    have hplan : fullPlan s r h = [.cancelReq (r.param / 4), .respond true, .drain] ∨
        fullPlan s r h = [.cancelReq (r.param / 4), .cancelProg (r.param / 4), .respond true, .drain] := by
      unfold fullPlan plan
      rcases hp with hp | hp <;> simp [hc, hm, hp, runRule]
    rcases hplan with hplan | hplan <;> rw [← h1, ← h2, hplan] <;>
      simp only [exec, execAct, resps_append, resps_drain, resps, List.append_nil, List.nil_append, drain_cancelledReqs,
        insertSet_contains, hc, and_self]
  · cases hs

/-- a cancellable request whose sequence number was cancelled ahead of time is ANSWERED — exactly one response,
an error response carrying its `request_seq` and `command` — whatever its arguments, whatever the debuggee does,
in every session state; and the cancellation is consumed -/
theorem C12_cancelled_request_answered (s s' : Sess) (r : Req) (h : Hint) (out : List Msg)
    (hc : cancellable r.cmd = true) (hin : s.cancelledReqs.contains r.seq = true)
    (hs : runStep s r h = some (s', out)) :
    resps out = [Msg.resp r.cmd false r.seq] ∧ s'.cancelledReqs.contains r.seq = false := by
  unfold runStep at hs
  split at hs
  · injection hs with hs
    have h1 : (exec r s (fullPlan s r h)).1 = s' := congrArg Prod.fst hs
    have h2 : (exec r s (fullPlan s r h)).2 = out := congrArg Prod.snd hs
    have hin' : r.seq ∈ s.cancelledReqs := by simpa using hin
    have hplan : fullPlan s r h = [.consumeReq, .respond false, .drain] := by
      unfold fullPlan plan
      cases hcmd : r.cmd <;> simp [cancellable, hcmd] at hc <;> simp [hin', runRule]
    rw [← h1, ← h2, hplan]
    simp only [exec, execAct, resps_append, resps_drain, resps, List.append_nil, List.nil_append, drain_cancelledReqs]
    exact ⟨trivial, by simp [removeSet]⟩
  · cases hs

/-! ## 2. sequence numbers are 1,2,3,… in wire order -/

open Writer in
/-- FULL statement: for EVERY interleaving of the three writers (any schedule: a writer scheduled while
another one holds the transport lock is blocked) the numbers on the wire are `1,2,3,…` in wire order.
(As found the number was taken before `io.lock()` and the schedule `[1,0,0,1]` put `2,1` on the wire:
`corpus/C12/forwarder-late.req` forces it through the `verif` schedule points.) -/
theorem C12_seq_is_wire_order (sched : List Nat) :
    wireSeqs sched = iota 1 (wireSeqs sched).length := by
  obtain ⟨k, hk, _⟩ := linv_run sched {} 0 linv_init
  unfold wireSeqs run
  rw [hk, iota_length]

open Writer in
/-- consequence: the numbers on the wire are pairwise distinct, for every interleaving -/
theorem C12_seq_distinct_all_interleavings (sched : List Nat) : (wireSeqs sched).Nodup := by
  rw [C12_seq_is_wire_order]
  exact iota_nodup _ _

/-! ## 3./4. lifecycle events once and in order; silence after `terminated` -/

/-- for EVERY request history (and all debuggee outcomes) the session's trace is accepted by the
combined STRICT lifecycle monitor `lifeRun true`: per debuggee lifecycle (opened by a `launch` request)
`exited` at most once and immediately followed by `terminated`, `terminated` at most once, and after
`terminated` no event at all -/
theorem C12_lifecycle_monitor (hist : List (Req × Hint)) :
    ∃ st, lifeRun true .fresh (trace {} hist) = some st :=
  trace_life true hist {} .fresh (by simp [Inv])

/-- `exited` / `terminated` at most once per lifecycle and in that order, for every history -/
theorem C12_lifecycle_once (hist : List (Req × Hint)) :
    ∃ st, onceRun .fresh (trace {} hist) = some st := by
  obtain ⟨st, h⟩ := C12_lifecycle_monitor hist
  exact ⟨st, once_of_life true _ _ _ h⟩

/-- FULL statement: no event at all from the session after `terminated` (until a new `launch`), for
every history — `initialized` included, which now goes through the queue and its latch -/
theorem C12_silent_after_terminated (hist : List (Req × Hint)) :
    ∃ st, silentRun true false (trace {} hist) = some st := by
  obtain ⟨st, h⟩ := C12_lifecycle_monitor hist
  exact ⟨_, silent_of_life true _ _ _ h⟩

open Writer in
/-- the forwarders' share of the clause, for EVERY interleaving of the session's latch store, the lock
acquisitions and the writes of the three writers: once the session has written a message with the latch
set (it sets the latch before it writes `terminated`), every later message on the wire is the session's
(responses to later requests) — no forwarder `output` follows `terminated` -/
theorem C12_forwarders_silent_after_terminated (acts : List LAct) :
    quietAfterLatched (lrun acts).wire = true :=
  (qinv_run acts {} qinv_init).1

/-- the former counterexample (`initialized` was sent after `terminated`):
`corpus/C12/initialize-after-terminated.req` -/
def witnessInitializeAfterTerminated : List (Req × Hint) :=
  [({ seq := 1, cmd := .initialize, mutn := .valid }, {}),
   ({ seq := 2, cmd := .launch, mutn := .valid }, {}),
   ({ seq := 3, cmd := .terminateThreads, mutn := .missing }, {}),
   ({ seq := 4, cmd := .initialize, mutn := .valid }, {})]

/-! ## 3b. each thread start / exit is announced by its event exactly once and in causal order -/

/-- the diff of `refresh_threads_with_events` is exact: from a duplicate-free cache, `started` is queued for
precisely the reported threads that are not cached, `exited` for precisely the cached ones that are no longer
reported, each once; and the new cache is the reported set -/
theorem C12_thread_refresh_exact (cache tl : List Nat) (t : Nat) :
    (IEv.ev (.threadStarted t) ∈ refreshEvents cache tl ↔ (t ∈ tl ∧ t ∉ cache)) ∧
    (IEv.ev (.threadExited t) ∈ refreshEvents cache tl ↔ (t ∈ cache ∧ t ∉ tl)) ∧
    (cache.Nodup → (refreshEvents cache tl).Nodup) ∧ (∀ u, u ∈ dedup tl ↔ u ∈ tl) := by
  refine ⟨?_, ?_, ?_, mem_dedup tl⟩
  · simp [refreshEvents, mem_dedup]
  · simp [refreshEvents, mem_dedup]
  · intro hc
    unfold refreshEvents
    refine List.nodup_append.mpr ⟨?_, ?_, ?_⟩
    · exact ((dedup_nodup tl).filter _).map (f := fun t => IEv.ev (.threadStarted t)) (by intro a b hab e; injection e with e; injection e with e; exact hab e)
    · exact (hc.filter _).map (f := fun t => IEv.ev (.threadExited t)) (by intro a b hab e; injection e with e; injection e with e; exact hab e)
    · intro a ha b hb
      obtain ⟨x, _, rfl⟩ := List.mem_map.mp ha
      obtain ⟨y, _, rfl⟩ := List.mem_map.mp hb
      intro hab; injection hab with hab; cases hab

/-- FULL statement: for every history the wire is accepted by the thread monitor — `thread started t` only for
a thread that is not announced, `thread exited t` only for an announced one (no exit without a start, no second
exit, no second start). -/
def C12_thread_events_full : Prop :=
  ∀ hist : List (Req × Hint), ∃ live, threadRun [] (trace {} hist) = some live

/-- PARTIAL (all histories, all debuggee behaviours, under `cleanRelaunch`: the latch is never reset over a
non-empty thread cache): the wire is accepted by the thread monitor, AND whenever the session goes on and its
lifecycle is open, the threads announced and not yet exited are exactly the threads the debugger reported to
the last refresh — the events announced equal the changes of the reported thread list. -/
theorem C12_thread_events_partial (hist : List (Req × Hint)) (hclean : cleanRelaunch {} hist = true) :
    ∃ live, threadRun [] (trace {} hist) = some live ∧
      ((finalSess {} hist).alive = true → (finalSess {} hist).terminated = false →
        ∀ t, t ∈ live ↔ t ∈ (finalSess {} hist).threadCache) := by
  obtain ⟨live, e, tb⟩ := trace_thread hist {} [] tb_init hclean
  refine ⟨live, e, ?_⟩
  intro ha ht
  obtain ⟨l, hl, hm⟩ := tb.1.sync ht
  rw [tb.2 ha] at hl
  cases hl
  exact hm

/-- witness: the debuggee exits (`emit_process_end` announces the exit of its thread but keeps it in the cache),
the client launches again: the first refresh of the new lifecycle announces the exit of the old thread AGAIN -/
def witnessRelaunchAfterExit : List (Req × Hint) :=
  [({ seq := 1, cmd := .initialize, mutn := .valid }, {}),
   ({ seq := 2, cmd := .launch, mutn := .valid }, {}),
   ({ seq := 3, cmd := .configurationDone, mutn := .valid }, { outcome := .stop "entry", tl := [1] }),
   ({ seq := 4, cmd := .continue_, mutn := .valid }, { outcome := .exit }),
   ({ seq := 5, cmd := .launch, mutn := .valid }, {}),
   ({ seq := 6, cmd := .configurationDone, mutn := .valid }, { outcome := .stop "entry", tl := [2] })]

theorem C12_thread_events_counterexample : ¬ C12_thread_events_full := by
  intro h
  obtain ⟨live, hl⟩ := h witnessRelaunchAfterExit
  have hn : threadRun [] (trace {} witnessRelaunchAfterExit) = none := by decide
  rw [hn] at hl
  cases hl

/-! ## 5. a failing request yields an error response, not silence or a dropped connection -/

theorem C12_error_not_silence (s : Sess) (r : Req) (h : Hint) (ha : s.alive = true)
    (hf : mustFail s r = true) :
    ∃ s' out, runStep s r h = some (s', out) ∧ Msg.resp r.cmd false r.seq ∈ out ∧ s'.alive = true := by
  obtain ⟨h1, h2⟩ := fullPlan_mustFail s r h hf
  refine ⟨(exec r s (fullPlan s r h)).1, (exec r s (fullPlan s r h)).2, by simp [runStep, ha], ?_, ?_⟩
  · apply mem_of_mem_resps
    rw [resps_exec]
    exact List.mem_map.mpr ⟨false, h1, rfl⟩
  · rw [exec_alive r _ s h2, ha]

theorem C12_never_silent (s : Sess) (r : Req) (h : Hint) (ha : s.alive = true) :
    ∃ s' out, runStep s r h = some (s', out) ∧ resps out ≠ [] ∧
      (s'.alive = true ∨ r.cmd = .disconnect ∨ r.cmd = .terminate) := by
  obtain ⟨h1, h2⟩ := fullPlan_responds s r h
  refine ⟨(exec r s (fullPlan s r h)).1, (exec r s (fullPlan s r h)).2, by simp [runStep, ha], ?_, ?_⟩
  · rw [resps_exec]; simpa using h1
  · cases he : hasEnd (fullPlan s r h) with
    | true => exact Or.inr (h2 he)
    | false => exact Or.inl (by rw [exec_alive r _ s he, ha])

/-- the rule of `run`: when the handler returns `Err`, the last response of the answer is an error
response for this request, and the session goes on -/
theorem C12_error_not_silence_run_rule (s : Sess) (r : Req) (h : Hint) (ha : s.alive = true)
    (he : (plan s r h).2 = .err) :
    ∃ s' out pre, runStep s r h = some (s', out) ∧ resps out = pre ++ [Msg.resp r.cmd false r.seq] := by
  refine ⟨(exec r s (fullPlan s r h)).1, (exec r s (fullPlan s r h)).2,
    (respondActs (plan s r h).1).map (fun ok => Msg.resp r.cmd ok r.seq), by simp [runStep, ha], ?_⟩
  rw [resps_exec]
  simp [fullPlan, he, runRule, respondActs]


/-! ## Sanity tests (evaluated, *not* proofs) and non-vacuity -/

-- continue before launch: one (error) response, no `continued`
#guard (runHistory {} witnessContinueBeforeLaunch).map (·.map (·.length)) == [some 2, some 1]
#guard accepts witnessContinueBeforeLaunch
  [some [.resp .initialize true 1, .event (.q .initialized)],
   some [.resp .continue_ false 2]]
-- `continue` on a live debuggee: the response and `continued` precede the stop
#guard (runStep { dbg := .inProgress } { seq := 9, cmd := .continue_, mutn := .valid } { outcome := .stop "breakpoint" }).map (·.2)
  == some [.resp .continue_ true 9, .event (.q .continued), .event (.q (.stopped "breakpoint"))]
-- `initialize` after `terminated`: the response only
#guard (runHistory {} witnessInitializeAfterTerminated).getLast? == some (some [.resp .initialize true 4])
-- the schedule that used to put `2,1` on the wire: the session (0) is blocked while the forwarder (1) holds the lock
#guard Writer.wireSeqs [1, 0, 0, 1] == [1]
#guard Writer.wireSeqs [1, 0, 0, 1, 0, 0] == [1, 2]
#guard Writer.wireSeqs [0, 0, 1, 1, 2, 2, 0, 0] == [1, 2, 3, 4]
-- latch: a forwarder that locked before the latch was set still writes, but ahead of `terminated`; one that
-- locks afterwards writes nothing.  Without the check (as found) the last one would follow `terminated`
#guard (Writer.lrun [.lock 1, .setLatch, .write 1, .lock 0, .write 0, .lock 2, .write 2, .lock 0, .write 0]).wire
  == [(1, false), (0, true), (0, true)]
#guard !Writer.quietAfterLatched [(1, false), (0, true), (2, false)]

-- tie to the source (table regenerated from session/mod.rs on every run; string-level, hence tests):
-- every modelled command is an arm of `dispatch`, `frobnicate` is not, exactly `terminate` and
-- `disconnect` leave the `run` loop, and the number is taken while the transport is locked
#guard (allCmds.filter (· != .frobnicate)).all (fun c => Gen.DapDispatch.commands.contains (cmdName c))
#guard Gen.DapDispatch.commands.all (fun n => allCmds.any (fun c => cmdName c == n))   -- every arm of `dispatch` is modelled
#guard !Gen.DapDispatch.commands.contains (cmdName .frobnicate)
#guard Gen.DapDispatch.endsSession == [cmdName .terminate, cmdName .disconnect]
#guard Gen.DapDispatch.seqUnderLock
#guard Gen.DapDispatch.latchUnderLock

-- cancel ahead: `cancel {requestId: 7}` (param 28), then request 7 = stackTrace: one error response; cancelled by progress id
-- (param 4*2+1): the `disassemble` that takes progress id 2 closes its progress and answers with an error
#guard (runHistory {} [({ seq := 5, cmd := .cancel, mutn := .valid, param := 28 }, {}), ({ seq := 7, cmd := .stackTrace, mutn := .valid }, {})]).map (·.map resps)
  == [some [.resp .cancel true 5], some [.resp .stackTrace false 7]]
#guard (runHistory { nextProgress := 2 } [({ seq := 5, cmd := .cancel, mutn := .valid, param := 9 }, {}), ({ seq := 6, cmd := .disassemble, mutn := .valid }, {})]).map (·.map resps)
  == [some [.resp .cancel true 5], some [.resp .disassemble false 6]]
#guard cleanRelaunch {} witnessRelaunchAfterExit == false
#guard cleanRelaunch {} witnessContinueBeforeLaunch

/-- non-vacuity of `C12_thread_events_partial`: a history with a thread started during a step (reported by a later
`threads`), satisfying `cleanRelaunch`, whose announced set is the reported list -/
example : cleanRelaunch {} [({ seq := 1, cmd := .launch, mutn := .valid }, {}),
    ({ seq := 2, cmd := .configurationDone, mutn := .valid }, { outcome := .stop "breakpoint", tl := [1] }),
    ({ seq := 3, cmd := .next, mutn := .valid }, { outcome := .stop "step" }),
    ({ seq := 4, cmd := .threads, mutn := .valid }, { tl := [1, 2] })] = true := by decide

/-- non-vacuity of `C12_cancelled_request_answered` -/
example : cancellable .readMemory = true ∧ ({ cancelledReqs := [4] } : Sess).cancelledReqs.contains 4 = true := by decide

/-- non-vacuity of `C12_error_not_silence`: a live session and a request that must fail -/
example : ({} : Sess).alive = true ∧ mustFail {} { seq := 7, cmd := .stackTrace, mutn := .valid } = true := by decide

end BsVerif.Dap
