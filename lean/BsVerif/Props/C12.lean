import BsVerif.Lemmas.Dap
import BsVerif.Lemmas.DapThreads
import BsVerif.Gen.DapDispatch
/-!
# C12 — the DAP adapter speaks the protocol for any request history

Property theorems only.  Models: `BsVerif/Model/Dap.lean` (writer model `Dap.Writer`, session model
`Dap`), helper lemmas: `BsVerif/Lemmas/Dap.lean`.

Three of the five clauses are FALSE of the unchanged code.  For each of them the full statement is a
`def …_full : Prop`, its negation is proved on a concrete witness (`…_counterexample`, replayed on the
real adapter by the harness: `corpus/C12/*.req`, `known_findings.txt`), and the part that does hold is
proved for ALL histories / ALL schedules under a named hypothesis (`…_partial`).
-/
namespace BsVerif.Dap

/-! ## 1. exactly one response per request, with its `request_seq` and `command` -/

/-- the answer `out` to request `r` contains exactly one response, and it carries `r`'s
`request_seq` and `command` -/
def OneResp (r : Req) (out : List Msg) : Prop := ∃ ok, resps out = [Msg.resp r.cmd ok r.seq]

theorem C12_one_response_step (s s' : Sess) (r : Req) (h : Hint) (out : List Msg)
    (hc : r.cmd ≠ .continue_) (hs : runStep s r h = some (s', out)) : OneResp r out := by
  unfold runStep at hs
  split at hs
  · obtain ⟨ok, hok⟩ := respondActs_fullPlan s r h hc
    injection hs with hs
    refine ⟨ok, ?_⟩
    have : resps (exec r s (fullPlan s r h)).2 = [Msg.resp r.cmd ok r.seq] := by rw [resps_exec, hok]; rfl
    rw [hs] at this; exact this
  · cases hs

/-- `P request answer` for every request of the history that got an answer (`none` = the session had
already ended) -/
def AllAnswers (P : Req → List Msg → Prop) : List (Req × Hint) → List (Option (List Msg)) → Prop
  | [], _ => True
  | _ :: _, [] => False
  | (r, _) :: rest, a :: as => (∀ out, a = some out → P r out) ∧ AllAnswers P rest as

def C12_one_response_full : Prop :=
  ∀ hist : List (Req × Hint),
    AllAnswers OneResp hist (runHistory {} hist)

theorem C12_one_response_partial (hist : List (Req × Hint)) : ∀ s : Sess,
    AllAnswers (fun r out => r.cmd ≠ .continue_ → OneResp r out) hist (runHistory s hist) := by
  induction hist with
  | nil => intro s; trivial
  | cons rh rest ih =>
    intro s
    obtain ⟨r, h⟩ := rh
    unfold runHistory
    cases hs : runStep s r h with
    | none => exact ⟨(by intro out ho; cases ho), ih s⟩
    | some p =>
      obtain ⟨s', out⟩ := p
      refine ⟨?_, ih s'⟩
      intro out' ho hc
      cases ho
      exact C12_one_response_step s s' r h out hc hs

def witnessContinueBeforeLaunch : List (Req × Hint) :=
  [({ seq := 1, cmd := .initialize, mutn := .valid }, {}), ({ seq := 2, cmd := .continue_, mutn := .valid }, {})]

theorem C12_one_response_counterexample : ¬ C12_one_response_full := by
  intro hfull
  have h := hfull witnessContinueBeforeLaunch
  simp [witnessContinueBeforeLaunch, runHistory, runStep, fullPlan, plan, exec, execAct, drain, runRule, sendAll,
    OneResp, resps, AllAnswers] at h


/-- `continue` itself answers exactly once when the debuggee is live and the debugger call succeeds
(the two-response shape needs the fallible call to fail *after* the reply) -/
theorem C12_one_response_continue_live (s s' : Sess) (r : Req) (h : Hint) (out : List Msg)
    (hc : r.cmd = .continue_) (hd : s.dbg = .inProgress) (ho : h.outcome ≠ .none)
    (hs : runStep s r h = some (s', out)) : OneResp r out := by
  unfold runStep at hs
  split at hs
  · injection hs with hs
    have hs2 : (exec r s (fullPlan s r h)).2 = out := congrArg Prod.snd hs
    refine ⟨true, ?_⟩
    rw [← hs2, resps_exec]
    unfold fullPlan plan
    simp only [hc, hd]
    cases hout : h.outcome with
    | none => exact absurd hout ho
    | stop x => simp [respondActs, runRule]
    | exit => simp [respondActs, runRule]
  · cases hs

/-! ## 2. sequence numbers are 1,2,3,… in wire order -/

open Writer in
/-- FULL statement: for every interleaving of the three writers the numbers on the wire are
`1,2,3,…` in wire order.  FALSE of the unchanged code (the number is taken before `io.lock()`). -/
def C12_seq_is_wire_order_full : Prop :=
  ∀ sched : List Nat, wireSeqs sched = iota 1 (wireSeqs sched).length

open Writer in
/-- witness: the stdout forwarder (1) allocates 1, the session (0) allocates 2 and writes, then the
forwarder writes: the wire reads `2,1` -/
theorem C12_seq_is_wire_order_counterexample : ¬ C12_seq_is_wire_order_full := by
  intro h
  have := h [1, 0, 0, 1]
  revert this
  decide

open Writer in
/-- PARTIAL: holds for every schedule in which no writer allocates while another one holds an
unwritten number ("single writer at a time": `serial`) -/
theorem C12_seq_is_wire_order_partial (sched : List Nat) (hs : serial sched = true) :
    wireSeqs sched = iota 1 (wireSeqs sched).length := by
  obtain ⟨k, hk⟩ := foldl_step_serial sched {} 0 ⟨fun _ => rfl, rfl, rfl⟩ hs
  unfold wireSeqs run
  rw [hk, iota_length]

open Writer in
/-- what DOES hold for EVERY interleaving of the as-found writers: the numbers on the wire are pairwise
distinct and lie in `1 … next-1` (a permutation of a subset of what was allocated) -/
theorem C12_seq_distinct_all_interleavings (sched : List Nat) :
    (wireSeqs sched).Nodup ∧ ∀ n ∈ wireSeqs sched, 1 ≤ n ∧ n < (run sched).next := by
  have h := winv_run sched {} winv_init
  refine ⟨h.2.2.2.1, ?_⟩
  intro n hn
  obtain ⟨m, hm, rfl⟩ := List.mem_map.mp hn
  exact h.1 m hm

open Writer in
/-- the REPAIRED discipline (number taken while the transport lock is held) satisfies the full
statement for every interleaving -/
theorem C12_seq_is_wire_order_locked (sched : List Nat) :
    (runLocked sched).wire.map (·.seq) = iota 1 sched.length := by
  have := foldl_stepLocked sched {} 0 rfl rfl
  simpa [runLocked] using this

/-! ## 3./4. lifecycle events once and in order; silence after `terminated` -/

/-- for EVERY request history (and all debuggee outcomes) the session's trace is accepted by the
combined lifecycle monitor `lifeRun false`: per debuggee lifecycle (opened by a `launch` request)
`exited` at most once and immediately followed by `terminated`, `terminated` at most once, and after
`terminated` no event except the non-queued `initialized` -/
theorem C12_lifecycle_monitor (hist : List (Req × Hint)) :
    ∃ st, lifeRun false .fresh (trace {} hist) = some st :=
  trace_life hist {} .fresh (by simp [Inv])

/-- `exited` / `terminated` at most once per lifecycle and in that order, for every history -/
theorem C12_lifecycle_once (hist : List (Req × Hint)) :
    ∃ st, onceRun .fresh (trace {} hist) = some st := by
  obtain ⟨st, h⟩ := C12_lifecycle_monitor hist
  exact ⟨st, once_of_life false _ _ _ h⟩

/-- FULL statement: no event at all from the session after `terminated` (until a new `launch`) -/
def C12_silent_after_terminated_full : Prop :=
  ∀ hist : List (Req × Hint), ∃ st, silentRun true false (trace {} hist) = some st

/-- PARTIAL: no *queued* event after `terminated` — every event except `initialized`, which
`handle_initialize` sends directly, bypassing `drain_events` and its latch -/
theorem C12_silent_after_terminated_partial (hist : List (Req × Hint)) :
    ∃ st, silentRun false false (trace {} hist) = some st := by
  obtain ⟨st, h⟩ := C12_lifecycle_monitor hist
  exact ⟨_, silent_of_life false _ _ _ h⟩

def witnessInitializeAfterTerminated : List (Req × Hint) :=
  [({ seq := 1, cmd := .initialize, mutn := .valid }, {}),
   ({ seq := 2, cmd := .launch, mutn := .valid }, {}),
   ({ seq := 3, cmd := .terminateThreads, mutn := .missing }, {}),
   ({ seq := 4, cmd := .initialize, mutn := .valid }, {})]

theorem C12_silent_after_terminated_counterexample : ¬ C12_silent_after_terminated_full := by
  intro h
  obtain ⟨st, hst⟩ := h witnessInitializeAfterTerminated
  have hn : silentRun true false (trace {} witnessInitializeAfterTerminated) = none := by decide
  rw [hn] at hst
  cases hst

/-! ## 5. a failing request yields an error response, not silence or a dropped connection -/

theorem C12_error_not_silence (s : Sess) (r : Req) (h : Hint) (ha : s.alive = true)
    (hf : mustFail s r = true) :
    ∃ s' out, runStep s r h = some (s', out) ∧ Msg.resp r.cmd false r.seq ∈ out ∧ s'.alive = true := by
  obtain ⟨h1, h2⟩ := fullPlan_mustFail s r h hf
  refine ⟨(exec r s (fullPlan s r h)).1, (exec r s (fullPlan s r h)).2, by simp [runStep, ha], ?_, ?_⟩
  · apply mem_of_mem_resps
    rw [resps_exec]
    exact List.mem_map.mpr ⟨false, h1, rfl⟩
  · rw [exec_alive r _ s h2, ha]

theorem C12_never_silent (s : Sess) (r : Req) (h : Hint) (ha : s.alive = true) :
    ∃ s' out, runStep s r h = some (s', out) ∧ resps out ≠ [] ∧
      (s'.alive = true ∨ r.cmd = .disconnect ∨ r.cmd = .terminate) := by
  obtain ⟨h1, h2⟩ := fullPlan_responds s r h
  refine ⟨(exec r s (fullPlan s r h)).1, (exec r s (fullPlan s r h)).2, by simp [runStep, ha], ?_, ?_⟩
  · rw [resps_exec]; simpa using h1
  · cases he : hasEnd (fullPlan s r h) with
    | true => exact Or.inr (h2 he)
    | false => exact Or.inl (by rw [exec_alive r _ s he, ha])

/-- the rule of `run`: when the handler returns `Err`, the last response of the answer is an error
response for this request, and the session goes on -/
theorem C12_error_not_silence_run_rule (s : Sess) (r : Req) (h : Hint) (ha : s.alive = true)
    (he : (plan s r h).2 = .err) :
    ∃ s' out pre, runStep s r h = some (s', out) ∧ resps out = pre ++ [Msg.resp r.cmd false r.seq] := by
  refine ⟨(exec r s (fullPlan s r h)).1, (exec r s (fullPlan s r h)).2,
    (respondActs (plan s r h).1).map (fun ok => Msg.resp r.cmd ok r.seq), by simp [runStep, ha], ?_⟩
  rw [resps_exec]
  simp [fullPlan, he, runRule, respondActs]


/-! ## Sanity tests (evaluated, *not* proofs) and non-vacuity -/

-- continue before launch: success response, `continued`, then the error response of `run`
#guard (runHistory {} witnessContinueBeforeLaunch).map (·.map (·.length)) == [some 2, some 3]
#guard Writer.wireSeqs [1, 0, 0, 1] == [2, 1]
#guard Writer.wireSeqs [0, 0, 1, 1, 2, 2, 0, 0] == [1, 2, 3, 4]
#guard Writer.serial [0, 0, 1, 1, 2, 2, 0, 0]
#guard accepts witnessContinueBeforeLaunch
  [some [.resp .initialize true 1, .event .initialized],
   some [.resp .continue_ true 2, .event (.q .continued), .resp .continue_ false 2]]

-- tie to the source (table regenerated from session/mod.rs on every run; string-level, hence tests):
-- every modelled command is an arm of `dispatch`, `frobnicate` is not, exactly `terminate` and
-- `disconnect` leave the `run` loop, and the number is (still) taken before the transport lock
#guard (allCmds.filter (· != .frobnicate)).all (fun c => Gen.DapDispatch.commands.contains (cmdName c))
#guard !Gen.DapDispatch.commands.contains (cmdName .frobnicate)
#guard Gen.DapDispatch.endsSession == [cmdName .terminate, cmdName .disconnect]
#guard Gen.DapDispatch.seqBeforeLock

/-- non-vacuity of `C12_error_not_silence`: a live session and a request that must fail -/
example : ({} : Sess).alive = true ∧ mustFail {} { seq := 7, cmd := .stackTrace, mutn := .valid } = true := by decide

/-- non-vacuity of `C12_one_response_continue_live` -/
example : ({ dbg := .inProgress } : Sess).dbg = .inProgress ∧ (({ outcome := .exit } : Hint).outcome ≠ .none) := by
  decide

end BsVerif.Dap
