import BsVerif.Lemmas.Step
import BsVerif.Model.StepOps
import BsVerif.Props.C02
/-!
# C03 — step commands land where their definition says, relative to the real execution

Model: `Model/Step.lean` (index level: positions of the native trace annotated with call depth, frame identity and
return address; the lookups of the debug information) on top of the machine model of C01/C02.

Specification, straight from the property text, over the annotated trace only:

* `retPos τ i` — the first position after `i` at which the activation of `i` has returned
  (`C03_retPos_is_first_return`: it IS the least `j > i` with `depth j < depth i`);
* a position `k > i` is *in the activation of `i`* when `k < retPos τ i` and `depth k = depth i`,
  *inside a callee* when `k < retPos τ i` and `depth k > depth i`.

Hypotheses that appear by name:

* `RetDiscipline τ` — an activation returns to its return address (what `ret` does; checked on the reference traces);
* `NoReentry` / `NoReentryT` — during the step, no deeper activation reaches the return address / a temporary of the
  command.  They fail for recursion, and so does the property on the unchanged code: `_counterexample` theorems;
* `PrologInFn I` — a prologue range lies inside its function;
* "the return address is not a user breakpoint", "the statement is not a user breakpoint": with temporaries installed
  the tracer steps over user breakpoints silently, so a user breakpoint that sits where a temporary would go disables
  that temporary (`C03_next_skips_user_breakpoint_counterexample`).
-/
namespace BsVerif.Step
open BsVerif.Bp BsVerif.Mem BsVerif.Lines

/-! ## stepi -/

/-- **C03_stepi_one.**  `stepi` (`single_step_instruction`) in any live state that satisfies the patch invariant of
C01/C02 executes exactly one instruction of the trace — the one at pc, on its original byte — whether or not a
breakpoint sits at pc; the text afterwards is the text before. -/
theorem C03_stepi_one (orig : Mem.Code) (s : Bp.St) (p : Mem.Addr)
    (ho : Bytes orig) (hinv : PatchInv orig s) (hs : s.status ≠ .exited)
    (hpc : pc s = some p) (hcc : orig p ≠ 0xCC) :
    (singleStepInstruction s).idx = s.idx + 1 ∧
    (singleStepInstruction s).execd = s.execd ++ [(s.idx, orig p)] ∧
    (singleStepInstruction s).code = s.code := by
  unfold singleStepInstruction
  rw [hpc]
  cases hf : find? s.active p with
  | some b =>
    have e : (find? s.active p).isSome = true := by rw [hf]; rfl
    simp only [hf, Option.isSome_some, if_true]
    obtain ⟨h1, h2, _, h4, _⟩ := C02_step_over_executes_once orig s p b ho hinv hs hpc hf hcc
    exact ⟨h1, h2, h4⟩
  | none =>
    simp only [hf, Option.isSome_none, Bool.false_eq_true, if_false]
    have hany : (s.active.any fun b => b.addr == p && b.enabled) = false := by
      rw [List.any_eq_false]
      intro b hb
      have := find?_none hf b hb
      simp [this]
    have hcode : s.code p = orig p := by
      rw [hinv.text hs p, hany]; simp
    rw [singleStep_spec s p hpc, hcode]
    have : (orig p == INT3) = false := by simpa [INT3] using hcc
    simp [this]

/-- non-vacuity: a live state at an instruction with a breakpoint-free original byte -/
example : ∃ (orig : Mem.Code) (s : Bp.St) (p : Nat), pc s = some p ∧ orig p ≠ 0xCC ∧ s.status ≠ .exited :=
  ⟨fun _ => 0x90, { τ := [0x1000], code := fun _ => 0x90, status := .inProgress }, 0x1000, rfl, by decide, by decide⟩

/-! ## finish -/

/-- **C03_retPos_is_first_return.**  `retPos τ i` is the least position after `i` whose depth is below the depth of `i`
(or the end of the trace when the activation never returns). -/
theorem C03_retPos_is_first_return (τ : Trace) (i : Nat) (hi : i < τ.size) :
    i < retPos τ i ∧ retPos τ i ≤ τ.size ∧
    (retPos τ i < τ.size → (at' τ (retPos τ i)).depth < (at' τ i).depth) ∧
    (∀ k, i < k → k < retPos τ i → (at' τ i).depth ≤ (at' τ k).depth) :=
  ⟨retPos_gt τ i hi, retPos_le τ i hi, retPos_hit τ i, retPos_min τ i⟩

/-- an activation returns to its return address -/
def RetDiscipline (τ : Trace) : Prop :=
  ∀ i, i < τ.size → retPos τ i < τ.size → (at' τ i).ret ≠ 0 → pcAt τ (retPos τ i) = (at' τ i).ret

/-- before the activation of `i` returns, nothing executes the instruction at its return address -/
def NoReentry (τ : Trace) (i : Nat) : Prop :=
  ∀ k, i < k → k < retPos τ i → pcAt τ k ≠ (at' τ i).ret

/-- the property at full strength: `finish` stops immediately after the current function returns -/
def C03_finish_lands_in_caller_full : Prop :=
  ∀ (τ : Trace) (U : List Nat) (i : Nat), RetDiscipline τ → i < τ.size → (at' τ i).ret ≠ 0 → ¬ U.contains (at' τ i).ret →
    (stepOut τ U i).idx = retPos τ i

/-- **C03_finish_lands_in_caller_partial.**  When no deeper activation passes the return address before the current
activation returns (no recursion through this call site), `finish` lands exactly at the first position after the return,
whatever user breakpoints exist elsewhere (they are stepped over silently), and reports `done` there (or `exit` when
the program ends first). -/
theorem C03_finish_lands_in_caller_partial (τ : Trace) (U : List Nat) (i : Nat)
    (hret : RetDiscipline τ) (hno : NoReentry τ i) (hi : i < τ.size) (hr : (at' τ i).ret ≠ 0)
    (hu : ¬ U.contains (at' τ i).ret) :
    (stepOut τ U i).idx = retPos τ i ∧
    (stepOut τ U i).temps = [(at' τ i).ret] ∧
    (stepOut τ U i).why = (if retPos τ i < τ.size then Why.done else Why.exit) := by
  have hT : (stepOut τ U i) = { idx := contLand τ U [(at' τ i).ret] i, why := contWhy τ [(at' τ i).ret] (contLand τ U [(at' τ i).ret] i), temps := [(at' τ i).ret] } := by
    have hu' : U.contains (at' τ i).ret = false := by simpa using hu
    unfold stepOut; simp only [hr, if_false, hu', Bool.false_eq_true]
  have hland : contLand τ U [(at' τ i).ret] i = retPos τ i := by
    have hRle := retPos_le τ i hi
    have hRgt := retPos_gt τ i hi
    have hJle := contLand_le τ U [(at' τ i).ret] i hi
    have hJgt := contLand_gt τ U [(at' τ i).ret] i hi
    -- not before the return
    have h1 : ¬ contLand τ U [(at' τ i).ret] i < retPos τ i := by
      intro hlt
      have := contLand_hit τ U [(at' τ i).ret] i (by omega)
      simp at this
      exact hno _ hJgt hlt this
    -- not after the return
    have h2 : ¬ retPos τ i < contLand τ U [(at' τ i).ret] i := by
      intro hlt
      have := contLand_min τ U [(at' τ i).ret] i (retPos τ i) hRgt hlt
      simp at this
      exact this (hret i hi (by omega) hr)
    omega
  rw [hT]; simp only
  refine ⟨hland, trivial, ?_⟩
  rw [hland]; unfold contWhy
  by_cases h : retPos τ i < τ.size
  · simp [h]
  · simp [h]

/-- the recursion witness: `f` (entry 0x10) calls itself at 0x14 (return address 0x15); the outer call comes from 0x30
(return address 0x31).  Position 3 is in the middle activation (depth 2, return address 0x15). -/
def recTrace : Trace := #[
  { pc := 0x30, depth := 0, cfa := 1, ret := 0 },      -- main: call f
  { pc := 0x10, depth := 1, cfa := 2, ret := 0x31 },   -- f #1
  { pc := 0x14, depth := 1, cfa := 2, ret := 0x31 },   -- f #1: call f
  { pc := 0x10, depth := 2, cfa := 3, ret := 0x15 },   -- f #2   <- finish / next from here
  { pc := 0x14, depth := 2, cfa := 3, ret := 0x15 },   -- f #2: call f
  { pc := 0x10, depth := 3, cfa := 4, ret := 0x15 },   -- f #3
  { pc := 0x18, depth := 3, cfa := 4, ret := 0x15 },   -- f #3: ret
  { pc := 0x15, depth := 2, cfa := 3, ret := 0x15 },   -- back in f #2, at the return address OF f #2's caller site
  { pc := 0x18, depth := 2, cfa := 3, ret := 0x15 },   -- f #2: ret
  { pc := 0x15, depth := 1, cfa := 2, ret := 0x31 },   -- back in f #1: this is where `finish` from position 3 must land
  { pc := 0x18, depth := 1, cfa := 2, ret := 0x31 },   -- f #1: ret
  { pc := 0x31, depth := 0, cfa := 1, ret := 0 } ]

theorem recTrace_retDiscipline : RetDiscipline recTrace := by
  intro i hi
  have : i < 12 := hi
  have h : ∀ j, j < 12 → retPos recTrace j < recTrace.size → (at' recTrace j).ret ≠ 0 →
      pcAt recTrace (retPos recTrace j) = (at' recTrace j).ret := by decide
  exact h i this

/-- **C03_finish_lands_in_caller_counterexample.**  The unchanged code violates the property in a recursive function:
the return-address temporary carries no frame condition, so `finish` from the middle activation stops when the DEEPER
activation returns to the same address (position 7, still inside the current activation) instead of after the return of
the current one (position 9). -/
theorem C03_finish_lands_in_caller_counterexample : ¬ C03_finish_lands_in_caller_full := by
  intro h
  have := h recTrace [] 3 recTrace_retDiscipline (by decide) (by decide) (by decide)
  revert this; decide

example : (stepOut recTrace [] 3).idx = 7 ∧ retPos recTrace 3 = 9 := by decide

/-- non-vacuity of the partial theorem: from position 5 (innermost activation) the hypotheses hold -/
example : NoReentry recTrace 5 ∧ (at' recTrace 5).ret ≠ 0 ∧ (stepOut recTrace [] 5).idx = 7 := by
  refine ⟨?_, by decide, by decide⟩
  intro k h1 h2
  have h2' : k < 7 := by have : retPos recTrace 5 = 7 := by decide
                         omega
  have : k = 6 := by omega
  subst this; decide

/-! ## next -/

/-- before the activation of `i` returns, no DEEPER activation executes an instruction that carries a temporary -/
def NoReentryT (τ : Trace) (T : List Nat) (i : Nat) : Prop :=
  ∀ k, i < k → k < retPos τ i → (at' τ i).depth < (at' τ k).depth → ¬ T.contains (pcAt τ k)

/-- the property at full strength: the `continue` phase of `next` never stops inside a callee -/
def C03_next_not_in_callee_full : Prop :=
  ∀ (I : Info) (τ : Trace) (U : List Nat) (i f : Nat), RetDiscipline τ → i < τ.size → I.fn (pcAt τ i) = some f →
    (at' τ i).ret ≠ 0 → ¬ U.contains (at' τ i).ret →
    ¬ (contLand τ U (nextTemps I τ U f i) i < retPos τ i ∧
       (at' τ i).depth < (at' τ (contLand τ U (nextTemps I τ U f i) i)).depth)

theorem nextTemps_has_ret (I : Info) (τ : Trace) (U : List Nat) (f i : Nat) (hr : (at' τ i).ret ≠ 0)
    (hu : ¬ U.contains (at' τ i).ret) : (nextTemps I τ U f i).contains (at' τ i).ret = true := by
  unfold nextTemps
  simp only
  split
  · rename_i h
    simp only [Bool.or_eq_true, decide_eq_true_eq] at h
    rcases h with (h | h) | h
    · exact absurd h hr
    · exact absurd h hu
    · exact h
  · simp

theorem isEmpty_false_of_contains {l : List Nat} {a : Nat} (h : l.contains a = true) : l.isEmpty = false := by
  cases l with
  | nil => simp at h
  | cons _ _ => rfl

/-- **C03_next_not_in_callee_partial.**  When no deeper activation reaches a temporary of the command (no recursion into
the current function during the step), the `continue` phase of `next` stops no later than the first position after the
return of the current activation, and if it stops earlier, it stops in the current activation itself — never inside a
callee.  The command then lands there, or — when it stopped on the return address in the middle of a line — where a
`step` from there lands. -/
theorem C03_next_not_in_callee_partial (I : Info) (τ : Trace) (U : List Nat) (i f : Nat)
    (hret : RetDiscipline τ) (hi : i < τ.size) (hfn : I.fn (pcAt τ i) = some f)
    (hr : (at' τ i).ret ≠ 0) (hu : ¬ U.contains (at' τ i).ret)
    (hno : NoReentryT τ (nextTemps I τ U f i) i) :
    let j := contLand τ U (nextTemps I τ U f i) i
    i < j ∧ j ≤ retPos τ i ∧
    (j < retPos τ i → (at' τ j).depth = (at' τ i).depth) ∧
    ((stepOver I τ U i).idx = j ∨ (pcAt τ j = (at' τ i).ret ∧ (stepOver I τ U i).idx = stepIn I τ j)) := by
  intro j
  have hTr := nextTemps_has_ret I τ U f i hr hu
  have hne := isEmpty_false_of_contains hTr
  have hRle := retPos_le τ i hi
  have hRgt := retPos_gt τ i hi
  have hJle : j ≤ τ.size := contLand_le τ U _ i hi
  have hJgt : i < j := contLand_gt τ U _ i hi
  have hjR : j ≤ retPos τ i := by
    apply Nat.le_of_not_lt; intro hlt
    have := contLand_min τ U (nextTemps I τ U f i) i (retPos τ i) hRgt hlt
    rw [hne] at this
    simp only [Bool.false_eq_true, if_false] at this
    rw [hret i hi (by omega) hr, hTr] at this
    cases this
  refine ⟨hJgt, hjR, ?_, ?_⟩
  · intro hlt
    have hge := retPos_min τ i j hJgt hlt
    have hhit := contLand_hit τ U (nextTemps I τ U f i) i (by omega)
    rw [hne] at hhit
    simp only [Bool.false_eq_true, if_false] at hhit
    by_cases hd : (at' τ i).depth < (at' τ j).depth
    · exact absurd hhit (hno j hJgt hlt hd)
    · omega
  · -- the shape of `step_over_any`
    have hi1 : firstIdx (fun k => (I.fn (pcAt τ k)).isSome) τ.size i = i := by
      rw [firstIdx_unfold]; simp [hi, hfn]
    unfold stepOver
    simp only [hi1, hfn]
    show _ ∨ _
    have hr0 : (decide ((at' τ i).ret = 0) && decide (retPos τ i < contLand τ U (nextTemps I τ U f i) i)) = false := by
      simp [hr]
    simp only [hr0, Bool.false_eq_true, if_false]
    by_cases hex : τ.size ≤ contLand τ U (nextTemps I τ U f i) i
    · left; simp only [hex, if_true]; rfl
    · simp only [hex, if_false]
      by_cases hc : (decide (pcAt τ (contLand τ U (nextTemps I τ U f i) i) = (at' τ i).ret) &&
          midLine I τ (contLand τ U (nextTemps I τ U f i) i)) = true
      · right
        simp only [hc, if_true]
        simp only [Bool.and_eq_true, decide_eq_true_eq] at hc
        exact ⟨hc.1, rfl⟩
      · left; simp only [hc, Bool.false_eq_true, if_false]; rfl

/-- **C03_next_not_in_callee_counterexample.**  In a recursive function the statement-row temporaries are reached by the
deeper activation first: `next` from position 4 of `recTrace` (the line of the recursive call; statement row at the function's first instruction
0x10) stops at position 5, inside the callee. -/
theorem C03_next_not_in_callee_counterexample : ¬ C03_next_not_in_callee_full := by
  intro h
  let I : Info := { place := fun _ => none, exact := fun _ => none, fn := fun _ => some 0,
                    prolog := fun _ _ => false, stmts := fun _ => [0x10, 0x14, 0x15, 0x18] }
  have := h I recTrace [] 4 0 recTrace_retDiscipline (by decide) rfl (by decide) (by decide)
  revert this; decide

/-- **C03_next_stops_at_first_statement.**  `next` never passes a statement row of the function that the current
activation reaches: the `continue` phase stops no later than the first position, in the current activation or not,
whose address is a candidate statement row that is not already a user breakpoint. -/
theorem C03_next_stops_at_first_statement (I : Info) (τ : Trace) (U : List Nat) (i f k : Nat)
    (hik : i < k) (hk : (I.stmts f).contains (pcAt τ k) = true) (hku : U.contains (pcAt τ k) = false) :
    contLand τ U (nextTemps I τ U f i) i ≤ k := by
  apply Nat.le_of_not_lt; intro hlt
  have hin : (nextTemps I τ U f i).contains (pcAt τ k) = true := by
    have hfil : ((I.stmts f).filter (fun a => !U.contains a)).contains (pcAt τ k) = true := by
      have hk' : pcAt τ k ∈ I.stmts f := by simpa using hk
      have hu' : ¬ pcAt τ k ∈ U := by simpa using hku
      simpa using ⟨hk', hu'⟩
    unfold nextTemps
    simp only
    split
    · exact hfil
    · simp only [List.contains_iff_mem, List.mem_append] at hfil ⊢
      exact Or.inl hfil
  have := contLand_min τ U (nextTemps I τ U f i) i k hik hlt
  rw [isEmpty_false_of_contains hin] at this
  simp only [Bool.false_eq_true, if_false] at this
  rw [hin] at this; cases this

/-- the same statement without the side condition on user breakpoints -/
def C03_next_stops_at_first_statement_full : Prop :=
  ∀ (I : Info) (τ : Trace) (U : List Nat) (i f k : Nat), i < k → (I.stmts f).contains (pcAt τ k) = true →
    contLand τ U (nextTemps I τ U f i) i ≤ k

/-- straight-line function: statement rows at 0x10, 0x14, 0x18; called from 0x30 -/
def lineTrace : Trace := #[
  { pc := 0x10, depth := 1, cfa := 2, ret := 0x31 },
  { pc := 0x14, depth := 1, cfa := 2, ret := 0x31 },
  { pc := 0x18, depth := 1, cfa := 2, ret := 0x31 },
  { pc := 0x31, depth := 0, cfa := 1, ret := 0 } ]

/-- **C03_next_skips_user_breakpoint_counterexample.**  A user breakpoint on the next statement makes `next` run PAST that
statement: no temporary is placed where an enabled breakpoint already is, and while other temporaries exist the tracer
steps over user breakpoints silently.  `next` from position 0 with a user breakpoint at 0x14 lands at 0x18. -/
theorem C03_next_skips_user_breakpoint_counterexample : ¬ C03_next_stops_at_first_statement_full := by
  intro h
  let I : Info := { place := fun _ => none, exact := fun _ => none, fn := fun _ => some 0,
                    prolog := fun _ _ => false, stmts := fun _ => [0x10, 0x14, 0x18] }
  have := h I lineTrace [0x14] 0 0 1 (by decide) (by decide)
  revert this; decide

/-- the property at full strength for the case "the function returns first": `next` then stops in the caller, i.e. not in an
activation deeper than the one it returned to -/
def C03_next_after_return_full : Prop :=
  ∀ (I : Info) (τ : Trace) (U : List Nat) (i : Nat), i < τ.size → (stepOver I τ U i).idx < τ.size →
    retPos τ i ≤ (stepOver I τ U i).idx → (at' τ (stepOver I τ U i).idx).depth ≤ (at' τ (retPos τ i)).depth

/-- `g(); h()` on ONE line of the caller (0x30..0x3a, line 9): position 1 is the last line of `g` (0x10), its return address
0x35 lies in the middle of line 9, the next call enters `h` (0x20, line 5, no prologue) -/
def twoCallsTrace : Trace := #[
  { pc := 0x30, depth := 0, cfa := 1, ret := 0 },      -- call g
  { pc := 0x10, depth := 1, cfa := 2, ret := 0x35 },   -- g: last line   <- `next` from here
  { pc := 0x35, depth := 0, cfa := 1, ret := 0 },      -- back in the caller, mid-line: call h
  { pc := 0x20, depth := 1, cfa := 3, ret := 0x3a },   -- h: first line
  { pc := 0x3a, depth := 0, cfa := 1, ret := 0 } ]

def twoCallsInfo : Info where
  place pc := some { addr := if pc < 0x30 then pc else 0x30, path := 0, line := if pc < 0x18 then 3 else if pc < 0x30 then 5 else 9, stmt := true }
  exact pc := if pc = 0x35 || pc = 0x3a then none
              else some { addr := pc, path := 0, line := if pc < 0x18 then 3 else if pc < 0x30 then 5 else 9, stmt := true }
  fn pc := some (if pc < 0x18 then 1 else if pc < 0x30 then 2 else 0)
  prolog _ _ := false
  stmts f := if f = 1 then [0x10] else []

/-- **C03_next_after_return_counterexample.**  When `next` lands on the return address in the middle of a line of the
caller, `step_over_any` finishes with `step_in`, which enters the NEXT call of that line: the command ends inside a callee
of the caller (position 3, depth 1) instead of in the caller (depth 0). -/
theorem C03_next_after_return_counterexample : ¬ C03_next_after_return_full := by
  intro h
  have := h twoCallsInfo twoCallsTrace [] 1 (by decide) (by decide) (by decide)
  revert this; decide

/-- every statement row of the function's own file that is inside the function's ranges, outside the prologue and
outside inlined code gets a temporary -/
def C03_next_temps_cover_statements_full : Prop :=
  ∀ (f : FnRec) (pr : Rng) (r : Row), f.prolog = some pr → r ∈ f.rows.toList → r.stmt = true → some r.file = f.declFile →
    inRanges f.ranges r.addr = true → pr.contains r.addr = false → inRanges f.inl r.addr = false → r.es = false →
    r.addr ∈ f.stmts

/-! ## step -/

/-- **C03_step_lands_on_statement.**  Where `step` lands (when the program does not exit first) the pc is EXACTLY the
address of a statement row, and either the frame or the (file, line) differs from the place the step started from. -/
theorem C03_step_lands_on_statement (I : Info) (τ : Trace) (i : Nat) (hwf : PrologInFn I)
    (hl : stepIn I τ i < τ.size) :
    ∃ sp p, I.place (pcAt τ (startIdx I τ i)) = some sp ∧ startIdx I τ i < stepIn I τ i ∧
      I.exact (pcAt τ (stepIn I τ i)) = some p ∧ p.stmt = true ∧
      ((at' τ (stepIn I τ i)).cfa ≠ (at' τ (startIdx I τ i)).cfa ∨ ¬ (sp.path = p.path ∧ sp.line = p.line)) := by
  unfold stepIn at hl ⊢
  simp only at hl ⊢
  cases hsp : I.place (pcAt τ (startIdx I τ i)) with
  | none => simp [hsp] at hl
  | some sp =>
    simp only [hsp] at hl ⊢
    have ha : startIdx I τ i < τ.size := by
      apply Nat.lt_of_not_le; intro hge
      cases hf : τ.size - startIdx I τ i with
      | zero => rw [hf] at hl; simp [stepInLoop] at hl
      | succ n => omega
    obtain ⟨_, h2, _⟩ := stepInLoop_spec I τ sp (at' τ (startIdx I τ i)).cfa hwf _ _ ha (Nat.le_refl _)
    obtain ⟨hg, hgt⟩ := h2 hl
    unfold good at hg
    split at hg
    · cases hg
    · rename_i p hp
      refine ⟨sp, p, rfl, hgt, hp, ?_, ?_⟩
      · simp only [Bool.and_eq_true] at hg; exact hg.1
      · simp only [Bool.and_eq_true, Bool.or_eq_true, decide_eq_true_eq, Bool.not_eq_true', Bool.and_eq_false_iff,
          beq_eq_false_iff_ne] at hg
        rcases hg.2 with h | h | h
        · exact Or.inl h
        · exact Or.inr (fun hh => h hh.1)
        · exact Or.inr (fun hh => h hh.2)

/-- **C03_step_enters_first_line.**  `step` never passes the first line of a callee that has line information — nor any
other clean stop: every position `k` after the start at which the pc has a function, is outside that function's prologue,
is exactly the address of a statement row, and lies in ANOTHER frame (a callee's activation in particular) or on
another (file, line), is reached no later than `step` stops. -/
theorem C03_step_enters_first_line (I : Info) (τ : Trace) (i : Nat) (hwf : PrologInFn I) (sp : Place)
    (hsp : I.place (pcAt τ (startIdx I τ i)) = some sp) (k f : Nat) (p : Place)
    (hk : startIdx I τ i < k) (hkn : k < τ.size)
    (hfn : I.fn (pcAt τ k) = some f) (hpro : I.prolog f (pcAt τ k) = false)
    (hex : I.exact (pcAt τ k) = some p) (hstmt : p.stmt = true)
    (hother : (at' τ k).cfa ≠ (at' τ (startIdx I τ i)).cfa ∨ ¬ (sp.path = p.path ∧ sp.line = p.line)) :
    stepIn I τ i ≤ k := by
  apply Nat.le_of_not_lt; intro hlt
  unfold stepIn at hlt
  simp only [hsp] at hlt
  have ha : startIdx I τ i < τ.size := by omega
  obtain ⟨_, _, h3⟩ := stepInLoop_spec I τ sp (at' τ (startIdx I τ i)).cfa hwf _ _ ha (Nat.le_refl _)
  apply h3 k hk hlt
  refine ⟨f, hfn, hpro, ?_⟩
  unfold good
  rw [hex]
  simp only [hstmt, Bool.true_and, Bool.or_eq_true, decide_eq_true_eq, Bool.not_eq_true', Bool.and_eq_false_iff,
    beq_eq_false_iff_ne]
  rcases hother with h | h
  · exact Or.inl h
  · by_cases hp : sp.path = p.path
    · exact Or.inr (Or.inr (fun hl => h ⟨hp, hl⟩))
    · exact Or.inr (Or.inl hp)

/-- a caller line (0x30: `call`), a callee with prologue [0x10, 0x12) and first statement row at 0x12 -/
def callTrace : Trace := #[
  { pc := 0x30, depth := 0, cfa := 1, ret := 0 },
  { pc := 0x10, depth := 1, cfa := 2, ret := 0x31 },
  { pc := 0x12, depth := 1, cfa := 2, ret := 0x31 },
  { pc := 0x14, depth := 1, cfa := 2, ret := 0x31 } ]

def callInfo : Info where
  place pc := some { addr := pc, path := 0, line := if pc < 0x20 then 5 else 9, stmt := true }
  exact pc := some { addr := pc, path := 0, line := if pc < 0x20 then 5 else 9, stmt := true }
  fn pc := some (if pc < 0x20 then 1 else 0)
  prolog f pc := f == 1 && decide (0x10 ≤ pc) && decide (pc < 0x12)
  stmts _ := []

/-- non-vacuity: the callee's first line is a clean stop and `step` lands exactly there, skipping the prologue -/
example : PrologInFn callInfo ∧ stepIn callInfo callTrace 0 = 2 := by
  refine ⟨?_, by decide⟩
  intro f pc h
  simp only [callInfo, Bool.and_eq_true, beq_iff_eq, decide_eq_true_eq] at h
  obtain ⟨⟨hf, _⟩, h2⟩ := h
  simp only [callInfo]
  have : pc < 0x20 := by omega
  simp [this, hf]

/-! ## what is reported -/

/-- the report of a completed step command: `on_step(pc, place)` is fed from the exploration context, which every step
command refreshes from the real program counter before the hook runs (`ecx_update_location`) -/
structure Report where
  pc : Nat
  place : Option Place
deriving DecidableEq

def report (I : Info) (τ : Trace) (l : Nat) : Report := ⟨pcAt τ l, I.place (pcAt τ l)⟩

/-- **C03_reported_place_is_pc.**  For each of the three source-level steps the reported pc is the pc of the position
the model's machine is at, and the reported place is `find_place_from_pc` of exactly that pc — in particular the
place's row address is never above the pc when the lookup is the last row at or below it. -/
theorem C03_reported_place_is_pc (I : Info) (τ : Trace) (U : List Nat) (i : Nat) :
    (report I τ (stepIn I τ i)).pc = pcAt τ (stepIn I τ i) ∧
    (report I τ (stepOver I τ U i).idx).place = I.place (pcAt τ (stepOver I τ U i).idx) ∧
    (report I τ (stepOut τ U i).idx).place = I.place (pcAt τ (stepOut τ U i).idx) :=
  ⟨rfl, rfl, rfl⟩

/-- **C03_interrupt_reported.**  `finish` and the `continue` phase of `next` report a plain `done` ONLY when they stopped
on one of their own temporaries; a stop at a user breakpoint is reported as such (`brk`: `on_breakpoint` fires), the
end of the program as `exit`. -/
theorem C03_interrupt_reported (τ : Trace) (U T : List Nat) (i : Nat) (hi : i < τ.size) :
    let j := contLand τ U T i
    (contWhy τ T j = Why.done → j < τ.size ∧ T.contains (pcAt τ j) = true) ∧
    (contWhy τ T j = Why.exit ↔ τ.size ≤ j) ∧
    (∀ b, contWhy τ T j = Why.brk b → j < τ.size ∧ T = [] ∧ b = pcAt τ j ∧ U.contains b = true) := by
  intro j
  have hle := contLand_le τ U T i hi
  unfold contWhy
  refine ⟨?_, ?_, ?_⟩
  · intro h
    split at h
    · cases h
    · split at h
      · cases h
      · rename_i h1 h2
        have hj : j < τ.size := by omega
        have := contLand_hit τ U T i hj
        simp only [Bool.not_eq_true] at h2
        rw [h2] at this
        exact ⟨hj, this⟩
  · constructor
    · intro h
      split at h
      · assumption
      · split at h <;> cases h
    · intro h; simp [h]
  · intro b h
    split at h
    · cases h
    · split at h
      · rename_i h1 h2
        have hj : j < τ.size := by omega
        have := contLand_hit τ U T i hj
        rw [h2] at this
        simp only [if_true] at this
        cases h
        exact ⟨hj, List.isEmpty_iff.mp h2, rfl, this⟩
      · cases h

example : contWhy lineTrace [0x18] (contLand lineTrace [0x14] [0x18] 0) = Why.done := by decide
example : contWhy lineTrace [] (contLand lineTrace [0x14] [] 0) = Why.brk 0x14 := by decide

/-! ## sanity tests of the concrete lookups (tests, not theorems) -/

def testFn : FnRec :=
  { id := 1, ranges := [⟨0x10, 0x20⟩], declFile := some 1, inl := [⟨0x16, 0x18⟩],
    rows := #[ { addr := 0x10, file := 1, line := 3, col := 0, stmt := true, pe := false, eb := false, es := false },
               { addr := 0x12, file := 1, line := 4, col := 0, stmt := true, pe := true, eb := false, es := false },
               { addr := 0x14, file := 1, line := 5, col := 0, stmt := true, pe := false, eb := false, es := false },
               { addr := 0x16, file := 2, line := 9, col := 0, stmt := true, pe := false, eb := false, es := false },
               { addr := 0x18, file := 1, line := 6, col := 0, stmt := false, pe := false, eb := false, es := false },
               { addr := 0x1a, file := 1, line := 7, col := 0, stmt := true, pe := false, eb := true, es := false },
               { addr := 0x1c, file := 1, line := 7, col := 0, stmt := true, pe := false, eb := false, es := false },
               { addr := 0x20, file := 1, line := 7, col := 0, stmt := true, pe := false, eb := false, es := true } ],
    paths := [(1, 7), (2, 8)] }

#guard testFn.prolog == some ⟨0x10, 0x12⟩
#guard testFn.epilogBegin.map (·.addr) == some 0x1a
#guard testFn.stmts == [0x12, 0x14, 0x1a]      -- prologue row, other-file row, non-stmt row, row after the epilogue address: skipped
/-- **C03_next_temps_cover_statements_counterexample.**  The statement row at 0x1c lies inside the function, in its file,
outside prologue and inlined code — but its address is above the address of the `epilogue_begin` row, so
`step_over_any` skips it (`place.address > eb.address`): code placed after the exit block never gets a temporary. -/
theorem C03_next_temps_cover_statements_counterexample : ¬ C03_next_temps_cover_statements_full := by
  intro h
  have := h testFn ⟨0x10, 0x12⟩
    { addr := 0x1c, file := 1, line := 7, col := 0, stmt := true, pe := false, eb := false, es := false }
    (by decide) (by decide) rfl rfl (by decide) (by decide) (by decide) rfl
  revert this; decide

#guard (Info.ofFns #[testFn]).fn 0x15 == some 1
#guard ((Info.ofFns #[testFn]).place 0x15).map (·.line) == some 5
#guard ((Info.ofFns #[testFn]).exact 0x15).isNone

end BsVerif.Step
