/-!
Byte-granular text memory and the word-granular `PTRACE_PEEKTEXT` / `PTRACE_POKETEXT` view of it.

`Breakpoint::enable` reads the 8-byte word at the breakpoint address, keeps its low byte, and writes the
word back with the low byte replaced by `0xCC` (`(data & !0xff) | 0xCC`); `disable` writes it back with the
saved byte.  `poke_patch` shows that, on byte-granular memory, this read-modify-write changes exactly the byte at
the address and no neighbour — the fact the breakpoint model relies on (DESIGN 2.1/2.3).
-/
namespace BsVerif.Mem

abbrev Addr := Nat
abbrev Code := Addr → Nat          -- current first byte at an address; values are bytes (< 256)

def Code.set (c : Code) (a : Addr) (b : Nat) : Code := fun x => if x = a then b else c x

/-- little-endian 8-byte word at `a` -/
def peek (c : Code) (a : Addr) : Nat :=
  c a + 256 * c (a+1) + 65536 * c (a+2) + 16777216 * c (a+3) + 4294967296 * c (a+4)
    + 1099511627776 * c (a+5) + 281474976710656 * c (a+6) + 72057594037927936 * c (a+7)

/-- write the 8 bytes of `w` at `a` -/
def poke (c : Code) (a : Addr) (w : Nat) : Code := fun x =>
  if x = a then w % 256
  else if x = a+1 then w / 256 % 256
  else if x = a+2 then w / 65536 % 256
  else if x = a+3 then w / 16777216 % 256
  else if x = a+4 then w / 4294967296 % 256
  else if x = a+5 then w / 1099511627776 % 256
  else if x = a+6 then w / 281474976710656 % 256
  else if x = a+7 then w / 72057594037927936 % 256
  else c x

/-- `(data & !0xff) | b` for a byte `b`, on naturals -/
def replaceLow (w b : Nat) : Nat := w - w % 256 + b

def Bytes (c : Code) : Prop := ∀ a, c a < 256

theorem peek_low (c : Code) (a : Addr) (h : Bytes c) : peek c a % 256 = c a := by
  have := h a; unfold peek; omega

/-- the read-modify-write of `enable`/`disable` changes exactly one byte -/
theorem poke_patch (c : Code) (a : Addr) (b : Nat) (hb : b < 256) (h : Bytes c) :
    poke c a (replaceLow (peek c a) b) = c.set a b := by
  funext x
  have h0 := h a; have h1 := h (a+1); have h2 := h (a+2); have h3 := h (a+3)
  have h4 := h (a+4); have h5 := h (a+5); have h6 := h (a+6); have h7 := h (a+7)
  unfold poke Code.set replaceLow peek
  by_cases e0 : x = a
  · subst e0; simp; omega
  · simp only [e0, if_false]
    by_cases e1 : x = a+1
    · subst e1; simp; omega
    · simp only [e1, if_false]
      by_cases e2 : x = a+2
      · subst e2; simp; omega
      · simp only [e2, if_false]
        by_cases e3 : x = a+3
        · subst e3; simp; omega
        · simp only [e3, if_false]
          by_cases e4 : x = a+4
          · subst e4; simp; omega
          · simp only [e4, if_false]
            by_cases e5 : x = a+5
            · subst e5; simp; omega
            · simp only [e5, if_false]
              by_cases e6 : x = a+6
              · subst e6; simp; omega
              · simp only [e6, if_false]
                by_cases e7 : x = a+7
                · subst e7; simp; omega
                · simp [e7]

theorem set_bytes (c : Code) (a : Addr) (b : Nat) (hb : b < 256) (h : Bytes c) : Bytes (c.set a b) := by
  intro x; unfold Code.set; split
  · exact hb
  · exact h x

end BsVerif.Mem
