/-!
Line protocol helpers shared by the model driver (`bsmodel`).

A request is one line of space-separated tokens.  Strings travel as `x<hex of the UTF-8 bytes>`
(so the empty string is `x`), lists as comma-separated items inside one token (`-` = empty list),
naturals in decimal, integers with a leading `-` when negative.
No Mathlib here: this file is linked into the `bsmodel` executable.
-/
namespace BsVerif.Proto

def hexDigit? (c : Char) : Option Nat :=
  if '0' ≤ c ∧ c ≤ '9' then some (c.toNat - '0'.toNat)
  else if 'a' ≤ c ∧ c ≤ 'f' then some (c.toNat - 'a'.toNat + 10)
  else if 'A' ≤ c ∧ c ≤ 'F' then some (c.toNat - 'A'.toNat + 10)
  else none

def hexBytes? : List Char → Option (List UInt8)
  | [] => some []
  | [_] => none
  | a :: b :: rest =>
    match hexDigit? a, hexDigit? b, hexBytes? rest with
    | some x, some y, some r => some (UInt8.ofNat (x * 16 + y) :: r)
    | _, _, _ => none

/-- `x48656c` ↦ "Hel" -/
def decStr? (tok : String) : Option String :=
  match tok.toList with
  | 'x' :: rest =>
    match hexBytes? rest with
    | some bs => String.fromUTF8? (ByteArray.mk bs.toArray)
    | none => none
  | _ => none

def nibble (n : Nat) : Char :=
  if n < 10 then Char.ofNat ('0'.toNat + n) else Char.ofNat ('a'.toNat + (n - 10))

def encStr (s : String) : String :=
  String.ofList ('x' :: (s.toUTF8.toList.flatMap fun b => [nibble (b.toNat / 16), nibble (b.toNat % 16)]))

def decList? {α} (f : String → Option α) (tok : String) : Option (List α) :=
  if tok == "-" then some [] else (tok.splitOn ",").mapM f

def encList {α} (f : α → String) (xs : List α) : String :=
  if xs.isEmpty then "-" else ",".intercalate (xs.map f)

def decNat? (tok : String) : Option Nat := tok.toNat?
def decInt? (tok : String) : Option Int := tok.toInt?

def hexNat? (tok : String) : Option Nat :=
  let rec go : List Char → Nat → Option Nat
    | [], acc => some acc
    | c :: cs, acc => match hexDigit? c with
      | some d => go cs (acc * 16 + d)
      | none => none
  match tok.toList with
  | [] => none
  | cs => go cs 0

def tokens (line : String) : List String :=
  (line.trimAscii.toString.splitOn " ").filter (· ≠ "")

end BsVerif.Proto
