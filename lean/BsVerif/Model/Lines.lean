/-!
Model of the address <-> source lookups of BugStalker
(src/debugger/debugee/dwarf/unit/mod.rs, dwarf/mod.rs, dwarf/unit/die_ref.rs).

* `LineRow`s of a unit are kept in the order the implementation stores them: all rows of the
  unit's line program, `sort_by_key((address, !end_sequence))` (stable; repaired by a `fix:` commit: it was
  `sort_unstable_by_key(address)`); `end_sequence` rows are *kept* and come FIRST among rows of equal address.
  The lookups take the stored order as input (hook `verif_dump_units`); `storeRows` is the parser's sort.
* `binarySearch` is `core::slice::binary_search_by` of the pinned toolchain (1.89): the size-halving
  loop without early exit; among equal keys it returns the LAST one.
* Everything is total.  The one Rust panic that WAS reachable (`p -= 1` on `usize` 0 in
  `find_exact_place_by_pc`, with overflow checks on) has been repaired in the repository (`fix:` commit, see
  known_findings.txt); the model mirrors the repaired loop (`while p > 0 && ..`).  The outcome type `Res` and the
  `oc` parameter are kept so that a reintroduced panic shows up as a correspondence mismatch.

No Mathlib: this file is linked into `bsmodel`.
-/
namespace BsVerif.Lines

/-- a row of `BsUnit::lines` -/
structure Row where
  addr : Nat
  file : Nat
  line : Nat
  col  : Nat
  stmt : Bool
  pe   : Bool
  eb   : Bool
  es   : Bool
deriving Repr, DecidableEq, Inhabited

/-- `gimli::Range` -/
structure Rng where
  lo : Nat
  hi : Nat
deriving Repr, DecidableEq, Inhabited

/-- `GlobalAddress::in_range` -/
def Rng.contains (r : Rng) (pc : Nat) : Bool := decide (r.lo ≤ pc) && decide (pc < r.hi)

/-- `DieRange`: range + offset of the subprogram DIE -/
structure FnRange where
  lo  : Nat
  hi  : Nat
  die : Nat
deriving Repr, DecidableEq, Inhabited

/-- what `find_closest_place` needs of a function: the `Key { name, range }` -/
structure FnInfo where
  die    : Nat
  name   : Option Nat          -- id of the `DW_AT_name` string (equal ids ⇔ equal strings), none = no name
  ranges : List Rng            -- `die_ranges` in DWARF order
deriving Repr, DecidableEq, Inhabited

structure CUnit where
  ranges   : Array Rng     := #[]   -- sorted (unstably) by `begin`
  files    : Array Nat     := #[]   -- path id per file index
  rows     : Array Row     := #[]   -- stored order
  fnRanges : Array FnRange := #[]   -- sorted (unstably) by `begin`
  fns      : Array FnInfo  := #[]
deriving Repr, Inhabited

/-! ## the parser's sort of the line rows -/

/-- the order of `lines.sort_by_key(|x| (x.address, !x.end_sequence()))`: by address, end_sequence rows first -/
def rowLe (a b : Row) : Bool := decide (a.addr < b.addr) || (a.addr == b.addr && (a.es || !b.es))

/-- the rows of a unit as stored: the rows of its line program, in program order, sorted stably by `rowLe` -/
def storeRows (prog : List Row) : Array Row := (prog.mergeSort rowLe).toArray

/-! ## `core::slice::binary_search_by` -/

/-- the loop `while size > 1 { half = size/2; mid = base+half; base = if key[mid] > t {base} else {mid}; size -= half }`;
`key i` is the key of element `i`. Returns the final `base`. The first argument is fuel (`size` strictly decreases,
so `size` itself is enough fuel; structural recursion keeps the function evaluable by the kernel). -/
def bsLoop (key : Nat → Nat) (t : Nat) : Nat → Nat → Nat → Nat
  | 0, _, base => base
  | fuel + 1, size, base =>
    if 1 < size then
      let half := size / 2
      let mid := base + half
      bsLoop key t fuel (size - half) (if t < key mid then base else mid)
    else base

/-- `Result<usize, usize>` -/
inductive BS where
  | found (i : Nat)
  | notFound (i : Nat)
deriving Repr, DecidableEq

def binarySearch (key : Nat → Nat) (len t : Nat) : BS :=
  if len = 0 then .notFound 0
  else
    let base := bsLoop key t len len 0
    if key base = t then .found base
    else .notFound (base + (if key base < t then 1 else 0))

/-- key of element `i` of an array (0 outside; never consulted outside) -/
def keyOf {α} (a : Array α) (k : α → Nat) (i : Nat) : Nat :=
  match a[i]? with
  | some x => k x
  | none => 0

/-! ## unit-level lookups -/

/-- `find_place_by_idx` -/
def placeAt (rows : Array Row) (i : Nat) : Option (Nat × Row) :=
  match rows[i]? with
  | some r => some (i, r)
  | none => none

/-- the index `find_place_by_pc` looks at:
`binary_search_by_key(&pc, |l| l.address).unwrap_or_else(|p| p.saturating_sub(1))` -/
def pcPos (rows : Array Row) (pc : Nat) : Nat :=
  match binarySearch (keyOf rows (·.addr)) rows.size pc with
  | .found p => p
  | .notFound p => p - 1

/-- `BsUnit::find_place_by_pc` -/
def findPlaceByPc (rows : Array Row) (pc : Nat) : Option (Nat × Row) :=
  placeAt rows (pcPos rows pc)

/-- outcome of code that can panic -/
inductive Res (α : Type) where
  | ok (a : α)
  | panic
deriving Repr, DecidableEq

/-- the `while p > 0 && let Some(next_place) = find_place_by_idx(p - 1) && next_place.address == pc &&
!next_place.end_sequence { place = ..; p -= 1 }` loop of `find_exact_place_by_pc`; the first argument is the index
`p - 1` to look at next. `oc` = overflow checks on (no arithmetic can overflow any more; kept for the protocol). -/
def exactBack (rows : Array Row) (pc : Nat) (oc : Bool) : Nat → Nat × Row → Res (Option (Nat × Row))
  | 0, best =>
    match rows[0]? with
    | some r =>
      if r.addr = pc && !r.es then .ok (some (0, r))   -- index 0 reached: the loop stops (`while p > 0 && ..`)
      else .ok (some best)
    | none => .ok (some best)
  | p' + 1, best =>
    match rows[p' + 1]? with
    | some r => if r.addr = pc && !r.es then exactBack rows pc oc p' (p' + 1, r) else .ok (some best)
    | none => .ok (some best)

/-- `BsUnit::find_exact_place_by_pc` -/
def findExactPlaceByPc (rows : Array Row) (pc : Nat) (oc : Bool) : Res (Option (Nat × Row)) :=
  match binarySearch (keyOf rows (·.addr)) rows.size pc with
  | .found p =>
    match rows[p]? with
    | none => .ok none        -- unreachable: a found index is in range
    | some r =>
      match p with
      | 0 => .ok (some (0, r))       -- `while p > 0`: nothing before index 0
      | p' + 1 => exactBack rows pc oc p' (p' + 1, r)
  | .notFound _ => .ok none

/-! ## `DebugInformation`-level lookups -/

/-- the closure of `find_unit_by_pc`:
`match ranges.binary_search_by_key(&pc, |r| r.begin) { Ok(_) => true, Err(pos) => ranges[..pos].iter().rev().any(|r| pc.in_range(r)) }` -/
def anyBelow (ranges : Array Rng) (pc : Nat) : Nat → Bool
  | 0 => false
  | n + 1 =>
    match ranges[n]? with
    | some r => r.contains pc || anyBelow ranges pc n
    | none => anyBelow ranges pc n

def unitContains (ranges : Array Rng) (pc : Nat) : Bool :=
  match binarySearch (keyOf ranges (·.lo)) ranges.size pc with
  | .found _ => true
  | .notFound pos => anyBelow ranges pc pos

/-- `find_unit_by_pc`: the first unit (in registry order) whose ranges accept `pc` -/
def findUnitByPc (units : Array CUnit) (pc : Nat) : Option Nat :=
  units.toList.findIdx? (fun u => unitContains u.ranges pc)

/-- `find_place_from_pc` -/
def findPlaceFromPc (units : Array CUnit) (pc : Nat) : Option (Nat × Nat × Row) :=
  match findUnitByPc units pc with
  | none => none
  | some u =>
    match units[u]? with
    | none => none
    | some un => (findPlaceByPc un.rows pc).map (fun (i, r) => (u, i, r))

/-- `find_exact_place_from_pc` -/
def findExactPlaceFromPc (units : Array CUnit) (pc : Nat) (oc : Bool) : Res (Option (Nat × Nat × Row)) :=
  match findUnitByPc units pc with
  | none => .ok none
  | some u =>
    match units[u]? with
    | none => .ok none
    | some un =>
      match findExactPlaceByPc un.rows pc oc with
      | .panic => .panic
      | .ok o => .ok (o.map (fun (i, r) => (u, i, r)))

/-- the `while idx < len && die_ranges[idx].begin == pc { idx += 1 }` loop (fuel = elements left) -/
def skipEqual (fr : Array FnRange) (pc : Nat) : Nat → Nat → Nat
  | 0, idx => idx
  | fuel + 1, idx =>
    match fr[idx]? with
    | some dr => if dr.lo = pc then skipEqual fr pc fuel (idx + 1) else idx
    | none => idx

/-- index up to which `find_function_by_pc` scans backwards -/
def fnFindPos (fr : Array FnRange) (pc : Nat) : Nat :=
  match binarySearch (keyOf fr (·.lo)) fr.size pc with
  | .found pos => skipEqual fr pc (fr.size - (pos + 1)) (pos + 1)
  | .notFound pos => pos

/-- `die_ranges[..find_pos].iter().rev().find_map(..)`: the last range (in stored order) before `find_pos`
that belongs to an indexed function and contains `pc` -/
def fnScan (fr : Array FnRange) (hasInfo : Nat → Bool) (pc : Nat) : Nat → Option FnRange
  | 0 => none
  | n + 1 =>
    match fr[n]? with
    | some dr =>
      if hasInfo dr.die && decide (dr.lo ≤ pc) && decide (pc < dr.hi) then some dr
      else fnScan fr hasInfo pc n
    | none => fnScan fr hasInfo pc n

def CUnit.hasInfo (u : CUnit) (die : Nat) : Bool := u.fns.toList.any (·.die == die)
def CUnit.info? (u : CUnit) (die : Nat) : Option FnInfo := u.fns.toList.find? (·.die == die)

/-- `find_function_by_pc` inside the unit found by `find_unit_by_pc` -/
def findFunctionInUnit (u : CUnit) (pc : Nat) : Option FnRange :=
  fnScan u.fnRanges u.hasInfo pc (fnFindPos u.fnRanges pc)

/-- `DebugInformation::find_function_by_pc`: (unit index, DIE range) -/
def findFunctionByPc (units : Array CUnit) (pc : Nat) : Option (Nat × FnRange) :=
  match findUnitByPc units pc with
  | none => none
  | some u =>
    match units[u]? with
    | none => none
    | some un => (findFunctionInUnit un pc).map (fun dr => (u, dr))

/-! ## function breakpoints: `prolog_end_place` -/

/-- `start_instruction`: `ranges.iter().min_by(begin)` (first minimum) -/
def lowPc : List Rng → Option Nat
  | [] => none
  | r :: rest =>
    match lowPc rest with
    | none => some r.lo
    | some m => some (if r.lo ≤ m then r.lo else m)

/-- `end_instruction`: `ranges.iter().max_by(begin)` (last maximum) `.end` -/
def endPc : List Rng → Option Nat
  | [] => none
  | r :: rest => some (rest.foldl (fun (m : Rng) x => if m.lo ≤ x.lo then x else m) r).hi

/-- `GlobalAddress::in_ranges` -/
def inFnRanges (ranges : List Rng) (pc : Nat) : Bool := ranges.any (·.contains pc)

/-- the walk of `prolog_end_place` (repaired by a `fix:` commit; it used to walk to the first prologue_end row of the
UNIT): `while place.address < end { if place.prolog_end && !place.end_sequence && place.address.in_ranges(ranges)
{ return place }; match place.next() { None => break, Some(n) => place = n } }` from row `i`.
`none` = the loop ended without a place (the caller falls back to the start place). `fuel` = rows left. -/
def peWalkIn (rows : Array Row) (ranges : List Rng) (endA : Nat) : Nat → Nat → Option (Nat × Row)
  | 0, _ => none
  | fuel + 1, i =>
    match rows[i]? with
    | none => none
    | some r =>
      if r.addr < endA then
        if r.pe && !r.es && inFnRanges ranges r.addr then some (i, r)
        else peWalkIn rows ranges endA fuel (i + 1)
      else none

/-- `prolog_end_place` of the function whose DIE ranges are `ranges`: `none` = error (no ranges / no place) -/
def prologEndPlace (units : Array CUnit) (ranges : List Rng) : Option (Nat × Nat × Row) :=
  match lowPc ranges, endPc ranges with
  | some lo, some endA =>
    match findPlaceFromPc units lo with
    | none => none
    | some (u, i, r) =>
      match units[u]? with
      | none => none
      | some un =>
        match peWalkIn un.rows ranges endA (un.rows.size - i) i with
        | some (j, r') => some (u, j, r')
        | none => some (u, i, r)
  | _, _ => none

/-! ## line breakpoints: `find_closest_place` -/

/-- `file_path_with_lines_pairs`: indices of the rows of file `fidx`, ascending -/
def fileLinesGo (rows : Array Row) (fidx : Nat) : Nat → List Nat → List Nat
  | 0, acc => acc
  | n + 1, acc =>
    match rows[n]? with
    | some r => fileLinesGo rows fidx n (if r.file == fidx then n :: acc else acc)
    | none => fileLinesGo rows fidx n acc

def fileLines (rows : Array Row) (fidx : Nat) : Array Nat :=
  (fileLinesGo rows fidx rows.size []).toArray

/-- the look-ahead for a `prologue_end` sibling: starting at position `ahead` of `fl`, while rows are
is_stmt rows of `line`; returns `(line_idx, i)` updated when a PE row is met. `fuel` bounds the scan. -/
def peAhead (rows : Array Row) (fl : Array Nat) (line : Nat) : Nat → Nat → (Nat × Nat) → (Nat × Nat)
  | 0, _, cur => cur
  | fuel + 1, ahead, cur =>
    match fl[ahead]? with
    | none => cur
    | some ai =>
      match rows[ai]? with
      | none => cur
      | some lr =>
        if lr.line != line || !lr.stmt then cur
        else if lr.pe then (ai, ahead)
        else peAhead rows fl line fuel (ahead + 1) cur

/-- the look-ahead as `find_closest_place` runs it from the starting row `r` (repaired by a `fix:` commit: it used to look
ahead even when `r` itself is a prologue_end row, and then jumped over it): nothing to look for when `r.pe`. -/
def peAheadFrom (rows : Array Row) (fl : Array Nat) (r : Row) (fuel ahead : Nat) (cur : Nat × Nat) : Nat × Nat :=
  if r.pe then cur else peAhead rows fl r.line fuel ahead cur

/-- the `while i < file_lines.len()` loop of one (unit, file); `acc` = `suitable_places_in_unit`
as (row index, row); `fuel` bounds the number of iterations. -/
def suitableLoop (rows : Array Row) (fl : Array Nat) (needle : Nat) :
    Nat → Nat → List (Nat × Row) → List (Nat × Row)
  | 0, _, acc => acc
  | fuel + 1, i, acc =>
    match fl[i]? with
    | none => acc
    | some lineIdx =>
      match rows[lineIdx]? with
      | none => acc
      | some r =>
        match acc with
        | [] =>
          if r.line != needle || !r.stmt then suitableLoop rows fl needle fuel (i + 1) acc
          else
            let (li, i') := peAheadFrom rows fl r (fl.size - i) (i + 1) (lineIdx, i)
            match rows[li]? with
            | some r' => suitableLoop rows fl needle fuel (i' + 1) [(li, r')]
            | none => suitableLoop rows fl needle fuel (i' + 1) acc
        | (_, first) :: _ =>
          if r.line != first.line || r.col != first.col || r.pe != first.pe || r.eb != first.eb
              || r.es != first.es || !r.stmt then
            suitableLoop rows fl needle fuel (i + 1) acc
          else suitableLoop rows fl needle fuel (i + 1) (acc ++ [(lineIdx, r)])

def suitablePlaces (rows : Array Row) (fl : Array Nat) (needle : Nat) : List (Nat × Row) :=
  suitableLoop rows fl needle fl.size 0 []

/-- `Key { name, range }` of the dedup set -/
abbrev Key := Option Nat × List Rng

/-- `Key` of the function found at `pc` (none = no function) -/
def keyAt (units : Array CUnit) (pc : Nat) : Option Key :=
  match findFunctionByPc units pc with
  | none => none
  | some (u, dr) =>
    match units[u]? with
    | none => none
    | some un =>
      match un.info? dr.die with
      | none => none
      | some fi => some (fi.name, fi.ranges)

/-- the `for suitable_place in suitable_places_in_unit` filter: one place per distinct subprogram key -/
def dedup (units : Array CUnit) (u : Nat) :
    List (Nat × Row) → List Key → List (Nat × Nat × Row) → List Key × List (Nat × Nat × Row)
  | [], seen, res => (seen, res)
  | (i, r) :: rest, seen, res =>
    match keyAt units r.addr with
    | some k =>
      if seen.contains k then dedup units u rest seen res
      else dedup units u rest (seen ++ [k]) (res ++ [(u, i, r)])
    | none => dedup units u rest seen (res ++ [(u, i, r)])

/-- the (unit, file index) pairs `files_index.get(path)` yields for a full path: registry order, then file
index order, files without rows skipped (`file_path_with_lines_pairs`). -/
def filesOf (units : Array CUnit) (path : Nat) : List (Nat × Array Nat) :=
  (List.range units.size).flatMap fun u =>
    match units[u]? with
    | none => []
    | some un =>
      (List.range un.files.size).filterMap fun f =>
        if un.files[f]? == some path then
          let fl := fileLines un.rows f
          if fl.isEmpty then none else some (u, fl)
        else none

/-- one `needle_line` pass over all matching files -/
def closestPass (units : Array CUnit) (needle : Nat) :
    List (Nat × Array Nat) → List Key → List (Nat × Nat × Row) → List Key × List (Nat × Nat × Row)
  | [], seen, res => (seen, res)
  | (u, fl) :: rest, seen, res =>
    match units[u]? with
    | none => closestPass units needle rest seen res
    | some un =>
      let (seen', res') := dedup units u (suitablePlaces un.rows fl needle) seen res
      closestPass units needle rest seen' res'

/-- `find_closest_place(path, line)`: `line`, then `line + 1` if nothing was found -/
def findClosestPlace (units : Array CUnit) (path : Nat) (line : Nat) : List (Nat × Nat × Row) :=
  let files := filesOf units path
  let (seen, res) := closestPass units line files [] []
  if !res.isEmpty then res
  else (closestPass units (line + 1) files seen res).2

/-- `find_places_in_line_range(path, a, b)`: all is_stmt rows of the lines that do not end a sequence (repaired by a
`fix:` commit: end_sequence rows were listed), first per (address, line, column) -/
def findPlacesInLineRange (units : Array CUnit) (path : Nat) (a b : Nat) : List (Nat × Nat × Row) :=
  let lo := if a ≤ b then a else b
  let hi := if a ≤ b then b else a
  let step := fun (acc : List (Nat × Nat × Nat) × List (Nat × Nat × Row)) (p : Nat × Nat × Row) =>
    let key := (p.2.2.addr, p.2.2.line, p.2.2.col)
    if acc.1.contains key then acc else (key :: acc.1, acc.2 ++ [p])
  let cands : List (Nat × Nat × Row) := (filesOf units path).flatMap fun (u, fl) =>
    match units[u]? with
    | none => []
    | some un => fl.toList.filterMap fun i =>
        match un.rows[i]? with
        | some r => if r.stmt && !r.es && decide (lo ≤ r.line) && decide (r.line ≤ hi) then some (u, i, r) else none
        | none => none
  (cands.foldl step ([], [])).2

end BsVerif.Lines
