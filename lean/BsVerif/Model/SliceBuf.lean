/-!
Model of the slice / index arithmetic of DQE evaluation (`src/debugger/variable/value/mod.rs`:
`ArrayValue::slice`, `Value::index`, `PointerValue::slice`, and `read_memory_by_pid`'s buffer reservation in
`src/debugger/mod.rs`) and of the buffer reads of the value decoders (`scalar_from_bytes` in
`value/parser.rs`, `StructureMember::value` in `debugee/dwarf/type.rs`), with Rust's fault outcomes explicit.

`usize` arithmetic is modelled on `Nat` with explicit range checks (overflow checks on: dev/test profile).
Core Lean only (linked into `bsmodel`).
-/
namespace BsVerif.SliceBuf

/-- what an out-of-range request ran into BEFORE the repairs (BugStalker ccf13b4, d97590b, 939acb3); in the code as it
is each of these tests exists explicitly and yields "no result" -/
inductive Fault
  | sub         -- `right < left`: `right.checked_sub(left)?` / the guard of `ArrayValue::slice`   (was: `right - left` overflow)
  | drainLeft   -- `left > items.len()`: the guard of `ArrayValue::slice`          (was: `items.drain(..left)` out of range)
  | drainRight  -- `items.drain(start..)`, start > len (unreachable while the guard `remove_range.start < items.len()` is there)
  | mul         -- `deref_size.checked_mul(left)?`, `deref_size.checked_mul(len)?`  (was: unchecked `*`)
  | add         -- `(ptr as usize).checked_add(..)?`                                (was: unchecked `+`)
  | cap         -- `try_reserve_exact(read_n)`, read_n > isize::MAX: `CapacityOverflow` -> ENOMEM  (was: `Vec::with_capacity` "capacity overflow")
  | chunk0      -- `deref_size == 0`: nothing to split into items                   (was: `raw_data.chunks(0)` panic)
  | allocAbort  -- the allocation fails: `try_reserve_exact` -> ENOMEM              (was: `handle_alloc_error` aborts the process)
  deriving Repr, DecidableEq

def Fault.name : Fault → String
  | .sub => "sub" | .drainLeft => "drain-left" | .drainRight => "drain-right" | .mul => "mul" | .add => "add"
  | .cap => "cap" | .chunk0 => "chunk0" | .allocAbort => "abort"

inductive Out (α : Type)
  | ok (v : α)
  | err                 -- `None` / `Err(_)`: an error message, the session goes on
  | panic (f : Fault)   -- the debugger process panics (or aborts)
  deriving Repr, DecidableEq

def Out.isPanic {α} : Out α → Bool
  | .panic _ => true
  | _ => false

/-- `checked = true` (the code as it is): bounds are validated, arithmetic is checked, the read buffer is reserved
fallibly; an out-of-range request is "no result" (`None` / `Err`).  `checked = false`: the code as it was found, each
fault a panic / abort; kept only so that the regression stays expressible. -/
structure Quirks where
  checked : Bool := true
  deriving Repr, DecidableEq

/-- the code as it is -/
def current : Quirks := {}
def repaired : Quirks := { checked := true }
/-- the code before the repair -/
def asFound : Quirks := { checked := false }

def fault {α} (q : Quirks) (f : Fault) : Out α := if q.checked then .err else .panic f

/-- `ArrayValue::slice(left, right)` on the item vector: `None` when `left > len` or `right < left`
(one guard in the code; which of the two is tested first is immaterial), else `drain(..left)` and, when
`right - left < remaining`, `drain(right - left..)`. -/
def arraySlice {α} (q : Quirks) (items : List α) (left right : Option Nat) : Out (List α) :=
  let l := left.getD 0
  if l > items.length then fault q .drainLeft
  else
    let rest := items.drop l
    match right with
    | none => .ok rest
    | some r =>
      if r < l then fault q .sub
      else if r - l < rest.length then .ok (rest.take (r - l))   -- guard `remove_range.start < items.len()`, `drain(start..)`
      else .ok rest

/-- `*idx as usize` for `idx : i64`, then `idx < items.len()`; `some i` = element `i` is taken (`swap_remove(i)`). -/
def arrayIndex (len : Nat) (idx : Int) : Option Nat :=
  let u := (idx % (2 ^ 64 : Int)).toNat
  if u < len then some u else none

/-- what `PointerValue::slice` asks of the debuggee: one read of `cnt` bytes at `base`, cut into `n` items -/
structure PtrRead where
  base : Nat
  cnt : Nat
  items : Nat
  deriving Repr, DecidableEq

/-- `PointerValue::slice(left, right)` for a pointer `ptr` to elements of `es` bytes, up to the memory read, in the
order of the code: `deref_size == 0`, `right.checked_sub(left)`, `deref_size.checked_mul(left)`,
`ptr.checked_add(..)`, `deref_size.checked_mul(len)`, then `read_memory_by_pid`'s `try_reserve_exact(cnt)`
(`CapacityOverflow` above `isize::MAX`, `AllocError` when the allocator refuses).
`allocMax`: the largest byte count the allocator can satisfy (environment; certainly < 2^47 on x86-64 Linux). -/
def ptrSlice (q : Quirks) (allocMax ptr es : Nat) (left : Option Nat) (right : Nat) : Out PtrRead :=
  let l := left.getD 0
  if es = 0 then fault q .chunk0
  else if right < l then fault q .sub
  else if es * l ≥ 2 ^ 64 then fault q .mul
  else if ptr + es * l ≥ 2 ^ 64 then fault q .add
  else if es * (right - l) ≥ 2 ^ 64 then fault q .mul
  else
    let cnt := es * (right - l)
    if cnt ≥ 2 ^ 63 then fault q .cap
    else if cnt > allocMax then fault q .allocAbort
    else .ok { base := ptr + es * l, cnt := cnt, items := right - l }

/-! ## decoder reads -/

inductive Enc
  | address | signedChar | unsignedChar | signed | unsigned | float | boolean | utf | ascii | other
  deriving Repr, DecidableEq

/-- number of bytes `scalar_from_bytes::<T>` reads for a base type (`parse_scalar`): `T` is chosen from the DWARF
encoding, and from `byte_size` only for signed / unsigned / float.  `none`: nothing is read. -/
def scalarReadWidth : Enc → Nat → Option Nat
  | .address, _ => some 8          -- usize
  | .signedChar, _ => some 1
  | .unsignedChar, _ => some 1
  | .signed, s => if s = 1 ∨ s = 2 ∨ s = 4 ∨ s = 8 ∨ s = 16 then some s else none
  | .unsigned, s => if s = 1 ∨ s = 2 ∨ s = 4 ∨ s = 8 ∨ s = 16 then some s else none
  | .float, s => if s = 4 ∨ s = 8 then some s else none
  | .boolean, _ => some 1
  | .utf, _ => some 4              -- char
  | .ascii, _ => some 4            -- char
  | .other, _ => none

/-- a read of `need` bytes at byte offset `off` of a buffer of `buf` bytes -/
structure Read where
  buf : Nat
  off : Int
  need : Nat
  deriving Repr, DecidableEq

def Read.inBounds (r : Read) : Bool := 0 ≤ r.off && r.off + r.need ≤ r.buf

/-- `scalar_from_bytes` on a fetched buffer of `buf` bytes (`read_unaligned` at offset 0, no length check) -/
def scalarRead (buf : Nat) (e : Enc) (byteSize : Nat) : Option Read :=
  (scalarReadWidth e byteSize).map fun w => { buf := buf, off := 0, need := w }

/-- a structure member as `StructureMember::value` sees it: `DW_AT_data_member_location` and the member type's size -/
structure Member where
  off : Int
  size : Nat
  deriving Repr, DecidableEq

/-- `StructureMember::value`: `from_raw_parts(base + offset, type_size)` on the parent's buffer, unchecked.
The member's own buffer is a copy of exactly `size` bytes (`Bytes::from(slice)`). -/
def memberRead (buf : Nat) (m : Member) : Read := { buf := buf, off := m.off, need := m.size }
def memberBufLen (m : Member) : Nat := m.size

/-- DWARF-level consistency of a structure layout: every member lies inside the structure's `byte_size` -/
def structWF (size : Nat) (ms : List Member) : Bool := ms.all fun m => 0 ≤ m.off && m.off + m.size ≤ size

/-- consistency of a base type: what the decoder reads for the encoding fits the declared `byte_size` -/
def scalarWF (e : Enc) (byteSize : Nat) : Bool :=
  match scalarReadWidth e byteSize with
  | some w => w ≤ byteSize
  | none => true

end BsVerif.SliceBuf
