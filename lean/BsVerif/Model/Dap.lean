/-!
# Model of the DAP adapter (`src/dap/yadap/session/{mod,control,init,frame,data,breakpoint}.rs`)

Two models, both executable, core Lean only (linked into `bsmodel`).

* **Writer model** (`Dap.Writer`): the three threads that write to the transport — the session
  thread (id 0), the stdout forwarder (1) and the stderr forwarder (2) — each performing the two
  atomic steps the code performs for every message: *lock the transport and allocate* a sequence
  number (`next_seq(server_seq, locked transport)`: `send_response_raw`, `send_event_raw` and the
  forwarder loop take it **while they hold** `io.lock()`), then *write and unlock*.  A schedule is a
  list of writer ids; a writer's steps alternate allocate / write; a writer scheduled while another
  one holds the lock is blocked (its step does nothing).
* **Session model** (`Dap.Session`): the internal event queue, `drain_events` (lifecycle dominance,
  `terminated` latch, `emit_process_end`) and the per-command handler skeletons of `dispatch` —
  the order of {validate arguments, fallible debugger call, send response, enqueue events, drain} —
  with the rule of `run`: *handler returns `Err` ⇒ an error response is sent and the loop continues*.

What the debuggee does (stops, exits, how many threads appear) is not known to the adapter model; it
enters as `Hint`s of a request (DESIGN 1.2.3: "with the debugger outcomes it observed").
-/
namespace BsVerif.Dap

/-! ## Writer model -/
namespace Writer

/-- what a writer puts on the wire: its id, the sequence number it carries, a label -/
structure WMsg where
  writer : Nat
  seq : Nat
  label : Nat := 0
  deriving Repr, DecidableEq

/-- shared state: the atomic counter (`server_seq`, starts at 1), who holds the transport lock
together with the number it took under it (not yet written), and the wire (in write order) -/
structure St where
  next : Nat := 1
  holder : Option (Nat × Nat) := none
  wire : List WMsg := []

/-- one atomic step of writer `w`: lock + allocate if the transport is free; write + unlock if `w`
holds the lock; blocked (nothing happens) while another writer holds it.  (As found, the number was
taken BEFORE the lock: writer 1 allocates 1, writer 0 allocates 2 and writes, writer 1 writes — the
wire read `2,1`; `corpus/C12/forwarder-late.req` forces that schedule and must no longer reorder.) -/
def step (s : St) (w : Nat) : St :=
  match s.holder with
  | none => { s with next := s.next + 1, holder := some (w, s.next) }
  | some (v, n) =>
    if v = w then { s with holder := none, wire := s.wire ++ [{ writer := w, seq := n }] } else s

def run (sched : List Nat) : St := sched.foldl step {}

/-- the sequence numbers in wire order -/
def wireSeqs (sched : List Nat) : List Nat := (run sched).wire.map (·.seq)

/-- `[a, a+1, …, a+n-1]` -/
def iota (a : Nat) : Nat → List Nat
  | 0 => []
  | n + 1 => a :: iota (a + 1) n

/-! ### The `terminated` latch shared with the forwarders

`DebugSession::terminated` is an `Arc<AtomicBool>` shared with both forwarder threads.  The session sets
it (no lock needed) BEFORE it writes `terminated`; a forwarder looks at it AFTER it has locked the
transport and writes nothing when it is set (`spawn_output_forwarder`).  Steps of this model: -/

inductive LAct
  | lock (w : Nat)     -- writer `w` locks the transport (a forwarder then reads the latch)
  | write (w : Nat)    -- writer `w`, holding the lock, writes its message (if it decided to) and unlocks
  | setLatch           -- the session stores `true` into the latch
  deriving Repr, DecidableEq

/-- `holder`: who holds the transport lock and whether it is going to write; `wire`: the writer of each
message together with the value of the latch when a SESSION message was written (`(0, true)` = a session
message written after the latch was set, e.g. `terminated` itself) -/
structure LSt where
  latch : Bool := false
  holder : Option (Nat × Bool) := none
  wire : List (Nat × Bool) := []

def lstep (s : LSt) : LAct → LSt
  | .setLatch => { s with latch := true }
  | .lock w =>
    match s.holder with
    | none => { s with holder := some (w, w = 0 || !s.latch) }   -- the session always writes
    | some _ => s                                                -- blocked
  | .write w =>
    match s.holder with
    | some (v, go) =>
      if v = w then
        { s with holder := none, wire := if go then s.wire ++ [(w, w = 0 && s.latch)] else s.wire }
      else s
    | none => s

def lrun (acts : List LAct) : LSt := acts.foldl lstep {}

/-- nothing but session messages after a session message that was written with the latch set -/
def quietAfterLatched : List (Nat × Bool) → Bool
  | [] => true
  | (w, l) :: rest => if w = 0 && l then rest.all (fun m => m.1 = 0) else quietAfterLatched rest

end Writer

/-! ## Session model -/

inductive Cmd
  | initialize | launch | setBreakpoints | configurationDone | threads | stackTrace | scopes
  | variables | continue_ | next | stepIn | stepOut | pause | evaluate | disconnect | terminate
  | terminateThreads | frobnicate
  deriving Repr, DecidableEq

/-- the protocol name of a command (`frobnicate` stands for any command `dispatch` does not know) -/
def cmdName : Cmd → String
  | .initialize => "initialize" | .launch => "launch" | .setBreakpoints => "setBreakpoints"
  | .configurationDone => "configurationDone" | .threads => "threads" | .stackTrace => "stackTrace"
  | .scopes => "scopes" | .variables => "variables" | .continue_ => "continue" | .next => "next"
  | .stepIn => "stepIn" | .stepOut => "stepOut" | .pause => "pause" | .evaluate => "evaluate"
  | .disconnect => "disconnect" | .terminate => "terminate" | .terminateThreads => "terminateThreads"
  | .frobnicate => "frobnicate"

def allCmds : List Cmd :=
  [.initialize, .launch, .setBreakpoints, .configurationDone, .threads, .stackTrace, .scopes, .variables,
   .continue_, .next, .stepIn, .stepOut, .pause, .evaluate, .disconnect, .terminate, .terminateThreads, .frobnicate]

/-- argument mutation of a request (see harness `build_args`) -/
inductive Mut
  | valid | missing | illtyped | noargs | nofile
  deriving Repr, DecidableEq

/-- `debugger: Option<Debugger>` together with the debugger's `ExecutionStatus` -/
inductive Dbg
  | none | unload | inProgress | exited
  deriving Repr, DecidableEq

/-- what the debuggee did during a fallible debugger call (observed, not predicted) -/
inductive Outcome
  | stop (reason : String) | exit | none
  deriving Repr, DecidableEq

structure Hint where
  outcome : Outcome := .none
  threadsStarted : Nat := 0
  threadsExited : Nat := 0
  evalOk : Bool := false
  deriving Repr

/-- events the session puts into its queue and `send_events` forwards unchanged (bodies dropped;
progress events are canonicalised away by the harness and not modelled) -/
inductive QEv
  | capabilities | process | moduleNew | sourceNew | threadStarted | threadExited
  | stopped (reason : String) | continued | bpChanged | bpRemoved
  deriving Repr, DecidableEq

/-- events as they appear on the wire -/
inductive Ev
  | q (e : QEv)          -- from the queue
  | initialized          -- `InternalEvent::Initialized`, queued by `handle_initialize`
  | moduleRemoved | sourceRemoved | threadExitedAtEnd   -- `emit_process_end` (direct sends inside `drain_events`)
  | exited | terminated  -- lifecycle, only from `drain_events`
  deriving Repr, DecidableEq

/-- `InternalEvent` (the queue) -/
inductive IEv
  | ev (e : QEv)
  | initialized
  | exited
  | terminated
  deriving Repr, DecidableEq

inductive Msg
  | resp (cmd : Cmd) (ok : Bool) (rseq : Nat)
  | event (e : Ev)
  | sessionEnd            -- `run` returned `Ok(())`: the adapter closes the session
  deriving Repr, DecidableEq

structure Req where
  seq : Nat
  cmd : Cmd
  mutn : Mut
  param : Nat := 0
  deriving Repr

structure Sess where
  dbg : Dbg := .none
  terminated : Bool := false
  queue : List IEv := []
  moduleInfo : Bool := false
  bpRecords : Nat := 0
  alive : Bool := true
  deriving Repr

/-- `emit_process_end`: `module`/`loadedSource` removed if `module_info` is set (taken), then one
`thread exited` per cached thread (count observed) -/
def processEndMsgs (moduleInfo : Bool) (nThreads : Nat) : List Msg :=
  (if moduleInfo then [Msg.event .moduleRemoved, Msg.event .sourceRemoved] else [])
    ++ List.replicate nThreads (Msg.event .threadExitedAtEnd)

def IEv.isExited : IEv → Bool | .exited => true | _ => false
def IEv.isTerminated : IEv → Bool | .terminated => true | _ => false

/-- `send_events(|_| true, ..)` over a batch (lifecycle entries are skipped there) -/
def sendAll : List IEv → List Msg
  | [] => []
  | .ev e :: r => Msg.event (.q e) :: sendAll r
  | .initialized :: r => Msg.event .initialized :: sendAll r
  | _ :: r => sendAll r

/-- `drain_events`.  `nThreads` = size of `thread_cache` when the process ends (observed).
In the lifecycle branches only `Output` events of the batch are sent; the modelled handlers never queue
`Output`, so nothing of the batch survives. -/
def drain (s : Sess) (nThreads : Nat) : Sess × List Msg :=
  let q := s.queue
  let s := { s with queue := [] }
  if s.terminated then (s, [])
  else if q.any IEv.isExited then
    ({ s with terminated := true, moduleInfo := false },
     processEndMsgs s.moduleInfo nThreads ++ [Msg.event .exited, Msg.event .terminated])
  else if q.any IEv.isTerminated then
    ({ s with terminated := true, moduleInfo := false },
     processEndMsgs s.moduleInfo nThreads ++ [Msg.event .terminated])
  else (s, sendAll q)

/-- the atomic actions a handler is made of: its *skeleton* is a list of these -/
inductive Act
  | respond (ok : Bool)      -- `send_response_raw` for the request being handled
  | enq (es : List IEv)      -- `enqueue_event` (several)
  | drain (nThreads : Nat)   -- `drain_events()`
  | setDbg (d : Dbg)         -- the debugger appears / changes execution status / is dropped
  | setModuleInfo            -- `emit_process_start` records `module_info`
  | setBp (k : Nat)          -- breakpoint records of the source
  | resetLatch               -- `self.terminated = false` (`handle_launch`)
  | endSession               -- `run` leaves its loop
  deriving Repr

def execAct (r : Req) (s : Sess) : Act → Sess × List Msg
  | .respond ok => (s, [.resp r.cmd ok r.seq])
  | .enq es => ({ s with queue := s.queue ++ es }, [])
  | .drain n => drain s n
  | .setDbg d => ({ s with dbg := d }, [])
  | .setModuleInfo => ({ s with moduleInfo := true }, [])
  | .setBp k => ({ s with bpRecords := k }, [])
  | .resetLatch => ({ s with terminated := false }, [])
  | .endSession => ({ s with alive := false }, [.sessionEnd])

def exec (r : Req) : Sess → List Act → Sess × List Msg
  | s, [] => (s, [])
  | s, a :: rest =>
    let (s1, o1) := execAct r s a
    let (s2, o2) := exec r s1 rest
    (s2, o1 ++ o2)

/-- result of a handler: `Ok(true)`-continue, `Err(_)`, or `Ok(false)` (disconnect / terminate) -/
inductive HRes | ok | err | stop
  deriving Repr, DecidableEq

/-- commands whose required argument is absent under the mutation (handler returns `Err` in its
argument validation) -/
def badArgs (c : Cmd) (m : Mut) : Bool :=
  match c with
  | .launch | .setBreakpoints | .stackTrace | .scopes | .variables | .evaluate =>
    m == .missing || m == .illtyped || m == .noargs
  | .terminateThreads => m == .illtyped || m == .noargs
  | _ => false

/-- thread refresh (`refresh_threads_with_events`): started events, then exited events -/
def threadEvents (h : Hint) : List IEv :=
  List.replicate h.threadsStarted (.ev .threadStarted) ++ List.replicate h.threadsExited (.ev .threadExited)

/-- `emit_stop_reason` after the filters: exit → queue `Exited`, drain; stop → refresh threads, queue
`Stopped`, drain -/
def emitStop (h : Hint) : List Act :=
  match h.outcome with
  | .exit => [.setDbg .exited, .enq [.exited], .drain h.threadsExited]
  | .stop r => [.setDbg .inProgress, .enq (threadEvents h ++ [.ev (.stopped r)]), .drain 0]
  | .none => []

/-- `terminate_debuggee(); drain_events()` -/
def terminateDebuggee (h : Hint) : List Act :=
  [.setDbg .none, .enq [.terminated], .drain h.threadsExited]

/-- shared skeleton of `next`, `stepIn`, `stepOut` -/
def stepPlan (dbg : Dbg) (h : Hint) : List Act × HRes :=
  match dbg with
  | .none => ([], .err)                                   -- `ok_or_else(..)?`
  | .unload | .exited => ([.respond false], .ok)          -- `Err(e) => send_err(..)`
  | .inProgress =>
    match h.outcome with
    | .stop _ => ([.enq [.ev .continued], .respond true, .enq [.ev (.stopped "step")], .drain 0], .ok)
    | .exit => ([.setDbg .exited, .enq [.ev .continued], .respond true, .enq [.exited], .drain h.threadsExited], .ok)
    | .none => ([.respond false], .ok)

/-- `dispatch`: the handler skeletons — for each command the order of {validate arguments, fallible
debugger call, send response, enqueue events, drain} as a list of actions, and the handler's result.
Control flow depends on the session only through `dbg` and the number of breakpoint records. -/
def plan (dbg : Dbg) (bpRecords : Nat) (r : Req) (h : Hint) : List Act × HRes :=
  match r.cmd with
  | .initialize => ([.respond true, .enq [.initialized], .drain 0], .ok)   -- queued: behind the latch
  | .launch =>
    if badArgs r.cmd r.mutn then ([], .err)
    else if r.mutn == .nofile then
      ([.resetLatch, .enq [.ev .capabilities], .drain 0], .err)        -- `build_debugger(..)?`
    else
      ([.resetLatch, .enq [.ev .capabilities], .drain 0, .setDbg .unload, .setModuleInfo,
        .enq [.ev .process, .ev .moduleNew, .ev .sourceNew], .respond true, .drain 0], .ok)
  | .setBreakpoints =>
    if badArgs r.cmd r.mutn then ([], .err)
    else if dbg == .none then ([.setBp 0], .err)                   -- `breakpoints_by_source.remove(..)` then `?`
    else
      let k := min r.param 3
      ([.setBp k, .enq (List.replicate bpRecords (.ev .bpRemoved) ++ List.replicate k (.ev .bpChanged)),
        .respond true, .drain 0], .ok)
  | .configurationDone =>
    match dbg with
    | .unload =>
      match h.outcome with
      | .none => ([], .err)                                        -- `start_debugee_with_reason()?`
      | _ => (.respond true :: emitStop h, .ok)
    | _ => ([], .err)                                             -- no debugger, or `AlreadyRun`
  | .threads =>
    if dbg == .none then ([], .err)
    else ([.enq (threadEvents h), .respond true], .ok)             -- drained at the top of `run`
  | .stackTrace =>
    if badArgs r.cmd r.mutn then ([], .err)
    else if dbg == .none then ([], .err)
    else ([.respond true], .ok)
  | .scopes =>
    if dbg == .none then ([], .err)
    else if badArgs r.cmd r.mutn then ([], .err)
    else ([.respond true], .ok)
  | .variables =>
    if badArgs r.cmd r.mutn then ([], .err) else ([.respond true], .ok)
  | .evaluate =>
    if badArgs r.cmd r.mutn then ([], .err)
    else if dbg == .inProgress && h.evalOk then ([.respond true], .ok)
    else ([], .err)
  | .continue_ =>
    -- the execution status is looked at first: no debugger / exited ⇒ `Err`; loaded but not started ⇒
    -- accepted, nothing continues, no `continued`; in progress ⇒ the response and `continued` are sent
    -- BEFORE the blocking debugger call, and a failure of that call is announced as a stop, not as a
    -- second response (control.rs handle_continue, emit_stop_reason_answered)
    match dbg with
    | .none | .exited => ([], .err)
    | .unload => ([.respond true], .ok)
    | .inProgress =>
      let pre : List Act := [.enq [.ev .continued], .respond true, .drain 0]
      match h.outcome with
      | .none => (pre ++ [.enq (threadEvents h ++ [.ev (.stopped "exception")]), .drain 0], .ok)
      | _ => (pre ++ emitStop h, .ok)
  | .next | .stepIn | .stepOut => stepPlan dbg h
  | .pause =>
    if dbg == .none then ([.respond false], .ok)
    else ([.respond true, .enq [.ev (.stopped "pause")]], .ok)
  | .disconnect =>
    if r.mutn == .valid || r.mutn == .nofile then (.respond true :: terminateDebuggee h, .stop)
    else ([.respond true, .setDbg .none], .stop)                    -- detach
  | .terminate => (.respond true :: terminateDebuggee h, .stop)
  | .terminateThreads =>
    if badArgs r.cmd r.mutn then ([], .err)
    else (.respond true :: terminateDebuggee h, .ok)
  | .frobnicate => ([.respond false], .ok)                        -- `other => send_err`

/-- the rule of `run`: `Err` ⇒ error response and continue; `Ok(false)` ⇒ leave the loop; otherwise
continue — and continuing means `drain_events()` at the top of the next iteration -/
def runRule : HRes → List Act
  | .err => [.respond false, .drain 0]
  | .ok => [.drain 0]
  | .stop => [.endSession]

/-- everything the session thread does for one request -/
def fullPlan (s : Sess) (r : Req) (h : Hint) : List Act :=
  (plan s.dbg s.bpRecords r h).1 ++ runRule (plan s.dbg s.bpRecords r h).2

/-- one iteration of `run` for a request; `none` when the session has already ended -/
def runStep (s : Sess) (r : Req) (h : Hint) : Option (Sess × List Msg) :=
  if s.alive then some (exec r s (fullPlan s r h)) else none

/-- a whole history: the answers, request by request (`none` = connection already closed) -/
def runHistory : Sess → List (Req × Hint) → List (Option (List Msg))
  | _, [] => []
  | s, (r, h) :: rest =>
    match runStep s r h with
    | none => none :: runHistory s rest
    | some (s', out) => some out :: runHistory s' rest

/-- acceptor form (DESIGN 1.2.3): the model accepts a recorded wire, given as one list of messages per
request, iff it is what the model writes for that history and those debuggee outcomes -/
def accepts (hist : List (Req × Hint)) (wire : List (Option (List Msg))) : Bool :=
  runHistory {} hist == wire

/-! ### Wire-level monitors (used by the theorems) -/

/-- an item of the flattened session trace: a request being received, or a message written -/
inductive Item
  | req (c : Cmd)
  | msg (m : Msg)
  deriving Repr, DecidableEq

/-- the flattened trace of a history: each request followed by what was written for it -/
def trace : Sess → List (Req × Hint) → List Item
  | _, [] => []
  | s, (r, h) :: rest =>
    match runStep s r h with
    | none => trace s rest
    | some (s', out) => Item.req r.cmd :: (out.map Item.msg ++ trace s' rest)

inductive Life | fresh | exited | terminated
  deriving Repr, DecidableEq

/-- the combined lifecycle monitor: `none` = violation.
* a `launch` request opens a new lifecycle;
* `exited` only in `fresh`, and `terminated` must follow before anything else is written or received;
* `terminated` only in `fresh`/`exited` (at most once);
* in `terminated` no event at all may be written (`strict`), or none except `initialized`
  (`strict = false`: what the adapter did while `initialized` bypassed the queue). -/
def lifeStep (strict : Bool) (st : Life) : Item → Option Life
  | .req .launch => if st == .exited then none else some .fresh
  | .msg (.event .exited) => if st == .fresh then some .exited else none
  | .msg (.event .terminated) => if st == .terminated then none else some .terminated
  | .msg (.event .initialized) =>
    match st with
    | .fresh => some .fresh
    | .exited => none
    | .terminated => if strict then none else some .terminated
  | .msg (.event _) => if st == .fresh then some st else none
  | _ => if st == .exited then none else some st

def lifeRun (strict : Bool) : Life → List Item → Option Life
  | st, [] => some st
  | st, i :: rest => match lifeStep strict st i with
    | none => none
    | some st' => lifeRun strict st' rest

/-- weaker monitor 1 (`C12_lifecycle_once`): only the lifecycle events are looked at:
per lifecycle at most one `exited`, at most one `terminated`, never `exited` after `terminated` -/
def onceStep (st : Life) : Item → Option Life
  | .req .launch => some .fresh
  | .msg (.event .exited) => if st == .fresh then some .exited else none
  | .msg (.event .terminated) => if st == .terminated then none else some .terminated
  | _ => some st

def onceRun : Life → List Item → Option Life
  | st, [] => some st
  | st, i :: rest => match onceStep st i with
    | none => none
    | some st' => onceRun st' rest

/-- weaker monitor 2 (`C12_silent_after_terminated`): after `terminated`, no event until a new launch
(`strict = false`: except `initialized`) -/
def silentStep (strict : Bool) (st : Bool) : Item → Option Bool
  | .req .launch => some false
  | .msg (.event .terminated) => if st then none else some true
  | .msg (.event .initialized) => if st && strict then none else some st
  | .msg (.event _) => if st then none else some st
  | _ => some st

def silentRun (strict : Bool) : Bool → List Item → Option Bool
  | st, [] => some st
  | st, i :: rest => match silentStep strict st i with
    | none => none
    | some st' => silentRun strict st' rest

/-- the responses of an answer -/
def resps : List Msg → List Msg
  | [] => []
  | .resp c ok q :: r => .resp c ok q :: resps r
  | _ :: r => resps r

/-- does the skeleton leave the `run` loop? -/
def hasEnd : List Act → Bool
  | [] => false
  | .endSession :: _ => true
  | _ :: r => hasEnd r

/-- does the skeleton reset the `terminated` latch? -/
def hasReset : List Act → Bool
  | [] => false
  | .resetLatch :: _ => true
  | _ :: r => hasReset r

/-- the `respond` actions of a skeleton -/
def respondActs : List Act → List Bool
  | [] => []
  | .respond ok :: r => ok :: respondActs r
  | _ :: r => respondActs r

end BsVerif.Dap
