/-!
# Model of the DAP adapter (`src/dap/yadap/session/{mod,control,init,frame,data,breakpoint}.rs`)

Two models, both executable, core Lean only (linked into `bsmodel`).

* **Writer model** (`Dap.Writer`): the three threads that write to the transport — the session
  thread (id 0), the stdout forwarder (1) and the stderr forwarder (2) — each performing the two
  atomic steps the code performs for every message: *lock the transport and allocate* a sequence
  number (`next_seq(server_seq, locked transport)`: `send_response_raw`, `send_event_raw` and the
  forwarder loop take it **while they hold** `io.lock()`), then *write and unlock*.  A schedule is a
  list of writer ids; a writer's steps alternate allocate / write; a writer scheduled while another
  one holds the lock is blocked (its step does nothing).
* **Session model** (`Dap.Session`): the internal event queue, `drain_events` (lifecycle dominance,
  `terminated` latch, `emit_process_end`) and the per-command handler skeletons of `dispatch` —
  the order of {validate arguments, fallible debugger call, send response, enqueue events, drain} —
  with the rule of `run`: *handler returns `Err` ⇒ an error response is sent and the loop continues*.

What the debuggee does (stops, exits, which threads the debugger lists, whether a fallible debugger
call succeeds) is not known to the adapter model; it enters as `Hint`s of a request (DESIGN 1.2.3: "with
the debugger outcomes it observed").  What the ADAPTER owes — responses, the thread-cache diff
(`refresh_threads_with_events`), the cancellation bookkeeping (`canceled_request_ids`,
`canceled_progress_ids`, `consume_cancellation`), progress ids — is computed by the model.
-/
namespace BsVerif.Dap

/-! ## Writer model -/
namespace Writer

/-- what a writer puts on the wire: its id, the sequence number it carries, a label -/
structure WMsg where
  writer : Nat
  seq : Nat
  label : Nat := 0
  deriving Repr, DecidableEq

/-- shared state: the atomic counter (`server_seq`, starts at 1), who holds the transport lock
together with the number it took under it (not yet written), and the wire (in write order) -/
structure St where
  next : Nat := 1
  holder : Option (Nat × Nat) := none
  wire : List WMsg := []

/-- one atomic step of writer `w`: lock + allocate if the transport is free; write + unlock if `w`
holds the lock; blocked (nothing happens) while another writer holds it.  (As found, the number was
taken BEFORE the lock: writer 1 allocates 1, writer 0 allocates 2 and writes, writer 1 writes — the
wire read `2,1`; `corpus/C12/forwarder-late.req` forces that schedule and must no longer reorder.) -/
def step (s : St) (w : Nat) : St :=
  match s.holder with
  | none => { s with next := s.next + 1, holder := some (w, s.next) }
  | some (v, n) =>
    if v = w then { s with holder := none, wire := s.wire ++ [{ writer := w, seq := n }] } else s

def run (sched : List Nat) : St := sched.foldl step {}

/-- the sequence numbers in wire order -/
def wireSeqs (sched : List Nat) : List Nat := (run sched).wire.map (·.seq)

/-- `[a, a+1, …, a+n-1]` -/
def iota (a : Nat) : Nat → List Nat
  | 0 => []
  | n + 1 => a :: iota (a + 1) n

/-! ### The `terminated` latch shared with the forwarders

`DebugSession::terminated` is an `Arc<AtomicBool>` shared with both forwarder threads.  The session sets
it (no lock needed) BEFORE it writes `terminated`; a forwarder looks at it AFTER it has locked the
transport and writes nothing when it is set (`spawn_output_forwarder`).  Steps of this model: -/

inductive LAct
  | lock (w : Nat)     -- writer `w` locks the transport (a forwarder then reads the latch)
  | write (w : Nat)    -- writer `w`, holding the lock, writes its message (if it decided to) and unlocks
  | setLatch           -- the session stores `true` into the latch
  deriving Repr, DecidableEq

/-- `holder`: who holds the transport lock and whether it is going to write; `wire`: the writer of each
message together with the value of the latch when a SESSION message was written (`(0, true)` = a session
message written after the latch was set, e.g. `terminated` itself) -/
structure LSt where
  latch : Bool := false
  holder : Option (Nat × Bool) := none
  wire : List (Nat × Bool) := []

def lstep (s : LSt) : LAct → LSt
  | .setLatch => { s with latch := true }
  | .lock w =>
    match s.holder with
    | none => { s with holder := some (w, w = 0 || !s.latch) }   -- the session always writes
    | some _ => s                                                -- blocked
  | .write w =>
    match s.holder with
    | some (v, go) =>
      if v = w then
        { s with holder := none, wire := if go then s.wire ++ [(w, w = 0 && s.latch)] else s.wire }
      else s
    | none => s

def lrun (acts : List LAct) : LSt := acts.foldl lstep {}

/-- nothing but session messages after a session message that was written with the latch set -/
def quietAfterLatched : List (Nat × Bool) → Bool
  | [] => true
  | (w, l) :: rest => if w = 0 && l then rest.all (fun m => m.1 = 0) else quietAfterLatched rest

end Writer

/-! ## Session model -/

/-- every arm of `dispatch` (Gen/DapDispatch.lean, checked by `#guard`s in Props/C12.lean);
`frobnicate` stands for any command `dispatch` does not know -/
inductive Cmd
  | initialize | launch | attach | configurationDone | setBreakpoints | setFunctionBreakpoints
  | setInstructionBreakpoints | setExceptionBreakpoints | dataBreakpointInfo | setDataBreakpoints
  | breakpointLocations | exceptionInfo | threads | stackTrace | scopes | variables | setVariable
  | continue_ | restart | restartFrame | next | stepIn | stepInTargets | stepOut | stepBack
  | reverseContinue | pause | gotoTargets | goto | evaluate | setExpression | completions
  | loadedSources | modules | readMemory | writeMemory | disassemble | terminate | terminateThreads
  | cancel | runInTerminal | disconnect | source | frobnicate
  deriving Repr, DecidableEq

def cmdName : Cmd → String
  | .initialize => "initialize" | .launch => "launch" | .attach => "attach"
  | .configurationDone => "configurationDone" | .setBreakpoints => "setBreakpoints"
  | .setFunctionBreakpoints => "setFunctionBreakpoints"
  | .setInstructionBreakpoints => "setInstructionBreakpoints"
  | .setExceptionBreakpoints => "setExceptionBreakpoints" | .dataBreakpointInfo => "dataBreakpointInfo"
  | .setDataBreakpoints => "setDataBreakpoints" | .breakpointLocations => "breakpointLocations"
  | .exceptionInfo => "exceptionInfo" | .threads => "threads" | .stackTrace => "stackTrace"
  | .scopes => "scopes" | .variables => "variables" | .setVariable => "setVariable"
  | .continue_ => "continue" | .restart => "restart" | .restartFrame => "restartFrame" | .next => "next"
  | .stepIn => "stepIn" | .stepInTargets => "stepInTargets" | .stepOut => "stepOut" | .stepBack => "stepBack"
  | .reverseContinue => "reverseContinue" | .pause => "pause" | .gotoTargets => "gotoTargets"
  | .goto => "goto" | .evaluate => "evaluate" | .setExpression => "setExpression"
  | .completions => "completions" | .loadedSources => "loadedSources" | .modules => "modules"
  | .readMemory => "readMemory" | .writeMemory => "writeMemory" | .disassemble => "disassemble"
  | .terminate => "terminate" | .terminateThreads => "terminateThreads" | .cancel => "cancel"
  | .runInTerminal => "runInTerminal" | .disconnect => "disconnect" | .source => "source"
  | .frobnicate => "frobnicate"

def allCmds : List Cmd :=
  [.initialize, .launch, .attach, .configurationDone, .setBreakpoints, .setFunctionBreakpoints,
   .setInstructionBreakpoints, .setExceptionBreakpoints, .dataBreakpointInfo, .setDataBreakpoints,
   .breakpointLocations, .exceptionInfo, .threads, .stackTrace, .scopes, .variables, .setVariable,
   .continue_, .restart, .restartFrame, .next, .stepIn, .stepInTargets, .stepOut, .stepBack,
   .reverseContinue, .pause, .gotoTargets, .goto, .evaluate, .setExpression, .completions,
   .loadedSources, .modules, .readMemory, .writeMemory, .disassemble, .terminate, .terminateThreads,
   .cancel, .runInTerminal, .disconnect, .source, .frobnicate]

/-- argument mutation of a request (see harness `build_args`): `valid` well-typed arguments; `missing`
a required member is absent; `illtyped` a required member (or the `arguments` value itself) has the wrong
JSON type; `noargs` no `arguments` member at all; `nofile` (launch/attach) a well-typed target that does
not exist.  `Req.param` selects among several valid forms of a command. -/
inductive Mut
  | valid | missing | illtyped | noargs | nofile
  deriving Repr, DecidableEq

/-- `debugger: Option<Debugger>` together with the debugger's `ExecutionStatus` -/
inductive Dbg
  | none | unload | inProgress | exited
  deriving Repr, DecidableEq

/-- `session_mode` -/
inductive Mode | none | launch | attach
  deriving Repr, DecidableEq

/-- what the debuggee did during a fallible debugger call (observed, not predicted) -/
inductive Outcome
  | stop (reason : String) | exit | none
  deriving Repr, DecidableEq

/-- observations about the DEBUGGEE / debugger library (never about what the adapter owes) -/
structure Hint where
  outcome : Outcome := .none
  /-- the thread list the debugger returned to the `refresh_threads_with_events` of this request -/
  tl : List Nat := []
  /-- did the fallible debugger call of a query/modify handler succeed (evaluate, readMemory, …) -/
  callOk : Bool := false
  /-- stackTrace: number of frames without line info that needed a fresh disassembly source -/
  pg : Nat := 0
  /-- setDataBreakpoints: number of watchpoints the debugger accepted -/
  nrec : Nat := 0
  /-- a request that starts the debuggee failed: what became of the debuggee process nevertheless (the library can fail
  half-way through a start); `none` = not observed: the model keeps its state -/
  dbgAfter : Dbg := .none
  deriving Repr

/-- events the session puts into its queue and `send_events` forwards unchanged (bodies dropped except
thread ids and progress ids) -/
inductive QEv
  | capabilities | process | moduleNew | sourceNew
  | threadStarted (t : Nat) | threadExited (t : Nat)
  | stopped (reason : String) | continued | bpChanged | bpRemoved
  | progressStart (n : Nat) | progressUpdate (n : Nat) | progressEnd (n : Nat) | invalidated
  | initialized          -- `InternalEvent::Initialized`, queued by `handle_initialize`
  deriving Repr, DecidableEq

/-- events as they appear on the wire -/
inductive Ev
  | q (e : QEv)          -- from the queue
  | initialized          -- as found `initialized` was sent directly, past the queue; now it is `q .initialized` (kept for the monitors)
  | moduleRemoved | sourceRemoved | threadExitedAtEnd (t : Nat)  -- `emit_process_end` (direct sends inside `drain_events`)
  | exited | terminated  -- lifecycle, only from `drain_events`
  deriving Repr, DecidableEq

/-- `InternalEvent` (the queue) -/
inductive IEv
  | ev (e : QEv)
  | exited
  | terminated
  deriving Repr, DecidableEq

inductive Msg
  | resp (cmd : Cmd) (ok : Bool) (rseq : Nat)
  | event (e : Ev)
  | sessionEnd            -- `run` returned `Ok(())`: the adapter closes the session
  deriving Repr, DecidableEq

structure Req where
  seq : Nat
  cmd : Cmd
  mutn : Mut
  param : Nat := 0
  deriving Repr

structure Sess where
  dbg : Dbg := .none
  terminated : Bool := false
  queue : List IEv := []
  moduleInfo : Bool := false
  bpRecords : Nat := 0          -- `breakpoints_by_source[the source]`
  fnBp : Nat := 0               -- `function_breakpoints`
  insBp : Nat := 0              -- `instruction_breakpoints`
  dataBp : Nat := 0             -- `data_breakpoints`
  alive : Bool := true
  mode : Mode := .none          -- `session_mode`
  lastStop : Bool := false      -- `last_stop.is_some()`
  threadCache : List Nat := []  -- keys of `thread_cache`
  nextProgress : Nat := 1       -- `next_progress_id`
  curProgress : Nat := 0        -- the progress id the running handler holds
  cancelledReqs : List Nat := []      -- `canceled_request_ids`
  cancelledProgress : List Nat := []  -- `canceled_progress_ids` (`bs-progress-<n>`; foreign strings = 0)
  deriving Repr

/-! ### thread cache -/

/-- set semantics of `HashSet<i64>`: first occurrences, order kept -/
def dedup : List Nat → List Nat
  | [] => []
  | a :: l => if (dedup l).contains a then dedup l else a :: dedup l

/-- `refresh_threads_with_events`: the events from the difference between the old cache and the list
the debugger reports: `started` for new ids, then `exited` for vanished ones -/
def refreshEvents (cache tl : List Nat) : List IEv :=
  ((dedup tl).filter (fun t => !cache.contains t)).map (fun t => IEv.ev (.threadStarted t)) ++
  (cache.filter (fun t => !(dedup tl).contains t)).map (fun t => IEv.ev (.threadExited t))

/-- `emit_process_end`: `module`/`loadedSource` removed if `module_info` is set (taken), then one
`thread exited` per cached thread (the cache itself is NOT cleared) -/
def processEndMsgs (moduleInfo : Bool) (cache : List Nat) : List Msg :=
  (if moduleInfo then [Msg.event .moduleRemoved, Msg.event .sourceRemoved] else [])
    ++ cache.map (fun t => Msg.event (.threadExitedAtEnd t))

def IEv.isExited : IEv → Bool | .exited => true | _ => false
def IEv.isTerminated : IEv → Bool | .terminated => true | _ => false

/-- `send_events(|_| true, ..)` over a batch (lifecycle entries are skipped there) -/
def sendAll : List IEv → List Msg
  | [] => []
  | .ev e :: r => Msg.event (.q e) :: sendAll r
  | _ :: r => sendAll r

/-- `drain_events`.  In the lifecycle branches only `Output` events of the batch are sent; the modelled
handlers never queue `Output`, so nothing of the batch survives. -/
def drain (s : Sess) : Sess × List Msg :=
  let q := s.queue
  let s := { s with queue := [] }
  if s.terminated then (s, [])
  else if q.any IEv.isExited then
    ({ s with terminated := true, moduleInfo := false },
     processEndMsgs s.moduleInfo s.threadCache ++ [Msg.event .exited, Msg.event .terminated])
  else if q.any IEv.isTerminated then
    ({ s with terminated := true, moduleInfo := false },
     processEndMsgs s.moduleInfo s.threadCache ++ [Msg.event .terminated])
  else (s, sendAll q)

def insertSet (n : Nat) (l : List Nat) : List Nat := if l.contains n then l else n :: l
def removeSet (n : Nat) (l : List Nat) : List Nat := l.filter (· != n)

/-- the atomic actions a handler is made of: its *skeleton* is a list of these -/
inductive Act
  | respond (ok : Bool)      -- `send_response_raw` for the request being handled
  | enq (es : List IEv)      -- `enqueue_event` (several)
  | drain                    -- `drain_events()`
  | refresh (tl : List Nat)  -- `refresh_threads_with_events()` with the list the debugger reports
  | progStart                -- `enqueue_progress_start`: takes the next progress id
  | progUpdate               -- `enqueue_progress_update` for the id held
  | progEnd                  -- `enqueue_progress_end` for the id held
  | cancelReq (n : Nat)      -- `canceled_request_ids.insert(n)`
  | cancelProg (n : Nat)     -- `canceled_progress_ids.insert(..)`
  | consumeReq               -- `canceled_request_ids.remove(&req.seq)`
  | consumeProg              -- `canceled_progress_ids.remove(progress_id)`
  | setDbg (d : Dbg)         -- the debugger appears / changes execution status / is dropped
  | setMode (m : Mode)
  | setLastStop (b : Bool)
  | setModuleInfo            -- `emit_process_start` records `module_info`
  | setBp (k : Nat)          -- breakpoint records of the source
  | setFnBp (k : Nat) | setInsBp (k : Nat) | setDataBp (k : Nat)
  | resetLatch               -- `self.terminated = false` (`handle_launch`, `handle_attach`)
  | endSession               -- `run` leaves its loop
  deriving Repr

def execAct (r : Req) (s : Sess) : Act → Sess × List Msg
  | .respond ok => (s, [.resp r.cmd ok r.seq])
  | .enq es => ({ s with queue := s.queue ++ es }, [])
  | .drain => drain s
  | .refresh tl => ({ s with queue := s.queue ++ refreshEvents s.threadCache tl, threadCache := dedup tl }, [])
  | .progStart => ({ s with queue := s.queue ++ [.ev (.progressStart s.nextProgress)],
                            curProgress := s.nextProgress, nextProgress := s.nextProgress + 1 }, [])
  | .progUpdate => ({ s with queue := s.queue ++ [.ev (.progressUpdate s.curProgress)] }, [])
  | .progEnd => ({ s with queue := s.queue ++ [.ev (.progressEnd s.curProgress)] }, [])
  | .cancelReq n => ({ s with cancelledReqs := insertSet n s.cancelledReqs }, [])
  | .cancelProg n => ({ s with cancelledProgress := insertSet n s.cancelledProgress }, [])
  | .consumeReq => ({ s with cancelledReqs := removeSet r.seq s.cancelledReqs }, [])
  | .consumeProg => ({ s with cancelledProgress := removeSet s.curProgress s.cancelledProgress }, [])
  | .setDbg d => ({ s with dbg := d }, [])
  | .setMode m => ({ s with mode := m }, [])
  | .setLastStop b => ({ s with lastStop := b }, [])
  | .setModuleInfo => ({ s with moduleInfo := true }, [])
  | .setBp k => ({ s with bpRecords := k }, [])
  | .setFnBp k => ({ s with fnBp := k }, [])
  | .setInsBp k => ({ s with insBp := k }, [])
  | .setDataBp k => ({ s with dataBp := k }, [])
  | .resetLatch => ({ s with terminated := false }, [])
  | .endSession => ({ s with alive := false }, [.sessionEnd])

def exec (r : Req) : Sess → List Act → Sess × List Msg
  | s, [] => (s, [])
  | s, a :: rest =>
    let (s1, o1) := execAct r s a
    let (s2, o2) := exec r s1 rest
    (s2, o1 ++ o2)

/-- result of a handler: `Ok(true)`-continue, `Err(_)`, or `Ok(false)` (disconnect / terminate) -/
inductive HRes | ok | err | stop
  deriving Repr, DecidableEq

/-- the three mutations that take a required member away -/
def argAbsent : Mut → Bool
  | .missing | .illtyped | .noargs => true
  | _ => false

/-- commands with a required argument member: every one of `missing`/`illtyped`/`noargs` makes the
handler fail in its argument validation -/
def requiresArg : Cmd → Bool
  | .launch | .attach | .setBreakpoints | .dataBreakpointInfo | .breakpointLocations | .stackTrace
  | .scopes | .variables | .setVariable | .restartFrame | .stepInTargets | .gotoTargets | .goto
  | .evaluate | .setExpression | .completions | .readMemory | .writeMemory | .disassemble
  | .runInTerminal | .source => true
  | _ => false

def badArgs (c : Cmd) (m : Mut) : Bool := requiresArg c && argAbsent m

/-- `emit_stop_reason` after the filters: exit → queue `Exited`, drain; stop → refresh threads, queue
`Stopped`, drain -/
def emitStop (h : Hint) : List Act :=
  match h.outcome with
  | .exit => [.setDbg .exited, .setLastStop false, .enq [.exited], .drain]
  | .stop r => [.setDbg .inProgress, .refresh h.tl, .setLastStop true, .enq [.ev (.stopped r)], .drain]
  | .none => []

/-- `emit_manual_stop(reason)` (goto / restartFrame) and `emit_attached_stop` -/
def manualStop (reason : String) (h : Hint) : List Act :=
  [.refresh h.tl, .setLastStop true, .enq [.ev (.stopped reason)], .drain]

/-- `terminate_debuggee(); drain_events()` -/
def terminateDebuggee : List Act :=
  [.setDbg .none, .enq [.terminated], .drain]

/-- shared skeleton of `next`, `stepIn`, `stepOut` (`setsLast`: only `next` records `last_stop`) -/
def stepPlan (setsLast : Bool) (dbg : Dbg) (h : Hint) : List Act × HRes :=
  match dbg with
  | .none => ([], .err)                                   -- `ok_or_else(..)?`
  | .unload | .exited => ([.respond false], .ok)          -- `Err(e) => send_err(..)`
  | .inProgress =>
    match h.outcome with
    | .stop _ => ([.enq [.ev .continued], .respond true] ++ (if setsLast then [.setLastStop true] else [])
                    ++ [.enq [.ev (.stopped "step")], .drain], .ok)
    | .exit => ([.setDbg .exited, .enq [.ev .continued], .respond true, .enq [.exited], .drain], .ok)
    | .none => ([.respond false], .ok)

/-- a whole progress bracket around nothing: start, drain, update+end, drain -/
def progBracket : List Act := [.progStart, .drain, .progUpdate, .progEnd, .drain]

/-- `handle_stack_trace` after the first cancellation check: one `disasm_source_for_address` per frame
without line info (`n` of them, observed), each taking a progress id and checking
`consume_cancellation(req, Some(progress_id))`; then the response -/
def stLoop (cp : List Nat) : Nat → Nat → List Act
  | _, 0 => [.respond true]
  | next, n + 1 =>
    [.progStart, .drain] ++
      (if cp.contains next then [.consumeProg, .progEnd, .drain, .respond false]
       else [.progUpdate, .progEnd, .drain] ++ stLoop cp (next + 1) n)

/-- query handlers without events: argument validation, debugger presence, fallible call, response -/
def query (bad needDbg : Bool) (dbg : Dbg) (ok : Bool) (post : List Act) : List Act × HRes :=
  if bad then ([], .err)
  else if needDbg && dbg == .none then ([], .err)
  else if ok then (.respond true :: post, .ok)
  else ([], .err)

def isValid (m : Mut) : Bool := m == .valid || m == .nofile

/-- number of source breakpoints the harness sends for `param` (`src_bp_names`) -/
def srcBpCount (p : Nat) : Nat := if p ≤ 3 then p else (p - 3) % 3

/-- number of entries of a `breakpoints` array under the mutation (absent / ill-typed → empty) -/
def bpCount (r : Req) : Nat := if isValid r.mutn then min r.param 3 else 0

/-- `dispatch`: the handler skeletons — for each command the order of {cancellation check, validate
arguments, fallible debugger call, send response, enqueue events, drain} as a list of actions, and the
handler's result. -/
def plan (s : Sess) (r : Req) (h : Hint) : List Act × HRes :=
  let dbg := s.dbg
  match r.cmd with
  | .initialize => ([.respond true, .enq [.ev .initialized], .drain], .ok)   -- queued: behind the latch
  | .launch =>
    if badArgs r.cmd r.mutn then ([], .err)
    else if r.mutn == .nofile then
      ([.resetLatch, .setMode .launch, .progStart, .enq [.ev .capabilities], .drain], .err)   -- `build_debugger(..)?`
    else
      ([.resetLatch, .setMode .launch, .progStart, .enq [.ev .capabilities], .drain, .setDbg .unload, .setModuleInfo,
        .enq [.ev .process, .ev .moduleNew, .ev .sourceNew], .progUpdate, .progEnd, .respond true, .drain], .ok)
  | .attach =>
    if badArgs r.cmd r.mutn then ([], .err)
    else if r.mutn == .nofile then
      ([.resetLatch, .setMode .attach, .progStart, .enq [.ev .capabilities], .drain], .err)   -- `build_attached_debugger(..)?`
    else
      ([.resetLatch, .setMode .attach, .progStart, .enq [.ev .capabilities], .drain, .setDbg .inProgress, .setModuleInfo,
        .enq [.ev .process, .ev .moduleNew, .ev .sourceNew], .progUpdate, .progEnd, .respond true, .drain], .ok)
  | .configurationDone =>
    if dbg == .none then ([], .err)
    else if s.mode == .attach then (.respond true :: manualStop "pause" h, .ok)
    else match dbg with
    | .unload =>
      match h.outcome with
      | .none => ([.setDbg (if h.dbgAfter == .none then dbg else h.dbgAfter)], .err)   -- `start_debugee_with_reason()?`
      | _ => (.respond true :: emitStop h, .ok)
    | _ => ([], .err)                                             -- `AlreadyRun`
  | .setBreakpoints =>
    if badArgs r.cmd r.mutn then ([], .err)
    else if dbg == .none then ([.setBp 0], .err)                   -- `breakpoints_by_source.remove(..)` then `?`
    else
      let k := srcBpCount r.param
      ([.setBp k, .enq (List.replicate s.bpRecords (.ev .bpRemoved) ++ List.replicate k (.ev .bpChanged)),
        .respond true, .drain], .ok)
  | .setFunctionBreakpoints =>
    -- `mem::take(function_breakpoints)`, progress only for a non-empty list, THEN the debugger check
    let k := bpCount r
    let pre : List Act := .setFnBp 0 :: (if k == 0 then [] else [.progStart, .drain])
    if dbg == .none then (pre, .err)
    else
      (pre ++ [.setFnBp k, .enq (List.replicate s.fnBp (.ev .bpRemoved) ++ List.replicate k (.ev .bpChanged))]
        ++ (if k == 0 then [] else [.progUpdate, .progEnd, .drain]) ++ [.respond true, .drain], .ok)
  | .setInstructionBreakpoints =>
    let k := bpCount r
    if dbg == .none then ([.setInsBp 0], .err)
    else ([.setInsBp k, .enq (List.replicate s.insBp (.ev .bpRemoved) ++ List.replicate k (.ev .bpChanged)),
           .respond true, .drain], .ok)
  | .setExceptionBreakpoints => ([.respond true], .ok)
  | .dataBreakpointInfo => query (badArgs r.cmd r.mutn) false dbg true []
  | .setDataBreakpoints =>
    let k := bpCount r
    if dbg == .none then ([.setDataBp 0], .err)
    else ([.setDataBp (min h.nrec k), .enq (List.replicate s.dataBp (.ev .bpRemoved) ++ List.replicate k (.ev .bpChanged)),
           .respond true, .drain], .ok)
  | .breakpointLocations =>
    if badArgs r.cmd r.mutn then ([], .err)
    else match r.param % 3 with
    | 0 => query false true dbg h.callOk []                        -- `source` form
    | 1 =>                                                         -- `instructionReference` form
      if dbg == .none then ([.progStart, .drain], .err)            -- progress opened, never closed
      else if h.callOk then ([.progStart, .drain, .progUpdate, .progEnd, .drain, .respond true], .ok)
      else ([.progStart, .drain], .err)
    | _ => ([.respond false], .ok)                                 -- neither: `send_err`
  | .exceptionInfo => if s.lastStop then ([.respond true], .ok) else ([.respond false], .ok)
  | .threads =>
    if dbg == .none then ([], .err)
    else ([.refresh h.tl, .respond true], .ok)                     -- drained at the top of `run`
  | .stackTrace =>
    -- `consume_cancellation(req, None)` comes first, before the arguments are looked at
    if s.cancelledReqs.contains r.seq then ([.consumeReq, .respond false], .ok)
    else if badArgs r.cmd r.mutn then ([], .err)
    else if dbg == .none then ([], .err)
    else (stLoop s.cancelledProgress s.nextProgress h.pg, .ok)
  | .scopes =>
    if dbg == .none then ([], .err)
    else if badArgs r.cmd r.mutn then ([], .err)
    else ([.respond true], .ok)
  | .variables =>
    if badArgs r.cmd r.mutn then ([], .err) else ([.respond true], .ok)
  | .setVariable => query (badArgs r.cmd r.mutn) true dbg h.callOk [.enq [.ev .invalidated], .drain]
  | .continue_ =>
    -- the execution status is looked at first: no debugger / exited ⇒ `Err`; loaded but not started ⇒
    -- accepted, nothing continues, no `continued`; in progress ⇒ the response and `continued` are sent
    -- BEFORE the blocking debugger call, and a failure of that call (e.g. the debuggee was killed by a
    -- signal behind the debugger's back) is announced as a stop, not as a second response
    -- (control.rs handle_continue, emit_stop_reason_answered)
    match dbg with
    | .none | .exited => ([], .err)
    | .unload => ([.respond true], .ok)
    | .inProgress =>
      let pre : List Act := [.enq [.ev .continued], .respond true, .drain]
      -- when the failing call found the debuggee gone (observed: `dbgAfter = exited`), the library has marked it exited
      let gone : List Act := if h.dbgAfter == .exited then [.setDbg .exited] else []
      match h.outcome with
      | .none => (pre ++ manualStop "exception" h ++ gone, .ok)
      | _ => (pre ++ emitStop h ++ gone, .ok)
  | .restart =>
    if s.mode != .launch then ([.respond false], .ok)
    else if dbg == .none then ([], .err)
    else match h.outcome with
      | .none => ([.setDbg (if h.dbgAfter == .none then dbg else h.dbgAfter)], .err)   -- `start_debugee_force_with_reason()?`
      | _ => (.respond true :: emitStop h, .ok)
  | .restartFrame =>
    if dbg == .none then ([], .err)
    else if badArgs r.cmd r.mutn then ([], .err)
    else if h.callOk then (.respond true :: manualStop "restart" h, .ok)
    else ([], .err)
  | .next => stepPlan true dbg h
  | .stepIn | .stepOut => stepPlan false dbg h
  | .stepInTargets => query (badArgs r.cmd r.mutn) true dbg h.callOk []
  | .stepBack | .reverseContinue => ([.respond false], .ok)        -- not supported by the engine
  | .pause =>
    if dbg == .none then ([.respond false], .ok)
    else ([.respond true, .enq [.ev (.stopped "pause")]], .ok)
  | .gotoTargets => query (badArgs r.cmd r.mutn) true dbg true []
  | .goto =>
    if dbg == .none then ([], .err)
    else if badArgs r.cmd r.mutn then ([], .err)
    else if h.callOk then (.respond true :: manualStop "goto" h, .ok)
    else ([], .err)
  | .evaluate =>
    if s.cancelledReqs.contains r.seq then ([.consumeReq, .respond false], .ok)
    else if badArgs r.cmd r.mutn then ([], .err)
    else if dbg == .inProgress && h.callOk then ([.respond true], .ok)
    else ([], .err)
  | .setExpression => query (badArgs r.cmd r.mutn) true dbg h.callOk [.enq [.ev .invalidated], .drain]
  | .completions =>
    if badArgs r.cmd r.mutn then ([], .err)
    else if dbg == .none then ([.respond true], .ok)               -- no debugger: empty target list
    else if r.param % 2 == 0 then (progBracket ++ [.respond true], .ok)   -- non-empty prefix: symbol search
    else ([.respond true], .ok)
  | .loadedSources => ([.respond true], .ok)
  | .modules => (progBracket ++ [.respond true], .ok)
  | .readMemory =>
    if s.cancelledReqs.contains r.seq then ([.consumeReq, .respond false], .ok)
    else query (badArgs r.cmd r.mutn) true dbg h.callOk []
  | .writeMemory => query (badArgs r.cmd r.mutn) true dbg h.callOk [.enq [.ev .invalidated], .drain]
  | .disassemble =>
    if s.cancelledReqs.contains r.seq then ([.consumeReq, .respond false], .ok)
    else if badArgs r.cmd r.mutn then ([], .err)
    else if s.cancelledProgress.contains s.nextProgress then
      -- second check, `consume_cancellation(req, Some(progress_id))`, before the debugger is looked at
      ([.progStart, .drain, .consumeProg, .progEnd, .drain, .respond false], .ok)
    else if dbg == .none then ([.progStart, .drain], .err)
    else if h.callOk then ([.progStart, .drain, .progUpdate, .progEnd, .drain, .respond true], .ok)
    else ([.progStart, .drain, .progEnd, .drain, .respond false], .ok)
  | .terminate => (.respond true :: terminateDebuggee, .stop)
  | .terminateThreads =>
    if r.mutn == .illtyped || r.mutn == .noargs then ([], .err)
    else if r.mutn == .missing || r.param % 4 < 2 then (.respond true :: terminateDebuggee, .ok)   -- no / empty `threadIds`
    else if h.callOk then ([.respond true, .refresh h.tl, .drain], .ok)                          -- threads signalled
    else ([], .err)                                               -- bad id (`send_err`) or `kill` failed (`?`)
  | .cancel =>
    match r.mutn with
    | .noargs | .missing => ([.respond true], .ok)                -- null / `{}`
    | .illtyped =>
      match r.param % 4 with
      | 2 => ([.cancelReq (r.param / 4)], .err)                   -- requestId recorded, THEN progressId rejected
      | _ => ([], .err)
    | _ =>
      match r.param % 4 with
      | 0 => ([.cancelReq (r.param / 4), .respond true], .ok)
      | 1 => ([.cancelProg (r.param / 4), .respond true], .ok)
      | 2 => ([.respond true], .ok)
      | _ => ([.cancelReq (r.param / 4), .cancelProg (r.param / 4), .respond true], .ok)
  | .runInTerminal =>
    if badArgs r.cmd r.mutn then ([], .err)
    else if r.param == 1 then ([.respond true], .ok)               -- a program that exists
    else ([], .err)                                               -- empty `args` / `spawn` failed
  | .disconnect =>
    if r.mutn == .valid || r.mutn == .nofile then (.respond true :: terminateDebuggee, .stop)
    else ([.respond true, .setDbg .none], .stop)                    -- detach
  | .source =>
    if badArgs r.cmd r.mutn then ([], .err)
    else if r.param % 3 == 2 then ([.respond false], .ok)          -- file not found on the adapter host
    else ([.respond true], .ok)
  | .frobnicate => ([.respond false], .ok)                        -- `other => send_err`

/-- the rule of `run`: `Err` ⇒ error response and continue; `Ok(false)` ⇒ leave the loop; otherwise
continue — and continuing means `drain_events()` at the top of the next iteration -/
def runRule : HRes → List Act
  | .err => [.respond false, .drain]
  | .ok => [.drain]
  | .stop => [.endSession]

/-- everything the session thread does for one request -/
def fullPlan (s : Sess) (r : Req) (h : Hint) : List Act :=
  (plan s r h).1 ++ runRule (plan s r h).2

/-- one iteration of `run` for a request; `none` when the session has already ended -/
def runStep (s : Sess) (r : Req) (h : Hint) : Option (Sess × List Msg) :=
  if s.alive then some (exec r s (fullPlan s r h)) else none

/-- a whole history: the answers, request by request (`none` = connection already closed) -/
def runHistory : Sess → List (Req × Hint) → List (Option (List Msg))
  | _, [] => []
  | s, (r, h) :: rest =>
    match runStep s r h with
    | none => none :: runHistory s rest
    | some (s', out) => some out :: runHistory s' rest

/-- the session state after a history -/
def finalSess : Sess → List (Req × Hint) → Sess
  | s, [] => s
  | s, (r, h) :: rest =>
    match runStep s r h with
    | none => finalSess s rest
    | some (s', _) => finalSess s' rest

/-- acceptor form (DESIGN 1.2.3): the model accepts a recorded wire, given as one list of messages per
request, iff it is what the model writes for that history and those debuggee outcomes -/
def accepts (hist : List (Req × Hint)) (wire : List (Option (List Msg))) : Bool :=
  runHistory {} hist == wire

/-! ### Wire-level monitors (used by the theorems) -/

/-- an item of the flattened session trace: a request being received, or a message written -/
inductive Item
  | req (c : Cmd)
  | msg (m : Msg)
  deriving Repr, DecidableEq

/-- the flattened trace of a history: each request followed by what was written for it -/
def trace : Sess → List (Req × Hint) → List Item
  | _, [] => []
  | s, (r, h) :: rest =>
    match runStep s r h with
    | none => trace s rest
    | some (s', out) => Item.req r.cmd :: (out.map Item.msg ++ trace s' rest)

inductive Life | fresh | exited | terminated
  deriving Repr, DecidableEq

/-- the combined lifecycle monitor: `none` = violation.
* a `launch` / `attach` request opens a new lifecycle;
* `exited` only in `fresh`, and `terminated` must follow before anything else is written or received;
* `terminated` only in `fresh`/`exited` (at most once);
* in `terminated` no event at all may be written (`strict`), or none except `initialized`
  (`strict = false`: what the adapter did while `initialized` bypassed the queue). -/
def lifeStep (strict : Bool) (st : Life) : Item → Option Life
  | .req .launch | .req .attach => if st == .exited then none else some .fresh
  | .msg (.event .exited) => if st == .fresh then some .exited else none
  | .msg (.event .terminated) => if st == .terminated then none else some .terminated
  | .msg (.event .initialized) =>
    match st with
    | .fresh => some .fresh
    | .exited => none
    | .terminated => if strict then none else some .terminated
  | .msg (.event _) => if st == .fresh then some st else none
  | _ => if st == .exited then none else some st

def lifeRun (strict : Bool) : Life → List Item → Option Life
  | st, [] => some st
  | st, i :: rest => match lifeStep strict st i with
    | none => none
    | some st' => lifeRun strict st' rest

/-- weaker monitor 1 (`C12_lifecycle_once`): only the lifecycle events are looked at:
per lifecycle at most one `exited`, at most one `terminated`, never `exited` after `terminated` -/
def onceStep (st : Life) : Item → Option Life
  | .req .launch | .req .attach => some .fresh
  | .msg (.event .exited) => if st == .fresh then some .exited else none
  | .msg (.event .terminated) => if st == .terminated then none else some .terminated
  | _ => some st

def onceRun : Life → List Item → Option Life
  | st, [] => some st
  | st, i :: rest => match onceStep st i with
    | none => none
    | some st' => onceRun st' rest

/-- weaker monitor 2 (`C12_silent_after_terminated`): after `terminated`, no event until a new launch
(`strict = false`: except `initialized`) -/
def silentStep (strict : Bool) (st : Bool) : Item → Option Bool
  | .req .launch | .req .attach => some false
  | .msg (.event .terminated) => if st then none else some true
  | .msg (.event .initialized) => if st && strict then none else some st
  | .msg (.event _) => if st then none else some st
  | _ => some st

def silentRun (strict : Bool) : Bool → List Item → Option Bool
  | st, [] => some st
  | st, i :: rest => match silentStep strict st i with
    | none => none
    | some st' => silentRun strict st' rest

/-- thread monitor (`C12_thread_events`): the state is the set of threads announced as started and not
yet as exited.  `thread started t` only for a thread that is not live, `thread exited t` (queued, or sent
by `emit_process_end`) only for a live one: no exit without a start, no second start without an exit in
between, each exit at most once. -/
def threadStep (live : List Nat) : Item → Option (List Nat)
  | .msg (.event (.q (.threadStarted t))) => if live.contains t then none else some (t :: live)
  | .msg (.event (.q (.threadExited t))) => if live.contains t then some (live.filter (· != t)) else none
  | .msg (.event (.threadExitedAtEnd t)) => if live.contains t then some (live.filter (· != t)) else none
  | _ => some live

def threadRun : List Nat → List Item → Option (List Nat)
  | live, [] => some live
  | live, i :: rest => match threadStep live i with
    | none => none
    | some live' => threadRun live' rest

/-- the responses of an answer -/
def resps : List Msg → List Msg
  | [] => []
  | .resp c ok q :: r => .resp c ok q :: resps r
  | _ :: r => resps r

/-- does the skeleton leave the `run` loop? -/
def hasEnd : List Act → Bool
  | [] => false
  | .endSession :: _ => true
  | _ :: r => hasEnd r

/-- does the skeleton reset the `terminated` latch? -/
def hasReset : List Act → Bool
  | [] => false
  | .resetLatch :: _ => true
  | _ :: r => hasReset r

/-- "clean relaunch": whenever a request resets the `terminated` latch (`launch`/`attach` past their
argument validation), the latch is not set or the thread cache is empty.  (`emit_process_end` announces
the exit of every cached thread but leaves the cache as it is: a later refresh in a NEW lifecycle
announces those exits a second time.) -/
def cleanRelaunch : Sess → List (Req × Hint) → Bool
  | _, [] => true
  | s, (r, h) :: rest =>
    match runStep s r h with
    | none => cleanRelaunch s rest
    | some (s', _) =>
      (!(hasReset (fullPlan s r h)) || !s.terminated || s.threadCache.isEmpty) && cleanRelaunch s' rest

/-- the `respond` actions of a skeleton -/
def respondActs : List Act → List Bool
  | [] => []
  | .respond ok :: r => ok :: respondActs r
  | _ :: r => respondActs r

end BsVerif.Dap
