/-!
# Model of the DAP adapter (`src/dap/yadap/session/{mod,control,init,frame,data,breakpoint}.rs`)

Two models, both executable, core Lean only (linked into `bsmodel`).

* **Writer model** (`Dap.Writer`): the three threads that write to the transport — the session
  thread (id 0), the stdout forwarder (1) and the stderr forwarder (2) — each performing the two
  atomic steps the code performs for every message: *allocate* a sequence number
  (`server_seq.fetch_add(1)`; `send_response_raw`, `send_event_raw` and both forwarder loops take it
  **before** `self.io.lock()`), then *lock the transport and write*.  A schedule is a list of writer
  ids; a writer's steps alternate allocate / write.
* **Session model** (`Dap.Session`): the internal event queue, `drain_events` (lifecycle dominance,
  `terminated` latch, `emit_process_end`) and the per-command handler skeletons of `dispatch` —
  the order of {validate arguments, fallible debugger call, send response, enqueue events, drain} —
  with the rule of `run`: *handler returns `Err` ⇒ an error response is sent and the loop continues*.

What the debuggee does (stops, exits, how many threads appear) is not known to the adapter model; it
enters as `Hint`s of a request (DESIGN 1.2.3: "with the debugger outcomes it observed").
-/
namespace BsVerif.Dap

/-! ## Writer model -/
namespace Writer

/-- what a writer puts on the wire: its id, the sequence number it carries, a label -/
structure WMsg where
  writer : Nat
  seq : Nat
  label : Nat := 0
  deriving Repr, DecidableEq, BEq

/-- shared state: the atomic counter (`server_seq`, starts at 1), per writer the number it has
allocated and not yet written, and the wire (in write order = order of `io.lock()` acquisition) -/
structure St where
  next : Nat := 1
  pending : Nat → Option Nat := fun _ => none
  wire : List WMsg := []

/-- one atomic step of writer `w`: allocate if it holds no number, otherwise lock + write -/
def step (s : St) (w : Nat) : St :=
  match s.pending w with
  | none => { s with next := s.next + 1, pending := fun v => if v = w then some s.next else s.pending v }
  | some n => { s with pending := fun v => if v = w then none else s.pending v,
                       wire := s.wire ++ [{ writer := w, seq := n }] }

def run (sched : List Nat) : St := sched.foldl step {}

/-- the sequence numbers in wire order -/
def wireSeqs (sched : List Nat) : List Nat := (run sched).wire.map (·.seq)

/-- the repaired discipline: the number is taken while the transport lock is held, i.e. allocate and
write are one atomic step -/
def stepLocked (s : St) (w : Nat) : St :=
  { s with next := s.next + 1, wire := s.wire ++ [{ writer := w, seq := s.next }] }

def runLocked (sched : List Nat) : St := sched.foldl stepLocked {}

/-- `[a, a+1, …, a+n-1]` -/
def iota (a : Nat) : Nat → List Nat
  | 0 => []
  | n + 1 => a :: iota (a + 1) n

/-- a schedule in which no writer allocates while another one holds an unwritten number
("single writer at a time"): every allocation step is immediately followed by the same writer's write -/
def serial : List Nat → Bool
  | [] => true
  | [_] => true
  | a :: b :: rest => a == b && serial rest

end Writer

/-! ## Session model -/

inductive Cmd
  | initialize | launch | setBreakpoints | configurationDone | threads | stackTrace | scopes
  | variables | continue_ | next | stepIn | stepOut | pause | evaluate | disconnect | terminate
  | terminateThreads | frobnicate
  deriving Repr, DecidableEq, BEq

/-- argument mutation of a request (see harness `build_args`) -/
inductive Mut
  | valid | missing | illtyped | noargs | nofile
  deriving Repr, DecidableEq, BEq

/-- `debugger: Option<Debugger>` together with the debugger's `ExecutionStatus` -/
inductive Dbg
  | none | unload | inProgress | exited
  deriving Repr, DecidableEq, BEq

/-- what the debuggee did during a fallible debugger call (observed, not predicted) -/
inductive Outcome
  | stop (reason : String) | exit | none
  deriving Repr, DecidableEq, BEq

structure Hint where
  outcome : Outcome := .none
  threadsStarted : Nat := 0
  threadsExited : Nat := 0
  evalOk : Bool := false
  deriving Repr

/-- events as they appear on the wire (bodies dropped) -/
inductive Ev
  | initialized | capabilities | process | moduleNew | moduleRemoved | sourceNew | sourceRemoved
  | threadStarted | threadExited | stopped (reason : String) | continued | bpChanged | bpRemoved
  | exited | terminated
  deriving Repr, DecidableEq, BEq

/-- `InternalEvent` (the queue); progress events are canonicalised away by the harness and not modelled -/
inductive IEv
  | ev (e : Ev)      -- any non-lifecycle queued event: sent as `e` by `send_events`
  | exited
  | terminated
  deriving Repr, DecidableEq, BEq

inductive Msg
  | resp (cmd : Cmd) (ok : Bool) (rseq : Nat)
  | event (e : Ev)
  | sessionEnd            -- `run` returned `Ok(())`: the adapter closes the session
  deriving Repr, DecidableEq, BEq

structure Req where
  seq : Nat
  cmd : Cmd
  mutn : Mut
  param : Nat := 0
  deriving Repr

structure Sess where
  dbg : Dbg := .none
  terminated : Bool := false
  queue : List IEv := []
  moduleInfo : Bool := false
  bpRecords : Nat := 0
  alive : Bool := true
  deriving Repr

/-- `emit_process_end`: `module`/`loadedSource` removed if `module_info` is set (taken), then one
`thread exited` per cached thread (count observed) -/
def processEnd (s : Sess) (nThreads : Nat) : Sess × List Msg :=
  ({ s with moduleInfo := false },
   (if s.moduleInfo then [Msg.event .moduleRemoved, Msg.event .sourceRemoved] else [])
     ++ List.replicate nThreads (Msg.event .threadExited))

def IEv.isExited : IEv → Bool | .exited => true | _ => false
def IEv.isTerminated : IEv → Bool | .terminated => true | _ => false

/-- `send_events(|_| true, ..)` over a batch without lifecycle events (those are skipped there) -/
def sendAll : List IEv → List Msg
  | [] => []
  | .ev e :: r => Msg.event e :: sendAll r
  | _ :: r => sendAll r

/-- `drain_events`.  `nThreads` = size of `thread_cache` when the process ends (observed).
In the lifecycle branches only `Output` events of the batch are sent; the session never queues
`Output` in the modelled handlers, so nothing of the batch survives. -/
def drain (s : Sess) (nThreads : Nat := 0) : Sess × List Msg :=
  let q := s.queue
  let s := { s with queue := [] }
  if s.terminated then (s, [])
  else if q.any IEv.isExited then
    let (s, pe) := processEnd s nThreads
    ({ s with terminated := true }, pe ++ [Msg.event .exited, Msg.event .terminated])
  else if q.any IEv.isTerminated then
    let (s, pe) := processEnd s nThreads
    ({ s with terminated := true }, pe ++ [Msg.event .terminated])
  else (s, sendAll q)

def enqueue (s : Sess) (es : List IEv) : Sess := { s with queue := s.queue ++ es }

/-- result of a handler: `Ok(true)`-continue, `Err(_)`, or `Ok(false)` (disconnect / terminate) -/
inductive HRes | ok | err | stop
  deriving Repr, DecidableEq, BEq

/-- commands whose required argument is absent under the mutation (handler returns `Err` in its
argument validation) -/
def badArgs (c : Cmd) (m : Mut) : Bool :=
  match c with
  | .launch | .setBreakpoints | .stackTrace | .scopes | .variables | .evaluate =>
    m == .missing || m == .illtyped || m == .noargs
  | .terminateThreads => m == .illtyped || m == .noargs
  | _ => false

/-- thread refresh (`refresh_threads_with_events`): started events, then exited events -/
def threadEvents (h : Hint) : List IEv :=
  List.replicate h.threadsStarted (.ev .threadStarted) ++ List.replicate h.threadsExited (.ev .threadExited)

/-- `emit_stop_reason` after the filters: exit → queue `Exited`, drain; stop → refresh threads, queue
`Stopped`, drain -/
def emitStop (s : Sess) (h : Hint) : Sess × List Msg :=
  match h.outcome with
  | .exit => drain (enqueue { s with dbg := .exited } [.exited]) h.threadsExited
  | .stop r => drain (enqueue { s with dbg := .inProgress } (threadEvents h ++ [.ev (.stopped r)]))
  | .none => (s, [])

/-- shared skeleton of `next`, `stepIn`, `stepOut` -/
def stepHandler (s : Sess) (r : Req) (h : Hint) : Sess × List Msg × HRes :=
  match s.dbg with
  | .none => (s, [], .err)                                   -- `ok_or_else(..)?`
  | .unload | .exited => (s, [.resp r.cmd false r.seq], .ok)   -- `Err(e) => send_err(..)`
  | .inProgress =>
    match h.outcome with
    | .stop _ =>
      let s := enqueue s [.ev .continued]
      let (s, d) := drain (enqueue s [.ev (.stopped "step")])
      (s, [.resp r.cmd true r.seq] ++ d, .ok)
    | .exit =>
      let s := enqueue { s with dbg := .exited } [.ev .continued]
      let (s, d) := drain (enqueue s [.exited]) h.threadsExited
      (s, [.resp r.cmd true r.seq] ++ d, .ok)
    | .none => (s, [.resp r.cmd false r.seq], .ok)

/-- `terminate_debuggee(); drain_events()` -/
def terminateDebuggee (s : Sess) (h : Hint) : Sess × List Msg :=
  drain (enqueue { s with dbg := .none } [.terminated]) h.threadsExited

/-- `dispatch`: the handler skeletons.  Returns the new state, what the handler wrote, and its result. -/
def dispatch (s : Sess) (r : Req) (h : Hint) : Sess × List Msg × HRes :=
  match r.cmd with
  | .initialize => (s, [.resp r.cmd true r.seq, .event .initialized], .ok)   -- `send_event`: not queued
  | .launch =>
    if badArgs r.cmd r.mutn then (s, [], .err)
    else
      let s := { s with terminated := false }
      let (s, d1) := drain (enqueue s [.ev .capabilities])
      if r.mutn == .nofile then (s, d1, .err)                    -- `build_debugger(..)?`
      else
        let s := enqueue { s with dbg := .unload, moduleInfo := true } [.ev .process, .ev .moduleNew, .ev .sourceNew]
        let (s, d2) := drain s
        (s, d1 ++ [.resp r.cmd true r.seq] ++ d2, .ok)
  | .setBreakpoints =>
    if badArgs r.cmd r.mutn then (s, [], .err)
    else
      let prev := s.bpRecords
      let s := { s with bpRecords := 0 }                       -- `breakpoints_by_source.remove(..)`
      if s.dbg == .none then (s, [], .err)
      else
        let k := min r.param 3
        let s := enqueue { s with bpRecords := k }
          (List.replicate prev (.ev .bpRemoved) ++ List.replicate k (.ev .bpChanged))
        let (s, d) := drain s
        (s, [.resp r.cmd true r.seq] ++ d, .ok)
  | .configurationDone =>
    match s.dbg with
    | .unload =>
      match h.outcome with
      | .none => (s, [], .err)                                   -- `start_debugee_with_reason()?`
      | _ => let (s, d) := emitStop s h; (s, [.resp r.cmd true r.seq] ++ d, .ok)
    | _ => (s, [], .err)                                        -- no debugger, or `AlreadyRun`
  | .threads =>
    if s.dbg == .none then (s, [], .err)
    else (enqueue s (threadEvents h), [.resp r.cmd true r.seq], .ok)   -- drained at the top of `run`
  | .stackTrace =>
    if badArgs r.cmd r.mutn then (s, [], .err)
    else if s.dbg == .none then (s, [], .err)
    else (s, [.resp r.cmd true r.seq], .ok)
  | .scopes =>
    if s.dbg == .none then (s, [], .err)
    else if badArgs r.cmd r.mutn then (s, [], .err)
    else (s, [.resp r.cmd true r.seq], .ok)
  | .variables =>
    if badArgs r.cmd r.mutn then (s, [], .err) else (s, [.resp r.cmd true r.seq], .ok)
  | .evaluate =>
    if badArgs r.cmd r.mutn then (s, [], .err)
    else if s.dbg == .inProgress && h.evalOk then (s, [.resp r.cmd true r.seq], .ok)
    else (s, [], .err)
  | .continue_ =>
    -- the response is sent BEFORE the fallible debugger call (control.rs handle_continue)
    let (s, d) := drain (enqueue s [.ev .continued])
    let pre := [Msg.resp r.cmd true r.seq] ++ d
    if s.dbg != .inProgress then (s, pre, .err)
    else match h.outcome with
      | .none => (s, pre, .err)
      | _ => let (s, d2) := emitStop s h; (s, pre ++ d2, .ok)
  | .next | .stepIn | .stepOut => stepHandler s r h
  | .pause =>
    if s.dbg == .none then (s, [.resp r.cmd false r.seq], .ok)
    else (enqueue s [.ev (.stopped "pause")], [.resp r.cmd true r.seq], .ok)
  | .disconnect =>
    if r.mutn == .valid || r.mutn == .nofile then
      let (s, d) := terminateDebuggee s h
      (s, [.resp r.cmd true r.seq] ++ d, .stop)
    else ({ s with dbg := .none }, [.resp r.cmd true r.seq], .stop)      -- detach
  | .terminate =>
    let (s, d) := terminateDebuggee s h
    (s, [.resp r.cmd true r.seq] ++ d, .stop)
  | .terminateThreads =>
    if badArgs r.cmd r.mutn then (s, [], .err)
    else
      let (s, d) := terminateDebuggee s h
      (s, [.resp r.cmd true r.seq] ++ d, .ok)
  | .frobnicate => (s, [.resp r.cmd false r.seq], .ok)                      -- `other => send_err`

/-- one iteration of `run` for a request: dispatch; `Err` ⇒ error response, continue; `Ok(false)` ⇒
the loop ends; otherwise the `drain_events` at the top of the next iteration.  `none` when the session
has already ended (the connection is closed). -/
def runStep (s : Sess) (r : Req) (h : Hint) : Option (Sess × List Msg) :=
  if !s.alive then none
  else
    let (s, out, res) := dispatch s r h
    match res with
    | .err => let (s, d) := drain s; some (s, out ++ [.resp r.cmd false r.seq] ++ d)
    | .stop => some ({ s with alive := false }, out ++ [.sessionEnd])
    | .ok => let (s, d) := drain s; some (s, out ++ d)

/-- a whole history: the answers, request by request (`none` = connection already closed) -/
def runHistory : Sess → List (Req × Hint) → List (Option (List Msg))
  | _, [] => []
  | s, (r, h) :: rest =>
    match runStep s r h with
    | none => none :: runHistory s rest
    | some (s', out) => some out :: runHistory s' rest

/-- the final state of a history -/
def finalState : Sess → List (Req × Hint) → Sess
  | s, [] => s
  | s, (r, h) :: rest =>
    match runStep s r h with
    | none => finalState s rest
    | some (s', _) => finalState s' rest

/-- acceptor form (DESIGN 1.2.3): the model accepts a recorded wire, given as one list of messages per
request, iff it is what the model writes for that history and those debuggee outcomes -/
def accepts (hist : List (Req × Hint)) (wire : List (Option (List Msg))) : Bool :=
  runHistory {} hist == wire

/-! ### Wire-level monitors (used by the theorems) -/

/-- an item of the flattened session trace: a request being received, or a message written -/
inductive Item
  | req (c : Cmd)
  | msg (m : Msg)
  deriving Repr, DecidableEq, BEq

inductive Life | fresh | exited | terminated
  deriving Repr, DecidableEq, BEq

def Msg.isEvent : Msg → Bool | .event _ => true | _ => false

/-- the combined lifecycle monitor: `none` = violation.
* a `launch` request opens a new lifecycle;
* `exited` only in `fresh`; it must be followed by `terminated` before anything else is written;
* `terminated` only in `fresh`/`exited`;
* in `terminated` no event at all may be written (`strict`), or none except the non-queued
  `initialized` (`strict = false`). -/
def lifeStep (strict : Bool) (st : Life) : Item → Option Life
  | .req .launch => some .fresh
  | .req _ => if st == .exited then none else some st
  | .msg (.event .exited) => if st == .fresh then some .exited else none
  | .msg (.event .terminated) => if st == .terminated then none else some .terminated
  | .msg (.event .initialized) =>
    match st with
    | .fresh => some .fresh
    | .exited => none
    | .terminated => if strict then none else some .terminated
  | .msg (.event _) => if st == .fresh then some st else none
  | .msg _ => if st == .exited then none else some st

def lifeRun (strict : Bool) : Life → List Item → Option Life
  | st, [] => some st
  | st, i :: rest => match lifeStep strict st i with
    | none => none
    | some st' => lifeRun strict st' rest

/-- weaker monitor 1 (`C12_lifecycle_once`): only the lifecycle events are looked at -/
def onceStep (st : Life) : Item → Option Life
  | .req .launch => some .fresh
  | .msg (.event .exited) => if st == .fresh then some .exited else none
  | .msg (.event .terminated) => if st == .terminated then none else some .terminated
  | _ => some st

def onceRun : Life → List Item → Option Life
  | st, [] => some st
  | st, i :: rest => match onceStep st i with
    | none => none
    | some st' => onceRun st' rest

/-- weaker monitor 2 (`C12_silent_after_terminated`): after `terminated`, no event until a new launch -/
def silentStep (strict : Bool) (st : Bool) : Item → Option Bool
  | .req .launch => some false
  | .msg (.event .terminated) => if st then none else some true
  | .msg (.event .initialized) => if st && strict then none else some st
  | .msg (.event _) => if st then none else some st
  | _ => some st

def silentRun (strict : Bool) : Bool → List Item → Option Bool
  | st, [] => some st
  | st, i :: rest => match silentStep strict st i with
    | none => none
    | some st' => silentRun strict st' rest

/-- the flattened trace of a history: each request followed by what was written for it -/
def trace : Sess → List (Req × Hint) → List Item
  | _, [] => []
  | s, (r, h) :: rest =>
    match runStep s r h with
    | none => trace s rest
    | some (s', out) => Item.req r.cmd :: out.map Item.msg ++ trace s' rest

/-- number of responses in an answer -/
def nResp : List Msg → Nat
  | [] => 0
  | .resp _ _ _ :: r => nResp r + 1
  | _ :: r => nResp r

/-- the responses of an answer -/
def resps : List Msg → List Msg
  | [] => []
  | .resp c ok q :: r => .resp c ok q :: resps r
  | _ :: r => resps r

end BsVerif.Dap
