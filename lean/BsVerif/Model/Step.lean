import BsVerif.Model.Lines
/-!
Model of WHERE the step commands land (C03): `stepi`, `step_in`, `step_over_any`, `step_out_frame`
(src/debugger/step.rs, src/debugger/mod.rs) over

* the native execution `τ` of the deterministic debuggee restricted to the executable's text, every executed
  instruction annotated with the call depth of the shadow stack, the canonical frame address of its activation,
  the return address of its activation and the number of instructions executed OUTSIDE the executable before it
  (`gap`); a *position* `i` means "stopped before executing `τ[i]`", `τ.size` = the program has exited;
* the debug information as the debugger stores it (`FnRec`: DIE ranges, declaration file, inlined ranges, and the
  window of the unit's line rows, in stored order, that the code reads for the function), from which the lookups
  `find_place_from_pc`, `find_exact_place_from_pc`, `find_function_by_pc`, `prolog()`, `epilog_begin()` and the
  temporary-breakpoint placement of `step_over_any` are computed with the lookup model of C04 (`Model/Lines.lean`).

The stepping algorithms are written against the abstract lookups (`Info`), the concrete lookups are `Info.ofFns`.
The machine level (text patches, registry, `PTRACE_CONT`/`SINGLESTEP`) is `Model/Breakpoint.lean` + `Model/StepOps.lean`
(C01/C02); its `continue` is "the first later position whose address is a breakpoint" (`C01_continue_projection`), which
is what `contLand` is here.  The tracer's rule "while temporaries exist, a hit of a non-temporary breakpoint is stepped
over silently" (tracer.rs `apply_new_status`) is part of `contLand`'s breakpoint set.

Instructions executed outside the executable have no place and no function (assumption), so the loops that single-step
"until a function is found" simply pass over them; only `stepi` can stop there.

No Mathlib: this file is linked into `bsmodel`.
-/
namespace BsVerif.Step
open BsVerif.Lines

/-- one executed instruction inside the executable -/
structure Pos where
  pc    : Nat
  depth : Nat
  cfa   : Nat        -- identity of the activation: canonical frame address
  ret   : Nat        -- return address of the activation (global address; 0 = none / outside the executable)
  gap   : Nat := 0   -- instructions executed outside the executable since the previous position
deriving Repr, DecidableEq, Inhabited

/-- what the step code reads of a `PlaceDescriptor` -/
structure Place where
  addr : Nat
  path : Nat         -- id of the file path (equal ids ⇔ equal paths)
  line : Nat
  stmt : Bool
deriving Repr, DecidableEq, Inhabited

/-- the lookups of the debug information the step code uses -/
structure Info where
  place  : Nat → Option Place      -- `find_place_from_pc`
  exact  : Nat → Option Place      -- `find_exact_place_from_pc`
  fn     : Nat → Option Nat        -- `find_function_by_pc` (function id)
  prolog : Nat → Nat → Bool        -- `pc.in_range(&func.prolog()?)`
  stmts  : Nat → List Nat          -- candidate temporaries of `step_over_any`, in the order the code visits them

/-! ## searching the trace -/

/-- `firstIdx` with explicit fuel (structural recursion keeps it evaluable by the kernel) -/
def firstIdxF (p : Nat → Bool) (n : Nat) : Nat → Nat → Nat
  | 0, _ => n
  | fuel + 1, i => if i < n then (if p i then i else firstIdxF p n fuel (i + 1)) else n

/-- least `j` with `i ≤ j < n` and `p j`, or `n` -/
def firstIdx (p : Nat → Bool) (n : Nat) (i : Nat) : Nat := firstIdxF p n (n - i) i

abbrev Trace := Array Pos

def at' (τ : Trace) (i : Nat) : Pos := (τ[i]?).getD default
def pcAt (τ : Trace) (i : Nat) : Nat := (at' τ i).pc

/-! ## `step_in` -/

/-- `step_over_prolog` up to the exact-place test: the initial single step, single steps until a function is found,
single steps while the pc is in THAT function's prologue range.  Returns the position reached (`τ.size` = exit). -/
def advance (I : Info) (τ : Trace) (i : Nat) : Nat :=
  let i2 := firstIdx (fun k => (I.fn (pcAt τ k)).isSome) τ.size (i + 1)
  match I.fn (pcAt τ i2) with
  | none => τ.size
  | some f => firstIdx (fun k => !I.prolog f (pcAt τ k)) τ.size i2

/-- the stop test of `step_in`'s outer loop at position `j`: an exact place that is a statement, in another frame
or on another (file, line) than the start place -/
def good (I : Info) (τ : Trace) (sp : Place) (cfa0 : Nat) (j : Nat) : Bool :=
  match I.exact (pcAt τ j) with
  | none => false
  | some p => p.stmt && (decide ((at' τ j).cfa ≠ cfa0) || !(sp.path == p.path && sp.line == p.line))

/-- the loops of `step_in` after the start place is known (fuel = positions left) -/
def stepInLoop (I : Info) (τ : Trace) (sp : Place) (cfa0 : Nat) : Nat → Nat → Nat
  | 0, _ => τ.size
  | fuel + 1, i =>
    let j := advance I τ i
    if τ.size ≤ j then τ.size
    else if good I τ sp cfa0 j then j
    else stepInLoop I τ sp cfa0 fuel j

/-- position at which `step_in` determines its start place: single steps until `find_place_from_pc` succeeds -/
def startIdx (I : Info) (τ : Trace) (i : Nat) : Nat :=
  firstIdx (fun k => (I.place (pcAt τ k)).isSome) τ.size i

/-- `step_in` from position `i`: the landing position (`τ.size` = the process exited during the step) -/
def stepIn (I : Info) (τ : Trace) (i : Nat) : Nat :=
  let a := startIdx I τ i
  match I.place (pcAt τ a) with
  | none => τ.size
  | some sp => stepInLoop I τ sp (at' τ a).cfa (τ.size - a) a

/-! ## `continue_execution` with temporaries -/

/-- where `continue_execution` from position `i` stops when the enabled user breakpoints are `U` and the temporaries
added for this command are `T`: the instruction at `i` is executed (step over breakpoint / resume), then the first
position whose address is a temporary; user breakpoints are honoured only when no temporary exists -/
def contLand (τ : Trace) (U T : List Nat) (i : Nat) : Nat :=
  let B := if T.isEmpty then U else T
  firstIdx (fun k => B.contains (pcAt τ k)) τ.size (i + 1)

/-! ## `step_out_frame` -/

inductive Why
  | done                 -- the step completed (`on_step` hook)
  | brk (pc : Nat)       -- `continue_execution` stopped at a user breakpoint (`on_breakpoint`, then `on_step`)
  | exit                 -- the debuggee exited (`on_exit`; the command returns `ProcessExit`)
  | out                  -- the return address is outside the executable: not described by the trace
deriving Repr, DecidableEq

structure Land where
  idx   : Nat            -- landing position (`τ.size` = exited)
  why   : Why
  temps : List Nat := [] -- temporaries installed, in order
  pre   : Nat := 0       -- single steps before the continue (function search)
  tail  : Nat := 0       -- single steps after the continue (`step_in` tail)
deriving Repr

/-- classification of a `continue` landing -/
def contWhy (τ : Trace) (T : List Nat) (j : Nat) : Why :=
  if τ.size ≤ j then .exit else if T.isEmpty then .brk (pcAt τ j) else .done

/-- first position after `i` at which the activation of `i` has returned (`τ.size` if it never does) -/
def retPos (τ : Trace) (i : Nat) : Nat :=
  firstIdx (fun k => decide ((at' τ k).depth < (at' τ i).depth)) τ.size (i + 1)

/-- `step_out_frame` from position `i` -/
def stepOut (τ : Trace) (U : List Nat) (i : Nat) : Land :=
  let r := (at' τ i).ret
  if r = 0 then { idx := retPos τ i, why := if retPos τ i < τ.size then .out else .exit, temps := [] }
  else
    let T := if U.contains r then [] else [r]
    let j := contLand τ U T i
    { idx := j, why := contWhy τ T j, temps := T }

/-! ## `step_over_any` -/

/-- the temporaries `step_over_any` installs for function `f` at position `i`: candidate statement rows that are not
enabled breakpoints yet, then the return address unless a breakpoint (user or just-added temporary) is there -/
def nextTemps (I : Info) (τ : Trace) (U : List Nat) (f : Nat) (i : Nat) : List Nat :=
  let T := (I.stmts f).filter (fun a => !U.contains a)
  let r := (at' τ i).ret
  if r = 0 || U.contains r || T.contains r then T else T ++ [r]

/-- "landed in the middle of a line": the place of the pc does not start at the pc -/
def midLine (I : Info) (τ : Trace) (j : Nat) : Bool :=
  match I.place (pcAt τ j) with
  | some p => decide (p.addr ≠ pcAt τ j)
  | none => false

/-- `step_over_any` from position `i` -/
def stepOver (I : Info) (τ : Trace) (U : List Nat) (i : Nat) : Land :=
  let i1 := firstIdx (fun k => (I.fn (pcAt τ k)).isSome) τ.size i
  match I.fn (pcAt τ i1) with
  | none => { idx := τ.size, why := .exit, pre := τ.size - i }
  | some f =>
    let r := (at' τ i1).ret
    let T := nextTemps I τ U f i1
    let j := contLand τ U T i1
    if r = 0 && retPos τ i1 < j then
      -- the return address lies outside the executable and the function returns before any temporary is reached
      { idx := retPos τ i1, why := if retPos τ i1 < τ.size then .out else .exit, temps := T, pre := i1 - i }
    else if τ.size ≤ j then { idx := j, why := .exit, temps := T, pre := i1 - i }
    else
      if pcAt τ j = r && midLine I τ j then
        let l := stepIn I τ j
        { idx := l, why := if τ.size ≤ l then .exit else contWhy τ T j, temps := T, pre := i1 - i, tail := l - j }
      else { idx := j, why := contWhy τ T j, temps := T, pre := i1 - i }

/-! ## the debug information as stored: function records -/

structure FnRec where
  id       : Nat
  ranges   : List Rng            -- DIE ranges, DWARF order
  declFile : Option Nat          -- `decl_file_line.0` (file index of the unit)
  inl      : List Rng            -- ranges of the DW_TAG_inlined_subroutine descendants
  rows     : Array Row := #[]    -- window of the unit's rows, stored order
  paths    : List (Nat × Nat) := []   -- file index of the unit ↦ path id
deriving Repr, Inhabited

def inRanges (rs : List Rng) (pc : Nat) : Bool := rs.any (·.contains pc)

/-- `end_instruction`: `ranges.iter().max_by(begin)` (last maximum) `.end` -/
def endInstr : List Rng → Option Nat
  | [] => none
  | r :: rest =>
    match rest.foldl (fun (m : Rng) x => if m.lo ≤ x.lo then x else m) r with
    | m => some m.hi

def FnRec.pathOf (f : FnRec) (file : Nat) : Nat :=
  match f.paths.find? (·.1 == file) with
  | some p => p.2
  | none => 1000000 + file

def FnRec.toPlace (f : FnRec) (r : Row) : Place :=
  { addr := r.addr, path := f.pathOf r.file, line := r.line, stmt := r.stmt }

/-- `prolog_start_place` / `prolog_end_place` as (index, row) in the window -/
def FnRec.prologPlaces (f : FnRec) : Option ((Nat × Row) × (Nat × Row)) :=
  match lowPc f.ranges, endPc f.ranges with
  | some lo, some endA =>
    match findPlaceByPc f.rows lo with
    | none => none
    | some (i, r) =>
      -- `prolog_end_place` (repaired): the first prologue_end row of the FUNCTION below its end, else the start place
      some ((i, r), (peWalkIn f.rows f.ranges endA (f.rows.size - i) i).getD (i, r))
  | _, _ => none

/-- `func.prolog()`: `Range { begin: start.address, end: end.address }` -/
def FnRec.prolog (f : FnRec) : Option Rng :=
  f.prologPlaces.map fun (s, e) => ⟨s.2.addr, e.2.addr⟩

/-- the walk of `epilog_begin()` from the prologue-end place while `address < end_instruction` -/
def ebWalk (rows : Array Row) (ranges : List Rng) (endA : Nat) : Nat → Nat → Option Row
  | 0, _ => none
  | fuel + 1, i =>
    match rows[i]? with
    | none => none
    | some r =>
      if r.addr < endA then
        if inRanges ranges r.addr && r.eb then some r else ebWalk rows ranges endA fuel (i + 1)
      else none

def FnRec.epilogBegin (f : FnRec) : Option Row :=
  match f.prologPlaces, endInstr f.ranges with
  | some (_, e), some endA => ebWalk f.rows f.ranges endA (f.rows.size - e.1) e.1
  | _, _ => none

/-- the `while place.address.in_range(&range)` loop of `step_over_any` for one range, from row `i` -/
def tempsWalk (f : FnRec) (pr : Rng) (eb : Option Row) (range : Rng) : Nat → Nat → List Nat → List Nat
  | 0, _, acc => acc
  | fuel + 1, i, acc =>
    match f.rows[i]? with
    | none => acc
    | some r =>
      if !range.contains r.addr then acc
      else
        let skip := (some r.file != f.declFile) || pr.contains r.addr
          || (match eb with | some e => decide (e.addr < r.addr) | none => false)
        if !skip && !inRanges f.inl r.addr && r.stmt then tempsWalk f pr eb range fuel (i + 1) (acc ++ [r.addr])
        else tempsWalk f pr eb range fuel (i + 1) acc

/-- candidate temporaries of `step_over_any` for the function -/
def FnRec.stmts (f : FnRec) : List Nat :=
  match f.prolog with
  | none => []
  | some pr =>
    let eb := f.epilogBegin
    f.ranges.foldl (fun acc range =>
      match findPlaceByPc f.rows range.lo with
      | none => acc
      | some (i, _) => tempsWalk f pr eb range (f.rows.size - i) i acc) []

/-- `find_function_by_pc` restricted to the shipped functions: a range containing `pc` with the greatest begin
(`C04_pc_to_function`), the later record on ties -/
def fnAt (fns : Array FnRec) (pc : Nat) : Option FnRec :=
  let best := fns.foldl (fun (best : Option (Nat × FnRec)) f =>
    f.ranges.foldl (fun best r =>
      if r.contains pc then
        match best with
        | some (b, _) => if b ≤ r.lo then some (r.lo, f) else best
        | none => some (r.lo, f)
      else best) best) none
  best.map (·.2)

def exactOf (f : FnRec) (pc : Nat) : Option Place :=
  match findExactPlaceByPc f.rows pc false with
  | .ok (some (_, r)) => some (f.toPlace r)
  | _ => none

/-- the concrete lookups -/
def Info.ofFns (fns : Array FnRec) : Info where
  place pc := (fnAt fns pc).bind fun f => (findPlaceByPc f.rows pc).map fun (_, r) => f.toPlace r
  exact pc := (fnAt fns pc).bind fun f => exactOf f pc
  fn pc := (fnAt fns pc).map (·.id)
  prolog id pc := match fns.find? (·.id == id) with
    | some f => match f.prolog with
      | some pr => pr.contains pc
      | none => false
    | none => false
  stmts id := match fns.find? (·.id == id) with
    | some f => f.stmts
    | none => []

end BsVerif.Step
