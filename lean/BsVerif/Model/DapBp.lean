/-!
# Model of the DAP adapter's breakpoint records over the debugger's breakpoint registry (C13)

Mirrors (BugStalker, `src/dap/yadap/session/breakpoint.rs`, `control.rs`, `src/debugger/breakpoint.rs`, `mod.rs`):

* `Addr`      — `debugger::address::Address`: `Global` (file address, before the process runs) vs `Relocated`;
                both carry the GLOBAL value here (relocation = the fixed load base, ASLR is off); `junk` is a relocated
                address without a source place (accepted unchecked before start, dropped when breakpoints are enabled).
* `Reg`       — `BreakpointRegistry`: `disabled_breakpoints` keyed by `Address`, `breakpoints` keyed by relocated address;
                `removeByAddr` = `remove_by_addr`, `enableAll`/`disableAll` = `enable_all_breakpoints`/`disable_all_breakpoints`.
* `Rec`       — `BreakpointRecord {id, addresses, condition, hit_condition, log_message, hit_count}`.
* `setLines`, `setFns`, `setInsns` — `handle_set_breakpoints` (keeps only the FIRST returned location),
                `handle_set_function_breakpoints`, `handle_set_instruction_breakpoints`.
* `decide`    — `should_skip_breakpoint`: record lookup by `Address::Relocated(stop pc)` through sources, function,
                instruction records; condition → hit condition → log message.
* `runFiltered` — `emit_stop_reason`'s loop over `continue_debugee_with_reason`; `runRaw` — the unfiltered first stop of
                `restart_debugee` whose reason `start_debugee_force_with_reason` discards.
* `HitCond`, `parseHit` — `HitCondition::{parse, matches}`.

The abstract program is `τ`: the native execution restricted to candidate addresses, each event with `env`:
`env % 8` = the truth of the debuggee's condition variables (0 = not in scope, `1 + odd + 2*big` in scope),
`env / 8` = a position tag (which loop iteration), echoed in the answers so that equal addresses are told apart.
Core Lean only (linked into `bsmodel`).
-/
namespace BsVerif.DapBp

inductive Addr where
  | glob (a : Nat)
  | rel (a : Nat)
  | junk (a : Nat)
deriving DecidableEq, Repr, Inhabited

inductive Phase where
  | unloaded | running | exited
deriving DecidableEq, Repr, Inhabited

/-! ## hit conditions -/

inductive HitCond where
  | exact (n : Nat) | ge (n : Nat) | gt (n : Nat) | lt (n : Nat) | le (n : Nat) | invalid
deriving DecidableEq, Repr, Inhabited

def HitCond.matches : HitCond → Nat → Bool
  | .exact n, h => h == n
  | .ge n, h => decide (n ≤ h)
  | .gt n, h => decide (n < h)
  | .lt n, h => decide (h < n)
  | .le n, h => decide (h ≤ n)
  | .invalid, _ => true

/-- Rust `char::is_whitespace` restricted to ASCII (the generator sends ASCII only) -/
def isWs (c : Char) : Bool := c == ' ' || c == '\t' || c == '\n' || c == '\r' || c.toNat == 11 || c.toNat == 12

def trimL : List Char → List Char
  | [] => []
  | c :: cs => if isWs c then trimL cs else c :: cs

def trim (s : List Char) : List Char := (trimL (trimL s).reverse).reverse

def digitVal? (c : Char) : Option Nat :=
  if '0' ≤ c ∧ c ≤ '9' then some (c.toNat - '0'.toNat) else none

/-- checked decimal accumulation (`u64::from_str`): every digit, no overflow of 2^64 -/
def digitsVal? : List Char → Nat → Option Nat
  | [], acc => some acc
  | c :: cs, acc =>
    match digitVal? c with
    | some d => if acc * 10 + d < 2 ^ 64 then digitsVal? cs (acc * 10 + d) else none
    | none => none

/-- `s.trim().parse::<u64>()`: optional `+`, at least one digit -/
def parseNum (s : List Char) : Option Nat :=
  match trim s with
  | [] => none
  | ['+'] => none
  | '+' :: cs => digitsVal? cs 0
  | cs => digitsVal? cs 0

def mk (f : Nat → HitCond) (body : List Char) : HitCond :=
  match parseNum body with
  | some n => f n
  | none => .invalid

/-- the operator dispatch of `HitCondition::parse` on the trimmed text, in the code's order -/
def parseOp : List Char → HitCond
  | '>' :: '=' :: r => mk .ge r
  | '<' :: '=' :: r => mk .le r
  | '=' :: '=' :: r => mk .exact r
  | '=' :: r => mk .exact r
  | '>' :: r => mk .gt r
  | '<' :: r => mk .lt r
  | r => mk .exact r

def parseHit (s : List Char) : HitCond := parseOp (trim s)

/-! ## options and records -/

inductive Cond where
  | none
  | lit (b : Bool)
  | var (bit : Nat) (bare : Bool)   -- 0 = `odd`, 1 = `big`; bare = written as a plain identifier
  | unknownVar (bare : Bool)        -- a name that does not exist in the debuggee
  | parseErr                        -- text the expression parser rejects
deriving DecidableEq, Repr, Inhabited

inductive CondRes where
  | tt | ff | err
deriving DecidableEq, Repr

/-- `evaluate_condition_expression`: the text is first tried as a LITERAL — and a plain identifier parses as an
enum-variant literal, which is truthy — then as an expression whose first result's truthiness counts; a local that is
not visible at the stop makes `read_variable` return no result => `Ok(false)`; a parse failure is an `Err`.
`env % 8`: 0 = the locals are not visible, otherwise `1 + odd + 2*big`; `env / 8` is a position tag of the event
(number of completed loop ticks of the debuggee) that only serves to identify the stop in the answers. -/
def evalCond : Cond → Nat → CondRes
  | .none, _ => .tt
  | .lit b, _ => if b then .tt else .ff
  | .var _ true, _ => .tt
  | .var bit false, env =>
    if env % 8 = 0 then .ff
    else if ((env % 8 - 1) / 2 ^ bit) % 2 = 1 then .tt else .ff
  | .unknownVar true, _ => .tt
  | .unknownVar false, _ => .ff
  | .parseErr, _ => .err

structure Opts where
  cond : Cond := .none
  hit : Option HitCond := none
  log : Option Nat := none
deriving DecidableEq, Repr, Inhabited

structure Rec where
  id : Nat
  addrs : List Addr
  opts : Opts
  hits : Nat := 0
deriving DecidableEq, Repr, Inhabited

/-! ## registry -/

def ins {α} [DecidableEq α] (a : α) (l : List α) : List α := if a ∈ l then l else l ++ [a]
def del {α} [DecidableEq α] (a : α) (l : List α) : List α := l.filter (· ≠ a)

structure Reg where
  dis : List Addr := []
  en : List Nat := []
deriving Repr, Inhabited

/-- `BreakpointRegistry::remove_by_addr` -/
def Reg.removeByAddr (r : Reg) (a : Addr) : Reg :=
  if a ∈ r.dis then { r with dis := del a r.dis }
  else match a with
    | .rel x => { r with en := del x r.en }
    | _ => r

/-- `enable_all_breakpoints`: every template becomes an enabled breakpoint at its relocated address;
a relocated address without a place fails `try_into_brkpt` and is dropped -/
def Reg.enableAll (r : Reg) : Reg :=
  { dis := [],
    en := r.dis.foldl (fun en a => match a with
      | .glob x => ins x en
      | .rel x => ins x en
      | .junk _ => en) r.en }

/-- `disable_all_breakpoints`: enabled user breakpoints become templates keyed by their GLOBAL address -/
def Reg.disableAll (r : Reg) : Reg :=
  { dis := r.en.foldl (fun d x => ins (Addr.glob x) d) r.dis, en := [] }

/-! ## adapter state -/

abbrev Ev := Nat × Nat   -- (global pc, env)

structure St where
  τ : List Ev := []
  phase : Phase := .unloaded
  latched : Bool := false          -- `DebugSession::terminated`: later events are dropped
  reg : Reg := {}
  src : List (Nat × List Rec) := []   -- `breakpoints_by_source`
  fn : List Rec := []
  insn : List Rec := []
  nextId : Nat := 1
  pos : Nat := 0                   -- events of τ already behind the debuggee
  hw : List Nat := []              -- hardware watchpoints (addresses), at most four
deriving Repr, Inhabited

def St.running (s : St) : Bool := s.phase == .running

/-- remove the locations of previous records (`for addr in record.addresses { remove_breakpoint(addr) }`) -/
def removeRecs (r : Reg) (recs : List Rec) : Reg :=
  recs.foldl (fun r rc => rc.addrs.foldl Reg.removeByAddr r) r

/-- `set_breakpoint_at_line` / `set_breakpoint_at_fn` on resolved locations: the views' addresses -/
def addLocs (running : Bool) (r : Reg) (locs : List Nat) : Reg × List Addr :=
  if running then ({ r with en := locs.foldl (fun en a => ins a en) r.en }, locs.map Addr.rel)
  else ({ r with dis := locs.foldl (fun d a => ins (Addr.glob a) d) r.dis }, locs.map Addr.glob)

structure BpReq where
  locs : List Nat        -- resolution of the line / function (all locations, in reported order)
  opts : Opts
deriving DecidableEq, Repr, Inhabited

/-- one breakpoint of `handle_set_breakpoints`; `firstOnly` = `addresses: vec![first.addr]` -/
def setOne (firstOnly : Bool) (running : Bool) (acc : Reg × Nat × List Rec × List (Nat × Bool)) (b : BpReq) :
    Reg × Nat × List Rec × List (Nat × Bool) :=
  let (r, id, recs, flags) := acc
  match b.locs with
  | [] => (r, id + 1, recs ++ [{ id := id, addrs := [], opts := b.opts }], flags ++ [(id, false)])
  | _ =>
    let (r', views) := addLocs running r b.locs
    let addrs := if firstOnly then views.take 1 else views
    (r', id + 1, recs ++ [{ id := id, addrs := addrs, opts := b.opts }], flags ++ [(id, true)])

def setMany (firstOnly : Bool) (running : Bool) (r : Reg) (id : Nat) (bs : List BpReq) :
    Reg × Nat × List Rec × List (Nat × Bool) :=
  bs.foldl (setOne firstOnly running) (r, id, [], [])

def alookup (k : Nat) : List (Nat × List Rec) → List Rec
  | [] => []
  | (k', v) :: rest => if k = k' then v else alookup k rest

def aset (k : Nat) (v : List Rec) : List (Nat × List Rec) → List (Nat × List Rec)
  | [] => [(k, v)]
  | (k', v') :: rest => if k = k' then (k, v) :: rest else (k', v') :: aset k v rest

/-- `handle_set_breakpoints` for source key `k` -/
def setLines (s : St) (k : Nat) (bs : List BpReq) : St × List (Nat × Bool) :=
  let r0 := removeRecs s.reg (alookup k s.src)
  let (r, id, recs, flags) := setMany true s.running r0 s.nextId bs
  ({ s with reg := r, nextId := id, src := aset k recs s.src }, flags)

/-- `handle_set_function_breakpoints` -/
def setFns (s : St) (bs : List BpReq) : St × List (Nat × Bool) :=
  let r0 := removeRecs s.reg s.fn
  let (r, id, recs, flags) := setMany false s.running r0 s.nextId bs
  ({ s with reg := r, nextId := id, fn := recs }, flags)

structure InsnReq where
  addr : Nat
  valid : Bool           -- the address has a source place (an instruction of a function with line rows)
  opts : Opts
deriving DecidableEq, Repr, Inhabited

/-- one breakpoint of `handle_set_instruction_breakpoints` / `set_breakpoint_at_addr` -/
def setInsnOne (running : Bool) (acc : Reg × Nat × List Rec × List (Nat × Bool)) (b : InsnReq) :
    Reg × Nat × List Rec × List (Nat × Bool) :=
  let (r, id, recs, flags) := acc
  if running then
    if b.valid then
      ({ r with en := ins b.addr r.en }, id + 1, recs ++ [{ id := id, addrs := [.rel b.addr], opts := b.opts }], flags ++ [(id, true)])
    else (r, id + 1, recs ++ [{ id := id, addrs := [], opts := b.opts }], flags ++ [(id, false)])
  else
    let a := if b.valid then Addr.rel b.addr else Addr.junk b.addr
    ({ r with dis := ins a r.dis }, id + 1, recs ++ [{ id := id, addrs := [a], opts := b.opts }], flags ++ [(id, true)])

def setInsns (s : St) (bs : List InsnReq) : St × List (Nat × Bool) :=
  let r0 := removeRecs s.reg s.insn
  let (r, id, recs, flags) := bs.foldl (setInsnOne s.running) (r0, s.nextId, [], [])
  ({ s with reg := r, nextId := id, insn := recs }, flags)

/-! ## data breakpoints: four hardware slots, all released and re-taken by every request -/

structure DataReq where
  addr : Nat
  readOnly : Bool        -- accessType "read": refused before the debugger is asked
deriving Repr, Inhabited

def setDataOne (running : Bool) (acc : List Nat × Nat × List (Nat × Bool)) (b : DataReq) : List Nat × Nat × List (Nat × Bool) :=
  let (hw, id, flags) := acc
  if b.readOnly then (hw, id + 1, flags ++ [(id, false)])
  else if running ∧ b.addr ∉ hw ∧ hw.length < 4 then (hw ++ [b.addr], id + 1, flags ++ [(id, true)])
  else (hw, id + 1, flags ++ [(id, false)])

def setData (s : St) (bs : List DataReq) : St × List (Nat × Bool) :=
  let hw0 := if s.running then [] else s.hw
  let (hw, id, flags) := bs.foldl (setDataOne s.running) (hw0, s.nextId, [])
  ({ s with hw := hw, nextId := id }, flags)

/-! ## stops -/

inductive Outp where
  | log (k : Nat) | condErr (id : Nat) | hitInvalid (id : Nat)
deriving DecidableEq, Repr

inductive Decision where
  | stop | skip
deriving DecidableEq, Repr

/-- the decision of `should_skip_breakpoint` once a record has been found and its hit counted (`hits` = new count) -/
def decideRec (id : Nat) (o : Opts) (hits : Nat) (env : Nat) : Decision × List Outp :=
  match evalCond o.cond env with
  | .ff => (.skip, [])
  | .err => (.stop, [.condErr id])
  | .tt =>
    let (pass, out1) : Bool × List Outp := match o.hit with
      | none => (true, [])
      | some .invalid => (true, [.hitInvalid id])
      | some h => (h.matches hits, [])
    if !pass then (.skip, out1)
    else match o.log with
      | some k => (.skip, out1 ++ [.log k])
      | none => (.stop, out1)

/-- first record of a list holding the address: returns the updated list (hit counted) and the record -/
def hitIn (a : Addr) : List Rec → Option (List Rec × Rec)
  | [] => none
  | r :: rs =>
    if a ∈ r.addrs then some ({ r with hits := r.hits + 1 } :: rs, { r with hits := r.hits + 1 })
    else match hitIn a rs with
      | some (rs', x) => some (r :: rs', x)
      | none => none

def hitInSrc (a : Addr) : List (Nat × List Rec) → Option (List (Nat × List Rec) × Rec)
  | [] => none
  | (k, v) :: rest =>
    match hitIn a v with
    | some (v', x) => some ((k, v') :: rest, x)
    | none => match hitInSrc a rest with
      | some (rest', x) => some ((k, v) :: rest', x)
      | none => none

structure Recs where
  src : List (Nat × List Rec)
  fn : List Rec
  insn : List Rec
deriving DecidableEq, Repr

/-- `record_breakpoint_hit`: sources, then function, then instruction records -/
def recordHit (rs : Recs) (a : Addr) : Option (Recs × Rec) :=
  match hitInSrc a rs.src with
  | some (src', x) => some ({ rs with src := src' }, x)
  | none => match hitIn a rs.fn with
    | some (fn', x) => some ({ rs with fn := fn' }, x)
    | none => match hitIn a rs.insn with
      | some (i', x) => some ({ rs with insn := i' }, x)
      | none => none

/-- `should_skip_breakpoint` at a stop reported for relocated pc `a` -/
def decide (rs : Recs) (a : Nat) (env : Nat) : Recs × Decision × List Outp :=
  match recordHit rs (.rel a) with
  | none => (rs, .stop, [])
  | some (rs', x) => let (d, o) := decideRec x.id x.opts x.hits env; (rs', d, o)

inductive Outcome where
  | stop (a : Nat) | entry (a : Option Nat) | exit | err
deriving DecidableEq, Repr

/-- `emit_stop_reason` over `continue_execution`: walk the rest of the execution; at every enabled breakpoint ask
`should_skip_breakpoint`. Returns records, outputs, number of events consumed, stop address (none = exit). -/
def runFiltered (en : List Nat) : Recs → List Ev → Recs × List Outp × Nat × Option Nat
  | rs, [] => (rs, [], 0, none)
  | rs, (a, env) :: rest =>
    if a ∈ en then
      match decide rs a env with
      | (rs', .stop, o) => (rs', o, 1, some a)
      | (rs', .skip, o) =>
        let (rs'', o', n, r) := runFiltered en rs' rest
        (rs'', o ++ o', n + 1, r)
    else
      let (rs', o, n, r) := runFiltered en rs rest
      (rs', o, n + 1, r)

/-- the first stop of `restart_debugee`: no filter, no hit counted -/
def runRaw (en : List Nat) : List Ev → Nat × Option Nat
  | [] => (0, none)
  | (a, _) :: rest => if a ∈ en then (1, some a) else let (n, r) := runRaw en rest; (n + 1, r)

def St.recs (s : St) : Recs := { src := s.src, fn := s.fn, insn := s.insn }
def St.withRecs (s : St) (r : Recs) : St := { s with src := r.src, fn := r.fn, insn := r.insn }

/-- run with filters from the current position; exit => `DebugeeExit`: breakpoints disabled, `exited`+`terminated` sent -/
def goFiltered (s : St) : St × List Outp × Outcome :=
  let (rs, o, n, r) := runFiltered s.reg.en s.recs (s.τ.drop s.pos)
  let s := (s.withRecs rs)
  match r with
  | some a => ({ s with pos := s.pos + n }, o, .stop a)
  | none => ({ s with pos := s.pos + n, phase := .exited, reg := s.reg.disableAll, latched := true }, o, .exit)

/-- `configurationDone` (and `restart` of a program that never ran) -/
def start (s : St) : St × List Outp × Outcome :=
  goFiltered { s with phase := .running, reg := s.reg.enableAll, pos := 0 }

def confDone (s : St) : St × List Outp × Outcome :=
  match s.phase with
  | .unloaded => start s
  | _ => (s, [], .err)

def cont (s : St) : St × List Outp × Outcome :=
  match s.phase with
  | .running => goFiltered s
  | _ => (s, [], .err)

/-- `restart`: a fresh process; the run up to the first enabled breakpoint is NOT filtered and is announced as `entry` -/
def restart (s : St) : St × List Outp × Outcome :=
  match s.phase with
  | .unloaded => start s
  | _ =>
    let reg := (if s.phase == .running then s.reg.disableAll else s.reg).enableAll
    let (n, r) := runRaw reg.en s.τ
    match r with
    | some a => ({ s with phase := .running, reg := reg, pos := n }, [], .entry (some a))
    | none => ({ s with phase := .exited, reg := reg.disableAll, pos := n }, [], .entry none)

/-! ## commands and histories -/

inductive Cmd where
  | setB (k : Nat) (bs : List BpReq)
  | setF (bs : List BpReq)
  | setI (bs : List InsnReq)
  | setD (bs : List DataReq)
  | confDone | cont | restart
deriving Repr, Inhabited

inductive Ans where
  | flags (l : List (Nat × Bool))
  | run (outs : List Outp) (o : Outcome)
deriving DecidableEq, Repr

def exec (s : St) : Cmd → St × Ans
  | .setB k bs => let (s', f) := setLines s k bs; (s', .flags f)
  | .setF bs => let (s', f) := setFns s bs; (s', .flags f)
  | .setI bs => let (s', f) := setInsns s bs; (s', .flags f)
  | .setD bs => let (s', f) := setData s bs; (s', .flags f)
  | .confDone => let (s', o, r) := confDone s; (s', .run o r)
  | .cont => let (s', o, r) := cont s; (s', .run o r)
  | .restart => let (s', o, r) := restart s; (s', .run o r)

def execAll (s : St) (h : List Cmd) : St := h.foldl (fun s c => (exec s c).1) s

def init (τ : List Ev) : St := { τ := τ }

end BsVerif.DapBp
