import BsVerif.Gen.Unwind
/-!
Model of the DWARF stack unwinder (C05): `src/debugger/debugee/dwarf/unwind.rs`
(`UnwindContext::new/next`, `return_address`, `DwarfUnwinder::unwind`, `restore_registers_at_frame`,
`return_address`), `evaluate_cfa`/`get_cfa` of `dwarf/mod.rs`, `Debugee::frame_info` and
`Debugger::set_frame_into_focus`.

Environment (not modelled, shipped by the harness from independent decoders): which CFI row gimli finds for a pc
(`.eh_frame`, then `.debug_frame`), which addresses belong to a registered object, the words of the stack.

Rust panics / errors are outcomes (`Fault`): the `?`-propagated `Err` of the code is `.err`, arithmetic overflow of
`RelocatedAddress::offset` (overflow checks on) and out-of-range `DwarfRegisterMap::update` are `.panic`, CFI rows
that need the DWARF expression evaluator are `.unsupported` (theorems exclude them; the harness does not ship them).
No Mathlib: this file is linked into `bsmodel`.
-/
namespace BsVerif.Unwind
open BsVerif.Gen.Unwind

inductive Fault where
  | err | panic | unsupported
  deriving DecidableEq, Repr

/-- `gimli::RegisterRule` -/
inductive Rule where
  | undefined
  | sameValue
  | offset (n : Int)
  | valOffset (n : Int)
  | register (r : Nat)
  | constant (v : Nat)
  | architectural
  | expr            -- Expression / ValExpression: needs the DWARF expression evaluator (environment)
  deriving DecidableEq, Repr

/-- `gimli::CfaRule` -/
inductive CfaRule where
  | regOff (r : Nat) (off : Int)
  | expr
  deriving DecidableEq, Repr

/-- an unwind table row together with the CIE's return address column -/
structure Row where
  cfa : CfaRule
  rules : List (Nat × Rule)
  ra : Nat
  deriving DecidableEq, Repr

/-- `DwarfRegisterMap`: DWARF register number ↦ value if any -/
abbrev Regs := Nat → Option Nat

def Regs.upd (r : Regs) (i v : Nat) : Regs := fun j => if j = i then some v else r j

/-- `DwarfRegisterMap::update_from` -/
def Regs.updateFrom (r other : Regs) : Regs := fun j => match other j with | some v => some v | none => r j

structure Env where
  /-- row for an absolute pc in `.eh_frame` (`fde_for_address` + `unwind_info_for_address`) -/
  cfiEh : Nat → Option Row
  /-- the same in `.debug_frame` -/
  cfiDf : Nat → Option Row
  /-- the address lies in the range of a registered object (`debug_info(pc)`, `into_global`) -/
  known : Nat → Bool
  /-- the 8-byte word at an address, if readable -/
  mem : Nat → Option Nat

/-- the row `UnwindContext::new` uses: `.eh_frame` first, `.debug_frame` when `.eh_frame` has none
(`get_cfa` has no `.debug_frame` fallback: it uses `cfiEh`) -/
def Env.cfi (env : Env) (pc : Nat) : Option Row :=
  match env.cfiEh pc with
  | some row => some row
  | none => env.cfiDf pc

def wordMod : Nat := 2 ^ 64

/-- `RelocatedAddress::offset` with overflow checks -/
def addrOffset (a : Nat) (off : Int) : Except Fault Nat :=
  if 0 ≤ off then
    if a + off.toNat < wordMod then .ok (a + off.toNat) else .error .panic
  else
    if off.natAbs ≤ a then .ok (a - off.natAbs) else .error .panic

/-- `DebugInformation::evaluate_cfa` -/
def evalCfa (regs : Regs) (row : Row) : Except Fault Nat :=
  match row.cfa with
  | .regOff r off =>
    match regs r with
    | none => .error .err
    | some v => addrOffset v off
  | .expr => .error .unsupported

/-- value a rule assigns (`None` = the register keeps its snapshot value) -/
def ruleValue (env : Env) (snap : Regs) (cfa : Nat) (reg : Nat) : Rule → Except Fault (Option Nat)
  | .undefined => .ok none
  | .sameValue => .ok (snap reg)
  | .offset n => do let a ← addrOffset cfa n; pure (env.mem a)
  | .valOffset n => do let a ← addrOffset cfa n; pure (some a)
  | .register r => .ok (snap r)
  | .constant v => .ok (some v)
  | .architectural => .ok none
  | .expr => .error .unsupported

/-- the `filter_map(..).for_each(update)` over the row's register rules -/
def applyRules (env : Env) (snap : Regs) (cfa : Nat) : List (Nat × Rule) → Regs → Except Fault Regs
  | [], next => .ok next
  | (reg, rule) :: rest, next =>
    match ruleValue env snap cfa reg rule with
    | .error f => .error f
    | .ok none => applyRules env snap cfa rest next
    | .ok (some v) =>
      if reg < regSlots then applyRules env snap cfa rest (next.upd reg v) else .error .panic

/-- the row gives the return-address column the rule `undefined` (`row.register(ra) == Some(RegisterRule::Undefined)`):
by DWARF convention the frame has no caller (`_start`, `clone`) -/
def Row.raUndefined (row : Row) : Bool := row.rules.lookup row.ra == some .undefined

/-- `UnwindContext` -/
structure Ctx where
  regs : Regs
  cfa : Nat
  ra : Nat
  /-- `UnwindContext::outermost` -/
  outermost : Bool
  pc : Nat

/-- `UnwindContext::new` -/
def ctxNew (env : Env) (regs : Regs) (pc : Nat) : Except Fault (Option Ctx) :=
  if !env.known pc then .error .err
  else match env.cfi pc with
    | none => .ok none
    | some row =>
      match evalCfa regs row with
      | .error f => .error f
      | .ok cfa =>
        match applyRules env regs cfa row.rules regs with
        | .error f => .error f
        | .ok next => .ok (some { regs := next, cfa := cfa, ra := row.ra, outermost := row.raUndefined, pc := pc })

/-- `UnwindContext::next` (`into_caller_registers`: the restored registers with `rsp` := CFA) -/
def ctxNext (env : Env) (prev : Ctx) (pc : Nat) : Except Fault (Option Ctx) :=
  ctxNew env (prev.regs.upd rspDwarf prev.cfa) pc

/-- `UnwindContext::return_address`: none in the outermost frame, else the value of the return-address column -/
def Ctx.retAddr (c : Ctx) : Option Nat := if c.outermost then none else c.regs c.ra

/-- the `while let Some(return_addr) = ucx.return_address()` loop of `DwarfUnwinder::unwind`;
`fuel` = `MAX_UNWIND_DEPTH - bt.len()` (the depth guard is the first statement of the loop body);
`visited` = `visited_frames`: the (ip, CFA) pairs of the frames listed so far -/
def unwindLoop (env : Env) : Nat → Ctx → List Nat → List (Nat × Nat) → Except Fault (List Nat)
  | 0, _, bt, _ => .ok bt                            -- no return address, or depth limit reached
  | fuel + 1, c, bt, visited =>
    match c.retAddr with
    | none => .ok bt
    | some ret =>
      if !env.known ret then .error .err             -- `return_addr.into_global(..)?`
      else match ctxNext env c ret with
        | .error f => .error f
        | .ok none => .ok bt                          -- no unwind information: the frame is NOT listed
        | .ok (some c') =>
          if visited.contains (ret, c'.cfa) then .ok bt   -- `!visited_frames.insert((return_addr, ucx.cfa))`: a real cycle
          else unwindLoop env fuel c' (bt ++ [ret]) ((ret, c'.cfa) :: visited)

/-- `DwarfUnwinder::unwind`: the instruction pointers of the backtrace, innermost first -/
def unwind (env : Env) (regs0 : Regs) (pc0 : Nat) : Except Fault (List Nat) :=
  match ctxNew env regs0 pc0 with
  | .error f => .error f
  | .ok none => .ok [pc0]
  | .ok (some c) => unwindLoop env (maxUnwindDepth - 1) c [pc0] [(pc0, c.cfa)]

/-- `UnwindContext::into_caller_registers`: the registers restored by the rules of this frame, `rsp` := its CFA -/
def Ctx.callerRegs (c : Ctx) : Regs := c.regs.upd rspDwarf c.cfa

/-- the `for _ in 1..frame_num` loop of `restore_registers_at_frame` -/
def restoreLoop (env : Env) : Nat → Ctx → Except Fault Ctx
  | 0, c => .ok c
  | k + 1, c =>
    match c.retAddr with
    | none => .error .err                           -- UnwindTooDeepFrame
    | some ret =>
      if !env.known ret then .error .err
      else match ctxNext env c ret with
        | .error f => .error f
        | .ok none => .error .err                   -- UnwindNoContext
        | .ok (some c') => restoreLoop env k c'

/-- `DwarfUnwinder::restore_registers_at_frame` applied to the current registers: the registers carried INTO frame k,
i.e. the caller registers of the unwind context of frame k-1 -/
def restoreRegs (env : Env) (regs0 : Regs) (pc0 : Nat) (k : Nat) : Except Fault Regs :=
  if k = 0 then .ok regs0
  else match ctxNew env regs0 pc0 with
    | .error f => .error f
    | .ok none => .error .err
    | .ok (some c) =>
      match restoreLoop env (k - 1) c with
      | .error f => .error f
      | .ok ck =>
        match ck.retAddr with
        | none => .error .err                       -- UnwindTooDeepFrame: frame k does not exist
        | some _ => .ok (regs0.updateFrom ck.callerRegs)

/-- `DwarfUnwinder::return_address` (what `finish` asks) -/
def returnAddress (env : Env) (regs0 : Regs) (pc0 : Nat) : Except Fault (Option Nat) :=
  match ctxNew env regs0 pc0 with
  | .error f => .error f
  | .ok none => .ok none
  | .ok (some c) => .ok c.retAddr

/-- `DebugInformation::get_cfa`: row of the SELECTED pc (`.eh_frame` only), evaluated on the registers restored for the
selected frame -/
def getCfa (env : Env) (regs0 : Regs) (pc0 selPc selNum : Nat) : Except Fault Nat :=
  match env.cfiEh selPc with
  | none => .error .err
  | some row =>
    match restoreRegs env regs0 pc0 selNum with
    | .error f => .error f
    | .ok r => evalCfa r row

structure FrameInfo where
  num : Nat
  cfa : Nat
  ret : Option Nat
  deriving DecidableEq, Repr

/-- `Debugee::frame_info` without its DWARF-expression part (function lookup and frame base are environment);
`selPc`, `selNum` = location and frame number of the exploration context -/
def frameInfo (env : Env) (regs0 : Regs) (pc0 selPc selNum : Nat) : Except Fault FrameInfo :=
  match getCfa env regs0 pc0 selPc selNum with
  | .error f => .error f
  | .ok cfa =>
    match unwind env regs0 pc0 with
    | .error f => .error f
    | .ok bt =>
      match bt[selNum]? with
      | none => .error .err                         -- FrameNotFound
      | some _ => .ok { num := selNum, cfa := cfa, ret := bt[selNum + 1]? }

/-- `Debugger::set_frame_into_focus`: the pc the exploration context gets -/
def setFrame (env : Env) (regs0 : Regs) (pc0 : Nat) (k : Nat) : Except Fault Nat :=
  match unwind env regs0 pc0 with
  | .error f => .error f
  | .ok bt => match bt[k]? with
    | none => .error .err                           -- FrameNotFound
    | some ip => .ok ip

end BsVerif.Unwind
