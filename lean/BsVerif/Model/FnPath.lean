import BsVerif.Model.PathIndex
/-!
Model of `NamespaceHierarchy::split_path` / `split_top_level` (src/debugger/debugee/dwarf/mod.rs): how a demangled
subroutine name — and a `break <template>` — is cut into path components.

The Rust code scans bytes; the model scans characters.  The bytes the scan looks at (`<`, `>`, `-` and the ASCII
delimiters `::` and ` as `) never occur inside a multi-byte UTF-8 sequence, so both scans cut at the same places.
-/
namespace BsVerif.FnPath

export BsVerif.PathIndex (isPrefixChars)

/-- `split_top_level(s, delimiter)` (non-empty delimiter).  State: `pd` = the previous byte is `-`, `depth` = angle
bracket nesting, `skip` = bytes of a matched delimiter still to be passed, `cur` = the part being collected (reversed). -/
def splitTopAux (delim : List Char) : List Char → Bool → Nat → Nat → List Char → List (List Char)
  | [], _, _, _, cur => [cur.reverse]
  | c :: cs, _, depth, skip + 1, cur => splitTopAux delim cs (c == '-') depth skip cur
  | c :: cs, pd, depth, 0, cur =>
    if c == '<' then splitTopAux delim cs false (depth + 1) 0 (c :: cur)
    else if c == '>' && pd then splitTopAux delim cs false depth 0 (c :: cur)
    else if c == '>' then splitTopAux delim cs false (depth - 1) 0 (c :: cur)
    else if depth == 0 && isPrefixChars delim (c :: cs) then
      cur.reverse :: splitTopAux delim cs (c == '-') 0 (delim.length - 1) []
    else splitTopAux delim cs (c == '-') depth 0 (c :: cur)

def splitTop (delim s : List Char) : List (List Char) := splitTopAux delim s false 0 0 []

def sepColons : List Char := [':', ':']
def sepAs : List Char := [' ', 'a', 's', ' ']
def implPrefix : List Char := ['<', 'i', 'm', 'p', 'l', ' ']

/-- `part.strip_prefix('<').and_then(|p| p.strip_suffix('>'))` -/
def stripBrackets : List Char → Option (List Char)
  | '<' :: r => if r.getLast? == some '>' then some r.dropLast else none
  | _ => none

/-- the loop of `split_path` over the top-level parts; `first` = the part is the first one -/
def normParts : Bool → List (List Char) → List (List Char)
  | _, [] => []
  | first, p :: ps =>
    (match stripBrackets p with
     | some ty =>
       if first && (splitTop sepAs ty).length == 1 then splitTop sepColons ty
       else if !first && !isPrefixChars implPrefix p then []
       else [p]
     | none => [p]) ++ normParts false ps

/-- `NamespaceHierarchy::split_path` -/
def splitPathChars (s : List Char) : List (List Char) := normParts true (splitTop sepColons s)

def splitPath (s : String) : List String := (splitPathChars s.toList).map String.ofList

/-- `NamespaceHierarchy::from_mangled` after demangling: (namespace parts, subroutine name).  `split_path` never returns
an empty list (the first top-level part is never dropped), so the `expect` of the Rust code cannot fire. -/
def fromDemangled (s : String) : List String × String :=
  let p := splitPath s
  (p.dropLast, p.getLastD "")

/-- `BsUnit::search_functions(template)`: the template is read like a demangled name and looked up by components
(`PathSearchIndex::get_by_parts`: no leading-delimiter rule). -/
def searchFunctions {α} (ix : BsVerif.PathIndex.Index α) (template : String) : List α :=
  let p := splitPath template
  match p.getLast? with
  | none => []
  | some h => ix.getComps p.dropLast h

end BsVerif.FnPath

