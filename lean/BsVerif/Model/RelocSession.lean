import BsVerif.Model.Reloc
/-!
Session-level model for C18: the debugger's registry of objects and breakpoints (Global / Relocated address identity,
uninit → init at the entry point, the `r_brk` breakpoint, deferred requests) running against an abstract debuggee
whose execution is a list of operations: `load o` / `unload o` (dlopen / dlclose, reference counted — the dynamic loader
reports each real mapping change with two hits of `r_brk`: before and after) and `visit o f` (the breakpoint place of
function `f` of object `o` is executed once).

The debuggee side is the specification of the environment (kernel + ld.so):
* an object is mapped where /proc/<pid>/maps says (the harness ships the table observed after each command);
  its real load bias is `lowest start − vaddr0` (`vaddr0` = page-aligned `p_vaddr` of the first PT_LOAD, from readelf);
* an `INT3` lives in the memory of a mapping instance: unmapping the object discards it, mapping it again gives fresh text;
* `PTRACE_PEEK/POKE` at an unmapped address fail (EIO).
The debugger side mirrors src/debugger/{mod.rs `continue_execution`, breakpoint.rs, debugee/mod.rs `trace_until_stop`}.

Core Lean only: linked into `bsmodel`.
-/
namespace BsVerif.RelocS
open BsVerif.Reloc

inductive Op where
  | load (o : Nat)
  | unload (o : Nat)
  | visit (o f : Nat)
deriving Repr, DecidableEq, Inhabited

inductive Status where
  | unload | inProgress | exited
deriving Repr, DecidableEq, Inhabited

/-- `Address` -/
inductive Addr where
  | glob (g : Nat)
  | rel (a : Nat)
deriving Repr, DecidableEq, Inhabited

inductive Kind where
  | user | entry | linker
deriving Repr, DecidableEq, Inhabited

/-- `UninitBreakpoint` -/
structure UBp where
  addr : Addr
  file : Option Nat
  kind : Kind
deriving Repr, DecidableEq, Inhabited

/-- `Breakpoint` -/
structure ABp where
  addr : Nat
  kind : Kind
  file : Option Nat
deriving Repr, DecidableEq, Inhabited

inductive Out where
  | ok | uninit | active | deferred | nosuit | err | skip
  | stop (a : Nat)
  | exit (c : Nat)
  | blind            -- the model was not told where the loader put an object it needs (generator bug, never expected)
deriving Repr, DecidableEq, Inhabited

structure ObjInfo where
  id : Nat
  vaddr0 : Nat
  parse : Bool
deriving Repr, DecidableEq, Inhabited

structure St where
  -- static facts
  objs : List ObjInfo := []
  fns : List (Nat × List (Nat × Nat)) := []      -- function ↦ (object, global address of its breakpoint place)
  entry : Nat := 0
  interp : Bool := true
  exitCode : Nat := 0
  rbrk : Option (Nat × Nat) := none
  vdso : Nat := 99
  ops : List Op := []
  -- debugger
  status : Status := .unload
  reg : Registry := { program := 0, files := [0] }
  uninit : List UBp := []
  active : List ABp := []
  deferred : List Nat := []
  -- debuggee and kernel
  pos : Nat := 0
  entered : Bool := false
  maps : List MapE := []
  patched : List Nat := []
  refc : List (Nat × Nat) := []
  staleExit : Bool := false
deriving Repr, Inhabited

def St.vaddr0 (s : St) (o : Nat) : Nat := ((s.objs.find? (fun i => i.id == o)).map (·.vaddr0)).getD 0
def St.parse (s : St) (o : Nat) : Bool := ((s.objs.find? (fun i => i.id == o)).map (·.parse)).getD false

/-- the real load bias of a mapped object -/
def St.bias (s : St) (o : Nat) : Option Nat := (minLo (mapsOf s.maps o)).map (fun lo => lo - s.vaddr0 o)

def St.mapped (s : St) (a : Nat) : Bool := s.maps.any (fun m => decide (m.lo ≤ a) && decide (a < m.hi))

def St.placesOf (s : St) (f : Nat) : List (Nat × Nat) := ((s.fns.find? (fun p => p.1 == f)).map (·.2)).getD []

def St.refOf (s : St) (o : Nat) : Nat := (s.refc.lookup o).getD 0
def St.setRef (s : St) (o n : Nat) : St := { s with refc := (o, n) :: s.refc.filter (fun p => p.1 != o) }

/-! ## breakpoint registry -/

/-- `Breakpoint::enable`: PEEK + POKE; fails when the address is not mapped -/
def St.enableAt (s : St) (a : Nat) : Option St :=
  if s.mapped a then some { s with patched := if s.patched.contains a then s.patched else s.patched ++ [a] } else none

/-- `Breakpoint::disable` -/
def St.disableAt (s : St) (a : Nat) : Option St :=
  if s.mapped a then some { s with patched := s.patched.filter (· != a) } else none

/-- `add_and_enable`: an existing entry at the address is disabled first -/
def St.addAndEnable (s : St) (b : ABp) : Option St :=
  let s1? := if s.active.any (·.addr == b.addr) then s.disableAt b.addr else some s
  match s1? with
  | none => none
  | some s1 =>
    match s1.enableAt b.addr with
    | none => none
    | some s2 => some { s2 with active := s2.active.filter (·.addr != b.addr) ++ [b] }

/-- `add_uninit`: a map keyed by `Address` (the object is NOT part of the key) -/
def St.addUninit (s : St) (u : UBp) : St := { s with uninit := s.uninit.filter (·.addr != u.addr) ++ [u] }

/-- places of function `f` in the registered objects (program first) -/
def St.resolve (s : St) (f : Nat) : List (Nat × Nat) :=
  let ps := (s.placesOf f).filter (fun p => s.reg.files.contains p.1)
  ps.filter (·.1 == s.reg.program) ++ ps.filter (·.1 != s.reg.program)

def addAll (s : St) : List ABp → Option St
  | [] => some s
  | b :: bs => match s.addAndEnable b with
    | none => none
    | some s1 => addAll s1 bs

/-- `set_breakpoint_at_fn` -/
def St.setFn (s : St) (f : Nat) : St × Out :=
  let ps := s.resolve f
  if ps.isEmpty then (s, .nosuit)
  else if s.status == .inProgress then
    match ps.mapM (fun p => (s.reg.relocate p.2 p.1).map (fun a => (a, p.1))) with
    | none => (s, .err)
    | some as =>
      -- breakpoints are added one by one; an error stops the loop, what was added stays
      let rec go (s : St) : List (Nat × Nat) → St × Out
        | [] => (s, .active)
        | (a, o) :: rest => match s.addAndEnable ⟨a, .user, some o⟩ with
          | none => (s, .err)
          | some s1 => go s1 rest
      go s as
  else
    (ps.foldl (fun s p => s.addUninit ⟨.glob p.2, some p.1, .user⟩) s, .uninit)

/-- `set_breakpoint_at_addr` for the runtime address `a` meant to be the place of `f` in `o` -/
def St.setAddr (s : St) (f o a : Nat) : St × Out :=
  -- not running: `add_uninit(UninitBreakpoint::new(None, Address::Relocated(addr), ..))`
  if s.status != .inProgress then (s.addUninit ⟨.rel a, none, .user⟩, .uninit) else
  match s.reg.objOfAddr a, s.reg.intoGlobal a with
  | some o', some g =>
    -- `find_place_from_pc`: there is a line-table place iff the global address really is the place of `f` in that object
    if o' == o && (s.placesOf f).contains (o, g) then
      match s.addAndEnable ⟨a, .user, some o'⟩ with
      | some s1 => (s1, .active)
      | none => (s, .err)
    else (s, .err)
  | _, _ => (s, .err)

/-- `UninitBreakpoint::try_into_brkpt` -/
def St.tryInto (s : St) (u : UBp) : Option ABp :=
  let ga? : Option (Nat × Option Nat) := match u.addr with
    | .rel a => (s.reg.intoGlobal a).map (fun g => (g, some a))
    | .glob g => some (g, none)
  match ga? with
  | none => none
  | some (g, rel?) =>
    let file? : Option Nat := match u.file with
      | none => if u.kind == .entry then some s.reg.program else rel?.bind s.reg.objOfAddr
      | some o => if s.reg.files.contains o then some o else none
    match file? with
    | none => none
    | some o => (s.reg.relocate g o).map (fun a => ⟨a, u.kind, some o⟩)

/-- `enable_all_breakpoints`: every uninit breakpoint is converted; failures are reported and the request is LOST -/
def St.enableAll (s : St) : St :=
  let us := s.uninit
  us.foldl (fun s u => match s.tryInto u with
    | none => s
    | some b => (s.addAndEnable b).getD s) { s with uninit := [] }

/-- `refresh_deferred` -/
def St.refreshDeferred (s : St) : St :=
  let ds := s.deferred
  ds.foldl (fun s f =>
    let (s1, o) := s.setFn f
    if o == .active then s1 else { s1 with deferred := s1.deferred ++ [f] }) { s with deferred := [] }

/-- the link map the loader publishes: every mapped object but the executable (listed under the empty name), plus the vdso -/
def St.linkMap (s : St) : List Nat :=
  ((s.maps.map (·.obj)).eraseDups.filter (· != s.reg.program)) ++ [s.vdso]

def St.linkerWatched (s : St) : Bool :=
  match s.rbrk with
  | none => false
  | some (ld, g) => match s.bias ld with
    | none => false
    | some b => s.patched.contains (b + g) && s.active.any (fun x => x.addr == b + g && x.kind == .linker)

/-- one hit of the `r_brk` breakpoint: `update_debug_info_registry` (in `trace_until_stop`), step over, `refresh_deferred` -/
def St.linkerHit (s : St) : St :=
  match s.rbrk with
  | none => s
  | some (ld, g) =>
    match s.bias ld with
    | none => s
    | some b =>
      if s.patched.contains (b + g) && s.active.any (fun x => x.addr == b + g && x.kind == .linker) then
        ({ s with reg := s.reg.onLoadEvent s.linkMap s.parse s.maps }).refreshDeferred
      else s

/-- `disable_all_breakpoints` when the process is gone: every breakpoint becomes an uninit one again, keyed by its global
address — unless the address no longer lies in a registered range (`into_global` fails and the function returns early:
which of the remaining breakpoints survive depends on hash-map order; the model then only flags `staleExit`) -/
def St.disableAllAtExit (s : St) : St :=
  if s.active.any (fun b => b.kind != .linker && (s.reg.intoGlobal b.addr).isNone) then
    { s with active := [], staleExit := true }
  else
    s.active.foldl (fun s b => match b.kind, s.reg.intoGlobal b.addr with
      | .linker, _ => s
      | k, some g => s.addUninit ⟨.glob g, b.file, k⟩
      | _, none => s) { s with active := [] }

/-- run the debuggee from `s.pos` until an INT3 is executed or the program ends. `newMaps` = where the loader puts what
gets loaded on the way (observed). Returns the state and the trap address (none = exit). -/
def runOps : St → List MapE → List Op → St × Option Nat × Bool
  | s, _, [] => (s, none, false)
  | s, nm, op :: rest =>
    let s := { s with pos := s.pos + 1 }
    match op with
    | .visit o f =>
      match s.bias o, (s.placesOf f).find? (·.1 == o) with
      | some b, some p =>
        if s.patched.contains (b + p.2) then (s, some (b + p.2), false) else runOps s nm rest
      | _, _ => runOps s nm rest
    | .load o =>
      let n := s.refOf o
      let s := s.setRef o (n + 1)
      if n == 0 then
        let add := mapsOf nm o
        if add.isEmpty then
          -- the harness could not observe where the object went (the process is gone): harmless unless the debugger watches
          -- the loader, in which case the model cannot go on
          if s.linkerWatched then (s, none, true) else runOps s nm rest
        else
          let s := s.linkerHit                                   -- RT_ADD: nothing has changed yet
          let s := { s with maps := s.maps ++ add }
          let s := s.linkerHit                                   -- RT_CONSISTENT
          runOps s nm rest
      else runOps s nm rest
    | .unload o =>
      let n := s.refOf o
      if n == 0 then runOps s nm rest
      else
        let s := s.setRef o (n - 1)
        if n == 1 then
          let s := s.linkerHit                                   -- RT_DELETE: still mapped
          let gone := mapsOf s.maps o
          let s := { s with maps := s.maps.filter (·.obj != o),
                            patched := s.patched.filter (fun a => !gone.any (fun m => decide (m.lo ≤ a) && decide (a < m.hi))) }
          let s := s.linkerHit                                   -- RT_CONSISTENT
          runOps s nm rest
        else runOps s nm rest

/-- the part of `continue_execution` after the debuggee has been resumed -/
def St.resume (s : St) (nm : List MapE) : St × Out :=
  -- entry point first
  let entryAddr? := (s.bias s.reg.program).map (· + s.entry)
  let hitEntry := !s.entered && (match entryAddr? with | some a => s.patched.contains a | none => false)
  -- when the program reaches its entry point everything linked at startup is mapped (what dlopen brings comes later)
  let s := if s.entered then s else { s with maps := nm.filter (fun m => !s.ops.any (fun op => op == .load m.obj)) }
  let s := { s with entered := true }
  if hitEntry then
    -- `trace_until_stop`, EntryPoint arm
    if !s.interp then (s, .err)                                   -- `Rendezvous::new` fails
    else
      let s := { s with reg := s.reg.onLoadEvent s.linkMap s.parse s.maps }
      let s := s.enableAll
      let s? : Option St := match s.rbrk with
        | none => some s
        | some (ld, g) => match s.bias ld with
          | some b => s.addAndEnable ⟨b + g, .linker, none⟩
          | none => none
      match s? with
      | none => (s, .err)
      | some s =>
        let (s, trap, blind) := runOps s nm (s.ops.drop s.pos)
        if blind then (s, .blind) else
        match trap with
        | some a => (s, .stop a)
        | none => ({ s.disableAllAtExit with status := .exited, maps := [], patched := [] }, .exit s.exitCode)
  else
    let (s, trap, blind) := runOps s nm (s.ops.drop s.pos)
    if blind then (s, .blind) else
    match trap with
    | some a => (s, .stop a)
    | none => ({ s.disableAllAtExit with status := .exited, maps := [], patched := [] }, .exit s.exitCode)

/-- `start_debugee_with_reason` -/
def St.start (s : St) (nm : List MapE) : St × Out :=
  if s.status != .unload then (s, .err)
  else
    -- DebugeeStart: the executable (and the loader) are mapped; `update_mappings(only_main)`, `enable_entry_breakpoint`
    let init := nm.filter (fun m => m.obj == s.reg.program || (match s.rbrk with | some (ld, _) => m.obj == ld | none => false))
    let s := { s with status := .inProgress, maps := init, reg := s.reg.updateMappings true init }
    match s.uninit.find? (·.kind == .entry) with
    | none => s.resume nm
    | some u =>
      let s := { s with uninit := s.uninit.filter (· != u) }
      match s.tryInto u with
      | none => (s, .err)
      | some b => match s.addAndEnable b with
        | none => (s, .err)
        | some s => s.resume nm

/-- `continue_debugee_with_reason` -/
def St.cont (s : St) (nm : List MapE) : St × Out :=
  if s.status != .inProgress then (s, .err) else s.resume nm

/-- `break <fn>`, deferring the request when nothing is found and `defer` is set -/
def St.request (s : St) (f : Nat) (defer : Bool) : St × Out :=
  let (s1, o) := s.setFn f
  if o == .nosuit && defer then ({ s1 with deferred := s1.deferred ++ [f] }, .deferred) else (s1, o)

end BsVerif.RelocS
