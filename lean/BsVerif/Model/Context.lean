import BsVerif.Model.StepOps
/-!
Model of the debugger's *exploration context* (`ExplorationContext`, "ecx": src/debugger/mod.rs) on top of the
breakpoint machine of `Model/Breakpoint.lean` / `Model/StepOps.lean` (C01/C02).

The ecx is the (thread, pc, frame number) the user is LOOKING at.  It is rewritten

* by the debugger whenever the thread stops: `ecx_switch_thread` at every breakpoint stop of the
  `continue_execution` loop, `ecx_update_location` after the single step of `step_over_breakpoint` and of
  `single_step_instruction` — both set (real pc of the thread, frame 0);
* by the user without running the program: `set_frame_into_focus(k)` (command `frame switch k`; the DAP
  scopes/variables/evaluate handlers do the same) sets (ip of frame k of the backtrace, k).

Commands that only read or rewrite the ecx (`frame k`, `backtrace`, reading the locals of the focused frame) are
*context-only*: they never touch the text, the registry or the position of the debuggee.  The other direction is
where a debugger can go wrong: every piece of code that *runs* the debuggee must work from the thread's REAL pc —
`step_over_breakpoint` asks the tracee (`tracee.pc()`), the step commands call `ecx_restore_frame` first and only
then may use `ecx.location()` (`single_step_instruction` does).  This file states those functions with the ecx in
scope, reading and writing it exactly where the code does; `Lemmas/Context.lean` proves that the machine component
of every run is the run of the ecx-free model (`exec`, `execS`), whatever context-only commands are interleaved.
-/
namespace BsVerif.Bp
open BsVerif.Mem

/-- `ExplorationContext { focus_location.pc, focus_frame }` (one thread; global addresses, relocation = identity) -/
structure Ecx where
  pc : Addr := 0
  frame : Nat := 0
deriving DecidableEq, Repr

/-- the `Debugger`: breakpoint machine + exploration context -/
structure CSt where
  m : St
  ecx : Ecx := {}

/-- `ecx_update_location` / `ecx_switch_thread(pid)` / `ecx_restore_frame`: (real pc of the thread, frame 0).
(When the debuggee is executing outside the executable the real pc is not a position of the trace; the model
records the next position.  That value is never observed: the loop of `continue_execution` overwrites it at the
next stop, and after the exit every command that would read it is refused.) -/
def ecxUpdate (c : CSt) : CSt := { c with ecx := { pc := (pc c.m).getD 0, frame := 0 } }

/-- disable → single step → enable of a breakpoint `b` (the body of `step_over_breakpoint`) -/
def stepOverWith (s : St) (b : Bp) : St :=
  let (s1, b1) := bpDisable s b
  let s2 := singleStep { s1 with active := put s1.active b1 }
  let (s3, b3) := bpEnable s2 b1
  { s3 with active := put s3.active b3 }

/-- `step_over_breakpoint`: the breakpoint is looked up at `tracee.pc()` — the thread's real pc, NOT `ecx.location().pc`
(which a `frame k` may have pointed at a caller's return address) — and the ecx is refreshed after the step -/
def stepOverBreakpointC (c : CSt) : CSt :=
  match pc c.m with
  | none => c
  | some p =>
    match find? c.m.active p with
    | none => c
    | some b => if b.enabled then ecxUpdate { c with m := stepOverWith c.m b } else c

/-- the loop of `continue_execution`; `StopReason::Breakpoint(pid, pc)` ⇒ `ecx_switch_thread(pid)` -/
def traceLoopC : Nat → CSt → CSt × Out
  | 0, c => (c, .outOfFuel)
  | fuel + 1, c =>
    let m1 := run c.m
    match pc m1 with
    | none => ({ c with m := onExit m1 }, .exit m1.exitCode)       -- the ecx is left as it was
    | some p =>
      let c1 : CSt := { m := m1, ecx := { pc := p, frame := 0 } }
      match find? m1.active p with
      | none => (c1, .corrupt)
      | some b =>
        match b.kind with
        | .user => (c1, .stop p)
        | .temp => (c1, .stop p)
        | .entry => traceLoopC fuel (stepOverBreakpointC { c1 with m := enableAll m1 })

/-- the same loop with the tracer's rule for temporaries (`traceLoopT`) -/
def traceLoopTC : Nat → CSt → CSt × Out
  | 0, c => (c, .outOfFuel)
  | fuel + 1, c =>
    let m1 := run c.m
    match pc m1 with
    | none => ({ c with m := onExit m1 }, .exit m1.exitCode)
    | some p =>
      match find? m1.active p with
      | none => ({ m := m1, ecx := { pc := p, frame := 0 } }, .corrupt)
      | some b =>
        if hasTemp m1.active && b.kind != Kind.temp then
          -- handled inside the tracer: the debugger (and its ecx) never sees this stop
          traceLoopTC fuel { c with m := silentStepOver m1 b }
        else
          let c1 : CSt := { m := m1, ecx := { pc := p, frame := 0 } }
          match b.kind with
          | .user => (c1, .stop p)
          | .temp => (c1, .stop p)
          | .entry => traceLoopTC fuel (stepOverBreakpointC { c1 with m := enableAll m1 })

def continueExecC (c : CSt) : CSt × Out := traceLoopTC (fuelFor c.m) (stepOverBreakpointC c)

/-- `single_step_instruction`: decides from `ecx.location().pc` whether the thread sits on a breakpoint — sound
only because every caller has just refreshed the ecx (`ecx_restore_frame` in `stepi`/`step_into`/`step_over`/
`step_out`, `ecx_update_location` after each previous step) -/
def singleStepInstructionC (c : CSt) : CSt :=
  if (find? c.m.active c.ecx.pc).isSome then stepOverBreakpointC c
  else ecxUpdate { c with m := singleStep c.m }

def stepNC : Nat → CSt → CSt
  | 0, c => c
  | k + 1, c => stepNC k (singleStepInstructionC c)

/-- `step_over_any` / `step_out_frame`: temporaries, continue, remove them, `k` single steps, `ecx_update_location` -/
def tempRunC (c : CSt) (temps : List Addr) (k : Nat) : CSt × Out :=
  let m1 := temps.foldl (fun acc a => addAndEnable acc { addr := a, kind := .temp }) c.m
  let (c2, o) := continueExecC { c with m := m1 }
  let m3 := temps.foldl (fun acc a => (removeByAddr acc { global := false, addr := a }).1) c2.m
  match o with
  | .stop _ => (ecxUpdate (stepNC k { c2 with m := m3 }), o)
  | _ => ({ c2 with m := m3 }, o)

/-! ### commands -/

/-- commands that change or read the exploration context without running the program -/
inductive CtxOp
  /-- `set_frame_into_focus(k)`; `ip` = the instruction pointer the unwinder reports for frame `k`
  (`none`: the backtrace has no frame `k`, `FrameNotFound`).  The theorems hold for EVERY `ip`. -/
  | frame (k : Nat) (ip : Option Addr)
  /-- `backtrace` / reading the local variables of the focused frame.  Whether the unwinder / the DWARF evaluation
  succeeds at the focused pc (`ok`) is not this model's subject (C05, C06, C19): it is an input, the theorems hold for
  both values. -/
  | backtrace (ok : Bool)
  | locals (ok : Bool)
deriving DecidableEq, Repr

inductive COp
  | base (op : Op)
  | ctx (x : CtxOp)
deriving DecidableEq, Repr

inductive COut
  | base (o : Out)
  | ctx (e : Option Ecx)      -- the exploration context after a context-only command; `none`: the command was refused
deriving DecidableEq, Repr

/-- a context-only command (`none` = refused); all of them are refused unless the debuggee is running
(`disable_when_not_stared!`) -/
def execCtx (c : CSt) (x : CtxOp) : CSt × Option Ecx :=
  let c : CSt := { c with m := { c.m with pokes := [] } }
  match c.m.status with
  | .inProgress =>
    match x with
    | .frame k (some ip) => ({ c with ecx := { pc := ip, frame := k } }, some { pc := ip, frame := k })
    | .frame _ none => (c, none)
    | .backtrace true => (c, some c.ecx)
    | .locals true => (c, some c.ecx)
    | .backtrace false => (c, none)
    | .locals false => (c, none)
  | _ => (c, none)

/-- `break`, `remove`, `start`, `continue` of C01 on the debugger with its exploration context -/
def execBaseC (c : CSt) (op : Op) : CSt × Out :=
  let m0 : St := { c.m with pokes := [] }
  match op with
  | .brk _ => let (m', o) := exec c.m op; ({ c with m := m' }, o)
  | .remove _ => let (m', o) := exec c.m op; ({ c with m := m' }, o)
  | .start =>
    match m0.status with
    | .unload => traceLoopC (fuelFor m0) { c with m := enableEntry { m0 with status := .inProgress } }
    | _ => ({ c with m := m0 }, .err)
  | .cont =>
    match m0.status with
    | .inProgress => traceLoopC (fuelFor m0) (stepOverBreakpointC { c with m := m0 })
    | _ => ({ c with m := m0 }, .err)

/-- C01's alphabet with context-only commands -/
def execC (c : CSt) : COp → CSt × COut
  | .ctx x => let (c', e) := execCtx c x; (c', .ctx e)
  | .base op => let (c', o) := execBaseC c op; (c', .base o)

def initC (τ : List Addr) (entry : Addr) (orig : Code) (exitCode : Nat) : CSt := { m := init τ entry orig exitCode }

def execAllC (c : CSt) : List COp → CSt × List COut
  | [] => (c, [])
  | op :: ops =>
    let (c1, o) := execC c op
    let (c2, os) := execAllC c1 ops
    (c2, o :: os)

/-- the history without its context-only commands -/
def eraseCtx : List COp → List Op
  | [] => []
  | .base op :: ops => op :: eraseCtx ops
  | .ctx _ :: ops => eraseCtx ops

/-- the answers to the commands that are not context-only -/
def baseOuts : List COut → List Out
  | [] => []
  | .base o :: os => o :: baseOuts os
  | .ctx _ :: os => baseOuts os

/-! ### C02's alphabet (step commands) with context-only commands -/

inductive CSOp
  | base (op : SOp)
  | ctx (x : CtxOp)
deriving Repr

inductive CSOut
  | base (o : SOut)
  | ctx (e : Option Ecx)
deriving Repr

/-- the step commands of C02 on the debugger with its exploration context -/
def execSBaseC (c : CSt) (op : SOp) : CSt × SOut :=
  let c0 : CSt := { c with m := { c.m with pokes := [] } }
  match op with
  | .base .cont =>
    match c0.m.status with
    | .inProgress => let (c', o) := continueExecC c0; (c', .base o)
    | _ => (c0, .base .err)
  | .base op => let (c', o) := execBaseC c op; (c', .base o)
  | .stepn k =>
    match c0.m.status with
    -- `stepi` / `step_into`: `ecx_restore_frame()` first
    | .inProgress => let c' := stepNC k (ecxUpdate c0); (c', .done (pc c'.m))
    | _ => (c0, .base .err)
  | .tempRun temps k =>
    match c0.m.status with
    -- `step_over` / `step_out`: `ecx_restore_frame()` first
    | .inProgress =>
      let (c', o) := tempRunC (ecxUpdate c0) temps k
      match o with
      | .stop _ => (c', .done (pc c'.m))
      | o => (c', .base o)
    | _ => (c0, .base .err)

def execSC (c : CSt) : CSOp → CSt × CSOut
  | .ctx x => let (c', e) := execCtx c x; (c', .ctx e)
  | .base op => let (c', o) := execSBaseC c op; (c', .base o)

def execAllSC (c : CSt) : List CSOp → CSt × List CSOut
  | [] => (c, [])
  | op :: ops =>
    let (c1, o) := execSC c op
    let (c2, os) := execAllSC c1 ops
    (c2, o :: os)

def execAllS (s : St) : List SOp → St × List SOut
  | [] => (s, [])
  | op :: ops =>
    let (s1, o) := execS s op
    let (s2, os) := execAllS s1 ops
    (s2, o :: os)

def eraseCtxS : List CSOp → List SOp
  | [] => []
  | .base op :: ops => op :: eraseCtxS ops
  | .ctx _ :: ops => eraseCtxS ops

def baseOutsS : List CSOut → List SOut
  | [] => []
  | .base o :: os => o :: baseOutsS os
  | .ctx _ :: os => baseOutsS os

end BsVerif.Bp
